"""
C19 — content-stream objects give history-independent answers.

Correspondence: the Lean model `Torf.Handles.run` (open-file table with offsets, abandonable
`iter_pieces` generator, `get_piece`, `get_piece_hash`, `verify_piece`, `close`, context exit) is
run on the same operation history as one real `TorrentFileStream` object.  After EACH operation
the result (piece bytes / digest / bool / None / error kind) and the number of file descriptors of
the process that point into the content tree are compared with the model's answer, the
specification's answer (= the answer of a fresh object = chunks / slice of the concatenated
stream) and the size of the model's handle table.

Independently of the model, the specification of C19 is checked on the implementation itself:
after the history every operation is repeated on a FRESH TorrentFileStream object (same torrent
state, same disk) and the answer of the used object must be the same.  That comparison also runs on
damaged disks (per-file state ok | missing | size +-1, outside the hypothesis of `C19_independent`,
whose model assumes intact content) and over histories that replace the torrent's stored piece
hashes between operations (`setHashes`; in the model the stored hashes are an argument of the
operation, theorem `C19_history_hashes`).  On damaged disks sequential iterations are additionally
compared with `Handles.iterDamaged true` (= C10's `Missing.iterItems`).

Round 3: histories in which the DISK changes between two operations on the same object (`dyn` cases):
a listed file is truncated / extended / rewritten in place, atomically replaced by a new file of the
same or another size (rename, unlink + re-create, symlink to a new file), removed (or swapped for a
dangling symlink) or swapped for a directory.  Model: `Torf.HandlesDisk` (inode store, directory, table of
(file, inode) handles).  Judged after EVERY operation: (a) a fresh object on the torrent and the disk as
they are now answers `specOut` (C19_disk_fresh); (b) when the object holds no stale handle (a handle on
an inode its path no longer names) of a file the operation reads, its answer must be the specification's
= the fresh object's (C19_disk_independent, C19_history_disk); (c) otherwise its answer must be the
model's (the old inode is read through the cached handle: operating-system semantics); (d) the number of
open content descriptors.
"""
import glob
import hashlib
import itertools
import json
import os

from harness import common
from harness.gen import layouts
from harness.impl import content


def _inplace_change_before(case, step):
    """the history changes the CONTENT of a listed file in place before `step`"""
    return any(o[0] == 'disk' and o[1] in ('rewrite', 'extend', 'truncate') for o in case['ops'][:step])


def _d19b(case, observed, finding):
    """D19b: the deviation disappears when the cached handles have no user-space read-ahead buffer
    (`open(path, 'rb', buffering=0)`), the history rewrote a file in place while the object held a
    handle of it, and the deviating answer is a reading operation's"""
    return bool(isinstance(observed, dict) and case.get('dyn')
                and observed.get('unbuffered_twin') == 'meets-the-expectation'
                and observed.get('inplace_change_while_open')
                and isinstance(observed.get('step'), int)
                and _inplace_change_before(case, observed['step'])
                and observed.get('op', [None])[0] in READ_OPS)


def _d19e(case, observed, finding):
    """D19e: an indexed read tripped get_piece()'s length assertion, and the model derives exactly that from its table
    and disk: the object holds a STALE handle (the row is not clean) — an earlier step replaced or removed the file —
    on an inode of another size than the path's file / the recorded size"""
    return bool(isinstance(observed, dict) and case.get('dyn')
                and observed.get('observed') == ['err', 'AssertionError']
                and observed.get('model_answer') == ['err', 'AssertionError']
                and observed.get('stale_handle_read')
                and observed.get('op', [None])[0] in ('getPiece', 'getPieceHash', 'verifyPiece')
                and isinstance(observed.get('step'), int)
                and any(o[0] == 'disk' and o[1] in ('replace', 'unlink', 'mkdir') for o in case['ops'][:observed['step']]))


def _d19f(case, observed, finding):
    """D19f: a kept iterator was resumed after another operation on the same stream object had moved or closed the file
    handle it is suspended on (the model's `undisturbed` is false for that iterator), and the deviating answer is exactly
    the one the model derives from the shared handle (shifted / missing pieces, or ValueError for a closed file)"""
    return bool(isinstance(observed, dict) and case.get('live')
                and observed.get('op', [None])[0] == 'iterNext'
                and observed.get('undisturbed') is False
                and observed.get('observed') is not None
                and observed.get('observed') == observed.get('model_answer'))


MATCHERS = {'stale_read_ahead_after_inplace_rewrite': _d19b,
            'resumed_iterator_shares_its_file_handle': _d19f,
            'assertion_error_from_stale_handle_of_other_size': _d19e}

DOCUMENTED = ('ValueError', 'ReadError', 'VerifyFileSizeError')

RULE = ('case = (piece length, file sizes >= 1, handle cap, wrong stored hashes, history of '
        'operations on ONE TorrentFileStream object); operations: iterFull, iterAbandon k '
        '(k in 0..pieces+1), getPiece/getPieceHash/verifyPiece i (i in -1..pieces and beyond), '
        'close, with-block exit, setHashes (flip digest i | digests for another piece length | '
        'truncate | remove | restore); optional per-file disk state ok|missing|size-1|size+1; '
        'every history ends with an extra close.  Exhaustive: all histories '
        'of length <= 2 over the full alphabet and length 3 over a reduced alphabet on fixed small '
        'layouts (3 files; 14 files > cap+1; cap 1); random: longer histories on random layouts of '
        '1..5 and 12..16 files (a third of them on damaged disks); exhaustive pairs over a reduced '
        'alphabet on two 3/5-file layouts under every single-file damage; all verifyPiece i; '
        'setHashes x; verifyPiece j triples on one layout.  non-trivial = the history contains a reading operation that '
        'actually opens/reads files and follows another such operation on the same object with no '
        'close in between; distinct = distinct (L, sizes, cap, wrong, history).  dyn cases: the history also '
        'contains disk changes [disk, kind, file, n, via]: truncate n | extend +n | rewrite n (in place), '
        'replace n (new inode: rename | unlink+create | symlink), unlink (unlink | dangling symlink), '
        'mkdir; exhaustive A; X; B (A, B reduced read alphabet, X every change of every file) on two '
        'layouts, random longer histories with ~35 % disk changes (a quarter on initially damaged disks); '
        'non-trivial there = a reading operation follows a disk change that follows a reading operation, '
        'no close in between.  live cases: kept iterators as operands — iterStart | iterNext s k | iterDrop s (up to 3 alive) next to '
        'all other operations; exhaustive iterStart; iterNext 0 a; X; [Y;] iterNext 0 b on three layouts, random histories; every '
        'history ends with close() while the iterators still exist, then drops them; non-trivial there = a kept iterator is '
        'advanced after something else was done with the object since its last advance')

READ_OPS = ('iterFull', 'iterAbandon', 'getPiece', 'getPieceHash', 'verifyPiece')


# ------------------------------------------------------------------------------------------
# real-code side (worker processes)

def _nfd(top):
    """number of descriptors of this process that point into the content tree(s) `top` (a path or a tuple of paths)"""
    tops = (top,) if isinstance(top, str) else tuple(top)
    pres = tuple(t + os.sep for t in tops)
    n = 0
    for e in os.listdir('/proc/self/fd'):
        try:
            tgt = os.readlink('/proc/self/fd/' + e)
        except OSError:
            continue
        if tgt in tops or tgt.startswith(pres):
            n += 1
    return n


def _kind(e):
    return type(e).__name__


def _exc_key(e, index_of):
    """exception attached to an item -> [file index, kind] (as in the C10 check)"""
    n = type(e).__name__
    p = None
    if n == 'ReadError':
        p = getattr(e, 'path', None)
    elif n == 'VerifyFileSizeError':
        p = getattr(e, 'filepath', None)
    return [index_of.get(str(p), -1) if p is not None else -1, n]


_ROOT = [None]      # dyn cases: the directory every path reported by iter_pieces() must lie in (effective content path)


def _item(p, exc, index_of, fp=None):
    es = sorted(_exc_key(x, index_of) for x in exc)
    if _ROOT[0] is not None and fp is not None and not str(fp).startswith(_ROOT[0] + os.sep):
        es.append([-2, 'path-outside-the-content-path'])
    return [p, es]


_PEAK = [0]
_LAST_EXC = [None]


def _counting_open(top):
    """`open` for torf._stream: "at most cap + 1 files open at any time" is observed at the only moments the
    number can grow — right after each successful open(), before the caller gets the handle"""
    import builtins

    def _open(*a, **k):
        fh = builtins.open(*a, **k)
        n = _nfd(top)
        if n > _PEAK[0]:
            _PEAK[0] = n
        return fh
    return _open


def _do_op(tfs, op, top, index_of, cp=None):
    """perform one operation; returns (result, max number of content fds seen while it ran)"""
    res, peak = _do_op1(tfs, op, top, index_of, cp)
    return res, max(peak, _PEAK[0])


def _do_op1(tfs, op, top, index_of, cp=None):
    name, a = op[0], (op[1] if len(op) > 1 and not isinstance(op[1], dict) else None)
    kw = {} if cp is None else {'content_path': cp}
    peak = 0
    _PEAK[0] = 0
    try:
        if name == 'iterFull':
            got = []
            for (p, fp, exc) in tfs.iter_pieces(**kw):
                got.append(_item(p, exc, index_of, fp))
                peak = max(peak, _nfd(top))
            res = ('pieces', got)
        elif name == 'iterAbandon':
            it = tfs.iter_pieces(**kw)
            got = []
            try:
                for _ in range(a):
                    (p, fp, exc) = next(it)
                    got.append(_item(p, exc, index_of, fp))
                    peak = max(peak, _nfd(top))
            except StopIteration:
                pass
            it.close()
            del it
            res = ('pieces', got)
        elif name == 'getPiece':
            res = ('piece', tfs.get_piece(a, **kw))
        elif name == 'getPieceHash':
            res = ('digest', tfs.get_piece_hash(a, **kw))
        elif name == 'verifyPiece':
            res = ('bool', tfs.verify_piece(a, **kw))
        elif name == 'close':
            res = ('none', tfs.close())
        elif name == 'ctxExit':
            with tfs as x:
                assert x is tfs
            res = ('none', None)
        else:
            raise RuntimeError(f'unknown op {name}')
    except Exception as e:  # noqa  (error KIND is the observable)
        res = ('err', _kind(e))
        _LAST_EXC[0] = e
    return res, peak


# ---- the torrent's stored piece hashes, symbolically: [flag, a, b] = sha1(stream[a:b]), bitwise
# ---- complemented when flag = 1; None = no 'pieces' key at all

def sym_orig(L, T, wrong=()):
    return [[1 if i in wrong else 0, i * L, min((i + 1) * L, T)] for i in range((T + L - 1) // L)]


def sym_apply(sym, op, L, T, wrong):
    """state of the stored hashes after the history step ['setHashes', kind, arg?]"""
    kind = op[1]
    a = op[2] if len(op) > 2 else None
    if kind == 'orig':
        return sym_orig(L, T, wrong)
    if kind == 'relen':
        return sym_orig(max(1, a), T)
    if kind == 'remove' or sym is None:
        return None
    cur = [list(x) for x in sym]
    if kind == 'flip':
        if 0 <= a < len(cur):
            cur[a][0] ^= 1
        return cur
    if kind == 'trunc':
        return cur[:max(0, a)]
    raise RuntimeError(f'unknown setHashes kind {kind}')


def sym_states(c):
    """stored-hash state in force at each step of the history (after a setHashes step: the new one)"""
    T = sum(c['sizes'])
    sym = sym_orig(c['L'], T, c['wrong'])
    out = []
    for op in c['ops']:
        if op[0] == 'setHashes':
            sym = sym_apply(sym, op, c['L'], T, c['wrong'])
        out.append(sym)
    return out


def sym_bytes(sym, stream):
    if sym is None:
        return None
    out = []
    for f, a, b in sym:
        d = hashlib.sha1(stream[a:b]).digest()
        out.append(bytes(x ^ 0xFF for x in d) if f else d)
    return b''.join(out)


def _store(t, sym, stream):
    b = sym_bytes(sym, stream)
    if b is None:
        t.metainfo['info'].pop('pieces', None)
    else:
        t.metainfo['info']['pieces'] = b
    return b


def disk_of(c):
    return list(c.get('disk') or ['ok'] * len(c['sizes']))


def damaged(c):
    return any(d != 'ok' for d in disk_of(c))


def _make_tree(wd, name, files, c):
    """content tree in the disk state of the case; returns the GOOD contents (what the torrent records)"""
    single = c.get('single', False)
    contents = content.make_tree(wd, name, files, seed=c['cseed'], single=single)
    top = os.path.join(wd, name)
    for i, (f, st) in enumerate(zip(files, disk_of(c))):
        if st == 'ok':
            continue
        assert not single
        p = os.path.join(top, *f['path'])
        if st == 'missing':
            os.unlink(p)
        else:
            n = int(st)
            data = (contents[i] + content.file_bytes(c['cseed'] + 1, i, max(0, n - len(contents[i]))))[:n]
            with open(p, 'wb') as fh:
                fh.write(data)
    return contents


def _run_chunk(cases):
    torf = common.import_torf()
    from torf import _stream
    wd = common.worker_dir()
    out = []
    last_key, contents = None, None
    fresh_cache = {}
    name = 'T'
    top = os.path.join(wd, name)
    _stream.open = _counting_open(top)
    for c in cases:
        L, sizes = c['L'], c['sizes']
        single = c.get('single', False)
        files = [{'path': p, 'size': s} for p, s in zip(c['paths'], sizes)]
        key = (L, tuple(sizes), json.dumps(c['paths']), c['cseed'], single, tuple(map(str, disk_of(c))))
        obs = {'rows': []}
        try:
            if key != last_key:
                last_key = None
                contents = _make_tree(wd, name, files, c)
                last_key = key
                fresh_cache = {}
            index_of = ({top: 0} if single else
                        {os.path.join(top, *f['path']): i for i, f in enumerate(files)})
            stream = b''.join(contents)
            T = len(stream)
            t = content.make_torrent(torf, wd, name, files, L, single=single)
            sym = sym_orig(L, T, c['wrong'])
            _store(t, sym, stream)
            base = _nfd(top)
            tfs = _stream.TorrentFileStream(t)
            if c['cap'] != 10:
                tfs.max_open_files = c['cap']
            obs['cap_seen'] = tfs.max_open_files
            for op in c['ops']:
                if op[0] == 'setHashes':
                    sym = sym_apply(sym, op, L, T, c['wrong'])
                    _store(t, sym, stream)
                    res, peak = ('none', None), base
                else:
                    res, peak = _do_op(tfs, op, top, index_of)
                obs['rows'].append({'res': res, 'nfd': _nfd(top) - base, 'peak': peak - base})
            tfs.close()
            del tfs
            # the specification of C19 on the implementation itself: every operation once more, on a
            # FRESH object, with the stored hashes that were in force at that step
            sym = sym_orig(L, T, c['wrong'])
            cur = _store(t, sym, stream)
            for row, op in zip(obs['rows'], c['ops']):
                if op[0] == 'setHashes':
                    sym = sym_apply(sym, op, L, T, c['wrong'])
                    cur = _store(t, sym, stream)
                    continue
                if op[0] in ('close', 'ctxExit'):
                    continue
                ck = (c['cap'], json.dumps(op), cur)
                if ck not in fresh_cache:
                    f = _stream.TorrentFileStream(t)
                    if c['cap'] != 10:
                        f.max_open_files = c['cap']
                    fresh_cache[ck] = _do_op(f, op, top, index_of)[0]
                    f.close()
                    del f
                ref = fresh_cache[ck]
                row['fresh'] = None if ref == row['res'] else ref     # None: same as the used object
        except BaseException as e:  # noqa
            obs['exc'] = f'{type(e).__name__}: {e}'
        out.append((c, obs, contents))
    return out


# ------------------------------------------------------------------------------------------
# histories with disk changes (`dyn` cases): real-code side

_GEN = 256      # every generated content is cut from a block of this many bytes (random.randbytes is not prefix-stable)


def dyn_roots(c):
    return c.get('roots', 1)


def dyn_content(c, cid, n):
    """bytes of content number `cid` (see Driver.C19.D.history): j = recorded content of file j, nfiles + q = filler /
    corrupt content of path q = root * nfiles + j at the start, nfiles + roots*nfiles + pos = content created by
    history step `pos`"""
    nf = len(c['sizes'])
    if cid < nf:
        return content.file_bytes(c['cseed'], cid, c['sizes'][cid])[:n]
    assert n <= _GEN
    if cid < nf + dyn_roots(c) * nf:
        return content.file_bytes(c['cseed'] + 1, cid - nf, _GEN)[:n]
    return content.file_bytes(c['cseed'] + 2, cid, _GEN)[:n]


def op_dec(op):
    """decoration of a reading operation: {'cp': root, 'fault': [file, 'read' | 'seek']}"""
    return op[-1] if isinstance(op[-1], dict) else {}


def op_plain(op):
    return op[:-1] if isinstance(op[-1], dict) else op


def eff_root(c, op):
    """the root `_get_content_path` chooses: argument > constructor argument > Torrent.path (root 0)"""
    cp = op_dec(op).get('cp')
    if cp is not None:
        return cp
    return c.get('ctor') if c.get('ctor') is not None else 0


class DynContents:
    """cid -> bytes, long enough for every run the model can mention"""

    def __init__(self, c):
        self.c = c
        self.cache = {}

    def __getitem__(self, cid):
        if cid not in self.cache:
            self.cache[cid] = dyn_content(self.c, cid, _GEN)
        return self.cache[cid]


def _rm_path(p):
    if os.path.islink(p) or os.path.isfile(p):
        os.unlink(p)
    elif os.path.isdir(p):
        os.rmdir(p)


def _apply_disk(c, top, paths, pos, op):
    """perform the disk change `op` = ['disk', kind, j, n?, via?] (history step number `pos`)"""
    kind, j = op[1], op[2]                  # j = path number: root * nfiles + listed file
    n = op[3] if len(op) > 3 and op[3] is not None else 0
    via = op[4] if len(op) > 4 else None
    p = paths[j]
    cid = len(c['sizes']) * (1 + dyn_roots(c)) + pos
    if kind in ('truncate', 'extend', 'rewrite'):
        if not os.path.isfile(p):          # ENOENT / EISDIR: nothing happens (so says the model)
            return
        if kind == 'truncate':
            os.truncate(p, min(n, os.path.getsize(p)))
        elif kind == 'extend':
            with open(p, 'ab') as fh:
                fh.write(dyn_content(c, cid, n))
        else:
            with open(p, 'r+b') as fh:
                fh.write(dyn_content(c, cid, n))
                fh.truncate()
    elif kind == 'replace':
        aux_dir = os.path.join(top, '.aux')
        os.makedirs(aux_dir, exist_ok=True)
        aux = os.path.join(aux_dir, f'c{cid}')
        with open(aux, 'wb') as fh:
            fh.write(dyn_content(c, cid, n))
        if via == 'symlink':
            _rm_path(p)
            os.symlink(aux, p)
        elif via == 'recreate':
            _rm_path(p)
            with open(p, 'xb') as fh:
                fh.write(dyn_content(c, cid, n))
            os.unlink(aux)
        else:
            if os.path.isdir(p) and not os.path.islink(p):
                os.rmdir(p)
            os.replace(aux, p)
    elif kind == 'unlink':
        _rm_path(p)
        if via == 'dangling':
            os.symlink(os.path.join(top, '.aux', 'no-such-file'), p)
    elif kind == 'mkdir':
        _rm_path(p)
        os.mkdir(p)
    else:
        raise RuntimeError(f'unknown disk change {kind}')


_ARMED = {}


class _FH:
    """file object handed to torf._stream: the real one, except that an armed transient fault makes the next
    read() / seek() on the armed path raise OSError(EIO) once"""
    __slots__ = ('_f', '_p')

    def __init__(self, f, p):
        self._f = f
        self._p = p

    def _fault(self, kind):
        if _ARMED and _ARMED.get('path') == self._p and _ARMED.get('kind') == kind and not _ARMED.get('fired') \
                and not _ARMED.get('paused'):
            _ARMED['fired'] = True
            import errno
            raise OSError(errno.EIO, 'injected transient I/O error', self._p)

    def read(self, *a):
        self._fault('read')
        return self._f.read(*a)

    def seek(self, *a):
        self._fault('seek')
        return self._f.seek(*a)

    def __getattr__(self, n):
        return getattr(self._f, n)

    def __bool__(self):
        return True


def _dyn_open(tops, unbuffered):
    import builtins

    def _open(*a, **k):
        if unbuffered and len(a) < 3 and 'buffering' not in k:
            k['buffering'] = 0
        fh = builtins.open(*a, **k)
        n = _nfd(tops)
        if n > _PEAK[0]:
            _PEAK[0] = n
        return _FH(fh, str(a[0]))
    return _open


def root_names(c):
    return ['T'] + [f'T{r}' for r in range(1, dyn_roots(c))]


def _run_chunk_dyn(cases, unbuffered=False):
    torf = common.import_torf()
    from torf import _stream
    wd = common.worker_dir()
    out = []
    for c in cases:
        L, sizes = c['L'], c['sizes']
        nf = len(sizes)
        files = [{'path': p, 'size': s} for p, s in zip(c['paths'], sizes)]
        names = root_names(c)
        tops = tuple(os.path.join(wd, nm) for nm in names)
        # the spelling each root is handed to torf in.  alias_roots: the second root lives in <wd>/alt/T and is spelled
        # <wd>/Lnk/../T with Lnk -> alt/sub: the OS resolves that to <wd>/alt/T, while its text normalises
        # (os.path.normpath) to <wd>/T, the FIRST root - two directories that only a lexical shortcut confuses
        spell = list(tops)
        alias = bool(c.get('alias_roots')) and len(names) >= 2
        for stale in ('alt', 'Lnk'):
            q = os.path.join(wd, stale)
            if os.path.islink(q):
                os.unlink(q)
            elif os.path.isdir(q):
                import shutil
                shutil.rmtree(q)
        if alias:
            os.makedirs(os.path.join(wd, 'alt', 'sub'))
            os.symlink(os.path.join('alt', 'sub'), os.path.join(wd, 'Lnk'))
            tops = (tops[0], os.path.join(wd, 'alt', names[0])) + tops[2:]
            spell[1] = os.path.join(wd, 'Lnk', os.pardir, names[0])
        _stream.open = _dyn_open(tops, unbuffered)
        obs = {'rows': []}
        _ARMED.clear()
        try:
            states = disk_of_dyn(c)
            paths = []
            for r, nm in enumerate(names):
                good = (content.make_tree(os.path.join(wd, 'alt'), names[0], files, seed=c['cseed']) if alias and r == 1
                        else content.make_tree(wd, nm, files, seed=c['cseed']))
                for j, f in enumerate(files):          # the disk state the history starts from
                    q = r * nf + j
                    pth = os.path.join(tops[r], *f['path'])
                    paths.append(pth)
                    st = states[q]
                    if st == 'missing':
                        os.unlink(pth)
                    elif st == 'corrupt':
                        with open(pth, 'wb') as fh:
                            fh.write(dyn_content(c, nf + q, sizes[j]))
                    elif st != 'ok':
                        with open(pth, 'wb') as fh:
                            fh.write((good[j] + dyn_content(c, nf + q, max(0, int(st) - len(good[j]))))[:int(st)])
            index_of = {p: i for i, p in enumerate(paths)}
            if alias:
                for j, f in enumerate(files):
                    index_of[os.path.join(spell[1], *f['path'])] = nf + j
            stream = b''.join(good)
            T = len(stream)
            t = content.make_torrent(torf, wd, names[0], files, L)
            sym = sym_orig(L, T, c['wrong'])
            cur = _store(t, sym, stream)
            base = _nfd(tops)
            ctor = c.get('ctor')

            def new_stream():
                x = _stream.TorrentFileStream(t) if ctor is None else _stream.TorrentFileStream(t, content_path=spell[ctor])
                if c['cap'] != 10:
                    x.max_open_files = c['cap']
                return x
            tfs = new_stream()
            obs['cap_seen'] = tfs.max_open_files
            version, fresh_cache = 0, {}
            for pos, op in enumerate(c['ops']):
                if op[0] == 'setHashes':
                    sym = sym_apply(sym, op, L, T, c['wrong'])
                    cur = _store(t, sym, stream)
                    obs['rows'].append({'res': ('none', None), 'nfd': _nfd(tops) - base, 'peak': 0})
                    continue
                if op[0] == 'disk':
                    _apply_disk(c, tops[0], paths, pos, op)
                    version += 1
                    obs['rows'].append({'res': ('none', None), 'nfd': _nfd(tops) - base, 'peak': 0})
                    continue
                dec, plain = op_dec(op), op_plain(op)
                cp = None if dec.get('cp') is None else spell[dec['cp']]
                _ROOT[0] = spell[eff_root(c, op)]
                _ARMED.clear()
                if dec.get('fault'):
                    _ARMED.update(path=paths[eff_root(c, op) * nf + dec['fault'][0]], kind=dec['fault'][1], fired=False)
                _LAST_EXC[0] = None
                res, peak = _do_op(tfs, plain, tops, index_of, cp)
                row = {'res': res, 'nfd': _nfd(tops) - base, 'peak': peak - base}
                if dec.get('fault'):
                    row['fired'] = bool(_ARMED.get('fired'))
                    e = _LAST_EXC[0]
                    if row['fired'] and type(e).__name__ == 'ReadError':
                        # the ReadError names the file whose seek()/read() failed (file-system path from iter_pieces,
                        # torrent-relative file from get_piece): compare the listed path inside the content root
                        row['names_file'] = str(getattr(e, 'path', '')).endswith(os.path.join(*files[dec['fault'][0]]['path']))
                _LAST_EXC[0] = None
                _ARMED.clear()
                if op[0] in READ_OPS:
                    # the property itself: the same operation with the same arguments on a FRESH object, on the torrent
                    # and the disk as they are NOW (no fault)
                    ck = (version, json.dumps(plain), dec.get('cp'), cur)
                    if ck not in fresh_cache:
                        f = new_stream()
                        fresh_cache[ck] = _do_op(f, plain, tops, index_of, cp)[0]
                        f.close()
                        del f
                    row['fresh'] = fresh_cache[ck]
                obs['rows'].append(row)
            tfs.close()
            del tfs
        except BaseException as e:  # noqa
            obs['exc'] = f'{type(e).__name__}: {e}'
        finally:
            _ROOT[0] = None
            _ARMED.clear()
        out.append((c, obs, None))
    return out


def disk_of_dyn(c):
    """initial state of every path (root-major): 'ok' | 'missing' | 'corrupt' (right size, other bytes) | size"""
    n = len(c['sizes']) * dyn_roots(c)
    d = list(c.get('disk') or [])
    return d + ['ok'] * (n - len(d))


def dir_size():
    """st_size of an empty directory on the scratch file system (what os.path.getsize answers for a listed path
    that is a directory)"""
    d = os.path.join(common.worker_dir(), 'probe-dir')
    os.makedirs(d, exist_ok=True)
    n = os.path.getsize(d)
    os.rmdir(d)
    return n


# ------------------------------------------------------------------------------------------
# case generation

def npieces(L, sizes):
    return (sum(sizes) + L - 1) // L


def full_alphabet(np_):
    A = [['iterFull'], ['close'], ['ctxExit']]
    A += [['iterAbandon', k] for k in range(0, np_ + 2)]
    A += [['getPiece', i] for i in range(-1, np_ + 1)]
    A += [['getPieceHash', i] for i in sorted({0, np_ - 1, np_})]
    A += [['verifyPiece', i] for i in sorted({-np_ - 1, -1, 0, np_ - 1, np_})]
    return A


def reduced_alphabet(np_):
    mid = max(1, np_ // 2)
    A = [['iterFull'], ['close'], ['iterAbandon', 1], ['iterAbandon', mid + 1],
         ['getPiece', 0], ['getPiece', mid], ['getPiece', np_ - 1], ['verifyPiece', mid],
         ['getPiece', np_]]
    seen, out = set(), []
    for a in A:
        k = json.dumps(a)
        if k not in seen:
            seen.add(k)
            out.append(a)
    return out


def random_set_hashes(rng, np_, L):
    r = rng.random()
    if r < 0.35:
        return ['setHashes', 'flip', rng.randint(0, max(0, np_ - 1))]
    if r < 0.6:
        return ['setHashes', 'relen', rng.choice([max(1, L - 1), L + 1, 2 * L, 1, L])]
    if r < 0.75:
        return ['setHashes', 'trunc', rng.randint(0, np_)]
    if r < 0.85:
        return ['setHashes', 'remove']
    return ['setHashes', 'orig']


def random_op(rng, np_, L=None):
    r = rng.random()
    if L is not None and r < 0.09:
        return random_set_hashes(rng, np_, L)
    r = rng.random()
    if r < 0.18:
        return ['iterFull']
    if r < 0.42:
        return ['iterAbandon', rng.randint(0, np_ + 1)]
    if r < 0.64:
        return ['getPiece', rng.choice([rng.randint(-1, np_), rng.randint(0, max(0, np_ - 1))])]
    if r < 0.72:
        return ['getPieceHash', rng.randint(-1, np_)]
    if r < 0.86:
        return ['verifyPiece', rng.choice([rng.randint(-np_ - 1, np_ + 1), rng.randint(0, max(0, np_ - 1))])]
    if r < 0.94:
        return ['close']
    return ['ctxExit']


def bad_states(size):
    """disk states of a damaged file (as in the C10 check): missing, one byte longer, one byte shorter"""
    return ['missing', size + 1] + ([size - 1] if size > 0 else [])


def random_disk(rng, sizes):
    n = len(sizes)
    bad = set(rng.sample(range(n), min(n, rng.choice([1, 1, 1, 2, 2, 3]))))
    if n > 2 and rng.random() < 0.3:      # neighbours: by-catch files that are bad themselves
        j = rng.randrange(n - 1)
        bad |= {j, j + 1}
    return [rng.choice(bad_states(s)) if i in bad else 'ok' for i, s in enumerate(sizes)]


def random_layout(rng):
    L = rng.choice([2, 3, 3, 4, 5, 6, 7, 8])
    shape = rng.choice(['three', 'three', 'many', 'many', 'few', 'single'])
    if shape == 'three':
        sizes = [max(1, layouts.boundary_sizes(rng, L, 3)) for _ in range(3)]
    elif shape == 'many':
        n = rng.randint(12, 16)
        sizes = [rng.choice([1, 1, 2, max(1, L - 1), L, L + 1, rng.randint(1, 2 * L + 1)]) for _ in range(n)]
    elif shape == 'few':
        n = rng.randint(1, 5)
        sizes = [rng.randint(1, 3 * L) for _ in range(n)]
    else:
        sizes = [rng.randint(1, 4 * L)]
    return shape, L, sizes


def _mk(rng, L, sizes, ops, cap=10, wrong=(), nested=False, single=False, shape='fixed', lay=None, disk=None):
    lay = lay or {}
    extra = {'disk': list(disk)} if disk and any(d != 'ok' for d in disk) else {}
    return {**extra,'L': L, 'sizes': list(sizes), 'cap': cap, 'wrong': sorted(wrong),
            'ops': [list(o) for o in ops] + [['close']],
            'paths': lay.get('paths') or layouts.paths_for(len(sizes), rng, nested),
            'cseed': lay.get('cseed', 0) or rng.randrange(1, 1 << 30),
            'single': single, 'shape': shape}


FIXED_QUICK = [
    # (L, sizes, cap, wrong)
    (2, [3, 1, 2], 10, ()),                                        # 3 files, 3 pieces
    (3, [2, 4, 2], 1, (1,)),                                       # cap 1: eviction with 3 files
    (4, [1, 2, 1, 1, 3, 1, 1, 2, 1, 1, 1, 2, 1, 1], 10, ()),       # 14 files > cap + 1, 5 pieces
]
FIXED_THOROUGH = FIXED_QUICK + [
    (3, [4, 4, 4], 10, (0,)),
    (5, [2, 2, 2], 10, ()),
    (2, [1, 1, 1], 0, ()),
    (4, [7, 1, 5], 2, (2,)),
    (3, [1, 1, 2, 1, 1, 1, 3, 1, 1, 1, 2, 1, 1, 1, 1, 1], 10, (3,)),
    (8, [3, 9, 1, 1, 1, 2, 1, 1, 1, 1, 4, 1, 1, 1, 8], 10, ()),
    (2, [5], 10, ()),
]


# damaged disks: (L, sizes).  Second layout: file 1 (bytes 5..9) ends inside piece 2 = bytes 8..11, which also
# holds the whole of file 2 (a by-catch file when file 1 is bad) and the first byte of file 3 (skip_bytes = 1)
FIXED_DAMAGED = [
    (3, [2, 4, 2]),
    (4, [5, 5, 1, 8, 3]),
]


def damaged_alphabet(np_):
    mid = max(1, np_ // 2)
    A = [['iterFull'], ['iterAbandon', 1], ['iterAbandon', mid + 1], ['iterAbandon', np_], ['getPiece', 0],
         ['getPiece', mid], ['getPiece', np_ - 1], ['getPieceHash', mid], ['verifyPiece', mid], ['close']]
    seen, out = set(), []
    for a in A:
        k = json.dumps(a)
        if k not in seen:
            seen.add(k)
            out.append(a)
    return out


def gen_damaged_fixed(ctx, rng):
    cases = []
    for (L, sizes) in FIXED_DAMAGED:
        np_ = npieces(L, sizes)
        lay = {'paths': layouts.paths_for(len(sizes), rng, nested=False), 'cseed': rng.randrange(1, 1 << 30)}
        disks = []
        for j, sz in enumerate(sizes):
            for st in bad_states(sz):
                disks.append(['ok'] * j + [st] + ['ok'] * (len(sizes) - j - 1))
        # two bad files: a bad file whose by-catch / next file is bad as well; first and last file bad
        if len(sizes) >= 3:
            disks.append(['ok', 'missing', sizes[2] + 1] + ['ok'] * (len(sizes) - 3))
            disks.append(['missing'] + ['ok'] * (len(sizes) - 2) + [sizes[-1] + 1])
        if len(sizes) >= 4:
            disks.append(['ok', sizes[1] - 1, 'ok', 'missing'] + ['ok'] * (len(sizes) - 4))
        A = damaged_alphabet(np_)
        hs = [[a] for a in A] + [[a, b] for a in A for b in A]
        if ctx.thorough:
            hs += [[a, b, d] for a in A for b in A for d in A]
        for disk in disks:
            for h in hs:
                cases.append(_mk(rng, L, sizes, h, shape=f'exhaustive-damaged-{len(sizes)}files', lay=lay, disk=disk))
    return cases


def gen_hash_histories(ctx, rng):
    """verifyPiece i; setHashes x; verifyPiece j  (and: x; verifyPiece i; y; verifyPiece j) on one object"""
    cases = []
    L, sizes = 3, [2, 4, 2]
    np_ = npieces(L, sizes)
    lay = {'paths': layouts.paths_for(len(sizes), rng, nested=False), 'cseed': rng.randrange(1, 1 << 30)}
    idx = list(range(-1, np_ + 1))
    sets = ([['setHashes', 'flip', k] for k in range(np_)] +
            [['setHashes', 'relen', l2] for l2 in (2, 4, 8)] +
            [['setHashes', 'trunc', 1], ['setHashes', 'trunc', 2], ['setHashes', 'remove']])
    for wrong in ((), (1,)):
        for x in sets:
            for i in idx:
                for j in idx:
                    cases.append(_mk(rng, L, sizes, [['verifyPiece', i], x, ['verifyPiece', j]], wrong=wrong,
                                     shape='exhaustive-setHashes', lay=lay))
    for x in (['setHashes', 'remove'], ['setHashes', 'trunc', 1], ['setHashes', 'flip', 1]):
        for y in (['setHashes', 'orig'], ['setHashes', 'relen', 4], ['setHashes', 'flip', 1]):
            for i in idx:
                for j in idx:
                    cases.append(_mk(rng, L, sizes, [x, ['verifyPiece', i], y, ['verifyPiece', j], ['iterFull'],
                                                     ['verifyPiece', j]],
                                     shape='exhaustive-setHashes', lay=lay))
    return cases


# ---- histories with disk changes -----------------------------------------------------------

DYN_FIXED = [
    (3, [2, 4, 2], 10),
    (4, [5, 5, 1, 8, 3], 10),
]


def disk_alphabet(sizes, full=True):
    """every kind of change of every listed file: ['disk', kind, file, n, via]"""
    A = []
    for j, sz in enumerate(sizes):
        A += [['disk', 'truncate', j, sz - 1, None], ['disk', 'extend', j, 1, None], ['disk', 'rewrite', j, sz, None],
              ['disk', 'replace', j, sz, 'rename'], ['disk', 'replace', j, sz + 1, 'recreate'],
              ['disk', 'unlink', j, None, 'unlink'], ['disk', 'mkdir', j, None, None]]
        if full:
            A += [['disk', 'replace', j, sz, 'symlink'], ['disk', 'replace', j, sz - 1, 'rename'],
                  ['disk', 'unlink', j, None, 'dangling']]
    return A


def dyn_read_alphabet(np_):
    mid = max(1, np_ // 2)
    A = [['iterFull'], ['iterAbandon', 1], ['iterAbandon', mid + 1], ['getPiece', 0], ['getPiece', mid],
         ['getPiece', np_ - 1], ['verifyPiece', mid], ['getPieceHash', np_ - 1]]
    seen, out = set(), []
    for a in A:
        k = json.dumps(a)
        if k not in seen:
            seen.add(k)
            out.append(a)
    return out


def random_disk_op(rng, sizes, cur):
    """one random change; `cur[j]` = current size of the regular file at path j, None = absent, -1 = directory
    (updated).  Sizes return to the recorded size often: a history in which every file stays bad is dull."""
    j = rng.randrange(len(sizes))
    rec, sz = sizes[j], cur[j]
    r = rng.random()
    if sz is not None and sz >= 0:
        if r < 0.22:
            n = rec if sz > rec else max(0, sz - rng.choice([1, 1, 2]))
            cur[j] = min(n, sz)
            return ['disk', 'truncate', j, n, None]
        if r < 0.44:
            n = rec - sz if sz < rec else rng.choice([1, 1, 2])
            cur[j] = sz + n
            return ['disk', 'extend', j, n, None]
        if r < 0.58:
            n = rng.choice([sz, sz, rec])
            cur[j] = n
            return ['disk', 'rewrite', j, n, None]
    if r < 0.84 or (sz is None or sz < 0) and r < 0.93:
        n = rng.choice([rec, rec, rec, rec + 1, max(0, rec - 1)])
        cur[j] = n
        return ['disk', 'replace', j, n, rng.choice(['rename', 'rename', 'recreate', 'symlink'])]
    if r < 0.96:
        cur[j] = None
        return ['disk', 'unlink', j, None, rng.choice(['unlink', 'unlink', 'dangling'])]
    cur[j] = -1
    return ['disk', 'mkdir', j, None, None]


def _mk_dyn(rng, L, sizes, ops, cap=10, wrong=(), shape='dyn', lay=None, disk=None, roots=1, ctor=None):
    c = _mk(rng, L, sizes, ops, cap=cap, wrong=wrong, shape=shape, lay=lay)
    c['dyn'] = True
    if disk and any(d != 'ok' for d in disk):
        c['disk'] = list(disk)
    if roots != 1:
        c['roots'] = roots
    if ctor is not None:
        c['ctor'] = ctor
    return c


def with_dec(op, cp=None, fault=None):
    d = {}
    if cp is not None:
        d['cp'] = cp
    if fault is not None:
        d['fault'] = list(fault)
    return list(op) + [d] if d else list(op)


def fault_kinds(op):
    """where a transient OSError may strike: the first seek or the first read of a file inside any reading operation
    (get_piece and, since ac0b377, the reader of iter_pieces turn both into ReadError)"""
    return ('read', 'seek')


def random_root_states(rng, sizes, roots):
    """root 0: mostly intact; the other copies: some files corrupt (right size, other bytes), missing or mis-sized"""
    out = []
    for r in range(roots):
        p_bad = 0.12 if r == 0 else 0.45
        for s_ in sizes:
            if rng.random() < p_bad:
                out.append(rng.choice(['corrupt', 'corrupt', 'missing', s_ + 1] + ([s_ - 1] if s_ > 1 else [])))
            else:
                out.append('ok')
    return out


def gen_dyn_cases(ctx, rng, scale=1.0):
    cases = []
    # exhaustive: read; change; read (every change of every file), on two layouts
    for (L, sizes, cap) in DYN_FIXED:
        np_ = npieces(L, sizes)
        lay = {'paths': layouts.paths_for(len(sizes), rng, nested=False), 'cseed': rng.randrange(1, 1 << 30)}
        R = dyn_read_alphabet(np_)
        X = disk_alphabet(sizes, full=ctx.thorough or len(sizes) <= 3)
        for a in R:
            for x in X:
                for b in R:
                    cases.append(_mk_dyn(rng, L, sizes, [a, x, b], cap=cap, shape=f'dyn-exhaustive-{len(sizes)}files', lay=lay))
        # ... and a sample of read; change; read; change; read (all of them in the thorough tier on the small layout)
        n5 = int((400 if not ctx.thorough else 20000) * scale)
        Xs = disk_alphabet(sizes, full=True)
        for _ in range(n5):
            h = [rng.choice(R), rng.choice(Xs), rng.choice(R), rng.choice(Xs), rng.choice(R)]
            cases.append(_mk_dyn(rng, L, sizes, h, cap=cap, shape=f'dyn-sampled5-{len(sizes)}files', lay=lay))
    # both directions of a size change, exhaustively: a file that is bad at first is repaired (in place / by a new
    # file), a good one goes bad
    for (L, sizes, cap) in DYN_FIXED[:1] if not ctx.thorough else DYN_FIXED:
        np_ = npieces(L, sizes)
        lay = {'paths': layouts.paths_for(len(sizes), rng, nested=False), 'cseed': rng.randrange(1, 1 << 30)}
        R = dyn_read_alphabet(np_)
        for j, sz in enumerate(sizes):
            for st, fix in ((sz - 1, ['disk', 'extend', j, 1, None]), (sz + 1, ['disk', 'truncate', j, sz, None]),
                            ('missing', ['disk', 'replace', j, sz, 'recreate']), (sz - 1, ['disk', 'replace', j, sz, 'rename']),
                            (sz + 1, ['disk', 'rewrite', j, sz, None])):
                disk = ['ok'] * j + [st] + ['ok'] * (len(sizes) - j - 1)
                for a in R:
                    for b in R:
                        cases.append(_mk_dyn(rng, L, sizes, [a, fix, b], cap=cap, shape='dyn-exhaustive-repair', lay=lay, disk=disk))
    # the content_path argument: two copies of the content (the second one with a corrupt / missing / short file),
    # every pair of reading operations under every pair of content paths, with and without a constructor argument
    for (L, sizes, cap) in DYN_FIXED[:1]:
        np_ = npieces(L, sizes)
        lay = {'paths': layouts.paths_for(len(sizes), rng, nested=False), 'cseed': rng.randrange(1, 1 << 30)}
        R = dyn_read_alphabet(np_)
        for bad in (['ok', 'corrupt', 'ok'], ['missing', 'ok', 'ok'], ['ok', 'ok', sizes[2] - 1]):
            disk = ['ok'] * len(sizes) + bad
            for ctor in ((None, 1) if bad[1] == 'corrupt' or ctx.thorough else (None,)):
                for a in R:
                    for b in R:
                        for (ca, cb) in ((None, 1), (1, None), (0, 1), (1, 0)) + (((1, 1),) if ctor is None else ()):
                            cases.append(_mk_dyn(rng, L, sizes, [with_dec(a, cp=ca), with_dec(b, cp=cb)], cap=cap,
                                                 shape='dyn-exhaustive-content-path', lay=lay, disk=disk, roots=2, ctor=ctor))
    # transient faults: an operation hit by a fault on each file, followed by every reading operation
    for (L, sizes, cap) in DYN_FIXED[:1] if not ctx.thorough else DYN_FIXED:
        np_ = npieces(L, sizes)
        lay = {'paths': layouts.paths_for(len(sizes), rng, nested=False), 'cseed': rng.randrange(1, 1 << 30)}
        R = dyn_read_alphabet(np_)
        for a in R:
            for j in range(len(sizes)):
                for kind in fault_kinds(a):
                    for b in R:
                        cases.append(_mk_dyn(rng, L, sizes, [with_dec(a, fault=(j, kind)), b, ['close'], b], cap=cap,
                                             shape='dyn-exhaustive-fault', lay=lay))
    # random longer histories on random layouts: disk changes, content paths, faults, hash replacements mixed
    n_rand = int(ctx.n(2400, 100000) * scale)
    per_layout = 8
    maxlen = 14 if ctx.thorough else 8
    for _ in range(max(1, n_rand // per_layout)):
        shape, L, sizes = random_layout(rng)
        nf = len(sizes)
        np_ = npieces(L, sizes)
        lay = {'paths': layouts.paths_for(nf, rng, nested=rng.random() < 0.3), 'cseed': rng.randrange(1, 1 << 30)}
        cap = 10 if rng.random() < 0.6 else rng.choice([0, 1, 2, 3, 12])
        roots = rng.choice([1, 1, 1, 2, 2, 3]) if nf <= 6 else rng.choice([1, 1, 2])
        if roots == 1:
            disk = random_disk(rng, sizes) if rng.random() < 0.25 else ['ok'] * nf
        else:
            disk = random_root_states(rng, sizes, roots)
        ctor = rng.randrange(roots) if roots > 1 and rng.random() < 0.3 else None
        p_fault = rng.choice([0, 0, 0.15])
        for _ in range(per_layout):
            wrong = [rng.randrange(np_)] if rng.random() < 0.2 else []
            cur = [(sizes[q % nf] if st in ('ok', 'corrupt') else (None if st == 'missing' else int(st)))
                   for q, st in enumerate(disk)]
            ops = []
            for _ in range(rng.randint(3, maxlen)):
                if rng.random() < 0.35:
                    r = rng.randrange(roots)
                    sub = cur[r * nf:(r + 1) * nf]
                    o = random_disk_op(rng, sizes, sub)
                    cur[r * nf:(r + 1) * nf] = sub
                    o[2] += r * nf
                    ops.append(o)
                    continue
                o = random_op(rng, np_, L)
                if o[0] in READ_OPS:
                    cp = rng.randrange(roots) if roots > 1 and rng.random() < 0.6 else None
                    fault = None
                    if rng.random() < p_fault:
                        fault = (rng.randrange(nf), rng.choice(fault_kinds(o)))
                    o = with_dec(o, cp=cp, fault=fault)
                ops.append(o)
            cases.append(_mk_dyn(rng, L, sizes, ops, cap=cap, wrong=wrong, shape='dyn-random-' + shape, lay=lay,
                                 disk=disk, roots=roots, ctor=ctor))
            if roots > 1 and not any(op_dec(o).get('fault') for o in ops if o[0] in READ_OPS) and rng.random() < 0.5:
                cases[-1]['alias_roots'] = True
    # ... and every third case of the exhaustive content-path block
    nth = 0
    for c in cases:
        if c.get('shape') == 'dyn-exhaustive-content-path':
            nth += 1
            if nth % 3 == 0:
                c['alias_roots'] = True
    return cases


def gen_cases(ctx, scale=1.0):
    rng = ctx.rng
    cases = []
    # 0. the witnesses of the repaired defect D19a come first
    for ops in ([['iterFull'], ['iterFull']], [['getPiece', 1], ['iterFull']],
                [['iterAbandon', 1], ['iterFull'], ['getPiece', 0], ['iterAbandon', 2]]):
        cases.append(_mk(rng, 3, [2, 4, 2], ops, shape='corpus'))
    # 1. exhaustive short histories on fixed layouts
    fixed = FIXED_THOROUGH if ctx.thorough else FIXED_QUICK
    for n_lay, (L, sizes, cap, wrong) in enumerate(fixed):
        np_ = npieces(L, sizes)
        lay = {'paths': layouts.paths_for(len(sizes), rng, nested=(n_lay % 2 == 1)),
               'cseed': rng.randrange(1, 1 << 30)}
        A = full_alphabet(np_)
        R = reduced_alphabet(np_)
        hs = [[a] for a in A] + [[a, b] for a in A for b in A]
        hs += [list(h) for h in itertools.product(R, repeat=3)]
        if ctx.thorough and n_lay < 3:
            hs += [list(h) for h in itertools.product(R, repeat=4)]
        single = len(sizes) == 1
        for h in hs:
            cases.append(_mk(rng, L, sizes, h, cap=cap, wrong=wrong, single=single,
                             shape=f'exhaustive-{len(sizes)}files-cap{cap}', lay=lay))
    # 1b. damaged disks and replaced stored hashes (exhaustive short histories)
    cases += gen_hash_histories(ctx, rng)
    cases += gen_damaged_fixed(ctx, rng)
    # 1c. histories in which the disk changes between two operations
    cases += gen_dyn_cases(ctx, rng, scale)
    # 1d. histories with kept (suspended) iterators
    cases += gen_live_cases(ctx, rng, scale)
    # 2. random longer histories on random layouts (a layout is shared by a batch of histories)
    n_rand = int(ctx.n(3000, 120000) * scale)
    per_layout = 8
    maxlen = 12 if ctx.thorough else 6
    for _ in range(max(1, n_rand // per_layout)):
        shape, L, sizes = random_layout(rng)
        np_ = npieces(L, sizes)
        single = shape == 'single' and rng.random() < 0.7
        if shape == 'single' and not single:
            shape = 'one-file-multifile-mode'
        lay = {'paths': layouts.paths_for(len(sizes), rng, nested=not single),
               'cseed': rng.randrange(1, 1 << 30)}
        cap = 10 if rng.random() < 0.7 else rng.choice([0, 1, 2, 3, 12])
        disk = random_disk(rng, sizes) if (not single and rng.random() < 0.34) else None
        for _ in range(per_layout):
            wrong = [rng.randrange(np_)] if rng.random() < 0.3 else []
            ops = [random_op(rng, np_, L) for _ in range(rng.randint(2, maxlen))]
            cases.append(_mk(rng, L, sizes, ops, cap=cap, wrong=wrong, single=single,
                             shape=('random-damaged-' if disk else 'random-') + shape, lay=lay, disk=disk))
    return cases


# ------------------------------------------------------------------------------------------
# comparison

def _canon_model(out, contents):
    """model/spec answer (runs) -> the value the real call must return"""
    k = out['k']
    if k == 'pieces':
        return ('pieces', [[p, []] for p in content.pieces_from_runs(out['v'], contents)])
    if k == 'piece':
        return ('piece', content.pieces_from_runs([out['v']], contents)[0])
    if k == 'digest':
        b = content.pieces_from_runs([out['v']['of']], contents)[0]
        d = hashlib.sha1(b).digest()
        if out['v']['wrong']:
            d = bytes(x ^ 0xFF for x in d)
        return ('digest', d)
    if k == 'bool':
        return ('bool', out['v'])
    if k == 'none':
        return ('none', None)
    return ('err', out['v'])


def _canon_impl(res):
    res = tuple(res)
    if res[0] == 'pieces':
        return ('pieces', [[p, [list(e) for e in es]] for p, es in res[1]])
    return (res[0], res[1])


_KIND = {'read': 'ReadError', 'size': 'VerifyFileSizeError'}


def _canon_damaged_items(items, contents, k=None):
    """items of `Handles.iterDamaged true` (= Missing.iterItems) -> what iter_pieces() must yield"""
    out = []
    for it in items if k is None else items[:k]:
        d = None if it['data'] is None else content.pieces_from_runs([it['data']], contents)[0]
        out.append([d, sorted([f, _KIND[e]] for f, e in it['excs'])])
    return ('pieces', out)


def _short(v):
    if v[0] == 'pieces':
        return ['pieces', [[(p.hex() if isinstance(p, (bytes, bytearray)) else p), es] if es else
                           (p.hex() if isinstance(p, (bytes, bytearray)) else p) for p, es in v[1][:10]]]
    if isinstance(v[1], (bytes, bytearray)):
        return [v[0], v[1].hex()]
    return list(v)


def effective_reads(c, results):
    """non-trivial rule: a reading op that opened/read files follows another one, no close between.
    `results` = per step the canonical answer (of the model on intact content, of the implementation on
    damaged disks)"""
    seen = False
    for op, r in zip(c['ops'], results):
        if op[0] in ('close', 'ctxExit'):
            seen = False
        elif op[0] in READ_OPS:
            reads = not (r[0] == 'err' and r[1] in ('ValueError', 'AssertionError', 'closed-handle', 'fuel')) \
                and not (op[0] == 'iterAbandon' and op[1] == 0)
            if reads and seen:
                return True
            seen = seen or reads
    return False


def case_view(c):
    v = {k: c[k] for k in ('L', 'sizes', 'cap', 'wrong', 'ops', 'paths', 'cseed', 'single')}
    if damaged(c):
        v['disk'] = disk_of(c)
    if c.get('live'):
        v['live'] = True
    if c.get('dyn'):
        v['dyn'] = True
        v['disk'] = disk_of_dyn(c)
        v['roots'] = dyn_roots(c)
        v['ctor'] = c.get('ctor')
        if c.get('alias_roots'):
            v['alias_roots'] = True
    return v


def _drv_ops(c, syms):
    out = []
    for o, sym in zip(c['ops'], syms):
        if o[0] == 'setHashes':
            out.append({'op': 'setHashes', 'stored': sym or []})
        elif len(o) > 1:
            out.append({'op': o[0], 'a': o[1]})
        else:
            out.append({'op': o[0]})
    return out


def _digest_collision(c, sym, i, contents):
    """the model identifies a digest with the byte range it was computed from; the real digests of two
    different ranges coincide when the bytes happen to be equal (1- and 2-byte pieces).  True iff that
    happens for the stored hash that verify_piece(i) looks at."""
    if sym is None or not (0 <= i < len(sym)):
        return False
    L, T = c['L'], sum(c['sizes'])
    f, a, b = sym[i]
    lo, hi = i * L, min((i + 1) * L, T)
    if f or lo >= T or (a, b) == (lo, hi):
        return False
    stream = b''.join(contents)
    return stream[a:b] == stream[lo:hi]


def evaluate(ctx, drv, cases):
    evaluate_static(ctx, drv, [c for c in cases if not c.get('dyn') and not c.get('live')])
    evaluate_dyn(ctx, drv, [c for c in cases if c.get('dyn')])
    evaluate_live(ctx, drv, [c for c in cases if c.get('live')])


def evaluate_static(ctx, drv, cases):
    if not cases:
        return
    syms = [sym_states(c) for c in cases]
    reqs, where_req, dreqs = [], {}, {}
    for n, c in enumerate(cases):
        if damaged(c):
            dk = (c['L'], tuple(c['sizes']), tuple(map(str, disk_of(c))))
            if dk not in dreqs:
                dreqs[dk] = len(reqs)
                reqs.append({'op': 'c19.damagedIter', 'L': c['L'], 'sizes': c['sizes'], 'disk': disk_of(c)})
            where_req[n] = dreqs[dk]
        else:
            where_req[n] = len(reqs)
            reqs.append({'op': 'c19.history', 'L': c['L'], 'sizes': c['sizes'], 'cap': c['cap'],
                         'wrong': c['wrong'], 'ops': _drv_ops(c, syms[n])})
    replies = drv.run(reqs)
    results = common.pmap(_run_chunk, common.split(cases, common.NPROC * 4))
    k = -1
    for chunk in results:
        for (c, obs, contents) in chunk:
            k += 1
            r = replies[where_req[k]]
            dmg = damaged(c)
            key = (c['L'], tuple(c['sizes']), c['cap'], tuple(c['wrong']), json.dumps(c['ops']),
                   tuple(map(str, disk_of(c))) if dmg else ())
            case = case_view(c)
            if 'exc' in obs:
                ctx.case(key=key, nontrivial=False, kind=c['shape'])
                ctx.violation(f'history raised outside the operations: {obs["exc"]}', case, 'results', obs['exc'])
                continue
            impl = [_canon_impl(o['res']) for o in obs['rows']]
            if dmg:
                hyp = False
                nontriv = effective_reads(c, impl)
            else:
                hyp = r['hyp']
                nontriv = effective_reads(c, [(row['m']['k'], row['m'].get('v')) for row in r['rows']])
            ctx.case(key=key, nontrivial=nontriv, kind=c['shape'])
            if len(c['sizes']) > c['cap'] + 1:
                ctx.dist['more-files-than-cap+1'] += 1
            if c['wrong']:
                ctx.dist['with-wrong-stored-hash'] += 1
            if dmg:
                ctx.dist['damaged-disk'] += 1
            if any(o[0] == 'setHashes' for o in c['ops']):
                ctx.dist['with-setHashes'] += 1
            if obs.get('cap_seen') != c['cap']:
                ctx.violation('max_open_files is not the documented default 10', case, c['cap'], obs.get('cap_seen'))
                continue
            if not dmg:
                ctx.sample({'case': case, 'model_rows': r['rows'][:3]})
            elif ctx.dist['damaged-disk'] % 500 == 1:
                ctx.sample({'case': case, 'impl_rows': [_short(x) for x in impl[:3]]})
            for n, (op, o, i) in enumerate(zip(c['ops'], obs['rows'], impl)):
                where = {'step': n, 'op': op}
                if op[0] == 'setHashes':
                    continue
                # (1) intact content: implementation and model against the specification of the model
                if not dmg:
                    row = r['rows'][n]
                    m = _canon_model(row['m'], contents)
                    s = m if row['s'] is None else _canon_model(row['s'], contents)
                    if hyp and (row['s'] is not None or row['m']['k'] == 'err' and row['m']['v'] in ('closed-handle', 'fuel', 'AssertionError')):
                        ctx.machinery_error(f'model answer differs from the specification at step {n} although '
                                            'C19_independent / C19_spec are proved', case)
                        break
                    if op[0] == 'verifyPiece' and s[0] == 'bool' and not s[1] \
                            and _digest_collision(c, syms[k][n], op[1], contents):
                        ctx.dist['digest-collision(model comparison skipped)'] += 1
                        s = ('bool', True)
                    if i != s:
                        ctx.violation(f'step {n} {op}: the answer depends on the history (differs from the answer of a '
                                      'fresh object = slice of the concatenated stream)',
                                      case, {**where, 'expected': _short(s)}, {**where, 'observed': _short(i)},
                                      finding_matchers=MATCHERS)
                        break
                # (2) any disk: the used object against a fresh object (the property itself)
                if o.get('fresh') is not None:
                    fr = _canon_impl(o['fresh'])
                    ctx.violation(f'step {n} {op}: the answer depends on the history (a fresh object on the same torrent '
                                  'and disk answers differently)' + (' [damaged disk]' if dmg else ''),
                                  case, {**where, 'fresh_object': _short(fr)}, {**where, 'observed': _short(i)},
                                  finding_matchers=MATCHERS)
                    break
                bound = c['cap'] + 1
                if o['nfd'] > bound or o['peak'] > bound:
                    ctx.violation(f'step {n} {op}: more than max_open_files + 1 = {bound} content files open',
                                  case, {**where, 'max_open': bound},
                                  {**where, 'open_after': o['nfd'], 'peak_during': o['peak']},
                                  finding_matchers=MATCHERS)
                    break
                if op[0] in ('close', 'ctxExit') and o['nfd'] != 0:
                    ctx.violation(f'step {n} {op}: files are still open after close()/leaving the context',
                                  case, {**where, 'open_after': 0}, {**where, 'open_after': o['nfd']},
                                  finding_matchers=MATCHERS)
                    break
                if hyp and o['nfd'] != r['rows'][n]['nopen']:
                    ctx.corr_break('c19.history:nopen', case, {**where, 'nopen': r['rows'][n]['nopen']},
                                   {**where, 'nopen': o['nfd']})
                    break
                # (3) damaged disk: sequential iterations against the model of that branch
                if dmg and op[0] in ('iterFull', 'iterAbandon') and r['items'] is not None:
                    m = _canon_damaged_items(r['items'], contents, op[1] if op[0] == 'iterAbandon' else None)
                    if i != m:
                        ctx.corr_break('c19.damagedIter', case, {**where, 'model': _short(m)},
                                       {**where, 'impl': _short(i)})
                        break


# ---- histories with disk changes: comparison -----------------------------------------------

def _drv_ops_dyn(c, syms):
    out = []
    for o, sym in zip(c['ops'], syms):
        if o[0] == 'setHashes':
            out.append({'op': 'setHashes', 'stored': sym or []})
        elif o[0] == 'disk':
            d = {'op': 'disk', 'kind': o[1], 'j': o[2]}
            if len(o) > 3 and o[3] is not None:
                d['n'] = max(0, o[3])
            out.append(d)
        else:
            dec, pl = op_dec(o), op_plain(o)
            d = {'op': pl[0]}
            if len(pl) > 1:
                d['a'] = pl[1]
            if dec.get('cp') is not None:
                d['cp'] = dec['cp']
            if dec.get('fault'):
                d['fault'] = dec['fault'][0]
                d['fseek'] = dec['fault'][1] == 'seek'
            out.append(d)
    return out


def _canon_model_dyn(out, contents, cmp=None, base=0):
    """answer of HandlesDisk.run / specOut -> the value the real call must return (`base` = number of the path of
    listed file 0 under the content path in effect)"""
    k = out['k']
    if k == 'items':
        res = []
        for it in out['v']:
            d = None if it['data'] is None else content.pieces_from_runs([it['data']], contents)[0]
            res.append([d, sorted([base + f, e] for f, e in it['excs'])])
        return ('pieces', res)
    if k == 'bool' and cmp:
        # the model compares digests symbolically; equal real bytes of different symbolic bytes are possible
        # (short pieces): what the real call must return follows from the real bytes
        p = content.pieces_from_runs([cmp['p']], contents)[0]
        st = content.pieces_from_runs([cmp['st']['of']], contents)[0]
        return ('bool', (not cmp['st']['wrong']) and hashlib.sha1(p).digest() == hashlib.sha1(st).digest())
    if k == 'err' and out['v'] == 'internal':
        return ('err', 'internal')
    return _canon_model(out, contents)


def _canon_impl_dyn(res):
    res = _canon_impl(res)
    if res[0] in ('digest', 'bool') and res[1] is None:      # get_piece_hash / verify_piece returned None
        return ('none', None)
    return res


def _same(impl, want):
    if want == ('err', 'internal'):          # an undocumented exception escapes: any kind
        return impl[0] == 'err'
    return impl == want


def dyn_nontrivial(c):
    """a reading operation follows (a disk change | an operation hit by a fault | a reading operation under another
    content path) that follows a reading operation, no close in between"""
    st, root = 0, None
    for op in c['ops']:
        if op[0] in ('close', 'ctxExit'):
            st, root = 0, None
        elif op[0] in READ_OPS and not (op[0] == 'iterAbandon' and op[1] == 0):
            r = eff_root(c, op)
            if st == 2 or (st == 1 and root is not None and r != root):
                return True
            st = 2 if op_dec(op).get('fault') else max(st, 1)
            root = r
        elif op[0] == 'disk' and st >= 1:
            st = 2
    return False


def evaluate_dyn(ctx, drv, cases):
    if not cases:
        return
    dsz = dir_size()
    syms = [sym_states(c) for c in cases]
    reqs = [{'op': 'c19.diskHistory', 'L': c['L'], 'sizes': c['sizes'], 'cap': c['cap'], 'wrong': c['wrong'],
             'roots': dyn_roots(c), **({'ctor': c['ctor']} if c.get('ctor') is not None else {}),
             'disk': disk_of_dyn(c), 'dirsize': dsz, 'ops': _drv_ops_dyn(c, syms[n])} for n, c in enumerate(cases)]
    replies = drv.run(reqs)
    results = common.pmap(_run_chunk_dyn, common.split(cases, common.NPROC * 4))
    k = -1
    for chunk in results:
        for (c, obs, _) in chunk:
            k += 1
            r = replies[k]
            contents = DynContents(c)
            key = ('dyn', c['L'], tuple(c['sizes']), c['cap'], tuple(c['wrong']), json.dumps(c['ops']),
                   tuple(map(str, disk_of_dyn(c))), dyn_roots(c), c.get('ctor'), bool(c.get('alias_roots')))
            case = case_view(c)
            if c.get('alias_roots'):
                ctx.dist['dyn/second content root spelled <symlink>/../T (same text as root 0 after normpath, another directory)'] += 1
            if 'exc' in obs:
                ctx.case(key=key, nontrivial=False, kind=c['shape'])
                ctx.violation(f'history raised outside the operations: {obs["exc"]}', case, 'results', obs['exc'])
                continue
            hyp = r['hyp']
            ctx.case(key=key, nontrivial=dyn_nontrivial(c), kind=c['shape'])
            ctx.dist['disk-changes-in-history'] += 1
            if any(row['stale'] for row in r['rows']):
                ctx.dist['dyn:some-step-with-a-stale-handle'] += 1
            if any(st != 'ok' for st in disk_of_dyn(c)):
                ctx.dist['dyn:initially-damaged'] += 1
            if dyn_roots(c) > 1:
                ctx.dist['dyn:several-content-paths'] += 1
            if any(op_dec(o).get('fault') for o in c['ops'] if o[0] in READ_OPS):
                ctx.dist['dyn:with-transient-fault'] += 1
            if obs.get('cap_seen') != c['cap']:
                ctx.violation('max_open_files is not the documented default 10', case, c['cap'], obs.get('cap_seen'))
                continue
            if ctx.dist['disk-changes-in-history'] % 400 == 1:
                ctx.sample({'case': case, 'model_rows': r['rows'][:3]})
            impl = [_canon_impl_dyn(o['res']) for o in obs['rows']]
            twin = None
            inplace_open = False
            nopen_reported = False
            for n, (op, o, i) in enumerate(zip(c['ops'], obs['rows'], impl)):
                where = {'step': n, 'op': op}
                row = r['rows'][n]
                if op[0] == 'disk':
                    inplace_open = inplace_open or (op[1] in ('rewrite', 'extend', 'truncate') and row.get('open', False))
                if op[0] in ('setHashes', 'disk'):
                    continue
                nbase = eff_root(c, op) * len(c['sizes']) if op[0] in READ_OPS else 0
                m = _canon_model_dyn(row['m'], contents, row.get('cmp'), nbase)
                sp = _canon_model_dyn(row['m'] if row['s'] is None else row['s'], contents, row.get('scmp'), nbase)
                faulted = bool(op[0] in READ_OPS and op_dec(op).get('fault'))
                clean = row['clean'] and not faulted
                if hyp and row['clean'] and not faulted and row['s'] is not None:
                    ctx.machinery_error(f'model answer differs from the specification at step {n} although the object '
                                        'holds no stale handle of a file it reads (C19_disk_independent is proved)', case)
                    break
                fr = _canon_impl_dyn(o['fresh']) if 'fresh' in o else None
                # documented outcomes only (ValueError, ReadError, VerifyFileSizeError): anything else is a crash, whatever the
                # handles are open on and whatever fault struck
                if i[0] == 'err' and i[1] not in DOCUMENTED:
                    fid = ctx.violation(f'step {n} {op}: an undocumented exception ({i[1]}) escapes',
                                        case, {**where, 'expected': 'a piece / digest / bool / None / ReadError / '
                                               'VerifyFileSizeError / ValueError',
                                               'fresh_object': None if fr is None else _short(fr)},
                                        {**where, 'observed': _short(i), 'model_answer': _short(m),
                                         'fault_fired': bool(o.get('fired')), 'stale_handle_read': not row['clean']},
                                        finding_matchers=MATCHERS)
                    if fid is None:
                        break
                elif faulted and o.get('fired') and (not _same(i, ('err', 'ReadError')) or o.get('names_file') is False):
                    # (whether the operation gets to the faulty seek/read at all is part of the model's answer)
                    ctx.violation(f'step {n} {op}: a transient OSError from seek()/read() must surface as ReadError naming the file',
                                  case, {**where, 'expected': ['err', 'ReadError'], 'names_the_file': True},
                                  {**where, 'observed': _short(i), 'names_the_file': o.get('names_file')},
                                  finding_matchers=MATCHERS)
                    break
                # (b)/(c) the used object: the specification when it holds no stale handle it reads, else the model
                want = sp if clean else m
                dev = None
                if not _same(i, want):
                    dev = ('the answer depends on the history (differs from the specification on the torrent, the '
                           'disk as it is now and the arguments)' if clean else
                           'the answer is not what the model gives for an operation hit by this fault' if faulted else
                           'the answer is not what the cached handles (old inodes) and the current disk give')
                elif clean and fr is not None and i != fr:
                    dev = 'the answer depends on the history (a fresh object on the same torrent and disk answers differently)'
                if dev and inplace_open and twin is None:
                    # the same history with unbuffered handles: does the deviation come from the read-ahead buffer of a
                    # cached handle?  (finding D19b)
                    twin = [_canon_impl_dyn(x['res']) for x in _run_chunk_dyn([c], unbuffered=True)[0][1].get('rows', [])]
                twin_ok = bool(dev and inplace_open and len(twin) > n and all(_same(twin[q], impl[q]) for q in range(n)))
                if dev and not row['clean']:
                    # The object holds a stale handle of a path it reads: the property makes no demand of its own there (old
                    # inode or new path are both operating-system semantics), the reference is the model.  A different answer
                    # means the model describes other code — a broken correspondence, not a failing input of C19 (undocumented exceptions and
                    # wrongly surfaced faults are judged above).  `explained` says whether the answer is the fresh object's or
                    # the one of reading the old inodes throughout (apart from D19b's stale read-ahead).
                    alts = [_canon_model_dyn(al['o'], contents, al.get('cmp'), nbase) for al in row.get('alts', [])]
                    expl = any(_same(i, al) for al in alts) or twin_ok and any(_same(twin[n], al) for al in alts + [m])
                    if not (twin_ok and _same(twin[n], want)):          # (that one is D19b: goes to the matcher below)
                        ctx.corr_break('c19.diskHistory:stale-handle-answer', case, {**where, 'model': _short(m)},
                                       {**where, 'impl': _short(i), 'explained_by_old_or_new_view': bool(expl)})
                        break
                if dev:
                    payload = {**where, 'observed': _short(i), 'inplace_change_while_open': inplace_open}
                    if inplace_open:
                        payload['unbuffered_twin'] = ('meets-the-expectation' if twin_ok and _same(twin[n], want)
                                                      else 'deviates-as-well')
                    ctx.violation(f'step {n} {op}: {dev}' + ('' if clean or faulted else ' [stale handle]'),
                                  case, {**where, 'expected': _short(want), 'fresh_object': None if fr is None else _short(fr)},
                                  payload, finding_matchers=MATCHERS)
                    break
                # (a) a fresh object answers what the specification says, on whatever the disk looks like now
                if fr is not None and not _same(fr, sp):
                    ctx.corr_break('c19.diskHistory:fresh-object', case, {**where, 'specOut': _short(sp)},
                                   {**where, 'fresh_object': _short(fr)})
                    break
                bound = c['cap'] + 1
                if o['nfd'] > bound or o['peak'] > bound:
                    ctx.violation(f'step {n} {op}: more than max_open_files + 1 = {bound} content files open',
                                  case, {**where, 'max_open': bound},
                                  {**where, 'open_after': o['nfd'], 'peak_during': o['peak']}, finding_matchers=MATCHERS)
                    break
                if op[0] in ('close', 'ctxExit') and o['nfd'] != 0:
                    ctx.violation(f'step {n} {op}: files are still open after close()/leaving the context',
                                  case, {**where, 'open_after': 0}, {**where, 'open_after': o['nfd']},
                                  finding_matchers=MATCHERS)
                    break
                if hyp and o['nfd'] != row['nopen'] and not nopen_reported:
                    # (keep judging the following answers: a failing input is worth more than this mismatch)
                    nopen_reported = True
                    ctx.corr_break('c19.diskHistory:nopen', case, {**where, 'nopen': row['nopen']},
                                   {**where, 'nopen': o['nfd']})


# ------------------------------------------------------------------------------------------
# histories with KEPT iterators (`live` cases): iterStart / iterNext s k / iterDrop s next to the other operations

LIVE_OPS = ('iterStart', 'iterNext', 'iterDrop')


def _run_chunk_live(cases):
    torf = common.import_torf()
    from torf import _stream
    wd = common.worker_dir()
    out = []
    name = 'T'
    top = os.path.join(wd, name)
    _stream.open = _counting_open(top)
    last_key, contents = None, None
    for c in cases:
        L, sizes = c['L'], c['sizes']
        files = [{'path': p, 'size': s} for p, s in zip(c['paths'], sizes)]
        key = (L, tuple(sizes), json.dumps(c['paths']), c['cseed'])
        obs = {'rows': []}
        its = []
        try:
            if key != last_key:
                last_key = None
                contents = content.make_tree(wd, name, files, seed=c['cseed'])
                last_key = key
            index_of = {os.path.join(top, *f['path']): i for i, f in enumerate(files)}
            stream = b''.join(contents)
            t = content.make_torrent(torf, wd, name, files, L)
            _store(t, sym_orig(L, len(stream), c['wrong']), stream)
            base = _nfd(top)

            def new_stream():
                x = _stream.TorrentFileStream(t)
                if c['cap'] != 10:
                    x.max_open_files = c['cap']
                return x
            tfs = new_stream()
            obs['cap_seen'] = tfs.max_open_files
            fresh_cache, fresh_full, pos = {}, None, []
            for op in c['ops']:
                _PEAK[0] = 0
                row = {}
                if op[0] == 'iterStart':
                    its.append(tfs.iter_pieces())          # the iterator object stays referenced
                    pos.append(0)
                    res, peak = ('none', None), 0
                elif op[0] == 'iterNext':
                    got, peak = [], 0
                    try:
                        for _ in range(op[2]):
                            (p, fp, exc) = next(its[op[1]])
                            got.append(_item(p, exc, index_of))
                            peak = max(peak, _nfd(top))
                        res = ('pieces', got)
                    except StopIteration:
                        res = ('pieces', got)
                    except Exception as e:  # noqa  (error KIND is the observable)
                        res = ('err', _kind(e))
                    peak = max(peak, _PEAK[0])
                    # the property itself: the items that follow the ones this iterator has yielded, from a FRESH object
                    if fresh_full is None:
                        f = new_stream()
                        fresh_full = [_item(p, exc, index_of) for (p, fp, exc) in f.iter_pieces()]
                        f.close()
                        del f
                    row['fresh'] = ('pieces', fresh_full[pos[op[1]]:pos[op[1]] + op[2]])
                    pos[op[1]] += len(got)
                elif op[0] == 'iterDrop':
                    it = its[op[1]]
                    its[op[1]] = (x for x in ())          # (a dropped slot stays addressable: next() -> StopIteration)
                    it.close()
                    del it                                 # CPython: collected at once (no reference cycle)
                    pos[op[1]] = 1 << 30                   # a dropped iterator yields nothing more
                    res, peak = ('none', None), _PEAK[0]
                else:
                    res, peak = _do_op(tfs, op, top, index_of)
                    if op[0] in READ_OPS:
                        ck = json.dumps(op)
                        if ck not in fresh_cache:
                            f = new_stream()
                            fresh_cache[ck] = _do_op(f, op, top, index_of)[0]
                            f.close()
                            del f
                        row['fresh'] = fresh_cache[ck]
                row.update({'res': res, 'nfd': _nfd(top) - base, 'peak': max(0, peak - base)})
                obs['rows'].append(row)
            del its[:]
            tfs.close()
            del tfs
        except BaseException as e:  # noqa
            obs['exc'] = f'{type(e).__name__}: {e}'
            del its[:]
        out.append((c, obs, contents))
    return out


def live_alphabet(np_, slots):
    mid = max(1, np_ // 2)
    A = [['iterFull'], ['iterAbandon', mid], ['getPiece', 0], ['getPiece', mid], ['getPiece', np_ - 1], ['verifyPiece', mid],
         ['close'], ['ctxExit'], ['iterStart']]
    for s_ in range(slots):
        A += [['iterNext', s_, 1], ['iterNext', s_, mid], ['iterNext', s_, np_ + 1], ['iterDrop', s_]]
    seen, out = set(), []
    for a in A:
        k = json.dumps(a)
        if k not in seen:
            seen.add(k)
            out.append(a)
    return out


def _mk_live(rng, L, sizes, ops, cap=10, wrong=(), shape='live', lay=None):
    """every history ends with close() WHILE the kept iterators still exist, then drops them one by one"""
    nslots = sum(1 for o in ops if o[0] == 'iterStart')
    c = _mk(rng, L, sizes, ops, cap=cap, wrong=wrong, shape=shape, lay=lay)        # (_mk appends the final close)
    c['ops'] += [['iterDrop', s_] for s_ in range(nslots)]
    c['live'] = True
    return c


def valid_live(ops):
    n = 0
    for o in ops:
        if o[0] == 'iterStart':
            n += 1
        elif o[0] in ('iterNext', 'iterDrop') and o[1] >= n:
            return False
    return True


LIVE_FIXED = [
    (3, [7, 5, 4], 10),                                       # 16 bytes, 6 pieces; piece 2 and piece 3 straddle files
    (3, [2, 4, 2], 1),                                        # cap 1: reads in other files evict the iterator's handle
    (4, [1, 2, 1, 1, 3, 1, 1, 2, 1, 1, 1, 2, 1, 1], 10),      # 14 files > cap + 1
]


def gen_live_cases(ctx, rng, scale=1.0):
    cases = []
    for n_lay, (L, sizes, cap) in enumerate(LIVE_FIXED):
        np_ = npieces(L, sizes)
        lay = {'paths': layouts.paths_for(len(sizes), rng, nested=False), 'cseed': rng.randrange(1, 1 << 30)}
        mid = max(1, np_ // 2)
        X = [x for x in live_alphabet(np_, 2) if x[0] != 'iterDrop' or x[1] == 0]
        # a kept iterator, advanced, ANYTHING in between (also a second iterator), advanced again
        for a in (0, 1, 2, mid):
            for x in X:
                for b in (1, np_ + 1):
                    h = [['iterStart'], ['iterNext', 0, a], x, ['iterNext', 0, b]]
                    if valid_live(h):
                        cases.append(_mk_live(rng, L, sizes, h, cap=cap, shape=f'live-exhaustive-{len(sizes)}files-cap{cap}', lay=lay))
        # ... and two things in between (all of them for the first layout, a sample for the others)
        pairs = [[x, y] for x in X for y in X]
        if n_lay > 0 and not ctx.thorough:
            pairs = rng.sample(pairs, min(len(pairs), 120))
        for (x, y) in pairs:
            for a in (1, mid):
                h = [['iterStart'], ['iterNext', 0, a], x, y, ['iterNext', 0, np_ + 1]]
                if valid_live(h):
                    cases.append(_mk_live(rng, L, sizes, h, cap=cap, shape=f'live-exhaustive-{len(sizes)}files-cap{cap}', lay=lay))
    # random histories with up to three kept iterators
    n_rand = int(ctx.n(1600, 60000) * scale)
    per_layout = 8
    maxlen = 14 if ctx.thorough else 9
    for _ in range(max(1, n_rand // per_layout)):
        shape, L, sizes = random_layout(rng)
        np_ = npieces(L, sizes)
        lay = {'paths': layouts.paths_for(len(sizes), rng, nested=rng.random() < 0.3), 'cseed': rng.randrange(1, 1 << 30)}
        cap = 10 if rng.random() < 0.5 else rng.choice([0, 1, 2, 3, 12])
        for _ in range(per_layout):
            wrong = [rng.randrange(np_)] if rng.random() < 0.2 else []
            ops, n = [], 0
            for _ in range(rng.randint(3, maxlen)):
                r = rng.random()
                if n < 3 and (r < 0.18 or n == 0 and r < 0.5):
                    ops.append(['iterStart'])
                    n += 1
                elif n and r < 0.62:
                    ops.append(['iterNext', rng.randrange(n), rng.choice([0, 1, 1, 2, 3, rng.randint(1, np_ + 1)])])
                elif n and r < 0.68:
                    ops.append(['iterDrop', rng.randrange(n)])
                else:
                    o = random_op(rng, np_)
                    ops.append(o)
            cases.append(_mk_live(rng, L, sizes, ops, cap=cap, wrong=wrong, shape='live-random-' + shape, lay=lay))
    return cases


def _drv_ops_live(c):
    out = []
    for o in c['ops']:
        if o[0] == 'iterNext':
            out.append({'op': 'iterNext', 's': o[1], 'k': o[2]})
        elif o[0] == 'iterDrop':
            out.append({'op': 'iterDrop', 's': o[1]})
        elif len(o) > 1:
            out.append({'op': o[0], 'a': o[1]})
        else:
            out.append({'op': o[0]})
    return out


def _canon_model_live(out, contents):
    if out['k'] == 'err' and out['v'] == 'closed-handle':
        return ('err', 'ValueError')                      # ValueError: read of closed file
    return _canon_model(out, contents)


def live_nontrivial(c):
    """a kept iterator is advanced after something else was done with the object since its last advance (or creation)"""
    touched = {}
    n = 0
    for op in c['ops']:
        if op[0] == 'iterStart':
            touched[n] = False
            n += 1
        elif op[0] == 'iterNext':
            if touched.get(op[1]) and op[2] > 0:
                return True
            if op[2] > 0:
                for k in touched:
                    touched[k] = k != op[1]
        elif op[0] != 'iterDrop':
            for k in touched:
                touched[k] = True
    return False


def evaluate_live(ctx, drv, cases):
    if not cases:
        return
    reqs = [{'op': 'c19.iterHistory', 'L': c['L'], 'sizes': c['sizes'], 'cap': c['cap'], 'wrong': c['wrong'],
             'ops': _drv_ops_live(c)} for c in cases]
    replies = drv.run(reqs)
    results = common.pmap(_run_chunk_live, common.split(cases, common.NPROC * 4))
    k = -1
    for chunk in results:
        for (c, obs, contents) in chunk:
            k += 1
            r = replies[k]
            key = ('live', c['L'], tuple(c['sizes']), c['cap'], tuple(c['wrong']), json.dumps(c['ops']))
            case = case_view(c)
            if 'exc' in obs:
                ctx.case(key=key, nontrivial=False, kind=c['shape'])
                ctx.violation(f'history raised outside the operations: {obs["exc"]}', case, 'results', obs['exc'])
                continue
            hyp = r['hyp']
            ctx.case(key=key, nontrivial=live_nontrivial(c), kind=c['shape'])
            ctx.dist['kept-iterators-in-history'] += 1
            if len(c['sizes']) > c['cap'] + 1:
                ctx.dist['live:more-files-than-cap+1'] += 1
            if obs.get('cap_seen') != c['cap']:
                ctx.violation('max_open_files is not the documented default 10', case, c['cap'], obs.get('cap_seen'))
                continue
            if ctx.dist['kept-iterators-in-history'] % 300 == 1:
                ctx.sample({'case': case, 'model_rows': r['rows'][:4]})
            impl = [_canon_impl(o['res']) for o in obs['rows']]
            nopen_reported = False
            closed = False          # close() / context exit was the last thing that opened or closed files
            for n, (op, o, i) in enumerate(zip(c['ops'], obs['rows'], impl)):
                where = {'step': n, 'op': op}
                row = r['rows'][n]
                m = _canon_model_live(row['m'], contents)
                sp = m if row['s'] is None else _canon_model_live(row['s'], contents)
                und = row.get('undisturbed', True)
                if op[0] == 'verifyPiece' and sp[0] == 'bool' and not sp[1] \
                        and _digest_collision(c, sym_orig(c['L'], sum(c['sizes']), c['wrong']), op[1], contents):
                    sp = m = ('bool', True)
                if hyp and op[0] != 'iterNext' and row['s'] is not None:
                    ctx.machinery_error(f'model answer differs from the specification at step {n} ({op[0]} does not depend '
                                        'on kept iterators)', case)
                    break
                fr = _canon_impl(o['fresh']) if 'fresh' in o else None
                if op[0] == 'iterNext' and row.get('closed'):
                    # the stream was closed while this iterator was suspended inside a file: what resuming it does then is
                    # outside the property; the code raises ValueError (read of closed file) and opens nothing — the model
                    fr = None
                    sp = m
                # an iterator nothing has interfered with must go on with the next chunks; every other operation answers as
                # on a fresh object.  A disturbed iterator: the property demands the same, the code gives what the model
                # derives from the shared handle (finding D19f)
                if op[0] == 'iterNext' and not und and i != m:
                    # another operation has moved or closed the handle this iterator is suspended on (D19f territory): WHICH
                    # wrong answer comes out depends on things the property does not fix (eviction order, offsets); the
                    # reference is the model, a different answer — right or wrong — is a broken correspondence
                    ctx.corr_break('c19.iterHistory:disturbed-iterator-answer', case, {**where, 'model': _short(m)},
                                   {**where, 'impl': _short(i), 'specification': _short(sp)})
                    break
                if i != sp or (fr is not None and i != fr):
                    what = ('the items a kept iterator yields depend on what else was done with the stream object'
                            if op[0] == 'iterNext' else 'the answer depends on the history (kept iterators on the object)')
                    ctx.violation(f'step {n} {op}: {what}', case,
                                  {**where, 'expected': _short(sp), 'fresh_object': None if fr is None else _short(fr)},
                                  {**where, 'observed': _short(i), 'model_answer': _short(m), 'undisturbed': und},
                                  finding_matchers=MATCHERS)
                    if i != m or und:
                        break
                elif hyp and i != m:
                    # the implementation answers as the specification says where the model derives a deviation
                    ctx.corr_break('c19.iterHistory', case, {**where, 'model': _short(m)}, {**where, 'impl': _short(i)})
                    break
                bound = c['cap'] + 1
                if o['nfd'] > bound or o['peak'] > bound:
                    ctx.violation(f'step {n} {op}: more than max_open_files + 1 = {bound} content files open '
                                  '(every descriptor the stream object caused to be open counts)',
                                  case, {**where, 'max_open': bound},
                                  {**where, 'open_after': o['nfd'], 'peak_during': o['peak']}, finding_matchers=MATCHERS)
                    break
                if op[0] in ('close', 'ctxExit'):
                    closed = True
                elif op[0] not in ('iterDrop', 'iterStart') and not (op[0] == 'iterNext' and op[2] == 0):
                    closed = closed and o['nfd'] == 0 and row['nopen'] == 0
                if closed and o['nfd'] != 0:
                    ctx.violation(f'step {n} {op}: files are open after close()/leaving the context although nothing was read '
                                  'since (kept iterators must not keep descriptors alive or bring them back)',
                                  case, {**where, 'open_after': 0}, {**where, 'open_after': o['nfd']},
                                  finding_matchers=MATCHERS)
                    break
                if hyp and o['nfd'] != row['nopen'] and not nopen_reported:
                    nopen_reported = True
                    ctx.corr_break('c19.iterHistory:nopen', case, {**where, 'nopen': row['nopen']}, {**where, 'nopen': o['nfd']})


def run(ctx, drv):
    ctx.notes['rule'] = RULE
    ctx.notes['assumptions'] = [
        'theorems C19_independent / C19_history / C19_iter_spec: every file of the torrent is present with the recorded '
        'size.  Histories on damaged disks (files missing or one byte too long/short) are OUTSIDE that hypothesis: there '
        'the used object is compared with a fresh object on the same torrent and disk (the property itself, checked on '
        'the implementation) and sequential iterations with Handles.iterDamaged (= C10 Missing.iterItems; '
        'C19_damaged_iter_independent)',
        'setHashes steps replace info[\'pieces\'] between operations; the stored hashes are an argument of the model '
        'operation (C19_history_hashes); a digest is identified with the byte range it was computed from, accidental '
        'equality of the bytes of two different ranges is detected and the model comparison skipped for that step',
        'no zero-length files and piece length >= 1: get_piece geometry with empty files is C11 (D11a); '
        'the model takes the geometry as a parameter, the driver instantiates it by plain arithmetic',
        'SHA-1 is a parameter H of the model; the harness applies real hashlib.sha1 to the model pieces; '
        'a wrong stored hash is the bitwise complement of the right one',
        'pairwise distinct file paths (the handle table is keyed by path)',
        'open files are observed through /proc/self/fd after each operation, after each item of an iteration and right after every open() made by torf._stream (the only moments the number can grow)',
        'the consumer of an abandoned iteration closes the generator (it.close(); del it); CPython generator semantics',
    ]
    cases = []
    for p in sorted(glob.glob(os.path.join(common.CORPUS_DIR, 'C19', '*.json'))):
        cc = json.load(open(p))
        cc.setdefault('shape', 'corpus')
        cases.append(cc)
    cases += gen_cases(ctx)
    evaluate(ctx, drv, cases)
    ctx.exhaustive = False


def search(ctx, drv):
    evaluate(ctx, drv, gen_cases(ctx, scale=3.0))


def replay(ctx, drv, rp):
    c = dict(rp['case'])
    c.setdefault('shape', 'replay')
    evaluate(ctx, drv, [c])
    return {'fails': bool(ctx.violations or ctx.corr_breaks), 'violations': ctx.violations,
            'correspondence_breaks': ctx.corr_breaks}
