"""
Kernel translator: extracts side-effect-free integer / boolean kernels from named places of the
Python source under test and regenerates lean/Torf/Generated/Kernels.lean on every run.

Each kernel names a function of the source, a way to pick an expression inside it, and the Lean
signature of the generated definition.  Sub-expressions that are not arithmetic (attribute
accesses, subscripts, calls) are mapped to parameters through `atoms` (matched on `ast.unparse`).
If a kernel cannot be located or translated (the code was restructured) the definition from the
committed snapshot is kept and the evidence says so; that is never an alarm by itself.

The generated definitions are used in two ways:
  * models call them instead of restating the formula (e.g. `Verify.corruptFiles`), so the model is
    regenerated from the source;
  * "bridge" theorems in Torf/Properties/*.lean relate them to hand-written model definitions, so a
    changed comparison or an off-by-one in the source breaks a proof obligation while an
    equivalent rewrite of the same arithmetic still proves.
Floats: `math.ceil(a / b)`, `math.floor(a / b)` and `int(a / b)` are translated to exact integer
division (trusted base: operands below 2^53 and non-negative, divisor positive).

Kernel kinds besides the expression kernels: `regex`, `strings`, and `loop` (whole functions translated
statement by statement; the Python subset — file loops, loops over lists of integers, loops over
(file, size) pairs, `list(range())`, `remove`, `in`, `xs[i]`, `set()/add/sorted`, comparison with
`[file]`, literal defaults, results stored in an attribute, message strings — is listed in the comment
block above `_LOOP_LEAN_TYPES`).
"""
import ast
import copy
import os
import re

from harness import common

OUT = os.path.join(common.LEAN_DIR, 'Torf', 'Generated', 'Kernels.lean')

KERNELS = [
    dict(name='isDivisibleBy16Kib', file='torf/_utils.py', func='is_divisible_by_16_kib', pick=('function',),
         params=[('num', 'Int')], ret='Bool'),
    dict(name='corruptErrBeg', file='torf/_errors.py', func='VerifyContentError.__init__',
         pick=('assign', 'err_i_beg'), params=[('piece_index', 'Int'), ('piece_size', 'Int')], ret='Int'),
    dict(name='corruptErrEnd', file='torf/_errors.py', func='VerifyContentError.__init__',
         pick=('assign', 'err_i_end'), params=[('err_i_beg', 'Int'), ('piece_size', 'Int')], ret='Int'),
    dict(name='corruptCond', file='torf/_errors.py', func='VerifyContentError.__init__',
         pick=('if-test-guarding', 'corrupt_files.append'),
         params=[('file_i_beg', 'Int'), ('file_i_end', 'Int'), ('err_i_beg', 'Int'), ('err_i_end', 'Int')], ret='Bool'),
    dict(name='byteRangeCond', file='torf/_stream.py', func='TorrentFileStream.get_files_at_byte_range',
         pick=('if-test-guarding', 'files.append'),
         params=[('first_byte_index', 'Int'), ('last_byte_index', 'Int'),
                 ('file_first_byte_index', 'Int'), ('file_last_byte_index', 'Int')], ret='Bool'),
    dict(name='byteRangeFileLast', file='torf/_stream.py', func='TorrentFileStream.get_files_at_byte_range',
         pick=('assign', 'file_last_byte_index'), atoms={'file.size': 'size'},
         params=[('pos', 'Int'), ('size', 'Int')], ret='Int'),
    dict(name='pieceStartPos', file='torf/_stream.py', func='TorrentFileStream.get_files_at_piece_index',
         pick=('assign', 'piece_start_pos'), params=[('piece_index', 'Int'), ('piece_size', 'Int')], ret='Int'),
    dict(name='pieceEndPos', file='torf/_stream.py', func='TorrentFileStream.get_files_at_piece_index',
         pick=('assign', 'piece_end_pos'), params=[('piece_index', 'Int'), ('piece_size', 'Int')], ret='Int'),
    dict(name='missingBoundary', file='torf/_stream.py', func='_MissingPieces.__call__',
         pick=('assign', 'next_piece_boundary_index'),
         atoms={'piece_indexes[-1]': 'last', 'self._torrent.piece_size': 'piece_size'},
         params=[('last', 'Int'), ('piece_size', 'Int')], ret='Int'),
    dict(name='missingSkip', file='torf/_stream.py', func='_MissingPieces.__call__',
         pick=('assign-containing', 'skip_bytes', 'next_piece_boundary_index'),
         params=[('next_piece_boundary_index', 'Int'), ('next_file_start', 'Int')], ret='Int'),
    dict(name='missingContinues', file='torf/_stream.py', func='_MissingPieces.__call__',
         pick=('if-test-guarding', 'skip_bytes ='),
         params=[('next_file_end', 'Int'), ('next_piece_boundary_index', 'Int')], ret='Bool'),
    dict(name='queueSize', file='torf/_torrent.py', func='Torrent.generate', pick=('kwarg', 'queue_size'),
         params=[('hasher_threads', 'Int')], ret='Int'),
    # --- the out-of-memory handler of the reader (C04): the bound of the piece queue after one effective call, and
    #     whether the handler goes on (bound changed) or gives up (raises ReadError(ENOMEM))
    dict(name='oomNewMaxsize', file='torf/_generate.py', func='Reader._handle_oom', pick=('assign', 'new_maxsize'),
         params=[('old_maxsize', 'Int')], ret='Int'),
    dict(name='oomGoesOn', file='torf/_generate.py', func='Reader._handle_oom',
         pick=('if-test-guarding', 'self._piece_queue.maxsize = new_maxsize'),
         params=[('new_maxsize', 'Int'), ('old_maxsize', 'Int')], ret='Bool'),
    # --- the piece_size setter and the clamping done by the piece_size_min / piece_size_max setters (C09)
    dict(name='pieceSizeOutOfRange', file='torf/_torrent.py', func='Torrent.piece_size@setter',
         pick=('if-test-guarding', 'min=self.piece_size_min'),
         atoms={'self.piece_size_min': 'pmin', 'self.piece_size_max': 'pmax'},
         params=[('pmin', 'Int'), ('piece_length', 'Int'), ('pmax', 'Int')], ret='Bool'),
    dict(name='clampToMin', file='torf/_torrent.py', func='Torrent.piece_size_min@setter',
         pick=('attr-assign', 'self.piece_size'),
         atoms={'self.piece_size_min': 'pmin', 'self.piece_size': 'piece_size'},
         params=[('pmin', 'Int'), ('piece_size', 'Int')], ret='Int'),
    dict(name='clampToMax', file='torf/_torrent.py', func='Torrent.piece_size_max@setter',
         pick=('attr-assign', 'self.piece_size'),
         atoms={'self.piece_size_max': 'pmax', 'self.piece_size': 'piece_size'},
         params=[('pmax', 'Int'), ('piece_size', 'Int')], ret='Int'),
    # --- Torrent.verify_filesize (C20): the size comparison and the files_done counter handed to the callback
    dict(name='fsSizeMismatch', file='torf/_torrent.py', func='Torrent.verify_filesize',
         pick=('if-test-guarding', 'error.VerifyFileSizeError(fs_filepath'),
         params=[('fs_filepath_size', 'Int'), ('expected_size', 'Int')], ret='Bool'),
    dict(name='fsFilesDone', file='torf/_torrent.py', func='Torrent.verify_filesize', pick=('assign', 'files_done'),
         params=[('file_index', 'Int')], ret='Int'),
    dict(name='forceGenerate', file='torf/_generate.py', func='GenerateCallback._force_callback', pick=('return',),
         atoms={'exceptions': 'has_exc'},
         params=[('has_exc', 'Bool'), ('pieces_done', 'Int'), ('pieces_total', 'Int')], ret='Bool'),
    dict(name='forceVerify', file='torf/_generate.py', func='VerifyCallback._force_callback', pick=('return',),
         atoms={'exceptions': 'has_exc',
                'piece_hash is not None and piece_hash != self._exp_hashes[piece_index]': 'mismatch'},
         params=[('has_exc', 'Bool'), ('mismatch', 'Bool'), ('pieces_done', 'Int'), ('pieces_total', 'Int')], ret='Bool'),
    dict(name='torrentPieces', file='torf/_torrent.py', func='Torrent.pieces', pick=('return-first',),
         params=[('size', 'Int'), ('piece_size', 'Int')], ret='Int'),
    dict(name='validatePieceCount', file='torf/_torrent.py', func='Torrent.validate',
         pick=('assign-first', 'exp_piece_count'),
         atoms={"int(info['length'])": 'length', "info['piece length']": 'piece_length'},
         params=[('length', 'Int'), ('piece_length', 'Int')], ret='Int'),
    dict(name='reuseMiddle', file='torf/_reuse.py', func='is_content_match', pick=('assign', 'middle_piece_index'),
         atoms={'len(all_file_piece_indexes)': 'n'}, params=[('n', 'Int')], ret='Int'),
    # --- random access geometry (C11)
    dict(name='gpMaxPieceIndex', file='torf/_stream.py', func='TorrentFileStream.get_piece',
         pick=('assign', 'max_piece_index'), params=[('torrent_size', 'Int'), ('piece_size', 'Int')], ret='Int'),
    dict(name='gpOutOfRange', file='torf/_stream.py', func='TorrentFileStream.get_piece',
         pick=('if-test-guarding', 'piece_index must be in range'),
         params=[('min_piece_index', 'Int'), ('piece_index', 'Int'), ('max_piece_index', 'Int')], ret='Bool'),
    dict(name='gpFirstByte', file='torf/_stream.py', func='TorrentFileStream.get_piece',
         pick=('assign', 'first_byte_index_of_piece'), params=[('piece_index', 'Int'), ('piece_size', 'Int')], ret='Int'),
    dict(name='gpLastByte', file='torf/_stream.py', func='TorrentFileStream.get_piece',
         pick=('assign', 'last_byte_index_of_piece'),
         params=[('first_byte_index_of_piece', 'Int'), ('piece_size', 'Int'), ('torrent_size', 'Int')], ret='Int'),
    dict(name='gpSeekSingle', file='torf/_stream.py', func='TorrentFileStream.get_piece',
         pick=('assign-containing', 'seek_to', 'first_byte_index_of_piece'),
         params=[('first_byte_index_of_piece', 'Int'), ('file_pos', 'Int')], ret='Int'),
    dict(name='gpSeekMulti', file='torf/_stream.py', func='TorrentFileStream.get_piece',
         pick=('assign-containing', 'seek_to', '%'), atoms={'file.size': 'file_size'},
         params=[('file_size', 'Int'), ('file_pos', 'Int'), ('piece_size', 'Int')], ret='Int'),
    dict(name='gpLastPieceSize', file='torf/_stream.py', func='TorrentFileStream.get_piece',
         pick=('assign-containing', 'exp_piece_size', '%'),
         params=[('torrent_size', 'Int'), ('piece_size', 'Int')], ret='Int'),
    dict(name='pifFirst', file='torf/_stream.py', func='TorrentFileStream.get_piece_indexes_of_file',
         pick=('assign', 'first_piece_index'), params=[('stream_pos', 'Int'), ('piece_size', 'Int')], ret='Int'),
    dict(name='pifLast', file='torf/_stream.py', func='TorrentFileStream.get_piece_indexes_of_file',
         pick=('assign', 'last_piece_index'), atoms={'file.size': 'file_size'},
         params=[('stream_pos', 'Int'), ('file_size', 'Int'), ('piece_size', 'Int')], ret='Int'),
    dict(name='absRelMax', file='torf/_stream.py', func='TorrentFileStream.get_absolute_piece_indexes',
         pick=('assign', 'pi_rel_max'), params=[('pi_abs_max', 'Int'), ('pi_abs_min', 'Int')], ret='Int'),
    dict(name='absFromEnd', file='torf/_stream.py', func='TorrentFileStream.get_absolute_piece_indexes',
         pick=('assign-containing', 'pi_rel', 'abs('), params=[('pi_rel_max', 'Int'), ('pi_rel', 'Int')], ret='Int'),
    dict(name='absClamp', file='torf/_stream.py', func='TorrentFileStream.get_absolute_piece_indexes',
         pick=('assign-containing', 'pi_rel', 'max('),
         params=[('pi_rel_min', 'Int'), ('pi_rel_max', 'Int'), ('pi_rel', 'Int')], ret='Int'),
    dict(name='absToAbs', file='torf/_stream.py', func='TorrentFileStream.get_absolute_piece_indexes',
         pick=('assign', 'pi_abs'), params=[('pi_abs_min', 'Int'), ('pi_rel', 'Int')], ret='Int'),
    dict(name='relMax', file='torf/_stream.py', func='TorrentFileStream.get_relative_piece_indexes',
         pick=('assign', 'max_piece_index'), atoms={'file.size': 'file_size', 'self._torrent.piece_size': 'piece_size'},
         params=[('file_size', 'Int'), ('piece_size', 'Int')], ret='Int'),
    dict(name='relFromEnd', file='torf/_stream.py', func='TorrentFileStream.get_relative_piece_indexes',
         pick=('assign-containing', 'valid_rpi', 'abs('), params=[('max_piece_index', 'Int'), ('rpi', 'Int')], ret='Int'),
    dict(name='relClamp', file='torf/_stream.py', func='TorrentFileStream.get_relative_piece_indexes',
         pick=('assign-containing', 'valid_rpi', 'max('),
         params=[('min_piece_index', 'Int'), ('max_piece_index', 'Int'), ('valid_rpi', 'Int')], ret='Int'),
    # --- the interval gate of the progress callback (C12); clock values are quantised to integers in the model
    dict(name='intervalGate', file='torf/_generate.py', func='_IntervaledCallback.__call__',
         pick=('if-test-guarding', 'self._prev_call_time = now'), atoms={'self._interval': 'interval'},
         params=[('force', 'Bool'), ('diff', 'Int'), ('interval', 'Int')], ret='Bool'),
    dict(name='intervalDiff', file='torf/_generate.py', func='_IntervaledCallback.__call__',
         pick=('assign', 'diff'), atoms={'self._prev_call_time': 'prev'},
         params=[('now', 'Int'), ('prev', 'Int')], ret='Int'),
    # --- the open-handle table of a stream (C19): the eviction loop's condition and the class default of the cap
    dict(name='evictWhile', file='torf/_stream.py', func='TorrentFileStream._get_open_file',
         pick=('while-test-guarding', '.close()'),
         atoms={'len(self._open_files)': 'n_open', 'self.max_open_files': 'cap'},
         params=[('n_open', 'Int'), ('cap', 'Int')], ret='Bool'),
    dict(name='maxOpenFilesDefault', file='torf/_stream.py', func='TorrentFileStream', pick=('class-attr', 'max_open_files'),
         params=[], ret='Int'),
    # --- validation patterns (C14: info hash / xt; C08: md5sum): pattern text and flags are parsed with Python's own
    #     re._parser, the character set of every position is enumerated over all code points with the re engine itself
    dict(name='infohashRegex', kind='regex', file='torf/_magnet.py', var='_INFOHASH_REGEX'),
    dict(name='xtRegex', kind='regex', file='torf/_magnet.py', var='_XT_REGEX'),
    dict(name='md5sumRegex', kind='regex', file='torf/_utils.py', var='_md5sum_regex'),
    # --- Torrent.calculate_piece_size (C09): the size classes and the clamping of the power of two
    dict(name='calcMaxPieces', file='torf/_torrent.py', func='Torrent.calculate_piece_size',
         pick=('if-chain-assign', 'max_pieces'), params=[('size', 'Int')], ret='Int'),
    dict(name='calcClamp', file='torf/_torrent.py', func='Torrent.calculate_piece_size', pick=('return',),
         params=[('piece_size', 'Int'), ('min_size', 'Int'), ('max_size', 'Int')], ret='Int'),
    # --- Torrent.write (C17): when the call is refused before anything else happens, and whether write_stream rewinds
    dict(name='writeRefused', file='torf/_torrent.py', func='Torrent.write', pick=('if-test-guarding', 'errno.EEXIST'),
         atoms={'overwrite': 'overwrite', 'os.path.exists(filepath)': 'path_exists'},
         params=[('overwrite', 'Bool'), ('path_exists', 'Bool')], ret='Bool'),
    dict(name='streamRewinds', file='torf/_torrent.py', func='Torrent.write_stream', pick=('if-test-guarding', 'stream.truncate(0)'),
         atoms={'stream.seekable()': 'seekable'}, params=[('seekable', 'Bool')], ret='Bool'),
    # --- utils.filter_files as Torrent._set_files calls it (C15): the two switchable tests and the switches at the call site
    dict(name='filterSkipsHidden', file='torf/_utils.py', func='filter_files', pick=('if-test-containing', 'is_hidden('),
         atoms={'is_hidden(relpath_without_base)': 'is_hidden'}, params=[('hidden', 'Bool'), ('is_hidden', 'Bool')], ret='Bool'),
    dict(name='filterSkipsEmpty', file='torf/_utils.py', func='filter_files', pick=('if-test-containing', 'real_size('),
         atoms={'os.path.exists(filepath)': 'path_exists', 'real_size(filepath)': 'size'},
         params=[('empty', 'Bool'), ('path_exists', 'Bool'), ('size', 'Int')], ret='Bool'),
    dict(name='setFilesHiddenSwitch', file='torf/_torrent.py', func='Torrent._set_files', pick=('kwarg', 'hidden'), params=[], ret='Bool'),
    dict(name='setFilesEmptySwitch', file='torf/_torrent.py', func='Torrent._set_files', pick=('kwarg', 'empty'), params=[], ret='Bool'),
    # --- is_file_match (C18): the piece-size window a candidate must fall into
    dict(name='reusePieceSizeOk', file='torf/_reuse.py', func='is_file_match', pick=('if-test-containing', 'piece_size_min'),
         atoms={'torrent.piece_size_min': 'pmin', 'candidate.piece_size': 'cand', 'torrent.piece_size_max': 'pmax'},
         params=[('pmin', 'Int'), ('cand', 'Int'), ('pmax', 'Int')], ret='Bool'),
    # --- Torrent.trackers getter / _trackers_changed (C16): when `announce` becomes a tier of its own, when `announce-list` is dropped
    dict(name='announcePrepended', file='torf/_torrent.py', func='Torrent.trackers', pick=('if-test-guarding', 'tiers.insert(0'),
         atoms={'announce is not None': 'has_announce', 'announce not in flat_urls': 'not_listed'},
         params=[('has_announce', 'Bool'), ('not_listed', 'Bool')], ret='Bool'),
    dict(name='announceListDropped', file='torf/_torrent.py', func='Torrent._trackers_changed',
         pick=('if-test-guarding', "pop('announce-list'"), atoms={'len(trackers.flat)': 'n_urls'},
         params=[('n_urls', 'Int')], ret='Bool'),
    # --- the type dispatch of utils.encode_value (C05): the exact types that pass, and the converter classes IN ORDER
    #     (isinstance is tried in this order: str before Sequence, bool before nothing else that would take it, …)
    dict(name='encodeAllowedTypes', kind='names', file='torf/_utils.py', var='ENCODE_ALLOWED_TYPES'),
    dict(name='encodeConverterOrder', kind='names', file='torf/_utils.py', var='ENCODE_CONVERTERS'),
    # --- Torrent.magnet (C06): the text put in front of the infohash to form the exact topic
    dict(name='magnetXtPrefix', kind='strings', file='torf/_torrent.py', func='Torrent.magnet', pick=('str-left-of', 'self.infohash')),
    # --- the type rules of Torrent.validate (C07): runs of `utils.assert_type(md, <key path>, <types>, must_exist=…, check=…)`
    #     statements, in source order, as data: key path (loop indices as "#i"/"#j"), type names, must_exist (default read
    #     from assert_type's signature), check function name.  block n = the n-th maximal run of consecutive calls.
    dict(name='validateCommonAsserts', kind='asserts', file='torf/_torrent.py', func='Torrent.validate', block=0),
    dict(name='validateSingleAsserts', kind='asserts', file='torf/_torrent.py', func='Torrent.validate', block='single'),
    dict(name='validateFileAsserts', kind='asserts', file='torf/_torrent.py', func='Torrent.validate', block='file'),
    dict(name='validateTierAsserts', kind='asserts', file='torf/_torrent.py', func='Torrent.validate', block="('announce-list', i)"),
    dict(name='validateTierUrlAsserts', kind='asserts', file='torf/_torrent.py', func='Torrent.validate', block="('announce-list', i, j)"),
    dict(name='validatePathCompAsserts', kind='asserts', file='torf/_torrent.py', func='Torrent.validate', block="('info', 'files', i, 'path', j)"),
    # --- the branch structure of Torrent.validate after the shared rules (C07): which arm of the if / elif chain is taken
    #     (0 = pieces empty, 1 = length not a multiple of 20, 2 = both 'length' and 'files', 3 = single-file, 4 = multi-file,
    #     5 = the else arm when the chain has one / falls through)
    dict(name='validateBranch', file='torf/_torrent.py', func='Torrent.validate', pick=('if-chain-branch', "len(info['pieces']) == 0"),
         atoms={"len(info['pieces'])": 'plen', "'length' in info": 'has_length', "'files' in info": 'has_files'},
         params=[('plen', 'Int'), ('has_length', 'Bool'), ('has_files', 'Bool')], ret='Int'),
    # --- _iter_from_file_handle (C01): how many bytes are read to fill the piece carried over from the previous file, and
    #     when a slice of the carried-over bytes counts as a complete piece
    dict(name='carryFillSize', file='torf/_stream.py', func='TorrentFileStream._iter_from_file_handle',
         pick=('kwarg-containing', 'size', 'len(piece)'), atoms={'len(piece)': 'carried'},
         params=[('piece_size', 'Int'), ('carried', 'Int')], ret='Int'),
    dict(name='carryComplete', file='torf/_stream.py', func='TorrentFileStream._iter_from_file_handle',
         pick=('if-test-containing', 'len(piece) == piece_size'), atoms={'len(piece)': 'carried'},
         params=[('carried', 'Int'), ('piece_size', 'Int')], ret='Bool'),
    # --- Collector._collect (C03): which results are stored as piece hashes
    dict(name='collectStores', file='torf/_generate.py', func='Collector._collect', pick=('if-test-guarding', '_hashes_unsorted.append'),
         atoms={'exceptions': 'has_exc', 'piece_hash': 'has_hash'},
         params=[('has_exc', 'Bool'), ('has_hash', 'Bool')], ret='Bool'),
    # --- the parameter tables of magnet URIs (C13): literal tuples of names; an element that is itself a tuple
    #     contributes its first component
    dict(name='magnetKnownParameters', kind='strings', file='torf/_magnet.py', func='Magnet',
         pick=('class-attr', '_KNOWN_PARAMETERS')),
    dict(name='magnetSingleParams', kind='strings', file='torf/_magnet.py', func='Magnet.from_string', pick=('for-tuple', 0)),
    dict(name='magnetMultiParams', kind='strings', file='torf/_magnet.py', func='Magnet.from_string', pick=('for-tuple', 1)),
    dict(name='magnetRenderSingle', kind='strings', file='torf/_magnet.py', func='Magnet.__str__', pick=('for-tuple', 0)),
    dict(name='magnetRenderMulti', kind='strings', file='torf/_magnet.py', func='Magnet.__str__', pick=('for-tuple', 1)),
    # --- loop kernels (C11): whole functions of TorrentFileStream, translated statement by statement into structural
    #     recursions over the list of file sizes (see `translate_loop`); a File is its index in Torrent.files
    dict(name='fileAtPositionFn', kind='loop', file='torf/_stream.py', func='TorrentFileStream.get_file_at_position',
         params=[('position', 'Int')], ignore=('content_path',), ret='File'),
    dict(name='filesAtByteRangeFn', kind='loop', file='torf/_stream.py', func='TorrentFileStream.get_files_at_byte_range',
         params=[('first_byte_index', 'Int'), ('last_byte_index', 'Int')], ignore=('content_path',), ret='Files'),
    dict(name='filePositionFn', kind='loop', file='torf/_stream.py', func='TorrentFileStream.get_file_position',
         params=[('file', 'File')], ret='Int'),
    dict(name='filesAtPieceIndexFn', kind='loop', file='torf/_stream.py', func='TorrentFileStream.get_files_at_piece_index',
         params=[('piece_index', 'Int'), ('piece_size', 'Int')], ignore=('content_path',),
         atoms={'self._torrent.piece_size': 'piece_size'}, calls={'self.get_files_at_byte_range': 'filesAtByteRangeFn'},
         ret='Files'),
    dict(name='byteRangeOfFileFn', kind='loop', file='torf/_stream.py', func='TorrentFileStream.get_byte_range_of_file',
         params=[('file', 'File'), ('file_size', 'Int')], atoms={'file.size': 'file_size'},
         calls={'self.get_file_position': 'filePositionFn'}, ret='IntPair'),
    # --- loop kernels, second batch (C11, C02): lists of integers (`list(range(…))`, `remove`, `in`, `xs[i]`, loops over
    #     them), a set that is added to and sorted, comparison with `[file]`, arguments left to literal defaults;
    #     `VerifyContentError.__init__`: a loop over (file, size) pairs whose result is the value stored in `self._files`
    dict(name='pieceIndexesOfFileFn', kind='loop', file='torf/_stream.py',
         func='TorrentFileStream.get_piece_indexes_of_file',
         params=[('file', 'File'), ('exclusive', 'Bool'), ('file_size', 'Int'), ('piece_size', 'Int')],
         atoms={'file.size': 'file_size', 'self._torrent.piece_size': 'piece_size'},
         calls={'self.get_file_position': 'filePositionFn', 'self.get_files_at_piece_index': 'filesAtPieceIndexFn'},
         ret='Ints'),
    dict(name='absolutePieceIndexesFn', kind='loop', file='torf/_stream.py',
         func='TorrentFileStream.get_absolute_piece_indexes',
         params=[('file', 'File'), ('relative_piece_indexes', 'Ints'), ('file_size', 'Int'), ('piece_size', 'Int')],
         atoms={'file.size': 'file_size', 'self._torrent.piece_size': 'piece_size'},
         calls={'self.get_piece_indexes_of_file': 'pieceIndexesOfFileFn'}, ret='Ints'),
    dict(name='relativePieceIndexesFn', kind='loop', file='torf/_stream.py',
         func='TorrentFileStream.get_relative_piece_indexes',
         params=[('relative_piece_indexes', 'Ints'), ('file_size', 'Int'), ('piece_size', 'Int')], ignore=('file',),
         atoms={'file.size': 'file_size', 'self._torrent.piece_size': 'piece_size'}, ret='Ints'),
    dict(name='corruptFilesFn', kind='loop', file='torf/_errors.py', func='VerifyContentError.__init__',
         params=[('piece_index', 'Int'), ('piece_size', 'Int')], ignore=('filepath',), files='file_sizes', pairs=True,
         result='self._files', ret='Files'),
    # --- the dictionary keys Torrent.validate / Torrent.read_stream read (C08): every string constant the function uses as a
    #     key (subscript, .get/.pop, in / == test, key-path tuple; harness/gen/keyharvest.py), sorted.  The bridge theorems say
    #     that each of them is in the vocabulary of the model (Model/KeyVocabulary.lean), outside of which the model provably
    #     ignores a metainfo (C08_unknown_key_irrelevant): a key the code starts reading breaks the obligation
    dict(name='validateKeys', kind='keys', file='torf/_torrent.py', func='Torrent.validate'),
    dict(name='readStreamKeys', kind='keys', file='torf/_torrent.py', func='Torrent.read_stream'),
    # --- loop kernels, third batch (C16): methods of an object whose state is ONE list of integers (`state=(source text,
    #     name)`: `self._items` is the extra first parameter; see `_StateFn`): the de-duplicating core of MonitoredList.
    #     An item is an integer (its identity after coercion: `self._coerce` is the identity here); the change callback
    #     (`skip`) is an effect outside the returned value.  `returns='state'`: the result is the new `_items`.
    dict(name='mlFilterFn', kind='loop', file='torf/_utils.py', func='MonitoredList._filter_func',
         params=[('self_items', 'Ints'), ('item', 'Int')], state=('self._items', 'self_items'), ret='OptInt'),
    dict(name='mlInsertFn', kind='loop', file='torf/_utils.py', func='MonitoredList.insert',
         params=[('self_items', 'Ints'), ('index', 'Int'), ('value', 'Int')], state=('self._items', 'self_items'),
         identity=('self._coerce',), skip=('if self._callback is not None:\n    self._callback(self)',),
         calls={'self._filter_func': 'mlFilterFn'}, returns='state', ret='Ints'),
    dict(name='mlSetItemFn', kind='loop', file='torf/_utils.py', func='MonitoredList.__setitem__',
         params=[('self_items', 'Ints'), ('index', 'Int'), ('value', 'Int')], state=('self._items', 'self_items'),
         identity=('self._coerce',), skip=('if self._callback is not None:\n    self._callback(self)',),
         not_a_slice=('index',), calls={'self._filter_func': 'mlFilterFn'}, returns='state', ret='Ints'),
    #     the same two methods on a `URLs` object (the only MonitoredList subclass C16 is about): `self._filter_func` is
    #     the override `URLs._filter_func`, which also looks at `self._get_known_urls()` — the URLs of the whole
    #     `Trackers` object, a second (read-only) list of integers `known` (`lists=`: expression text → parameter)
    dict(name='urlsFilterFn', kind='loop', file='torf/_utils.py', func='URLs._filter_func',
         params=[('self_items', 'Ints'), ('known', 'Ints'), ('url', 'Int')], state=('self._items', 'self_items'),
         lists={'self._get_known_urls()': 'known'}, ret='OptInt'),
    dict(name='urlsInsertFn', kind='loop', file='torf/_utils.py', func='MonitoredList.insert',
         params=[('self_items', 'Ints'), ('known', 'Ints'), ('index', 'Int'), ('value', 'Int')],
         state=('self._items', 'self_items'), lists={'self._get_known_urls()': 'known'},
         identity=('self._coerce',), skip=('if self._callback is not None:\n    self._callback(self)',),
         calls={'self._filter_func': 'urlsFilterFn'}, returns='state', ret='Ints'),
    dict(name='urlsSetItemFn', kind='loop', file='torf/_utils.py', func='MonitoredList.__setitem__',
         params=[('self_items', 'Ints'), ('known', 'Ints'), ('index', 'Int'), ('value', 'Int')],
         state=('self._items', 'self_items'), lists={'self._get_known_urls()': 'known'},
         identity=('self._coerce',), skip=('if self._callback is not None:\n    self._callback(self)',),
         not_a_slice=('index',), calls={'self._filter_func': 'urlsFilterFn'}, returns='state', ret='Ints'),
]


LEAN_KEYWORDS = {'have', 'show', 'from', 'fun', 'let', 'in', 'at', 'do', 'then', 'else', 'if', 'match', 'with', 'end', 'open',
                 'def', 'theorem', 'by', 'where', 'structure', 'class', 'instance', 'meta', 'import', 'namespace', 'section', 'variable'}
for _k in KERNELS:
    for _n, _t in _k.get('params', []):
        assert _n not in LEAN_KEYWORDS, f'kernel {_k["name"]}: parameter name {_n} is a Lean keyword'


class CannotTranslate(Exception):
    pass


def _find_func(tree, qual):
    parts = qual.split('.')
    node = tree
    for p in parts:
        found = None
        setter = p.endswith('@setter')          # `name@setter`: the function decorated with @name.setter
        p = p.split('@')[0]
        for ch in ast.walk(node) if node is tree else ast.iter_child_nodes(node):
            if isinstance(ch, (ast.FunctionDef, ast.ClassDef)) and ch.name == p and (
                    not setter or any(isinstance(d, ast.Attribute) and d.attr == 'setter'
                                      for d in getattr(ch, 'decorator_list', []))):
                found = ch
                break
        if found is None:
            # search deeper (nested functions)
            for ch in ast.walk(node):
                if isinstance(ch, (ast.FunctionDef, ast.ClassDef)) and ch.name == p:
                    found = ch
                    break
        if found is None:
            raise CannotTranslate(f'function {qual} not found')
        node = found
    return node


def _pick(fn, pick):
    kind = pick[0]
    if kind == 'function':
        return fn
    if kind in ('assign', 'assign-first'):
        hits = [n for n in ast.walk(fn) if isinstance(n, ast.Assign) and len(n.targets) == 1 and
                isinstance(n.targets[0], ast.Name) and n.targets[0].id == pick[1]]
        if not hits:
            raise CannotTranslate(f'no assignment to {pick[1]}')
        hits.sort(key=lambda n: n.lineno)
        if kind == 'assign' and len(hits) > 1 and len({ast.dump(h.value) for h in hits}) > 1:
            raise CannotTranslate(f'several different assignments to {pick[1]}')
        return hits[0].value
    if kind == 'assign-containing':
        hits = [n for n in ast.walk(fn) if isinstance(n, ast.Assign) and len(n.targets) == 1 and
                isinstance(n.targets[0], ast.Name) and n.targets[0].id == pick[1] and pick[2] in ast.unparse(n.value)]
        if len(hits) != 1:
            raise CannotTranslate(f'{len(hits)} assignments to {pick[1]} containing {pick[2]}')
        return hits[0].value
    if kind == 'if-test-guarding':
        hits = [n for n in ast.walk(fn) if isinstance(n, ast.If) and
                any(pick[1] in ast.unparse(s) for s in n.body[:2]) and
                not any(isinstance(s, ast.If) and pick[1] in ast.unparse(s) for s in n.body)]
        hits = [h for h in hits if pick[1] in '\n'.join(ast.unparse(s) for s in h.body if not isinstance(s, ast.If))]
        if len(hits) != 1:
            raise CannotTranslate(f'{len(hits)} if-statements guarding {pick[1]}')
        return hits[0].test
    if kind == 'if-test-containing':
        hits = [n for n in ast.walk(fn) if isinstance(n, ast.If) and pick[1] in ast.unparse(n.test)]
        if len(hits) != 1:
            raise CannotTranslate(f'{len(hits)} if-tests containing {pick[1]}')
        return hits[0].test
    if kind == 'while-test-guarding':
        hits = [n for n in ast.walk(fn) if isinstance(n, ast.While) and any(pick[1] in ast.unparse(b) for b in n.body)]
        if len(hits) != 1:
            raise CannotTranslate(f'{len(hits)} while-loops guarding {pick[1]}')
        return hits[0].test
    if kind == 'class-attr':
        hits = [n for n in fn.body if isinstance(n, ast.Assign) and len(n.targets) == 1 and
                isinstance(n.targets[0], ast.Name) and n.targets[0].id == pick[1]]
        if len(hits) != 1:
            raise CannotTranslate(f'{len(hits)} class-level assignments to {pick[1]}')
        return hits[0].value
    if kind == 'if-chain-branch':
        # the top-level `if t0: … elif t1: … [else: …]` chain whose first test has the given text  →  the number of the arm taken
        hits = [n for n in fn.body if isinstance(n, ast.If) and ast.unparse(n.test) == pick[1]]
        if len(hits) != 1:
            raise CannotTranslate(f'{len(hits)} top-level if-chains starting with {pick[1]}')
        tests, node = [], hits[0]
        while True:
            tests.append(node.test)
            if len(node.orelse) == 1 and isinstance(node.orelse[0], ast.If):
                node = node.orelse[0]
            else:
                break
        expr = ast.Constant(value=len(tests))
        for i in range(len(tests) - 1, -1, -1):
            expr = ast.IfExp(test=tests[i], body=ast.Constant(value=i), orelse=expr)
        return expr
    if kind == 'if-chain-assign':
        # `if c1: v = e1 elif c2: v = e2 … else: v = en`  →  the conditional expression it computes
        def chain(node):
            if isinstance(node, ast.If):
                if len(node.body) != 1 or len(node.orelse) != 1:
                    raise CannotTranslate('branch of the chain is not a single statement')
                return ast.IfExp(test=node.test, body=chain(node.body[0]), orelse=chain(node.orelse[0]))
            if (isinstance(node, ast.Assign) and len(node.targets) == 1 and isinstance(node.targets[0], ast.Name)
                    and node.targets[0].id == pick[1]):
                return node.value
            raise CannotTranslate(f'statement in the chain assigning {pick[1]}: {type(node).__name__}')
        hits = [n for n in fn.body if isinstance(n, ast.If) and pick[1] + ' =' in ast.unparse(n)]
        if len(hits) != 1:
            raise CannotTranslate(f'{len(hits)} top-level if-chains assigning {pick[1]}')
        return chain(hits[0])
    if kind == 'str-left-of':
        # the string constant(s) concatenated in front of the named expression: `'<text>' + <expr>` (as a one-element tuple)
        hits = [n for n in ast.walk(fn) if isinstance(n, ast.BinOp) and isinstance(n.op, ast.Add) and
                isinstance(n.left, ast.Constant) and isinstance(n.left.value, str) and ast.unparse(n.right) == pick[1]]
        if len(hits) != 1:
            raise CannotTranslate(f'{len(hits)} string constants in front of {pick[1]}')
        return ast.Tuple(elts=[hits[0].left], ctx=ast.Load())
    if kind == 'for-tuple':
        # the n-th `for … in (<literal tuple>)` loop of the function, in source order
        hits = sorted((n for n in ast.walk(fn) if isinstance(n, ast.For) and isinstance(n.iter, ast.Tuple)),
                      key=lambda n: n.lineno)
        if len(hits) <= pick[1]:
            raise CannotTranslate(f'only {len(hits)} loops over a literal tuple')
        return hits[pick[1]].iter
    if kind == 'attr-assign':
        # the value assigned to an attribute, e.g. `self.piece_size = <value>`
        hits = [n for n in ast.walk(fn) if isinstance(n, ast.Assign) and len(n.targets) == 1 and
                ast.unparse(n.targets[0]) == pick[1]]
        if len(hits) != 1:
            raise CannotTranslate(f'{len(hits)} assignments to {pick[1]}')
        return hits[0].value
    if kind == 'kwarg':
        hits = [k.value for n in ast.walk(fn) if isinstance(n, ast.Call) for k in n.keywords if k.arg == pick[1]]
        if not hits or len({ast.dump(h) for h in hits}) != 1:
            raise CannotTranslate(f'keyword argument {pick[1]} not found uniquely')
        return hits[0]
    if kind == 'kwarg-containing':
        hits = [k.value for n in ast.walk(fn) if isinstance(n, ast.Call) for k in n.keywords
                if k.arg == pick[1] and pick[2] in ast.unparse(k.value)]
        if not hits or len({ast.dump(h) for h in hits}) != 1:
            raise CannotTranslate(f'keyword argument {pick[1]} containing {pick[2]} not found uniquely')
        return hits[0]
    if kind == 'return':
        hits = [n for n in ast.walk(fn) if isinstance(n, ast.Return)]
        if len(hits) != 1:
            raise CannotTranslate(f'{len(hits)} return statements')
        return hits[0].value
    if kind == 'return-first':
        hits = sorted((n for n in ast.walk(fn) if isinstance(n, ast.Return) and n.value is not None),
                      key=lambda n: n.lineno)
        if not hits:
            raise CannotTranslate('no return')
        return hits[0].value
    raise CannotTranslate(f'unknown pick {pick}')


class Tr:
    def __init__(self, params, atoms):
        self.types = dict(params)
        self.atoms = atoms or {}

    def atom(self, node):
        src = ast.unparse(node)
        if src in self.atoms:
            return self.atoms[src]
        return None

    def int_(self, n):
        a = self.atom(n)
        if a is not None:
            if self.types.get(a) != 'Int':
                raise CannotTranslate(f'{a} used as Int')
            return a
        if isinstance(n, ast.Constant) and isinstance(n.value, int) and not isinstance(n.value, bool):
            return f'({n.value} : Int)' if n.value >= 0 else f'(({n.value}) : Int)'
        if isinstance(n, ast.Name):
            if self.types.get(n.id) == 'Int':
                return n.id
            raise CannotTranslate(f'unknown integer name {n.id}')
        if isinstance(n, ast.UnaryOp) and isinstance(n.op, ast.USub):
            return f'(-{self.int_(n.operand)})'
        if isinstance(n, ast.BinOp):
            # -(-a // b)  : ceiling division
            if isinstance(n.op, ast.Pow) and isinstance(n.right, ast.Constant) and isinstance(n.right.value, int) \
                    and not isinstance(n.right.value, bool) and n.right.value >= 0:
                return f'({self.int_(n.left)} ^ ({n.right.value} : Nat))'
            ops = {ast.Add: '+', ast.Sub: '-', ast.Mult: '*', ast.FloorDiv: '/', ast.Mod: '%'}
            for t, sym in ops.items():
                if isinstance(n.op, t):
                    return f'({self.int_(n.left)} {sym} {self.int_(n.right)})'
            raise CannotTranslate(f'operator {type(n.op).__name__}')
        if isinstance(n, ast.Call):
            f = ast.unparse(n.func)
            if f in ('int', 'math.floor') and len(n.args) == 1:
                a = n.args[0]
                if isinstance(a, ast.BinOp) and isinstance(a.op, ast.Div):
                    return f'({self.int_(a.left)} / {self.int_(a.right)})'
                if isinstance(a, ast.BinOp) and isinstance(a.op, ast.Mult):
                    # int(x * 0.9): the float constant is read as the decimal fraction it is written as; checked here
                    # for every x in 0 .. 200000 against Python's own float arithmetic (beyond that: trusted base)
                    for x, c in ((a.left, a.right), (a.right, a.left)):
                        if isinstance(c, ast.Constant) and isinstance(c.value, float):
                            from fractions import Fraction
                            fr = Fraction(repr(c.value))
                            if fr <= 0 or any(int(v * c.value) != v * fr.numerator // fr.denominator for v in range(200001)):
                                raise CannotTranslate(f'float constant {c.value!r}: exact integer reading does not agree')
                            return f'(({self.int_(x)} * ({fr.numerator} : Int)) / ({fr.denominator} : Int))'
                if f == 'int':
                    return self.int_(a)
            if f == 'math.ceil' and len(n.args) == 1:
                a = n.args[0]
                if isinstance(a, ast.BinOp) and isinstance(a.op, ast.Div):
                    l, r = self.int_(a.left), self.int_(a.right)
                    return f'(({l} + {r} - 1) / {r})'
            if f == 'abs' and len(n.args) == 1:
                return f'((Int.natAbs {self.int_(n.args[0])} : Nat) : Int)'
            if f in ('min', 'max') and len(n.args) == 2:
                return f'({f} {self.int_(n.args[0])} {self.int_(n.args[1])})'
            raise CannotTranslate(f'call {f}')
        if isinstance(n, ast.IfExp):
            return f'(if {self.bool_(n.test)} then {self.int_(n.body)} else {self.int_(n.orelse)})'
        raise CannotTranslate(f'integer expression {ast.unparse(n)}')

    def bool_(self, n):
        a = self.atom(n)
        if a is not None:
            if self.types.get(a) != 'Bool':
                raise CannotTranslate(f'{a} used as Bool')
            return a
        if isinstance(n, ast.Constant) and isinstance(n.value, bool):
            return 'true' if n.value else 'false'
        if isinstance(n, ast.Name) and self.types.get(n.id) == 'Bool':
            return n.id
        if isinstance(n, ast.BoolOp):
            # flatten `a or b and c` keeping Python's precedence; also try atoms on sub-groups
            sym = '||' if isinstance(n.op, ast.Or) else '&&'
            vals = list(n.values)
            # an atom may span the tail of an `or` chain (e.g. `x is not None and x != y` inside `a or b or x…`)
            return '(' + f' {sym} '.join(self.bool_(v) for v in vals) + ')'
        if isinstance(n, ast.UnaryOp) and isinstance(n.op, ast.Not):
            return f'(!{self.bool_(n.operand)})'
        if isinstance(n, ast.Compare):
            ops = {ast.LtE: '≤', ast.Lt: '<', ast.GtE: '≥', ast.Gt: '>', ast.Eq: '=', ast.NotEq: '≠'}
            parts = []
            left = n.left
            for op, right in zip(n.ops, n.comparators):
                sym = ops.get(type(op))
                if sym is None:
                    raise CannotTranslate(f'comparison {type(op).__name__}')
                parts.append(f'decide ({self.int_(left)} {sym} {self.int_(right)})')
                left = right
            return '(' + ' && '.join(parts) + ')'
        raise CannotTranslate(f'boolean expression {ast.unparse(n)}')

    def function(self, fn, ret):
        """body of the form: (if test: return X)* return Y"""
        def go(stmts):
            stmts = [s for s in stmts if not (isinstance(s, ast.Expr) and isinstance(s.value, ast.Constant))]
            if not stmts:
                raise CannotTranslate('function body falls through')
            s = stmts[0]
            if isinstance(s, ast.Return):
                return self.bool_(s.value) if ret == 'Bool' else self.int_(s.value)
            if isinstance(s, ast.If) and not s.orelse:
                return f'(if {self.bool_(s.test)} then {go(s.body)} else {go(stmts[1:])})'
            if isinstance(s, ast.If):
                return f'(if {self.bool_(s.test)} then {go(s.body)} else {go(s.orelse)})'
            raise CannotTranslate(f'statement {type(s).__name__}')
        return go(fn.body)


_ALL_CHARS = None
_CSET_CACHE = {}


def _cset(pattern_text, flags):
    """the set of code points (surrogates excluded) a one-character pattern matches, asked from the re engine"""
    global _ALL_CHARS
    key = (pattern_text, flags)
    if key not in _CSET_CACHE:
        if _ALL_CHARS is None:
            _ALL_CHARS = ''.join(chr(c) for c in range(0x110000) if not 0xD800 <= c <= 0xDFFF)
        pts = [ord(c) for c in re.compile(pattern_text, flags | re.DOTALL).findall(_ALL_CHARS)]
        ranges = []
        for c in pts:
            if ranges and ranges[-1][1] + 1 == c:
                ranges[-1][1] = c
            else:
                ranges.append([c, c])
        _CSET_CACHE[key] = ranges
    return _CSET_CACHE[key]


def _class_text(items):
    """re-build the text of a character class from its parse tree (ranges and literals only)"""
    from re import _constants as C
    out, neg = [], False
    for op, av in items:
        if op is C.NEGATE:
            neg = True
        elif op is C.LITERAL:
            out.append('\\U%08x' % av)
        elif op is C.RANGE:
            out.append('\\U%08x-\\U%08x' % av)
        else:
            raise CannotTranslate(f'character class item {op}')
    return '[' + ('^' if neg else '') + ''.join(out) + ']'


def _one_char(item, flags):
    from re import _constants as C
    op, av = item
    if op is C.LITERAL:
        return _cset('\\U%08x' % av, flags)
    if op is C.IN:
        return _cset(_class_text(av), flags)
    raise CannotTranslate(f'pattern item {op}')


def _lean_cset(ranges):
    return '[' + ', '.join(f'({a}, {b})' for a, b in ranges) + ']'


def translate_regex(repo, k):
    from re import _constants as C, _parser
    src = open(os.path.join(repo, k['file'])).read()
    tree = ast.parse(src)
    hits = [n for n in ast.walk(tree) if isinstance(n, ast.Assign) and len(n.targets) == 1 and
            isinstance(n.targets[0], ast.Name) and n.targets[0].id == k['var']]
    if len(hits) != 1:
        raise CannotTranslate(f'{len(hits)} assignments to {k["var"]}')
    call = hits[0].value
    if not (isinstance(call, ast.Call) and ast.unparse(call.func) == 're.compile' and call.args and
            isinstance(call.args[0], ast.Constant) and isinstance(call.args[0].value, str)):
        raise CannotTranslate(f'{k["var"]} is not re.compile(<literal>)')
    pattern = call.args[0].value
    flag_node = call.args[1] if len(call.args) > 1 else next((kw.value for kw in call.keywords if kw.arg == 'flags'), None)
    flags = 0
    if flag_node is not None:
        for n in ast.walk(flag_node):
            if isinstance(n, (ast.BinOp, ast.BitOr, ast.Load)):
                continue
            if isinstance(n, ast.Attribute) and isinstance(n.value, ast.Name) and n.value.id == 're' and n.attr.isupper():
                flags |= int(getattr(re, n.attr))
            elif isinstance(n, ast.Name) and n.id == 're':
                continue
            else:
                raise CannotTranslate(f'flags expression {ast.unparse(flag_node)}')
    if flags & (re.MULTILINE | re.VERBOSE | re.LOCALE):
        raise CannotTranslate('MULTILINE / VERBOSE / LOCALE pattern')
    # how the pattern object is used: every use must be <var>.match( / .fullmatch( ; .search( only behind a leading ^
    uses = set(re.findall(r'\b' + re.escape(k['var']) + r'\.(\w+)\(', src))
    items = list(_parser.parse(pattern, flags))
    flags = _parser.parse(pattern, flags).state.flags      # includes the implicit UNICODE flag of str patterns
    anchored = bool(items) and items[0] == (C.AT, C.AT_BEGINNING)
    if anchored:
        items = items[1:]
    if not uses or not uses <= {'match', 'fullmatch', 'search'} or ('search' in uses and not anchored):
        raise CannotTranslate(f'uses of the pattern object: {sorted(uses)}')
    end = 'open'
    if items and items[-1][0] is C.AT:
        if items[-1][1] is C.AT_END:
            end = 'dollar'
        elif items[-1][1] is C.AT_END_STRING:
            end = 'absolute'
        else:
            raise CannotTranslate(f'anchor {items[-1][1]}')
        items = items[:-1]
    if uses == {'fullmatch'}:
        end = 'absolute'
    elif 'fullmatch' in uses:
        raise CannotTranslate('pattern used both with match and fullmatch')
    if not items:
        raise CannotTranslate('empty pattern')

    def alt_of(seq):
        if len(seq) != 1:
            raise CannotTranslate('alternative is not a single repeated set')
        op, av = seq[0]
        if op in (C.LITERAL, C.IN):
            lo, hi, body = 1, 1, [seq[0]]
        elif op is C.MAX_REPEAT:
            lo, hi, body = av
            body = list(body)
        else:
            raise CannotTranslate(f'alternative {op}')
        if len(body) != 1:
            raise CannotTranslate('repeat of more than one position')
        his = 'none' if hi == C.MAXREPEAT else f'(some {int(hi)})'
        return f'⟨{_lean_cset(_one_char(body[0], flags))}, {int(lo)}, {his}⟩'

    last = items[-1]
    if last[0] is C.SUBPATTERN:
        group, add, dele, body = last[1]
        if add or dele:
            raise CannotTranslate('inline flags')
        body = list(body)
        if len(body) == 1 and body[0][0] is C.BRANCH:
            alts = [alt_of(list(b)) for b in body[0][1][1]]
        else:
            alts = [alt_of(body)]
    else:
        alts = [alt_of([last])]
    pre = [_lean_cset(_one_char(it, flags)) for it in items[:-1]]
    body = ('{ pre := [' + ', '.join(pre) + '],\n    alts := [' + ',\n             '.join(alts) + '],\n    endA := .' + end + ' }')
    return f'def {k["name"]} : Torf.Rx.Shape :=\n  {body}'


def translate_strings(repo, k):
    tree = ast.parse(open(os.path.join(repo, k['file'])).read())
    node = _pick(_find_func(tree, k['func']), k['pick'])
    if not isinstance(node, (ast.Tuple, ast.List)):
        raise CannotTranslate('not a literal tuple / list')
    out = []
    for e in node.elts:
        if isinstance(e, (ast.Tuple, ast.List)) and e.elts:
            e = e.elts[0]
        if not (isinstance(e, ast.Constant) and isinstance(e.value, str) and e.value.isascii() and e.value.isprintable()
                and '"' not in e.value and '\\' not in e.value):
            raise CannotTranslate(f'element {ast.unparse(e)}')
        out.append('"' + e.value + '"')
    return f'def {k["name"]} : List String :=\n  [' + ', '.join(out) + ']'


# =====================================================================================================================
# kernel kind `loop`: whole functions with (at most) one `for <file> in self._torrent.files:` loop
#
# The function body is translated *statement by statement* (continuation style: what follows a statement is translated
# inside each branch that reaches it) into Lean:
#
#     x = <int expr> / x += … / x = <bool expr>     let x : Int := …            (arithmetic / comparisons: class `Tr`)
#     xs = []  /  xs.append(<file>)                  let xs : List Nat := [] / xs ++ [<index of the file>]
#     x = <file>  (the loop variable, or self._get_content_path(…, file=<file>))      let x : Nat := <index of the file>
#     if c: A else: B                                if c then ⟦A; rest⟧ else ⟦B; rest⟧
#     assert c                                       if c then ⟦rest⟧ else .raised "AssertionError"
#     return <file> / <list> / <int> / <int>, <int>  .ret …                      (the rest is dropped: a `return` inside
#                                                                                  the loop ends the loop)
#     raise Exc(…)                                   .raised "Exc"
#     x = self.other(…)   (other: a loop kernel)     Out.bind (otherFn sizes …) fun x => ⟦rest⟧
#     try: i = self._torrent.files.index(f)          if f < sizes.length then let i : Int := f; ⟦else-block; rest⟧
#     except ValueError: H  else: E                  else ⟦H; rest⟧           (a File is its index; ≥ length: not listed)
#     sum(f.size for f in self._torrent.files[:k])   List.sum (sliceTo sizes k)
#     for file in self._torrent.files: BODY          <name>.loop <unchanged locals> sizes 0 <locals assigned in BODY>
#
# and the loop itself becomes `def <name>.loop <unchanged locals> : List Int → Nat → <assigned locals…> → Out _` with
#     | [], _, locals…               => ⟦statements after the loop⟧
#     | file_size :: file_rest, file, locals… => ⟦BODY; <name>.loop … file_rest (file + 1) locals…⟧
# (`file` is the index of the current file, `file.size` is `file_size`; `continue` is the recursive call, `break` the
# statements after the loop).  Only `file.size` and the identity of `file` may be read from the loop variable.  Names
# assigned inside BODY but not before the loop are local to one iteration (reading one that is not assigned on the
# current path is refused).  Everything else — other statements, calls, attribute reads, nested loops, `for … else`,
# tuple targets, aliasing of lists — raises CannotTranslate and the committed snapshot of the kernel is kept.
#
# Second batch (lists of integers, pairs, functions whose result is stored in an attribute); types: `Ints` = a Python
# list of integers (`List Int`), `IntSet` = a set of integers that is only added to (`List Int`: the added values):
#
#     xs = list(range(a, b)) / list(range(b))        let xs : List Int := Torf.Loop.pyRange a b
#     xs = [e1, e2] / ys = list(xs) / tuple(xs)      list display of integers or of files; a copy has the same elements; a
#                                                    tuple of files has its own type (`FilesT`: readable, returnable, but no
#                                                    append / remove / `==` with a list)
#     xs.append(e) / xs.remove(e)   (xs : Ints)      xs ++ [e] / if xs.contains e then let xs := xs.erase e; ⟦rest⟧
#                                                                else .raised "ValueError"     (first occurrence)
#     e in xs / e not in xs / len(xs) / if xs:       List.contains xs e / … / List.length / !xs.isEmpty
#     x = xs[e]                     (xs : Ints)      Out.bind (Out.ofOption (Torf.Loop.getIdx xs e) "IndexError") fun x => ⟦rest⟧
#     fs == [file] / fs != [file] / xs == ys         decide (fs = [file]) …  — only between *lists*: a local that may hold
#                                                    a tuple (an argument; assigned a tuple display / tuple(…)) is refused
#     s = set() / s.add(e) / sorted(s)               let s : List Int := [] / s ++ [e] / Torf.Loop.sortedSet s
#     for x in xs: BODY             (xs : Ints)      <name>.loop <unchanged locals, alphabetically> : List Int →
#                                                    <assigned locals, alphabetically> → Out _ ; x is a plain local of the
#                                                    iteration (BODY may re-assign it); xs itself must not be changed
#     self.other(a)   (b left to its default)        the literal default (True / False / integer) written in the signature
#                                                    of `other` is passed
#   kernels with `pairs=True, files='<argument>'` (the argument is a list of (file, size) pairs; it becomes `sizes`):
#     for a, b in <pairs>: BODY                      as `for file in files`, `a` the index of the pair, `b` its size; the
#                                                    names may shadow an opaque argument (after the loop they are opaque)
#     len(<pairs>) / <pairs>[c][0]  (c ≥ 0 literal)  List.length sizes / the file c behind `if c < length … else IndexError`
#   kernels with `result='self.<attr>'` (an __init__: nothing is returned):
#     self.<attr> = <value>                          .ret <value> — the one store to that attribute (checked) ends the
#                                                    translation; what follows it is not part of the kernel
#     self.<other> = <name or constant>              skipped if `self.<other>` is never read in the function
#     msg = f'…{e}…' / msg += '…' + ', '.join(str(f) for f in xs)       *message expressions* (an f-string / string constant
#                                                    / `+` of such) are not translated: the name becomes opaque; only the
#                                                    bounds checks of the subscripts `xs[c]` in them are (`IndexError`);
#                                                    everything in them must be on a white list (names, constants, + - *,
#                                                    str() / repr(), '<sep>'.join(<generator over a list local>), xs[c]);
#                                                    trusted: str() / format() of a value has no effect and does not raise
# =====================================================================================================================

_LOOP_LEAN_TYPES = {'Int': 'Int', 'Bool': 'Bool', 'File': 'Nat', 'Files': 'List Nat', 'IntPair': 'Int × Int',
                    'Ints': 'List Int', 'IntSet': 'List Int', 'FilesT': 'List Nat'}
_LOOP_RESERVED = set('''
    sizes min max decide some none true false Int Nat List Bool String Option Prod fun let if then else match with do
    at from end open def theorem by have show in where instance structure inductive class namespace section import
    universe variable set_option mutual private protected partial unsafe macro syntax notation infix infixl infixr prefix
    postfix deriving extends for unless return try catch finally mut using calc then abbrev example axiom opaque
    noncomputable nomatch nofun this Type Prop Sort forall exists termination_by decreasing_by attribute export local
    omit include'''.split())


def _loop_ident(name):
    if not re.fullmatch(r'[a-z_][a-z0-9_]*', name) or name in _LOOP_RESERVED or name == '_' or '.' in name:
        raise CannotTranslate(f'name {name!r} cannot be used as a Lean identifier here')
    return name


class _LoopExpr(Tr):
    """expressions of a loop kernel: the arithmetic / comparisons of `Tr`, sums over file sizes, truth of a list"""

    def __init__(self, env, atoms, files_src, fileref=None, maybe_tuple=()):
        super().__init__([(n, t) for n, t in env.items()], atoms)
        self.files_src = files_src
        self.fileref = fileref or (lambda n: None)
        self.maybe_tuple = maybe_tuple

    def list_(self, n):
        """(Lean term, 'Files' | 'Ints') if `n` is a *list* of files / of integers that can be compared with `==`, else
        None: a local of that type that is known to be a list (not an argument, never assigned a tuple), or a list
        display of files (`[file]`) or of integers.  (Python: a list never equals a tuple.)"""
        if isinstance(n, ast.Name) and self.types.get(n.id) in ('Files', 'Ints') and self.atom(n) is None:
            if n.id in self.maybe_tuple:
                raise CannotTranslate(f'{n.id} may be a tuple: comparison refused')
            return n.id, self.types[n.id]
        if isinstance(n, ast.List) and n.elts:
            refs = [self.fileref(e) for e in n.elts]
            if all(r is not None for r in refs):
                return '[' + ', '.join(refs) + ']', 'Files'
            if not any(r is not None for r in refs):
                return '[' + ', '.join(self.int_(e) for e in n.elts) + ']', 'Ints'
        return None

    def int_(self, n):
        if isinstance(n, ast.Call) and ast.unparse(n.func) == 'sum':
            if len(n.args) == 1 and not n.keywords and isinstance(n.args[0], ast.GeneratorExp):
                g = n.args[0]
                c = g.generators[0]
                if (len(g.generators) == 1 and not c.ifs and not c.is_async and isinstance(c.target, ast.Name)
                        and isinstance(g.elt, ast.Attribute) and isinstance(g.elt.value, ast.Name)
                        and g.elt.value.id == c.target.id and g.elt.attr == 'size'):
                    it = c.iter
                    if ast.unparse(it) == self.files_src:
                        return '(List.sum sizes)'
                    if (isinstance(it, ast.Subscript) and ast.unparse(it.value) == self.files_src
                            and isinstance(it.slice, ast.Slice) and it.slice.lower is None and it.slice.step is None
                            and it.slice.upper is not None):
                        return f'(List.sum (Torf.Loop.sliceTo sizes {self.int_(it.slice.upper)}))'
            raise CannotTranslate(f'sum expression {ast.unparse(n)}')
        if (isinstance(n, ast.Call) and ast.unparse(n.func) == 'len' and len(n.args) == 1 and not n.keywords
                and isinstance(n.args[0], ast.Name) and self.types.get(n.args[0].id) in ('Files', 'Ints', 'FilesT')):
            return f'((List.length {n.args[0].id} : Nat) : Int)'
        if (isinstance(n, ast.Call) and ast.unparse(n.func) == 'len' and len(n.args) == 1 and not n.keywords
                and ast.unparse(n.args[0]) == self.files_src):
            return '((List.length sizes : Nat) : Int)'
        return super().int_(n)

    def bool_(self, n):
        if isinstance(n, ast.Name) and self.types.get(n.id) in ('Files', 'Ints', 'FilesT') and self.atom(n) is None:
            return f'(!(List.isEmpty {n.id}))'
        if isinstance(n, ast.Compare) and len(n.ops) == 1 and self.atom(n) is None:
            op, l, r = n.ops[0], n.left, n.comparators[0]
            if isinstance(op, (ast.In, ast.NotIn)):
                # `x in xs` for a list of integers
                if not (isinstance(r, ast.Name) and self.types.get(r.id) == 'Ints'):
                    raise CannotTranslate(f'membership test {ast.unparse(n)}')
                t = f'(List.contains {r.id} {self.int_(l)})'
                return t if isinstance(op, ast.In) else f'(!{t})'
            if isinstance(op, (ast.Eq, ast.NotEq)):
                # `fs == [file]`, `xs != ys` : lists of files / of integers (element-wise, as Python compares lists)
                a, b = self.list_(l), self.list_(r)
                if a is not None or b is not None:
                    if a is None or b is None or a[1] != b[1]:
                        raise CannotTranslate(f'list comparison {ast.unparse(n)}')
                    t = f'(decide ({a[0]} = {b[0]}))'
                    return t if isinstance(op, ast.Eq) else f'(!{t})'
        return super().bool_(n)


def _loop_kernel_by_name(name):
    for k in KERNELS:
        if k['name'] == name and k.get('kind') == 'loop':
            return k
    raise CannotTranslate(f'callee kernel {name} is not a loop kernel')


def _signature_args(fn):
    a = fn.args
    if a.vararg or a.kwarg or a.kwonlyargs or a.posonlyargs:
        raise CannotTranslate('signature with * / ** / keyword-only / positional-only arguments')
    names = [x.arg for x in a.args]
    if names[:1] != ['self']:
        raise CannotTranslate('not a method')
    return names[1:]


class _LoopFn:
    def __init__(self, k, tree):
        self.k = k
        self.tree = tree
        self.name = k['name']
        self.ret = k['ret']
        self.atoms = dict(k.get('atoms') or {})
        self.files_src = k.get('files', 'self._torrent.files')
        self.wrappers = tuple(k.get('wrappers', ('self._get_content_path',)))
        self.calls = dict(k.get('calls') or {})
        self.aux = []
        self.loops = 0
        self.fn = _find_func(tree, k['func'])
        self.all_names = {n.id for n in ast.walk(self.fn) if isinstance(n, ast.Name)} | \
                         {a.arg for a in ast.walk(self.fn) if isinstance(a, ast.arg)}
        self.messages = set()                   # locals that hold a message string (opaque, see `message_guards`)
        self.pairs = bool(k.get('pairs'))       # `files` is a list of (file, size) pairs: `for a, b in <files>`
        self.result = k.get('result')           # `self.<attr> = <value>` is what the function computes (an __init__)
        # list-typed arguments may be handed a tuple by the caller: `==` with a list is refused, and so are append / remove
        self.maybe_tuple = {p for p, t in k['params'] if t in ('Ints', 'Files')}

    # ---- expressions -------------------------------------------------------------------------------------------
    def ex(self, env, loop):
        atoms = dict(self.atoms)
        env = dict(env)
        if loop is not None and loop['var'] is not None:
            atoms[f'{loop["var"]}.size'] = loop['size']
            env[loop['size']] = 'Int'
        fenv = dict(env)
        return _LoopExpr(env, atoms, self.files_src, lambda n: self.fileref(n, fenv), self.maybe_tuple)

    def pair_index(self, n):
        """c if `n` is `<pairs>[c]` for an integer constant c ≥ 0, else None"""
        if (self.pairs and isinstance(n, ast.Subscript) and ast.unparse(n.value) == self.files_src
                and isinstance(n.slice, ast.Constant) and isinstance(n.slice.value, int)
                and not isinstance(n.slice.value, bool) and n.slice.value >= 0):
            return n.slice.value
        return None

    def pair_guards(self, n):
        """bounds checks (Lean conditions) of the `<pairs>[c]` subscripts in `n` (IndexError otherwise)"""
        cs = sorted({self.pair_index(m) for m in ast.walk(n)} - {None})
        return [f'(Option.isSome (Torf.Loop.getIdx sizes ({c} : Int)))' for c in cs]

    def guarded(self, conds, lines):
        for c in reversed(conds):
            lines = [f'if {c} then'] + self.ind(lines) + ['else', '  .raised "IndexError"']
        return lines

    def fileref(self, n, env):
        """Lean term (an index) if `n` denotes a File of the torrent, else None"""
        if isinstance(n, ast.Name) and env.get(n.id) == 'File':
            return n.id
        if (isinstance(n, ast.Subscript) and isinstance(n.slice, ast.Constant) and n.slice.value == 0
                and not isinstance(n.slice.value, bool) and self.pair_index(n.value) is not None):
            return f'({self.pair_index(n.value)} : Nat)'        # `<pairs>[c][0]`: needs `pair_guards`
        if isinstance(n, ast.Call) and ast.unparse(n.func) in self.wrappers:
            kw = [q for q in n.keywords if q.arg == 'file']
            if len(kw) == 1 and isinstance(kw[0].value, ast.Name) and env.get(kw[0].value.id) == 'File':
                for a in list(n.args) + [q.value for q in n.keywords if q.arg != 'file']:
                    if not isinstance(a, (ast.Name, ast.Constant)):
                        raise CannotTranslate(f'argument of {ast.unparse(n.func)}: {ast.unparse(a)}')
                return kw[0].value.id
        return None

    def call(self, n, env, loop):
        """(Lean term of type Out _, result type) for a call of another loop kernel"""
        callee = _loop_kernel_by_name(self.calls[ast.unparse(n.func)])
        sig = _signature_args(_find_func(self.tree, callee['func']))
        declared = dict(callee['params'])
        given = {}
        cargs = _find_func(self.tree, callee['func']).args
        # an argument left to its default takes the literal written in the callee's signature (True / False / integer)
        defaults = {a.arg: d for a, d in zip(cargs.args[len(cargs.args) - len(cargs.defaults):], cargs.defaults)
                    if isinstance(d, ast.Constant) and isinstance(d.value, (bool, int))}
        for i, a in enumerate(n.args):
            if isinstance(a, ast.Starred) or i >= len(sig):
                raise CannotTranslate(f'arguments of {ast.unparse(n.func)}')
            given[sig[i]] = a
        for q in n.keywords:
            if q.arg is None or q.arg in given or q.arg not in sig:
                raise CannotTranslate(f'keyword arguments of {ast.unparse(n.func)}')
            given[q.arg] = q.value
        out = []
        for p, t in callee['params']:
            if p in sig:
                if p not in given and p not in defaults:
                    raise CannotTranslate(f'{ast.unparse(n.func)}: argument {p} left to a default that is not a literal')
                a = given[p] if p in given else defaults[p]
                if t == 'Int':
                    out.append(self.ex(env, loop).int_(a))
                elif t == 'Bool':
                    out.append(self.ex(env, loop).bool_(a))
                elif t == 'File':
                    r = self.fileref(a, env)
                    if r is None:
                        raise CannotTranslate(f'{ast.unparse(a)} is not a file')
                    out.append(r)
                elif t == 'Ints':
                    if not (isinstance(a, ast.Name) and env.get(a.id) == 'Ints'):
                        raise CannotTranslate(f'{ast.unparse(a)} is not a list of integers')
                    out.append(a.id)
                else:
                    raise CannotTranslate(f'argument type {t}')
            else:                       # a parameter that stands for an attribute of the object (atoms): same name here
                if env.get(p) != t:
                    raise CannotTranslate(f'{callee["name"]} needs {p} : {t}')
                out.append(p)
        for p, a in given.items():
            if p not in declared:
                if p not in callee.get('ignore', ()) or not isinstance(a, (ast.Name, ast.Constant)):
                    raise CannotTranslate(f'{ast.unparse(n.func)}: argument {p}')
        return '(' + ' '.join([callee['name'], 'sizes'] + out) + ')', callee['ret']

    # ---- statements --------------------------------------------------------------------------------------------
    @staticmethod
    def ind(lines, n=1):
        return ['  ' * n + l for l in lines]

    def bind(self, env, name, typ):
        _loop_ident(name)
        if env.get(name, typ) != typ:
            raise CannotTranslate(f'{name} changes its type ({env[name]} → {typ})')
        if name in self.k.get('ignore', ()):
            raise CannotTranslate(f'assignment to the opaque argument {name}')
        env = dict(env)
        env[name] = typ
        return env

    def listval(self, v, env, loop):
        """(Lean term, type, bounds checks) if `v` builds a list / tuple of files or a list of integers, else None"""
        if isinstance(v, ast.List) and not v.elts:
            return '[]', None, []                  # element type fixed by the first use (Files unless bound otherwise)
        if isinstance(v, (ast.List, ast.Tuple)) and v.elts:
            refs = [self.fileref(e, env) for e in v.elts]
            if all(r is not None for r in refs):
                # a tuple of files is typed `FilesT`: no append / remove / comparison with a list on it
                return '[' + ', '.join(refs) + ']', ('FilesT' if isinstance(v, ast.Tuple) else 'Files'), self.pair_guards(v)
            if isinstance(v, ast.Tuple):
                raise CannotTranslate(f'tuple of integers {ast.unparse(v)}')
            if not any(r is not None for r in refs):
                e = self.ex(env, loop)
                return '[' + ', '.join(e.int_(x) for x in v.elts) + ']', 'Ints', []
            raise CannotTranslate(f'mixed display {ast.unparse(v)}')
        if isinstance(v, ast.Call) and not v.keywords and isinstance(v.func, ast.Name):
            f, a = v.func.id, v.args
            if f in ('list', 'tuple') and len(a) == 1:
                if isinstance(a[0], ast.Name) and env.get(a[0].id) in ('Files', 'FilesT'):
                    return a[0].id, ('FilesT' if f == 'tuple' else 'Files'), []       # a copy: same elements
                if f == 'list' and isinstance(a[0], ast.Name) and env.get(a[0].id) == 'Ints':
                    return a[0].id, 'Ints', []
                if f == 'list' and isinstance(a[0], ast.Call) and ast.unparse(a[0].func) == 'range' \
                        and not a[0].keywords and len(a[0].args) in (1, 2):
                    e = self.ex(env, loop)
                    lo = e.int_(a[0].args[0]) if len(a[0].args) == 2 else '(0 : Int)'
                    return f'(Torf.Loop.pyRange {lo} {e.int_(a[0].args[-1])})', 'Ints', []
            if f == 'sorted' and len(a) == 1 and isinstance(a[0], ast.Name) and env.get(a[0].id) == 'IntSet':
                return f'(Torf.Loop.sortedSet {a[0].id})', 'Ints', []
        return None

    def message_guards(self, v, env):
        """None unless `v` is a *message expression*: an f-string / string constant / `+` of such (or of a name that
        holds one).  Its value is not translated (the name it is assigned to becomes opaque); what is translated are
        the bounds checks of the subscripts `xs[c]` in its holes.  Everything in it must be on the white list below
        (names, constants, + - *, str() / repr(), '<sep>'.join(<generator over a list local>), xs[c]) so that
        evaluating it has no effect and raises nothing but those IndexErrors (trusted: str() of a value does not raise)."""
        leaves, todo = [], [v]
        while todo:
            x = todo.pop()
            if isinstance(x, ast.BinOp) and isinstance(x.op, ast.Add):
                todo += [x.right, x.left]
            else:
                leaves.append(x)
        def is_str(x):
            return isinstance(x, ast.JoinedStr) or (isinstance(x, ast.Constant) and isinstance(x.value, str)) or \
                (isinstance(x, ast.Name) and env.get(x.id) == 'Opaque' and x.id in self.messages)
        if not any(is_str(x) for x in leaves):
            return None
        local, guards = set(), []
        for n in ast.walk(v):
            if isinstance(n, ast.comprehension):
                if n.ifs or n.is_async or not isinstance(n.target, ast.Name) or not (
                        isinstance(n.iter, ast.Name) and env.get(n.iter.id) in ('Files', 'Ints', 'FilesT')):
                    raise CannotTranslate(f'generator in a message: {ast.unparse(v)[:60]}')
                local.add(n.target.id)
        for n in ast.walk(v):
            if isinstance(n, (ast.JoinedStr, ast.FormattedValue, ast.GeneratorExp, ast.comprehension, ast.expr_context,
                              ast.Add, ast.Sub, ast.Mult, ast.USub)):
                continue
            if isinstance(n, ast.Constant) and isinstance(n.value, (str, int, type(None))):
                continue
            if isinstance(n, ast.BinOp) and isinstance(n.op, (ast.Add, ast.Sub, ast.Mult)):
                continue
            if isinstance(n, ast.UnaryOp) and isinstance(n.op, ast.USub):
                continue
            if isinstance(n, ast.Name):
                if n.id in local or n.id in env or n.id in ('str', 'repr'):
                    continue
                raise CannotTranslate(f'name {n.id} in a message is not bound')
            if isinstance(n, ast.Call) and not n.keywords and len(n.args) == 1:
                if isinstance(n.func, ast.Name) and n.func.id in ('str', 'repr'):
                    continue
                if (isinstance(n.func, ast.Attribute) and n.func.attr == 'join' and isinstance(n.func.value, ast.Constant)
                        and isinstance(n.func.value.value, str) and isinstance(n.args[0], ast.GeneratorExp)):
                    continue
            if isinstance(n, ast.Attribute) and n.attr == 'join' and isinstance(n.value, ast.Constant):
                continue
            if (isinstance(n, ast.Subscript) and isinstance(n.value, ast.Name)
                    and env.get(n.value.id) in ('Files', 'Ints', 'FilesT') and isinstance(n.slice, ast.Constant) and isinstance(n.slice.value, int)
                    and not isinstance(n.slice.value, bool)):
                guards.append(f'(Option.isSome (Torf.Loop.getIdx {n.value.id} (({n.slice.value}) : Int)))')
                continue
            raise CannotTranslate(f'in a message: {ast.unparse(n)[:60]}')
        return guards

    def ret_term(self, v, env, loop):
        if v is None:
            raise CannotTranslate('return without a value')
        if isinstance(v, ast.Call) and ast.unparse(v.func) in self.calls:
            term, typ = self.call(v, env, loop)
            if typ != self.ret:
                raise CannotTranslate(f'returns {typ}, declared {self.ret}')
            return term
        if self.ret == 'File':
            r = self.fileref(v, env)
            if r is None:
                raise CannotTranslate(f'return value {ast.unparse(v)} is not a file')
            return f'.ret {r}'
        if self.ret in ('Files', 'Ints'):
            if isinstance(v, ast.Name) and env.get(v.id) == self.ret:
                return f'.ret {v.id}'
            lv = self.listval(v, env, loop)
            if lv is not None and (lv[1] in (None, self.ret) or (self.ret, lv[1]) == ('Files', 'FilesT')):
                return '\n'.join(self.guarded(lv[2], [f'.ret {lv[0]}']))
            raise CannotTranslate(f'return value {ast.unparse(v)} is not a list of {"files" if self.ret == "Files" else "integers"}')
        if self.ret == 'Int':
            return f'.ret {self.ex(env, loop).int_(v)}'
        if self.ret == 'Bool':
            return f'.ret {self.ex(env, loop).bool_(v)}'
        if self.ret == 'IntPair':
            if isinstance(v, ast.Tuple) and len(v.elts) == 2:
                e = self.ex(env, loop)
                return f'.ret ({e.int_(v.elts[0])}, {e.int_(v.elts[1])})'
            raise CannotTranslate(f'return value {ast.unparse(v)} is not a pair')
        raise CannotTranslate(f'return type {self.ret}')

    def block(self, stmts, env, k, loop):
        """lines of a Lean term for `stmts` followed by the continuation `k(env)`"""
        if not stmts:
            return k(env)
        s, rest = stmts[0], stmts[1:]

        def cont(e):
            return self.block(rest, e, k, loop)

        if isinstance(s, ast.Pass) or (isinstance(s, ast.Expr) and isinstance(s.value, ast.Constant)):
            return cont(env)
        if (isinstance(s, ast.Assign) and len(s.targets) == 1 and isinstance(s.targets[0], ast.Attribute)
                and isinstance(s.targets[0].value, ast.Name) and s.targets[0].value.id == 'self'):
            tgt = ast.unparse(s.targets[0])
            if self.result is not None and tgt == self.result:
                # the value the function computes: what follows the store is not translated (the attribute is stored
                # once, checked in `translate`)
                return self.ret_term(s.value, env, loop).split('\n')
            loads = [n for n in ast.walk(self.fn) if isinstance(n, ast.Attribute) and isinstance(n.ctx, ast.Load)
                     and ast.unparse(n) == tgt]
            if self.result is not None and not loads and isinstance(s.value, (ast.Name, ast.Constant)) and (
                    not isinstance(s.value, ast.Name) or s.value.id in env):
                return cont(env)          # `self._x = <name>`: stored and never read here — not part of the result
            raise CannotTranslate(f'attribute store {tgt}')
        if isinstance(s, ast.AugAssign):
            if not isinstance(s.target, ast.Name):
                raise CannotTranslate(f'target {ast.unparse(s.target)}')
            s = ast.Assign(targets=[s.target], value=ast.BinOp(left=ast.Name(id=s.target.id, ctx=ast.Load()), op=s.op,
                                                                right=s.value))
        if isinstance(s, ast.Assign):
            if len(s.targets) != 1 or not isinstance(s.targets[0], ast.Name):
                raise CannotTranslate(f'assignment target {ast.unparse(s.targets[0])}')
            x, v = s.targets[0].id, s.value
            if isinstance(v, ast.Call) and ast.unparse(v.func) in self.calls:
                term, typ = self.call(v, env, loop)
                if typ not in ('Int', 'Bool', 'File', 'Files', 'Ints'):
                    raise CannotTranslate(f'result of type {typ} stored in a variable')
                e2 = self.bind(env, x, typ)
                return [f'Torf.Loop.Out.bind {term} (fun ({x} : {_LOOP_LEAN_TYPES[typ]}) =>'] + \
                    self.ind(self._close(cont(e2)))
            mg = self.message_guards(v, env)
            if mg is not None:
                if env.get(x, 'Opaque') != 'Opaque' or x in self.k.get('ignore', ()) or loop is not None:
                    raise CannotTranslate(f'message assigned to {x}')
                self.messages.add(_loop_ident(x))
                e2 = dict(env)
                e2[x] = 'Opaque'
                return self.guarded(mg, cont(e2))
            if isinstance(v, ast.Call) and ast.unparse(v.func) == 'set' and not v.args and not v.keywords:
                # a set that is only added to and finally sorted: the added values in insertion order
                e2 = self.bind(env, x, 'IntSet')
                return [f'let {x} : List Int := []'] + cont(e2)
            if (isinstance(v, ast.Subscript) and isinstance(v.value, ast.Name) and env.get(v.value.id) == 'Ints'
                    and not isinstance(v.slice, (ast.Slice, ast.Tuple))):
                # x = xs[i] : IndexError if there is no such element
                idx = self.ex(env, loop).int_(v.slice)
                e2 = self.bind(env, x, 'Int')
                return [f'Torf.Loop.Out.bind (Torf.Loop.Out.ofOption (Torf.Loop.getIdx {v.value.id} {idx}) "IndexError") '
                        f'(fun ({x} : Int) =>'] + self.ind(self._close(cont(e2)))
            lv = self.listval(v, env, loop)
            if lv is not None:
                term, typ, guards = lv
                typ = typ or 'Files'
                e2 = self.bind(env, x, typ)
                return self.guarded(guards, [f'let {x} : {_LOOP_LEAN_TYPES[typ]} := {term}'] + cont(e2))
            if isinstance(v, ast.List) and not v.elts:
                typ, term = 'Files', '[]'
            elif self.fileref(v, env) is not None:
                typ, term = 'File', self.fileref(v, env)
            elif (isinstance(v, (ast.Compare, ast.BoolOp)) or (isinstance(v, ast.UnaryOp) and isinstance(v.op, ast.Not))
                  or (isinstance(v, ast.Constant) and isinstance(v.value, bool))
                  or (isinstance(v, ast.Name) and env.get(v.id) == 'Bool')):
                typ, term = 'Bool', self.ex(env, loop).bool_(v)
            else:
                typ, term = 'Int', self.ex(env, loop).int_(v)
            e2 = self.bind(env, x, typ)
            return [f'let {x} : {_LOOP_LEAN_TYPES[typ]} := {term}'] + cont(e2)
        if isinstance(s, ast.Expr) and isinstance(s.value, ast.Call):
            c = s.value
            if (isinstance(c.func, ast.Attribute) and c.func.attr == 'append' and isinstance(c.func.value, ast.Name)
                    and env.get(c.func.value.id) == 'Files' and len(c.args) == 1 and not c.keywords):
                r = self.fileref(c.args[0], env)
                if r is None:
                    raise CannotTranslate(f'appended value {ast.unparse(c.args[0])} is not a file')
                x = c.func.value.id
                return [f'let {x} : List Nat := {x} ++ [{r}]'] + cont(env)
            if (isinstance(c.func, ast.Attribute) and isinstance(c.func.value, ast.Name) and len(c.args) == 1
                    and not c.keywords and c.func.value.id not in self.maybe_tuple
                    and (env.get(c.func.value.id), c.func.attr) in
                    (('Ints', 'append'), ('Ints', 'remove'), ('IntSet', 'add'))):
                x, v = c.func.value.id, self.ex(env, loop).int_(c.args[0])
                if c.func.attr == 'remove':       # removes the first occurrence; ValueError if there is none
                    return [f'if (List.contains {x} {v}) then', f'  let {x} : List Int := List.erase {x} {v}'] + \
                        self.ind(cont(env)) + ['else', '  .raised "ValueError"']
                return [f'let {x} : List Int := {x} ++ [{v}]'] + cont(env)
            raise CannotTranslate(f'call statement {ast.unparse(c)[:60]}')
        if isinstance(s, ast.If):
            test = self.ex(env, loop).bool_(s.test)
            return [f'if {test} then'] + self.ind(self.block(s.body, env, cont, loop)) + ['else'] + \
                self.ind(self.block(s.orelse, env, cont, loop))
        if isinstance(s, ast.Assert):
            test = self.ex(env, loop).bool_(s.test)
            return [f'if {test} then'] + self.ind(cont(env)) + ['else', '  .raised "AssertionError"']
        if isinstance(s, ast.Return):
            return self.ret_term(s.value, env, loop).split('\n')
        if isinstance(s, ast.Raise):
            e = s.exc.func if isinstance(s.exc, ast.Call) else s.exc
            if isinstance(e, ast.Attribute):
                e = ast.Name(id=e.attr)
            if not isinstance(e, ast.Name) or not re.fullmatch(r'[A-Z]\w*', e.id):
                raise CannotTranslate(f'raise {ast.unparse(s.exc) if s.exc else ""}')
            return [f'.raised "{e.id}"']
        if isinstance(s, ast.Continue) and loop is not None:
            return loop['rec'](env)
        if isinstance(s, ast.Break) and loop is not None:
            return loop['after'](env)
        if isinstance(s, ast.Try):
            return self.try_index(s, env, cont, loop)
        if isinstance(s, ast.For):
            return self.for_(s, env, cont, loop)
        raise CannotTranslate(f'statement {type(s).__name__}: {ast.unparse(s)[:60]}')

    @staticmethod
    def _close(lines):
        return lines[:-1] + [lines[-1] + ')']

    def try_index(self, s, env, cont, loop):
        """try: i = <files>.index(f) / except ValueError: H / else: E"""
        ok = (len(s.body) == 1 and len(s.handlers) == 1 and not s.finalbody and isinstance(s.body[0], ast.Assign)
              and len(s.body[0].targets) == 1 and isinstance(s.body[0].targets[0], ast.Name))
        if ok:
            h, v = s.handlers[0], s.body[0].value
            ok = (isinstance(h.type, ast.Name) and h.type.id == 'ValueError' and isinstance(v, ast.Call)
                  and ast.unparse(v.func) == self.files_src + '.index' and len(v.args) == 1 and not v.keywords
                  and isinstance(v.args[0], ast.Name) and env.get(v.args[0].id) == 'File')
        if not ok:
            raise CannotTranslate('try statement other than `try: i = files.index(file) except ValueError: …`')
        f, x = v.args[0].id, s.body[0].targets[0].id
        e2 = self.bind(env, x, 'Int')
        return [f'if {f} < List.length sizes then', f'  let {x} : Int := (({f} : Nat) : Int)'] + \
            self.ind(self.block(s.orelse, e2, cont, loop)) + ['else'] + self.ind(self.block(h.body, env, cont, loop))

    @staticmethod
    def _assigned(stmts):
        out = set()
        for st in stmts:
            for n in ast.walk(st):
                if isinstance(n, (ast.Assign, ast.AugAssign, ast.AnnAssign, ast.NamedExpr, ast.For, ast.With, ast.Delete,
                                  ast.Import, ast.ImportFrom, ast.Global, ast.Nonlocal, ast.comprehension)):
                    tg = (n.targets if isinstance(n, (ast.Assign, ast.Delete)) else
                          [n.target] if hasattr(n, 'target') else [])
                    for t in tg:
                        out |= {m.id for m in ast.walk(t) if isinstance(m, ast.Name)}
                if (isinstance(n, ast.Call) and isinstance(n.func, ast.Attribute) and isinstance(n.func.value, ast.Name)):
                    out.add(n.func.value.id)       # a method call may change its receiver (xs.append)
        return out

    def for_(self, s, env, cont, loop):
        if loop is not None or self.loops:
            raise CannotTranslate('more than one loop')
        self.loops += 1
        if not s.orelse and isinstance(s.target, ast.Name) and isinstance(s.iter, ast.Name) \
                and env.get(s.iter.id) == 'Ints':
            return self.for_ints(s, env, cont)
        pair = (self.pairs and isinstance(s.target, ast.Tuple) and len(s.target.elts) == 2
                and all(isinstance(e, ast.Name) for e in s.target.elts))
        if s.orelse or not (pair or (isinstance(s.target, ast.Name) and not self.pairs)) \
                or ast.unparse(s.iter) != self.files_src:
            raise CannotTranslate(f'loop header: for {ast.unparse(s.target)} in {ast.unparse(s.iter)}')
        if pair:
            # `for a, b in <pairs>`: a is the file (the index of the pair), b its size
            var, size = _loop_ident(s.target.elts[0].id), _loop_ident(s.target.elts[1].id)
            restn = f'{size}_rest'
            clash = var == size or env.get(size, 'Opaque') != 'Opaque' or restn in (self.all_names | set(env))
        else:
            var = _loop_ident(s.target.id)
            size, restn = f'{var}_size', f'{var}_rest'
            clash = bool({size, restn} & (self.all_names | set(env)))
        if env.get(var, 'Opaque') != 'Opaque' or clash:      # an opaque name (an argument nobody reads) may be shadowed
            raise CannotTranslate(f'name clash around the loop variable {var}')
        assigned = self._assigned(s.body)
        if var in assigned or size in assigned or assigned & set(self.k.get('ignore', ())):
            raise CannotTranslate('loop variable or opaque argument is assigned in the loop')
        names = [n for n, t in env.items() if t != 'Opaque']
        fixed = [n for n in names if n not in assigned]
        carried = [n for n in names if n in assigned]
        gname = f'{self.name}.loop'
        lt = _LOOP_LEAN_TYPES
        sig = ' '.join(f'({n} : {lt[env[n]]})' for n in fixed)
        typ = ' → '.join(['List Int', 'Nat'] + [lt[env[n]] for n in carried] + [f'Torf.Loop.Out ({lt[self.ret]})'])
        pre = dict(env)

        def after(e):         # after the loop the loop variables hold the last item, or nothing: opaque as before
            return cont({n: (pre[n] if pre[n] == 'Opaque' else e[n]) for n in pre})

        def rec(e):
            if any(e.get(n) != pre[n] for n in pre if pre[n] != 'Opaque'):
                raise CannotTranslate('a variable changes its type in the loop')
            return [' '.join([gname] + fixed + [restn, f'({var} + 1)'] + carried)]

        body_env = dict(env)
        body_env[var] = 'File'
        if pair:
            body_env[size] = 'Int'
        lp = dict(var=var, size=size, rec=rec, after=after)
        body = self.block(s.body, body_env, rec, lp)
        lines = ['set_option linter.unusedVariables false in',
                 f'def {gname}{" " if sig else ""}{sig} : {typ}',
                 '  | ' + ', '.join(['[]', '_'] + carried) + ' =>'] + self.ind(after(pre), 2) + \
                ['  | ' + ', '.join([f'{size} :: {restn}', var] + carried) + ' =>'] + self.ind(body, 2)
        self.aux.append('\n'.join(lines))
        return [' '.join([gname] + fixed + ['sizes', '0'] + carried)]

    def for_ints(self, s, env, cont):
        """`for x in xs:` over a list of integers `xs` (an argument or a local): `<name>.loop <unchanged locals> :
        List Int → <assigned locals…> → Out _` by recursion on the list; `x` is a plain local of the iteration (it may
        be re-assigned in the body)."""
        lst, var = s.iter.id, _loop_ident(s.target.id)
        restn = f'{var}_rest'
        if var in env or restn in (self.all_names | set(env)):
            raise CannotTranslate(f'name clash around the loop variable {var}')
        assigned = self._assigned(s.body)
        if lst in assigned or assigned & set(self.k.get('ignore', ())):
            raise CannotTranslate('the list iterated over or an opaque argument is assigned in the loop')
        names = sorted(n for n, t in env.items() if t != 'Opaque')     # alphabetical: the signature of the loop does not
        fixed = [n for n in names if n not in assigned]                # depend on the order of the assignments before it
        carried = [n for n in names if n in assigned]
        gname = f'{self.name}.loop'
        lt = _LOOP_LEAN_TYPES
        sig = ' '.join(f'({n} : {lt[env[n]]})' for n in fixed)
        typ = ' → '.join(['List Int'] + [lt[env[n]] for n in carried] + [f'Torf.Loop.Out ({lt[self.ret]})'])
        pre = dict(env)

        def after(e):
            return cont({n: (pre[n] if pre[n] == 'Opaque' else e[n]) for n in pre})

        def rec(e):
            if any(e.get(n) != pre[n] for n in pre if pre[n] != 'Opaque'):
                raise CannotTranslate('a variable changes its type in the loop')
            return [' '.join([gname] + fixed + [restn] + carried)]

        body_env = dict(env)
        body_env[var] = 'Int'
        body = self.block(s.body, body_env, rec, dict(var=None, size=None, rec=rec, after=after))
        lines = ['set_option linter.unusedVariables false in',
                 f'def {gname}{" " if sig else ""}{sig} : {typ}',
                 '  | ' + ', '.join(['[]'] + carried) + ' =>'] + self.ind(after(pre), 2) + \
                ['  | ' + ', '.join([f'{var} :: {restn}'] + carried) + ' =>'] + self.ind(body, 2)
        self.aux.append('\n'.join(lines))
        return [' '.join([gname] + fixed + [lst] + carried)]

    def translate(self):
        sig = _signature_args(self.fn)
        declared = [p for p, _ in self.k['params']]
        env = {}
        for p, t in self.k['params']:
            if t not in ('Int', 'Bool', 'File', 'Ints'):
                raise CannotTranslate(f'parameter type {t}')
            env[_loop_ident(p)] = t
        if self.result is not None:
            stores = [n for n in ast.walk(self.fn) if isinstance(n, ast.Attribute) and isinstance(n.ctx, (ast.Store, ast.Del))
                      and ast.unparse(n) == self.result]
            if len(stores) != 1:
                raise CannotTranslate(f'{len(stores)} stores to {self.result}')
        for a in sig:
            if self.pairs and a == self.files_src:
                continue                  # the list of (file, size) pairs is `sizes`
            if a not in declared:
                if a not in self.k.get('ignore', ()):
                    raise CannotTranslate(f'argument {a} of the function is not declared')
                env[a] = 'Opaque'
        for p in declared:
            if p not in sig and p not in (self.atoms or {}).values():
                raise CannotTranslate(f'declared parameter {p} is neither an argument nor an atom')

        def falls_through(e):
            raise CannotTranslate('function body can fall through (implicit `return None`)')

        body = self.block(list(self.fn.body), env, falls_through, None)
        psig = ' '.join(['(sizes : List Int)'] + [f'({p} : {_LOOP_LEAN_TYPES[t]})' for p, t in self.k['params']])
        main = '\n'.join(['set_option linter.unusedVariables false in',
                          f'def {self.name} {psig} : Torf.Loop.Out ({_LOOP_LEAN_TYPES[self.ret]}) :='] + self.ind(body))
        return '\n'.join(self.aux + [main])


def translate_loop(repo, k):
    tree = ast.parse(open(os.path.join(repo, k['file'])).read())
    try:
        return _LoopFn(k, tree).translate()
    except (AttributeError, IndexError, KeyError, TypeError) as e:      # an AST shape nobody thought of: not an alarm
        raise CannotTranslate(f'loop translator: {e!r}')


# =====================================================================================================================
# loop kernels, third batch: methods of an object whose state is ONE list of integers (kernel key `state=(source text of
# the attribute, name)`, e.g. `('self._items', 'self_items')`).  The attribute becomes a local list of integers that is
# the extra parameter `<name>` of the generated function (a real list: append / remove / `==` are allowed on it); a
# callee named in `calls` that declares the same parameter is handed the *current* value.  There is no list of files:
# the generated functions have no `sizes` parameter.  Further kernel keys:
#     lists={'self._get_known_urls()': 'known'}   an expression (compared as text) that is a second, read-only list of
#                                        integers of the object: the declared parameter `known` (only `in` / `len` / a loop)
#     identity=('self._coerce',)        `self._coerce(e)` is `e` (an item is its identity after coercion)
#     skip=('<statement text>',)         statements (compared with ast.unparse) that are effects outside the returned
#                                        value (the change callback) are dropped, like the message strings are
#     not_a_slice=('index',)             `isinstance(index, slice)` is False: of `if isinstance(index, slice): A else: B`
#                                        only B is translated (the kernel is the integer-index branch)
#     returns='state'                    the function returns nothing; its result is the new value of the state list:
#                                        falling off the end / a bare `return` is `.ret <name>`.  A translated
#                                        `.raised "Exc"` then means: Exc is raised and the state list is UNCHANGED —
#                                        checked: every statement that can raise (raise, assert, any subscript,
#                                        `remove`, a callee that can raise) must come before the first statement that
#                                        changes the state list, and before the loop that contains it
#     ret='OptInt'                       `Option Int`: `return e` is `.ret (some e)`, `return None` / a bare `return` /
#                                        falling off the end is `.ret none`
# Additions to the `Ints` subset (any list of integers that is known to be a list):
#     xs.insert(i, v)                                let xs : List Int := Torf.Loop.pyInsert xs i v       (Python's clamping)
#     xs.clear()                                     let xs : List Int := []
#     xs[e] = v                                      Out.bind (Out.ofOption (Torf.Loop.setIdx xs e v) "IndexError") fun xs => ⟦rest⟧
#     x = self.other(…)   (other returns OptInt)     Out.bind (otherFn …) fun (x : Option Int) => ⟦rest⟧   (x may have been an Int)
#     if x is not None: A else: B   (x : OptInt)     (match x with | some x => ⟦A; rest⟧ | none => ⟦B; rest⟧)   (x : Int in A)
#     if self.other(…) is not None: A else: B        Out.bind (otherFn …) fun (r : Option Int) => if r.isSome then ⟦A; rest⟧ else ⟦B; rest⟧
#     … is None                                      the same with the branches exchanged
# =====================================================================================================================

_LOOP_LEAN_TYPES['OptInt'] = 'Option Int'


class _StateRewrite(ast.NodeTransformer):
    def __init__(self, k):
        self.k = k
        self.src, self.name = k['state']

    def visit_Attribute(self, n):
        if ast.unparse(n) == self.src:
            return ast.copy_location(ast.Name(id=self.name, ctx=n.ctx), n)
        return self.generic_visit(n)

    def visit_Call(self, n):
        if ast.unparse(n) in self.k.get('lists', {}):          # a read-only list of the object: a parameter
            return ast.copy_location(ast.Name(id=self.k['lists'][ast.unparse(n)], ctx=ast.Load()), n)
        if ast.unparse(n.func) in self.k.get('identity', ()) and len(n.args) == 1 and not n.keywords \
                and not isinstance(n.args[0], ast.Starred):
            return self.visit(n.args[0])
        if (ast.unparse(n.func) == 'isinstance' and len(n.args) == 2 and not n.keywords
                and isinstance(n.args[0], ast.Name) and n.args[0].id in self.k.get('not_a_slice', ())
                and ast.unparse(n.args[1]) == 'slice'):
            return ast.copy_location(ast.Constant(value=False), n)
        return self.generic_visit(n)

    def stmts(self, body):
        out = []
        for st in body:
            if ast.unparse(st) in self.k.get('skip', ()):
                continue
            st = self.visit(st)
            if isinstance(st, ast.If) and isinstance(st.test, ast.Constant) and st.test.value is False:
                out += st.orelse
            else:
                out.append(st)
        return out or [ast.Pass()]

    def generic_visit(self, n):
        for f in ('body', 'orelse', 'finalbody'):
            if isinstance(getattr(n, f, None), list) and not isinstance(n, ast.IfExp):
                setattr(n, f, self.stmts(getattr(n, f)) if (getattr(n, f) or f == 'body') else [])
        for f, v in ast.iter_fields(n):
            if f in ('body', 'orelse', 'finalbody') and isinstance(v, list):
                continue
            if isinstance(v, list):
                setattr(n, f, [self.visit(x) if isinstance(x, ast.AST) else x for x in v])
            elif isinstance(v, ast.AST):
                setattr(n, f, self.visit(v))
        return n


class _StateFn(_LoopFn):
    def __init__(self, k, tree):
        super().__init__(k, tree)
        self.state = k['state'][1]
        if set(k.get('lists', {}).values()) & self.all_names:
            raise CannotTranslate('name clash with a read-only list parameter')
        if self.state in self.all_names or not any(p == self.state and t == 'Ints' for p, t in k['params']):
            raise CannotTranslate(f'state list {self.state}: name clash / not a declared list parameter')
        self.fn = _StateRewrite(k).visit(copy.deepcopy(self.fn))
        ast.fix_missing_locations(self.fn)
        self.all_names = {n.id for n in ast.walk(self.fn) if isinstance(n, ast.Name)} | \
                         {a.arg for a in ast.walk(self.fn) if isinstance(a, ast.arg)}
        self.maybe_tuple = self.maybe_tuple - {self.state}
        self.returns_state = k.get('returns') == 'state'
        if self.returns_state and self.ret != 'Ints':
            raise CannotTranslate("returns='state' needs ret='Ints'")

    # ---- the callee reads the caller's current state; no `sizes` ---------------------------------------------------
    def call(self, n, env, loop):
        term, typ = super().call(n, env, loop)
        name = self.calls[ast.unparse(n.func)]
        if not term.startswith(f'({name} sizes'):
            raise CannotTranslate('call term')
        return f'({name}' + term[len(f'({name} sizes'):], typ

    def callee_total(self, n):
        """the translated callee has no `.raised` / IndexError path at all"""
        callee = _loop_kernel_by_name(self.calls[ast.unparse(n.func)])
        if not callee.get('state'):
            return False
        txt = _StateFn(callee, self.tree).translate()
        return 'raised' not in txt and 'ofOption' not in txt and 'Out.bind' not in txt

    def check_raises_precede_changes(self):
        parent = {}
        for n in ast.walk(self.fn):
            for c in ast.iter_child_nodes(n):
                parent[c] = n

        def anchor(n):
            line, m = n.lineno, n
            while m in parent:
                m = parent[m]
                if isinstance(m, (ast.For, ast.While)):
                    line = m.lineno
            return line
        changes, raises = [], []
        for n in ast.walk(self.fn):
            if isinstance(n, ast.Call) and isinstance(n.func, ast.Attribute) and isinstance(n.func.value, ast.Name) \
                    and n.func.value.id == self.state:
                changes.append(anchor(n))
                if n.func.attr == 'remove':
                    raises.append(n.lineno)
            elif isinstance(n, ast.Call) and isinstance(n.func, ast.Attribute) and n.func.attr == 'remove':
                raises.append(n.lineno)
            if isinstance(n, ast.Name) and n.id == self.state and not isinstance(n.ctx, ast.Load):
                changes.append(anchor(n))
            if isinstance(n, ast.Subscript):
                raises.append(n.lineno)
                if isinstance(n.value, ast.Name) and n.value.id == self.state and not isinstance(n.ctx, ast.Load):
                    changes.append(anchor(n))
            if isinstance(n, (ast.Raise, ast.Assert, ast.Try)):
                raises.append(n.lineno)
            if isinstance(n, ast.Call) and ast.unparse(n.func) in self.calls and not self.callee_total(n):
                raises.append(n.lineno)
        if changes and raises and max(raises) >= min(changes):
            raise CannotTranslate('a statement that can raise does not precede every change of the state list')

    # ---- types -------------------------------------------------------------------------------------------------
    def bind(self, env, name, typ):
        if {env.get(name, typ), typ} == {'Int', 'OptInt'}:      # `value = self._filter_func(value)`: shadowed in Lean
            env = {n: t for n, t in env.items() if n != name}
        return super().bind(env, name, typ)

    def ret_term(self, v, env, loop):
        if self.returns_state:
            if v is None or (isinstance(v, ast.Constant) and v.value is None):
                return f'.ret {self.state}'
            raise CannotTranslate('a value is returned by a function whose result is its state list')
        if self.ret == 'OptInt':
            if v is None or (isinstance(v, ast.Constant) and v.value is None):
                return '.ret none'
            if isinstance(v, ast.Name) and env.get(v.id) == 'OptInt':
                return f'.ret {v.id}'
            return f'.ret (some {self.ex(env, loop).int_(v)})'
        return super().ret_term(v, env, loop)

    @staticmethod
    def none_test(t):
        """(operand, True for `is not None` / False for `is None`) or None"""
        if isinstance(t, ast.UnaryOp) and isinstance(t.op, ast.Not):
            r = _StateFn.none_test(t.operand)
            return None if r is None else (r[0], not r[1])
        if (isinstance(t, ast.Compare) and len(t.ops) == 1 and isinstance(t.ops[0], (ast.Is, ast.IsNot))
                and isinstance(t.comparators[0], ast.Constant) and t.comparators[0].value is None):
            return t.left, isinstance(t.ops[0], ast.IsNot)
        return None

    def block(self, stmts, env, k, loop):
        if not stmts:
            return k(env)
        s, rest = stmts[0], stmts[1:]

        def cont(e):
            return self.block(rest, e, k, loop)

        def is_list(x):
            return isinstance(x, ast.Name) and env.get(x.id) == 'Ints' and x.id not in self.maybe_tuple

        if isinstance(s, ast.Return) and s.value is None:
            return self.ret_term(None, env, loop).split('\n')
        if isinstance(s, ast.Assign) and len(s.targets) == 1:
            tg, v = s.targets[0], s.value
            if (isinstance(tg, ast.Name) and isinstance(v, ast.Call) and ast.unparse(v.func) in self.calls
                    and _loop_kernel_by_name(self.calls[ast.unparse(v.func)])['ret'] == 'OptInt'):
                term, _ = self.call(v, env, loop)
                e2 = self.bind(env, tg.id, 'OptInt')
                return [f'Torf.Loop.Out.bind {term} (fun ({tg.id} : Option Int) =>'] + self.ind(self._close(cont(e2)))
            if (isinstance(tg, ast.Subscript) and is_list(tg.value) and not isinstance(tg.slice, (ast.Slice, ast.Tuple))
                    and (loop is None or tg.value.id != self.state)):
                x, e = tg.value.id, self.ex(env, loop)
                return [f'Torf.Loop.Out.bind (Torf.Loop.Out.ofOption (Torf.Loop.setIdx {x} {e.int_(tg.slice)} '
                        f'{e.int_(v)}) "IndexError") (fun ({x} : List Int) =>'] + self.ind(self._close(cont(env)))
        if isinstance(s, ast.Expr) and isinstance(s.value, ast.Call):
            c = s.value
            if isinstance(c.func, ast.Attribute) and is_list(c.func.value) and not c.keywords:
                x = c.func.value.id
                if c.func.attr == 'insert' and len(c.args) == 2:
                    e = self.ex(env, loop)
                    return [f'let {x} : List Int := Torf.Loop.pyInsert {x} {e.int_(c.args[0])} {e.int_(c.args[1])}'] + cont(env)
                if c.func.attr == 'clear' and not c.args:
                    return [f'let {x} : List Int := []'] + cont(env)
        if isinstance(s, ast.If):
            nt = self.none_test(s.test)
            if nt is not None:
                left, positive = nt
                some_b, none_b = (s.body, s.orelse) if positive else (s.orelse, s.body)
                if isinstance(left, ast.Name) and env.get(left.id) == 'OptInt':
                    x = left.id
                    e_some = {n: ('Int' if n == x else t) for n, t in env.items()}
                    return [f'(match {x} with', f'| some {x} =>'] + self.ind(self.block(some_b, e_some, cont, loop)) + \
                        ['| none =>'] + self.ind(self._close(self.block(none_b, env, cont, loop)))
                if (isinstance(left, ast.Call) and ast.unparse(left.func) in self.calls
                        and _loop_kernel_by_name(self.calls[ast.unparse(left.func)])['ret'] == 'OptInt'):
                    r = 'filtered'
                    if r in (self.all_names | set(env)):
                        raise CannotTranslate(f'name {r} is in use')
                    term, _ = self.call(left, env, loop)
                    return [f'Torf.Loop.Out.bind {term} (fun ({r} : Option Int) =>', f'  if Option.isSome {r} then'] + \
                        self.ind(self.block(some_b, env, cont, loop), 2) + ['  else'] + \
                        self.ind(self._close(self.block(none_b, env, cont, loop)), 2)
                raise CannotTranslate(f'None test {ast.unparse(s.test)}')
        return super().block(stmts, env, k, loop)

    def translate(self):
        sig = _signature_args(self.fn)
        env = {}
        for p, t in self.k['params']:
            if t not in ('Int', 'Bool', 'Ints'):
                raise CannotTranslate(f'parameter type {t}')
            env[_loop_ident(p)] = t
        for a in sig:
            if a not in env:
                if a not in self.k.get('ignore', ()):
                    raise CannotTranslate(f'argument {a} of the function is not declared')
                env[a] = 'Opaque'
        for p in env:
            if p not in sig and p != self.state and p not in self.k.get('lists', {}).values():
                raise CannotTranslate(f'declared parameter {p} is neither an argument nor the state list')
        if self.returns_state:
            self.check_raises_precede_changes()

        def falls_through(e):
            if self.returns_state:
                return [f'.ret {self.state}']
            if self.ret == 'OptInt':
                return ['.ret none']
            raise CannotTranslate('function body can fall through (implicit `return None`)')

        body = self.block(list(self.fn.body), env, falls_through, None)
        txt = '\n'.join(self.aux + body)
        if re.search(r'\bsizes\b', txt):
            raise CannotTranslate('a list of files is used in a state kernel')
        psig = ' '.join(f'({p} : {_LOOP_LEAN_TYPES[t]})' for p, t in self.k['params'])
        main = '\n'.join(['set_option linter.unusedVariables false in',
                          f'def {self.name} {psig} : Torf.Loop.Out ({_LOOP_LEAN_TYPES[self.ret]}) :='] + self.ind(body))
        return '\n'.join(self.aux + [main])


_translate_loop_files = translate_loop


def translate_loop(repo, k):        # noqa: F811 — dispatch on the kernel's `state` key; the older kernels go the old way
    if not k.get('state'):
        return _translate_loop_files(repo, k)
    tree = ast.parse(open(os.path.join(repo, k['file'])).read())
    try:
        return _StateFn(k, tree).translate()
    except (AttributeError, IndexError, KeyError, TypeError) as e:
        raise CannotTranslate(f'loop translator: {e!r}')


def translate_names(repo, k):
    """a module-level tuple / list (its elements) or dict (its keys, in source order) as the list of the expressions' texts"""
    tree = ast.parse(open(os.path.join(repo, k['file'])).read())
    hits = [n for n in tree.body if isinstance(n, ast.Assign) and len(n.targets) == 1 and
            isinstance(n.targets[0], ast.Name) and n.targets[0].id == k['var']]
    if len(hits) != 1:
        raise CannotTranslate(f'{len(hits)} module-level assignments to {k["var"]}')
    v = hits[0].value
    if isinstance(v, (ast.Tuple, ast.List)):
        elts = v.elts
    elif isinstance(v, ast.Dict):
        elts = v.keys
    else:
        raise CannotTranslate('not a literal tuple / list / dict')
    out = []
    for e in elts:
        if e is None or not isinstance(e, (ast.Name, ast.Attribute)):
            raise CannotTranslate(f'element {ast.unparse(e) if e is not None else "**"}')
        out.append('"' + ast.unparse(e) + '"')
    return f'def {k["name"]} : List String :=\n  [' + ', '.join(out) + ']'


def translate_keys(repo, k):
    """the string constants a function uses as dictionary keys (primary uses of harness/gen/keyharvest.py), sorted"""
    from harness.gen import keyharvest
    tree = ast.parse(open(os.path.join(repo, k['file'])).read())
    prim, _ = keyharvest.harvest_tree(_find_func(tree, k['func']))
    out = []
    for key in sorted(prim):
        try:
            t = key.decode('utf8')
        except UnicodeDecodeError:
            raise CannotTranslate(f'key {key!r} is not UTF-8')
        if not (t.isascii() and t.isprintable() and '"' not in t and '\\' not in t):
            raise CannotTranslate(f'key {t!r}')
        out.append('"' + t + '"')
    return f'def {k["name"]} : List String :=\n  [' + ', '.join(out) + ']'


def translate_asserts(repo, k):
    """a run of consecutive `utils.assert_type(md, keys, types, must_exist=…, check=…)` statements of a function as a table.
    block 0: the first run in the function body; 'single': the run that starts with the key path ('info', 'length');
    'file': the run inside the loop over info['files'] (key paths ('info', 'files', i, …))"""
    tree = ast.parse(open(os.path.join(repo, k['file'])).read())
    fn = _find_func(tree, k['func'])
    utree = ast.parse(open(os.path.join(repo, 'torf/_utils.py')).read())
    at = _find_func(utree, 'assert_type')
    names = [a.arg for a in at.args.args]
    if names[:3] != ['obj', 'keys', 'exp_types'] or 'must_exist' not in names or 'check' not in names:
        raise CannotTranslate('signature of assert_type changed')
    defaults = dict(zip(names[len(names) - len(at.args.defaults):], at.args.defaults))
    if not (isinstance(defaults.get('must_exist'), ast.Constant) and isinstance(defaults['must_exist'].value, bool)):
        raise CannotTranslate('default of must_exist')
    must_default = defaults['must_exist'].value

    def is_assert(st):
        return (isinstance(st, ast.Expr) and isinstance(st.value, ast.Call) and
                ast.unparse(st.value.func) == 'utils.assert_type')

    def runs(body):
        out, cur = [], []
        for st in body:
            if is_assert(st):
                cur.append(st.value)
            else:
                if cur:
                    out.append(cur)
                    cur = []
                for sub in ('body', 'orelse'):
                    if isinstance(st, (ast.If, ast.For)) and getattr(st, sub, None):
                        out.extend(runs(getattr(st, sub)))
        if cur:
            out.append(cur)
        return out

    def entry(call):
        if len(call.args) != 3 or ast.unparse(call.args[0]) != 'md':
            raise CannotTranslate(f'call shape {ast.unparse(call)[:60]}')
        keys, types = call.args[1], call.args[2]
        if not isinstance(keys, ast.Tuple) or not isinstance(types, ast.Tuple):
            raise CannotTranslate('keys / types are not literal tuples')
        ks = []
        for e in keys.elts:
            if isinstance(e, ast.Constant) and isinstance(e.value, str) and e.value.isascii() and '"' not in e.value and '#' not in e.value:
                ks.append('"' + e.value + '"')
            elif isinstance(e, ast.Name):
                ks.append('"#' + e.id + '"')
            else:
                raise CannotTranslate(f'key {ast.unparse(e)}')
        ts = []
        for e in types.elts:
            if not isinstance(e, (ast.Name, ast.Attribute)):
                raise CannotTranslate(f'type {ast.unparse(e)}')
            ts.append('"' + ast.unparse(e) + '"')
        must, check = must_default, ''
        for kw in call.keywords:
            if kw.arg == 'must_exist' and isinstance(kw.value, ast.Constant) and isinstance(kw.value.value, bool):
                must = kw.value.value
            elif kw.arg == 'check' and isinstance(kw.value, (ast.Name, ast.Attribute)):
                check = ast.unparse(kw.value)
            else:
                raise CannotTranslate(f'keyword {kw.arg}')
        return f'([{", ".join(ks)}], [{", ".join(ts)}], {"true" if must else "false"}, "{check}")'

    allruns = runs(fn.body)
    if k['block'] == 0:
        pick = allruns[:1]
    elif k['block'] == 'single':
        pick = [r for r in allruns if ast.unparse(r[0].args[1]) == "('info', 'length')"]
    elif k['block'] == 'file':
        pick = [r for r in allruns if ast.unparse(r[0].args[1]).startswith("('info', 'files', i)")]
    else:
        pick = [r for r in allruns if ast.unparse(r[0].args[1]) == k['block']]
    if len(pick) != 1:
        raise CannotTranslate(f'{len(pick)} runs of assert_type calls for block {k["block"]}')
    rows = [entry(c) for c in pick[0]]
    return (f'def {k["name"]} : List (List String × List String × Bool × String) :=\n  [' + ',\n   '.join(rows) + ']')


def translate_kernel(repo, k):
    if k.get('kind') == 'asserts':
        return translate_asserts(repo, k)
    if k.get('kind') == 'names':
        return translate_names(repo, k)
    if k.get('kind') == 'regex':
        return translate_regex(repo, k)
    if k.get('kind') == 'strings':
        return translate_strings(repo, k)
    if k.get('kind') == 'loop':
        return translate_loop(repo, k)
    if k.get('kind') == 'keys':
        return translate_keys(repo, k)
    src = open(os.path.join(repo, k['file'])).read()
    tree = ast.parse(src)
    fn = _find_func(tree, k['func'])
    node = _pick(fn, k['pick'])
    tr = Tr(k['params'], k.get('atoms'))
    if k['pick'][0] == 'function':
        body = tr.function(node, k['ret'])
    else:
        body = tr.bool_(node) if k['ret'] == 'Bool' else tr.int_(node)
    # group consecutive parameters of equal type
    sig = ' '.join(f'({n} : {t})' for n, t in k['params'])
    return f'def {k["name"]} {sig} : {k["ret"]} :=\n  {body}'


HEADER = '''/-
  GENERATED by harness/translate.py from the Python source under test — do not edit.
  One definition per kernel; the markers let the translator keep the committed snapshot of a
  kernel it can no longer locate.
-/
import Torf.Base.Rx
import Torf.Base.Loop
namespace Torf.Generated

'''


def _snapshot_sections():
    if not os.path.exists(OUT):
        return {}
    txt = open(OUT).read()
    return {m.group(1): m.group(2) for m in
            re.finditer(r'-- KERNEL (\w+) BEGIN[^\n]*\n(.*?)-- KERNEL \1 END', txt, re.S)}


def regenerate(repo=None):
    repo = repo or common.REPO
    snap = _snapshot_sections()
    status = {}
    parts = [HEADER]
    for k in KERNELS:
        try:
            d = translate_kernel(repo, k)
            status[k['name']] = 'translated'
        except (CannotTranslate, OSError, SyntaxError) as e:
            if k['name'] in snap:
                d = snap[k['name']].rstrip('\n')
                status[k['name']] = f'fallback-to-snapshot: {e}'
            else:
                raise
        parts.append(f'-- KERNEL {k["name"]} BEGIN  ({k["file"]}: {k.get("func") or k.get("var")})\n{d}\n-- KERNEL {k["name"]} END\n\n')
    parts.append('end Torf.Generated\n')
    new = ''.join(parts)
    old = open(OUT).read() if os.path.exists(OUT) else None
    changed = new != old
    if changed:
        os.makedirs(os.path.dirname(OUT), exist_ok=True)
        if old is not None and not os.path.exists(OUT + '.snapshot'):
            pass
        with open(OUT, 'w') as f:
            f.write(new)
    return {'status': status, 'changed': changed,
            'differs_from_committed': _differs_from_committed()}


def _differs_from_committed():
    rc, out = common.run_cmd(['git', 'diff', '--quiet', '--', os.path.relpath(OUT, common.VERIF)], cwd=common.VERIF)
    return rc != 0


def restore_snapshot():
    common.run_cmd(['git', 'checkout', '--', os.path.relpath(OUT, common.VERIF)], cwd=common.VERIF)


if __name__ == '__main__':
    import json
    print(json.dumps(regenerate(), indent=1))
    print(open(OUT).read())
