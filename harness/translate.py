"""
Kernel translator: extracts side-effect-free integer / boolean kernels from named places of the
Python source under test and regenerates lean/Torf/Generated/Kernels.lean on every run.

Each kernel names a function of the source, a way to pick an expression inside it, and the Lean
signature of the generated definition.  Sub-expressions that are not arithmetic (attribute
accesses, subscripts, calls) are mapped to parameters through `atoms` (matched on `ast.unparse`).
If a kernel cannot be located or translated (the code was restructured) the definition from the
committed snapshot is kept and the evidence says so; that is never an alarm by itself.

The generated definitions are used in two ways:
  * models call them instead of restating the formula (e.g. `Verify.corruptFiles`), so the model is
    regenerated from the source;
  * "bridge" theorems in Torf/Properties/*.lean relate them to hand-written model definitions, so a
    changed comparison or an off-by-one in the source breaks a proof obligation while an
    equivalent rewrite of the same arithmetic still proves.
Floats: `math.ceil(a / b)`, `math.floor(a / b)` and `int(a / b)` are translated to exact integer
division (trusted base: operands below 2^53 and non-negative, divisor positive).
"""
import ast
import os
import re

from harness import common

OUT = os.path.join(common.LEAN_DIR, 'Torf', 'Generated', 'Kernels.lean')

KERNELS = [
    dict(name='isDivisibleBy16Kib', file='torf/_utils.py', func='is_divisible_by_16_kib', pick=('function',),
         params=[('num', 'Int')], ret='Bool'),
    dict(name='corruptErrBeg', file='torf/_errors.py', func='VerifyContentError.__init__',
         pick=('assign', 'err_i_beg'), params=[('piece_index', 'Int'), ('piece_size', 'Int')], ret='Int'),
    dict(name='corruptErrEnd', file='torf/_errors.py', func='VerifyContentError.__init__',
         pick=('assign', 'err_i_end'), params=[('err_i_beg', 'Int'), ('piece_size', 'Int')], ret='Int'),
    dict(name='corruptCond', file='torf/_errors.py', func='VerifyContentError.__init__',
         pick=('if-test-guarding', 'corrupt_files.append'),
         params=[('file_i_beg', 'Int'), ('file_i_end', 'Int'), ('err_i_beg', 'Int'), ('err_i_end', 'Int')], ret='Bool'),
    dict(name='byteRangeCond', file='torf/_stream.py', func='TorrentFileStream.get_files_at_byte_range',
         pick=('if-test-guarding', 'files.append'),
         params=[('first_byte_index', 'Int'), ('last_byte_index', 'Int'),
                 ('file_first_byte_index', 'Int'), ('file_last_byte_index', 'Int')], ret='Bool'),
    dict(name='byteRangeFileLast', file='torf/_stream.py', func='TorrentFileStream.get_files_at_byte_range',
         pick=('assign', 'file_last_byte_index'), atoms={'file.size': 'size'},
         params=[('pos', 'Int'), ('size', 'Int')], ret='Int'),
    dict(name='pieceStartPos', file='torf/_stream.py', func='TorrentFileStream.get_files_at_piece_index',
         pick=('assign', 'piece_start_pos'), params=[('piece_index', 'Int'), ('piece_size', 'Int')], ret='Int'),
    dict(name='pieceEndPos', file='torf/_stream.py', func='TorrentFileStream.get_files_at_piece_index',
         pick=('assign', 'piece_end_pos'), params=[('piece_index', 'Int'), ('piece_size', 'Int')], ret='Int'),
    dict(name='missingBoundary', file='torf/_stream.py', func='_MissingPieces.__call__',
         pick=('assign', 'next_piece_boundary_index'),
         atoms={'piece_indexes[-1]': 'last', 'self._torrent.piece_size': 'piece_size'},
         params=[('last', 'Int'), ('piece_size', 'Int')], ret='Int'),
    dict(name='missingSkip', file='torf/_stream.py', func='_MissingPieces.__call__',
         pick=('assign-containing', 'skip_bytes', 'next_piece_boundary_index'),
         params=[('next_piece_boundary_index', 'Int'), ('next_file_start', 'Int')], ret='Int'),
    dict(name='missingContinues', file='torf/_stream.py', func='_MissingPieces.__call__',
         pick=('if-test-guarding', 'skip_bytes ='),
         params=[('next_file_end', 'Int'), ('next_piece_boundary_index', 'Int')], ret='Bool'),
    dict(name='queueSize', file='torf/_torrent.py', func='Torrent.generate', pick=('kwarg', 'queue_size'),
         params=[('hasher_threads', 'Int')], ret='Int'),
    # --- the out-of-memory handler of the reader (C04): the bound of the piece queue after one effective call, and
    #     whether the handler goes on (bound changed) or gives up (raises ReadError(ENOMEM))
    dict(name='oomNewMaxsize', file='torf/_generate.py', func='Reader._handle_oom', pick=('assign', 'new_maxsize'),
         params=[('old_maxsize', 'Int')], ret='Int'),
    dict(name='oomGoesOn', file='torf/_generate.py', func='Reader._handle_oom',
         pick=('if-test-guarding', 'self._piece_queue.maxsize = new_maxsize'),
         params=[('new_maxsize', 'Int'), ('old_maxsize', 'Int')], ret='Bool'),
    # --- the piece_size setter and the clamping done by the piece_size_min / piece_size_max setters (C09)
    dict(name='pieceSizeOutOfRange', file='torf/_torrent.py', func='Torrent.piece_size@setter',
         pick=('if-test-guarding', 'min=self.piece_size_min'),
         atoms={'self.piece_size_min': 'pmin', 'self.piece_size_max': 'pmax'},
         params=[('pmin', 'Int'), ('piece_length', 'Int'), ('pmax', 'Int')], ret='Bool'),
    dict(name='clampToMin', file='torf/_torrent.py', func='Torrent.piece_size_min@setter',
         pick=('attr-assign', 'self.piece_size'),
         atoms={'self.piece_size_min': 'pmin', 'self.piece_size': 'piece_size'},
         params=[('pmin', 'Int'), ('piece_size', 'Int')], ret='Int'),
    dict(name='clampToMax', file='torf/_torrent.py', func='Torrent.piece_size_max@setter',
         pick=('attr-assign', 'self.piece_size'),
         atoms={'self.piece_size_max': 'pmax', 'self.piece_size': 'piece_size'},
         params=[('pmax', 'Int'), ('piece_size', 'Int')], ret='Int'),
    # --- Torrent.verify_filesize (C20): the size comparison and the files_done counter handed to the callback
    dict(name='fsSizeMismatch', file='torf/_torrent.py', func='Torrent.verify_filesize',
         pick=('if-test-guarding', 'error.VerifyFileSizeError(fs_filepath'),
         params=[('fs_filepath_size', 'Int'), ('expected_size', 'Int')], ret='Bool'),
    dict(name='fsFilesDone', file='torf/_torrent.py', func='Torrent.verify_filesize', pick=('assign', 'files_done'),
         params=[('file_index', 'Int')], ret='Int'),
    dict(name='forceGenerate', file='torf/_generate.py', func='GenerateCallback._force_callback', pick=('return',),
         atoms={'exceptions': 'has_exc'},
         params=[('has_exc', 'Bool'), ('pieces_done', 'Int'), ('pieces_total', 'Int')], ret='Bool'),
    dict(name='forceVerify', file='torf/_generate.py', func='VerifyCallback._force_callback', pick=('return',),
         atoms={'exceptions': 'has_exc',
                'piece_hash is not None and piece_hash != self._exp_hashes[piece_index]': 'mismatch'},
         params=[('has_exc', 'Bool'), ('mismatch', 'Bool'), ('pieces_done', 'Int'), ('pieces_total', 'Int')], ret='Bool'),
    dict(name='torrentPieces', file='torf/_torrent.py', func='Torrent.pieces', pick=('return-first',),
         params=[('size', 'Int'), ('piece_size', 'Int')], ret='Int'),
    dict(name='validatePieceCount', file='torf/_torrent.py', func='Torrent.validate',
         pick=('assign-first', 'exp_piece_count'),
         atoms={"int(info['length'])": 'length', "info['piece length']": 'piece_length'},
         params=[('length', 'Int'), ('piece_length', 'Int')], ret='Int'),
    dict(name='reuseMiddle', file='torf/_reuse.py', func='is_content_match', pick=('assign', 'middle_piece_index'),
         atoms={'len(all_file_piece_indexes)': 'n'}, params=[('n', 'Int')], ret='Int'),
    # --- random access geometry (C11)
    dict(name='gpMaxPieceIndex', file='torf/_stream.py', func='TorrentFileStream.get_piece',
         pick=('assign', 'max_piece_index'), params=[('torrent_size', 'Int'), ('piece_size', 'Int')], ret='Int'),
    dict(name='gpOutOfRange', file='torf/_stream.py', func='TorrentFileStream.get_piece',
         pick=('if-test-guarding', 'piece_index must be in range'),
         params=[('min_piece_index', 'Int'), ('piece_index', 'Int'), ('max_piece_index', 'Int')], ret='Bool'),
    dict(name='gpFirstByte', file='torf/_stream.py', func='TorrentFileStream.get_piece',
         pick=('assign', 'first_byte_index_of_piece'), params=[('piece_index', 'Int'), ('piece_size', 'Int')], ret='Int'),
    dict(name='gpLastByte', file='torf/_stream.py', func='TorrentFileStream.get_piece',
         pick=('assign', 'last_byte_index_of_piece'),
         params=[('first_byte_index_of_piece', 'Int'), ('piece_size', 'Int'), ('torrent_size', 'Int')], ret='Int'),
    dict(name='gpSeekSingle', file='torf/_stream.py', func='TorrentFileStream.get_piece',
         pick=('assign-containing', 'seek_to', 'first_byte_index_of_piece'),
         params=[('first_byte_index_of_piece', 'Int'), ('file_pos', 'Int')], ret='Int'),
    dict(name='gpSeekMulti', file='torf/_stream.py', func='TorrentFileStream.get_piece',
         pick=('assign-containing', 'seek_to', '%'), atoms={'file.size': 'file_size'},
         params=[('file_size', 'Int'), ('file_pos', 'Int'), ('piece_size', 'Int')], ret='Int'),
    dict(name='gpLastPieceSize', file='torf/_stream.py', func='TorrentFileStream.get_piece',
         pick=('assign-containing', 'exp_piece_size', '%'),
         params=[('torrent_size', 'Int'), ('piece_size', 'Int')], ret='Int'),
    dict(name='pifFirst', file='torf/_stream.py', func='TorrentFileStream.get_piece_indexes_of_file',
         pick=('assign', 'first_piece_index'), params=[('stream_pos', 'Int'), ('piece_size', 'Int')], ret='Int'),
    dict(name='pifLast', file='torf/_stream.py', func='TorrentFileStream.get_piece_indexes_of_file',
         pick=('assign', 'last_piece_index'), atoms={'file.size': 'file_size'},
         params=[('stream_pos', 'Int'), ('file_size', 'Int'), ('piece_size', 'Int')], ret='Int'),
    dict(name='absRelMax', file='torf/_stream.py', func='TorrentFileStream.get_absolute_piece_indexes',
         pick=('assign', 'pi_rel_max'), params=[('pi_abs_max', 'Int'), ('pi_abs_min', 'Int')], ret='Int'),
    dict(name='absFromEnd', file='torf/_stream.py', func='TorrentFileStream.get_absolute_piece_indexes',
         pick=('assign-containing', 'pi_rel', 'abs('), params=[('pi_rel_max', 'Int'), ('pi_rel', 'Int')], ret='Int'),
    dict(name='absClamp', file='torf/_stream.py', func='TorrentFileStream.get_absolute_piece_indexes',
         pick=('assign-containing', 'pi_rel', 'max('),
         params=[('pi_rel_min', 'Int'), ('pi_rel_max', 'Int'), ('pi_rel', 'Int')], ret='Int'),
    dict(name='absToAbs', file='torf/_stream.py', func='TorrentFileStream.get_absolute_piece_indexes',
         pick=('assign', 'pi_abs'), params=[('pi_abs_min', 'Int'), ('pi_rel', 'Int')], ret='Int'),
    dict(name='relMax', file='torf/_stream.py', func='TorrentFileStream.get_relative_piece_indexes',
         pick=('assign', 'max_piece_index'), atoms={'file.size': 'file_size', 'self._torrent.piece_size': 'piece_size'},
         params=[('file_size', 'Int'), ('piece_size', 'Int')], ret='Int'),
    dict(name='relFromEnd', file='torf/_stream.py', func='TorrentFileStream.get_relative_piece_indexes',
         pick=('assign-containing', 'valid_rpi', 'abs('), params=[('max_piece_index', 'Int'), ('rpi', 'Int')], ret='Int'),
    dict(name='relClamp', file='torf/_stream.py', func='TorrentFileStream.get_relative_piece_indexes',
         pick=('assign-containing', 'valid_rpi', 'max('),
         params=[('min_piece_index', 'Int'), ('max_piece_index', 'Int'), ('valid_rpi', 'Int')], ret='Int'),
    # --- the interval gate of the progress callback (C12); clock values are quantised to integers in the model
    dict(name='intervalGate', file='torf/_generate.py', func='_IntervaledCallback.__call__',
         pick=('if-test-guarding', 'self._prev_call_time = now'), atoms={'self._interval': 'interval'},
         params=[('force', 'Bool'), ('diff', 'Int'), ('interval', 'Int')], ret='Bool'),
    dict(name='intervalDiff', file='torf/_generate.py', func='_IntervaledCallback.__call__',
         pick=('assign', 'diff'), atoms={'self._prev_call_time': 'prev'},
         params=[('now', 'Int'), ('prev', 'Int')], ret='Int'),
    # --- the open-handle table of a stream (C19): the eviction loop's condition and the class default of the cap
    dict(name='evictWhile', file='torf/_stream.py', func='TorrentFileStream._get_open_file',
         pick=('while-test-guarding', '.close()'),
         atoms={'len(self._open_files)': 'n_open', 'self.max_open_files': 'cap'},
         params=[('n_open', 'Int'), ('cap', 'Int')], ret='Bool'),
    dict(name='maxOpenFilesDefault', file='torf/_stream.py', func='TorrentFileStream', pick=('class-attr', 'max_open_files'),
         params=[], ret='Int'),
    # --- validation patterns (C14: info hash / xt; C08: md5sum): pattern text and flags are parsed with Python's own
    #     re._parser, the character set of every position is enumerated over all code points with the re engine itself
    dict(name='infohashRegex', kind='regex', file='torf/_magnet.py', var='_INFOHASH_REGEX'),
    dict(name='xtRegex', kind='regex', file='torf/_magnet.py', var='_XT_REGEX'),
    dict(name='md5sumRegex', kind='regex', file='torf/_utils.py', var='_md5sum_regex'),
    # --- Torrent.calculate_piece_size (C09): the size classes and the clamping of the power of two
    dict(name='calcMaxPieces', file='torf/_torrent.py', func='Torrent.calculate_piece_size',
         pick=('if-chain-assign', 'max_pieces'), params=[('size', 'Int')], ret='Int'),
    dict(name='calcClamp', file='torf/_torrent.py', func='Torrent.calculate_piece_size', pick=('return',),
         params=[('piece_size', 'Int'), ('min_size', 'Int'), ('max_size', 'Int')], ret='Int'),
    # --- the parameter tables of magnet URIs (C13): literal tuples of names; an element that is itself a tuple
    #     contributes its first component
    dict(name='magnetKnownParameters', kind='strings', file='torf/_magnet.py', func='Magnet',
         pick=('class-attr', '_KNOWN_PARAMETERS')),
    dict(name='magnetSingleParams', kind='strings', file='torf/_magnet.py', func='Magnet.from_string', pick=('for-tuple', 0)),
    dict(name='magnetMultiParams', kind='strings', file='torf/_magnet.py', func='Magnet.from_string', pick=('for-tuple', 1)),
    dict(name='magnetRenderSingle', kind='strings', file='torf/_magnet.py', func='Magnet.__str__', pick=('for-tuple', 0)),
    dict(name='magnetRenderMulti', kind='strings', file='torf/_magnet.py', func='Magnet.__str__', pick=('for-tuple', 1)),
    # --- the dictionary keys Torrent.validate / Torrent.read_stream read (C08): every string constant the function uses as a
    #     key (subscript, .get/.pop, in / == test, key-path tuple; harness/gen/keyharvest.py), sorted.  The bridge theorems say
    #     that each of them is in the vocabulary of the model (Model/KeyVocabulary.lean), outside of which the model provably
    #     ignores a metainfo (C08_unknown_key_irrelevant): a key the code starts reading breaks the obligation
    dict(name='validateKeys', kind='keys', file='torf/_torrent.py', func='Torrent.validate'),
    dict(name='readStreamKeys', kind='keys', file='torf/_torrent.py', func='Torrent.read_stream'),
]


class CannotTranslate(Exception):
    pass


def _find_func(tree, qual):
    parts = qual.split('.')
    node = tree
    for p in parts:
        found = None
        setter = p.endswith('@setter')          # `name@setter`: the function decorated with @name.setter
        p = p.split('@')[0]
        for ch in ast.walk(node) if node is tree else ast.iter_child_nodes(node):
            if isinstance(ch, (ast.FunctionDef, ast.ClassDef)) and ch.name == p and (
                    not setter or any(isinstance(d, ast.Attribute) and d.attr == 'setter'
                                      for d in getattr(ch, 'decorator_list', []))):
                found = ch
                break
        if found is None:
            # search deeper (nested functions)
            for ch in ast.walk(node):
                if isinstance(ch, (ast.FunctionDef, ast.ClassDef)) and ch.name == p:
                    found = ch
                    break
        if found is None:
            raise CannotTranslate(f'function {qual} not found')
        node = found
    return node


def _pick(fn, pick):
    kind = pick[0]
    if kind == 'function':
        return fn
    if kind in ('assign', 'assign-first'):
        hits = [n for n in ast.walk(fn) if isinstance(n, ast.Assign) and len(n.targets) == 1 and
                isinstance(n.targets[0], ast.Name) and n.targets[0].id == pick[1]]
        if not hits:
            raise CannotTranslate(f'no assignment to {pick[1]}')
        hits.sort(key=lambda n: n.lineno)
        if kind == 'assign' and len(hits) > 1 and len({ast.dump(h.value) for h in hits}) > 1:
            raise CannotTranslate(f'several different assignments to {pick[1]}')
        return hits[0].value
    if kind == 'assign-containing':
        hits = [n for n in ast.walk(fn) if isinstance(n, ast.Assign) and len(n.targets) == 1 and
                isinstance(n.targets[0], ast.Name) and n.targets[0].id == pick[1] and pick[2] in ast.unparse(n.value)]
        if len(hits) != 1:
            raise CannotTranslate(f'{len(hits)} assignments to {pick[1]} containing {pick[2]}')
        return hits[0].value
    if kind == 'if-test-guarding':
        hits = [n for n in ast.walk(fn) if isinstance(n, ast.If) and
                any(pick[1] in ast.unparse(s) for s in n.body[:2]) and
                not any(isinstance(s, ast.If) and pick[1] in ast.unparse(s) for s in n.body)]
        hits = [h for h in hits if pick[1] in '\n'.join(ast.unparse(s) for s in h.body if not isinstance(s, ast.If))]
        if len(hits) != 1:
            raise CannotTranslate(f'{len(hits)} if-statements guarding {pick[1]}')
        return hits[0].test
    if kind == 'while-test-guarding':
        hits = [n for n in ast.walk(fn) if isinstance(n, ast.While) and any(pick[1] in ast.unparse(b) for b in n.body)]
        if len(hits) != 1:
            raise CannotTranslate(f'{len(hits)} while-loops guarding {pick[1]}')
        return hits[0].test
    if kind == 'class-attr':
        hits = [n for n in fn.body if isinstance(n, ast.Assign) and len(n.targets) == 1 and
                isinstance(n.targets[0], ast.Name) and n.targets[0].id == pick[1]]
        if len(hits) != 1:
            raise CannotTranslate(f'{len(hits)} class-level assignments to {pick[1]}')
        return hits[0].value
    if kind == 'if-chain-assign':
        # `if c1: v = e1 elif c2: v = e2 … else: v = en`  →  the conditional expression it computes
        def chain(node):
            if isinstance(node, ast.If):
                if len(node.body) != 1 or len(node.orelse) != 1:
                    raise CannotTranslate('branch of the chain is not a single statement')
                return ast.IfExp(test=node.test, body=chain(node.body[0]), orelse=chain(node.orelse[0]))
            if (isinstance(node, ast.Assign) and len(node.targets) == 1 and isinstance(node.targets[0], ast.Name)
                    and node.targets[0].id == pick[1]):
                return node.value
            raise CannotTranslate(f'statement in the chain assigning {pick[1]}: {type(node).__name__}')
        hits = [n for n in fn.body if isinstance(n, ast.If) and pick[1] + ' =' in ast.unparse(n)]
        if len(hits) != 1:
            raise CannotTranslate(f'{len(hits)} top-level if-chains assigning {pick[1]}')
        return chain(hits[0])
    if kind == 'for-tuple':
        # the n-th `for … in (<literal tuple>)` loop of the function, in source order
        hits = sorted((n for n in ast.walk(fn) if isinstance(n, ast.For) and isinstance(n.iter, ast.Tuple)),
                      key=lambda n: n.lineno)
        if len(hits) <= pick[1]:
            raise CannotTranslate(f'only {len(hits)} loops over a literal tuple')
        return hits[pick[1]].iter
    if kind == 'attr-assign':
        # the value assigned to an attribute, e.g. `self.piece_size = <value>`
        hits = [n for n in ast.walk(fn) if isinstance(n, ast.Assign) and len(n.targets) == 1 and
                ast.unparse(n.targets[0]) == pick[1]]
        if len(hits) != 1:
            raise CannotTranslate(f'{len(hits)} assignments to {pick[1]}')
        return hits[0].value
    if kind == 'kwarg':
        hits = [k.value for n in ast.walk(fn) if isinstance(n, ast.Call) for k in n.keywords if k.arg == pick[1]]
        if not hits or len({ast.dump(h) for h in hits}) != 1:
            raise CannotTranslate(f'keyword argument {pick[1]} not found uniquely')
        return hits[0]
    if kind == 'return':
        hits = [n for n in ast.walk(fn) if isinstance(n, ast.Return)]
        if len(hits) != 1:
            raise CannotTranslate(f'{len(hits)} return statements')
        return hits[0].value
    if kind == 'return-first':
        hits = sorted((n for n in ast.walk(fn) if isinstance(n, ast.Return) and n.value is not None),
                      key=lambda n: n.lineno)
        if not hits:
            raise CannotTranslate('no return')
        return hits[0].value
    raise CannotTranslate(f'unknown pick {pick}')


class Tr:
    def __init__(self, params, atoms):
        self.types = dict(params)
        self.atoms = atoms or {}

    def atom(self, node):
        src = ast.unparse(node)
        if src in self.atoms:
            return self.atoms[src]
        return None

    def int_(self, n):
        a = self.atom(n)
        if a is not None:
            if self.types.get(a) != 'Int':
                raise CannotTranslate(f'{a} used as Int')
            return a
        if isinstance(n, ast.Constant) and isinstance(n.value, int) and not isinstance(n.value, bool):
            return f'({n.value} : Int)' if n.value >= 0 else f'(({n.value}) : Int)'
        if isinstance(n, ast.Name):
            if self.types.get(n.id) == 'Int':
                return n.id
            raise CannotTranslate(f'unknown integer name {n.id}')
        if isinstance(n, ast.UnaryOp) and isinstance(n.op, ast.USub):
            return f'(-{self.int_(n.operand)})'
        if isinstance(n, ast.BinOp):
            # -(-a // b)  : ceiling division
            if isinstance(n.op, ast.Pow) and isinstance(n.right, ast.Constant) and isinstance(n.right.value, int) \
                    and not isinstance(n.right.value, bool) and n.right.value >= 0:
                return f'({self.int_(n.left)} ^ ({n.right.value} : Nat))'
            ops = {ast.Add: '+', ast.Sub: '-', ast.Mult: '*', ast.FloorDiv: '/', ast.Mod: '%'}
            for t, sym in ops.items():
                if isinstance(n.op, t):
                    return f'({self.int_(n.left)} {sym} {self.int_(n.right)})'
            raise CannotTranslate(f'operator {type(n.op).__name__}')
        if isinstance(n, ast.Call):
            f = ast.unparse(n.func)
            if f in ('int', 'math.floor') and len(n.args) == 1:
                a = n.args[0]
                if isinstance(a, ast.BinOp) and isinstance(a.op, ast.Div):
                    return f'({self.int_(a.left)} / {self.int_(a.right)})'
                if isinstance(a, ast.BinOp) and isinstance(a.op, ast.Mult):
                    # int(x * 0.9): the float constant is read as the decimal fraction it is written as; checked here
                    # for every x in 0 .. 200000 against Python's own float arithmetic (beyond that: trusted base)
                    for x, c in ((a.left, a.right), (a.right, a.left)):
                        if isinstance(c, ast.Constant) and isinstance(c.value, float):
                            from fractions import Fraction
                            fr = Fraction(repr(c.value))
                            if fr <= 0 or any(int(v * c.value) != v * fr.numerator // fr.denominator for v in range(200001)):
                                raise CannotTranslate(f'float constant {c.value!r}: exact integer reading does not agree')
                            return f'(({self.int_(x)} * ({fr.numerator} : Int)) / ({fr.denominator} : Int))'
                if f == 'int':
                    return self.int_(a)
            if f == 'math.ceil' and len(n.args) == 1:
                a = n.args[0]
                if isinstance(a, ast.BinOp) and isinstance(a.op, ast.Div):
                    l, r = self.int_(a.left), self.int_(a.right)
                    return f'(({l} + {r} - 1) / {r})'
            if f == 'abs' and len(n.args) == 1:
                return f'((Int.natAbs {self.int_(n.args[0])} : Nat) : Int)'
            if f in ('min', 'max') and len(n.args) == 2:
                return f'({f} {self.int_(n.args[0])} {self.int_(n.args[1])})'
            raise CannotTranslate(f'call {f}')
        if isinstance(n, ast.IfExp):
            return f'(if {self.bool_(n.test)} then {self.int_(n.body)} else {self.int_(n.orelse)})'
        raise CannotTranslate(f'integer expression {ast.unparse(n)}')

    def bool_(self, n):
        a = self.atom(n)
        if a is not None:
            if self.types.get(a) != 'Bool':
                raise CannotTranslate(f'{a} used as Bool')
            return a
        if isinstance(n, ast.Constant) and isinstance(n.value, bool):
            return 'true' if n.value else 'false'
        if isinstance(n, ast.Name) and self.types.get(n.id) == 'Bool':
            return n.id
        if isinstance(n, ast.BoolOp):
            # flatten `a or b and c` keeping Python's precedence; also try atoms on sub-groups
            sym = '||' if isinstance(n.op, ast.Or) else '&&'
            vals = list(n.values)
            # an atom may span the tail of an `or` chain (e.g. `x is not None and x != y` inside `a or b or x…`)
            return '(' + f' {sym} '.join(self.bool_(v) for v in vals) + ')'
        if isinstance(n, ast.UnaryOp) and isinstance(n.op, ast.Not):
            return f'(!{self.bool_(n.operand)})'
        if isinstance(n, ast.Compare):
            ops = {ast.LtE: '≤', ast.Lt: '<', ast.GtE: '≥', ast.Gt: '>', ast.Eq: '=', ast.NotEq: '≠'}
            parts = []
            left = n.left
            for op, right in zip(n.ops, n.comparators):
                sym = ops.get(type(op))
                if sym is None:
                    raise CannotTranslate(f'comparison {type(op).__name__}')
                parts.append(f'decide ({self.int_(left)} {sym} {self.int_(right)})')
                left = right
            return '(' + ' && '.join(parts) + ')'
        raise CannotTranslate(f'boolean expression {ast.unparse(n)}')

    def function(self, fn, ret):
        """body of the form: (if test: return X)* return Y"""
        def go(stmts):
            stmts = [s for s in stmts if not (isinstance(s, ast.Expr) and isinstance(s.value, ast.Constant))]
            if not stmts:
                raise CannotTranslate('function body falls through')
            s = stmts[0]
            if isinstance(s, ast.Return):
                return self.bool_(s.value) if ret == 'Bool' else self.int_(s.value)
            if isinstance(s, ast.If) and not s.orelse:
                return f'(if {self.bool_(s.test)} then {go(s.body)} else {go(stmts[1:])})'
            if isinstance(s, ast.If):
                return f'(if {self.bool_(s.test)} then {go(s.body)} else {go(s.orelse)})'
            raise CannotTranslate(f'statement {type(s).__name__}')
        return go(fn.body)


_ALL_CHARS = None
_CSET_CACHE = {}


def _cset(pattern_text, flags):
    """the set of code points (surrogates excluded) a one-character pattern matches, asked from the re engine"""
    global _ALL_CHARS
    key = (pattern_text, flags)
    if key not in _CSET_CACHE:
        if _ALL_CHARS is None:
            _ALL_CHARS = ''.join(chr(c) for c in range(0x110000) if not 0xD800 <= c <= 0xDFFF)
        pts = [ord(c) for c in re.compile(pattern_text, flags | re.DOTALL).findall(_ALL_CHARS)]
        ranges = []
        for c in pts:
            if ranges and ranges[-1][1] + 1 == c:
                ranges[-1][1] = c
            else:
                ranges.append([c, c])
        _CSET_CACHE[key] = ranges
    return _CSET_CACHE[key]


def _class_text(items):
    """re-build the text of a character class from its parse tree (ranges and literals only)"""
    from re import _constants as C
    out, neg = [], False
    for op, av in items:
        if op is C.NEGATE:
            neg = True
        elif op is C.LITERAL:
            out.append('\\U%08x' % av)
        elif op is C.RANGE:
            out.append('\\U%08x-\\U%08x' % av)
        else:
            raise CannotTranslate(f'character class item {op}')
    return '[' + ('^' if neg else '') + ''.join(out) + ']'


def _one_char(item, flags):
    from re import _constants as C
    op, av = item
    if op is C.LITERAL:
        return _cset('\\U%08x' % av, flags)
    if op is C.IN:
        return _cset(_class_text(av), flags)
    raise CannotTranslate(f'pattern item {op}')


def _lean_cset(ranges):
    return '[' + ', '.join(f'({a}, {b})' for a, b in ranges) + ']'


def translate_regex(repo, k):
    from re import _constants as C, _parser
    src = open(os.path.join(repo, k['file'])).read()
    tree = ast.parse(src)
    hits = [n for n in ast.walk(tree) if isinstance(n, ast.Assign) and len(n.targets) == 1 and
            isinstance(n.targets[0], ast.Name) and n.targets[0].id == k['var']]
    if len(hits) != 1:
        raise CannotTranslate(f'{len(hits)} assignments to {k["var"]}')
    call = hits[0].value
    if not (isinstance(call, ast.Call) and ast.unparse(call.func) == 're.compile' and call.args and
            isinstance(call.args[0], ast.Constant) and isinstance(call.args[0].value, str)):
        raise CannotTranslate(f'{k["var"]} is not re.compile(<literal>)')
    pattern = call.args[0].value
    flag_node = call.args[1] if len(call.args) > 1 else next((kw.value for kw in call.keywords if kw.arg == 'flags'), None)
    flags = 0
    if flag_node is not None:
        for n in ast.walk(flag_node):
            if isinstance(n, (ast.BinOp, ast.BitOr, ast.Load)):
                continue
            if isinstance(n, ast.Attribute) and isinstance(n.value, ast.Name) and n.value.id == 're' and n.attr.isupper():
                flags |= int(getattr(re, n.attr))
            elif isinstance(n, ast.Name) and n.id == 're':
                continue
            else:
                raise CannotTranslate(f'flags expression {ast.unparse(flag_node)}')
    if flags & (re.MULTILINE | re.VERBOSE | re.LOCALE):
        raise CannotTranslate('MULTILINE / VERBOSE / LOCALE pattern')
    # how the pattern object is used: every use must be <var>.match( / .fullmatch( ; .search( only behind a leading ^
    uses = set(re.findall(r'\b' + re.escape(k['var']) + r'\.(\w+)\(', src))
    items = list(_parser.parse(pattern, flags))
    flags = _parser.parse(pattern, flags).state.flags      # includes the implicit UNICODE flag of str patterns
    anchored = bool(items) and items[0] == (C.AT, C.AT_BEGINNING)
    if anchored:
        items = items[1:]
    if not uses or not uses <= {'match', 'fullmatch', 'search'} or ('search' in uses and not anchored):
        raise CannotTranslate(f'uses of the pattern object: {sorted(uses)}')
    end = 'open'
    if items and items[-1][0] is C.AT:
        if items[-1][1] is C.AT_END:
            end = 'dollar'
        elif items[-1][1] is C.AT_END_STRING:
            end = 'absolute'
        else:
            raise CannotTranslate(f'anchor {items[-1][1]}')
        items = items[:-1]
    if uses == {'fullmatch'}:
        end = 'absolute'
    elif 'fullmatch' in uses:
        raise CannotTranslate('pattern used both with match and fullmatch')
    if not items:
        raise CannotTranslate('empty pattern')

    def alt_of(seq):
        if len(seq) != 1:
            raise CannotTranslate('alternative is not a single repeated set')
        op, av = seq[0]
        if op in (C.LITERAL, C.IN):
            lo, hi, body = 1, 1, [seq[0]]
        elif op is C.MAX_REPEAT:
            lo, hi, body = av
            body = list(body)
        else:
            raise CannotTranslate(f'alternative {op}')
        if len(body) != 1:
            raise CannotTranslate('repeat of more than one position')
        his = 'none' if hi == C.MAXREPEAT else f'(some {int(hi)})'
        return f'⟨{_lean_cset(_one_char(body[0], flags))}, {int(lo)}, {his}⟩'

    last = items[-1]
    if last[0] is C.SUBPATTERN:
        group, add, dele, body = last[1]
        if add or dele:
            raise CannotTranslate('inline flags')
        body = list(body)
        if len(body) == 1 and body[0][0] is C.BRANCH:
            alts = [alt_of(list(b)) for b in body[0][1][1]]
        else:
            alts = [alt_of(body)]
    else:
        alts = [alt_of([last])]
    pre = [_lean_cset(_one_char(it, flags)) for it in items[:-1]]
    body = ('{ pre := [' + ', '.join(pre) + '],\n    alts := [' + ',\n             '.join(alts) + '],\n    endA := .' + end + ' }')
    return f'def {k["name"]} : Torf.Rx.Shape :=\n  {body}'


def translate_strings(repo, k):
    tree = ast.parse(open(os.path.join(repo, k['file'])).read())
    node = _pick(_find_func(tree, k['func']), k['pick'])
    if not isinstance(node, (ast.Tuple, ast.List)):
        raise CannotTranslate('not a literal tuple / list')
    out = []
    for e in node.elts:
        if isinstance(e, (ast.Tuple, ast.List)) and e.elts:
            e = e.elts[0]
        if not (isinstance(e, ast.Constant) and isinstance(e.value, str) and e.value.isascii() and e.value.isprintable()
                and '"' not in e.value and '\\' not in e.value):
            raise CannotTranslate(f'element {ast.unparse(e)}')
        out.append('"' + e.value + '"')
    return f'def {k["name"]} : List String :=\n  [' + ', '.join(out) + ']'


def translate_keys(repo, k):
    """the string constants a function uses as dictionary keys (primary uses of harness/gen/keyharvest.py), sorted"""
    from harness.gen import keyharvest
    tree = ast.parse(open(os.path.join(repo, k['file'])).read())
    prim, _ = keyharvest.harvest_tree(_find_func(tree, k['func']))
    out = []
    for key in sorted(prim):
        try:
            t = key.decode('utf8')
        except UnicodeDecodeError:
            raise CannotTranslate(f'key {key!r} is not UTF-8')
        if not (t.isascii() and t.isprintable() and '"' not in t and '\\' not in t):
            raise CannotTranslate(f'key {t!r}')
        out.append('"' + t + '"')
    return f'def {k["name"]} : List String :=\n  [' + ', '.join(out) + ']'


def translate_kernel(repo, k):
    if k.get('kind') == 'regex':
        return translate_regex(repo, k)
    if k.get('kind') == 'strings':
        return translate_strings(repo, k)
    if k.get('kind') == 'keys':
        return translate_keys(repo, k)
    src = open(os.path.join(repo, k['file'])).read()
    tree = ast.parse(src)
    fn = _find_func(tree, k['func'])
    node = _pick(fn, k['pick'])
    tr = Tr(k['params'], k.get('atoms'))
    if k['pick'][0] == 'function':
        body = tr.function(node, k['ret'])
    else:
        body = tr.bool_(node) if k['ret'] == 'Bool' else tr.int_(node)
    # group consecutive parameters of equal type
    sig = ' '.join(f'({n} : {t})' for n, t in k['params'])
    return f'def {k["name"]} {sig} : {k["ret"]} :=\n  {body}'


HEADER = '''/-
  GENERATED by harness/translate.py from the Python source under test — do not edit.
  One definition per kernel; the markers let the translator keep the committed snapshot of a
  kernel it can no longer locate.
-/
import Torf.Base.Rx
namespace Torf.Generated

'''


def _snapshot_sections():
    if not os.path.exists(OUT):
        return {}
    txt = open(OUT).read()
    return {m.group(1): m.group(2) for m in
            re.finditer(r'-- KERNEL (\w+) BEGIN[^\n]*\n(.*?)-- KERNEL \1 END', txt, re.S)}


def regenerate(repo=None):
    repo = repo or common.REPO
    snap = _snapshot_sections()
    status = {}
    parts = [HEADER]
    for k in KERNELS:
        try:
            d = translate_kernel(repo, k)
            status[k['name']] = 'translated'
        except (CannotTranslate, OSError, SyntaxError) as e:
            if k['name'] in snap:
                d = snap[k['name']].rstrip('\n')
                status[k['name']] = f'fallback-to-snapshot: {e}'
            else:
                raise
        parts.append(f'-- KERNEL {k["name"]} BEGIN  ({k["file"]}: {k.get("func") or k.get("var")})\n{d}\n-- KERNEL {k["name"]} END\n\n')
    parts.append('end Torf.Generated\n')
    new = ''.join(parts)
    old = open(OUT).read() if os.path.exists(OUT) else None
    changed = new != old
    if changed:
        os.makedirs(os.path.dirname(OUT), exist_ok=True)
        if old is not None and not os.path.exists(OUT + '.snapshot'):
            pass
        with open(OUT, 'w') as f:
            f.write(new)
    return {'status': status, 'changed': changed,
            'differs_from_committed': _differs_from_committed()}


def _differs_from_committed():
    rc, out = common.run_cmd(['git', 'diff', '--quiet', '--', os.path.relpath(OUT, common.VERIF)], cwd=common.VERIF)
    return rc != 0


def restore_snapshot():
    common.run_cmd(['git', 'checkout', '--', os.path.relpath(OUT, common.VERIF)], cwd=common.VERIF)


if __name__ == '__main__':
    import json
    print(json.dumps(regenerate(), indent=1))
    print(open(OUT).read())
