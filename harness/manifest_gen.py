"""Regenerates MANIFEST.json from the table below (run: /venv/bin/python harness/manifest_gen.py)."""
import json
import os

VERIF = os.path.dirname(os.path.dirname(os.path.abspath(__file__)))
ALL = [f'C{i:02d}' for i in range(1, 21)]

CHECKS = {
    'C01': dict(
        text='Lean 4 theorems (C01_iter_eq_chunks, C01_count, C01_only_last_short, C01_collect_perm, '
             'C01_generate_spec) prove for every piece length, every list of files and every arrival order of '
             'the hashers\' results that the code-shaped model of iter_pieces/Reader/Collector/generate stores '
             'map H (chunks L stream) with ceil(total/L) digests; the model is tied to the code by a '
             'differential run of the compiled model driver against TorrentFileStream.iter_pieces and '
             'Torrent.generate on the same layouts (bytes and SHA-1 compared).',
        design='§7 C01',
        note='Trusted: Lean kernel, axioms propext/Classical.choice/Quot.sound, the correspondence harness; '
             'SHA-1 is a parameter; float division in Torrent.pieces exact below 2^52; thread schedules are C03.',
        technique='Lean 4 proof (fold invariant, refinement to chunks) + model/implementation correspondence check'),
}


def main():
    checks = []
    for pid in ALL:
        if pid not in CHECKS:
            continue
        c = CHECKS[pid]
        checks.append({
            'property_id': pid,
            'quick_cmd': f'./check {pid} --tier quick',
            'thorough_cmd': f'./check {pid} --tier thorough',
            'evidence_file': f'evidence/{pid}.json',
            'replay_cmd_template': f'./check {pid} --replay {{path}}',
            'engine': 'lean4-proof+correspondence',
            'level_claimed': {'category': 'proof', 'text': c['text'], 'design_ref': c['design']},
            'level_note': c['note'],
            'technique': c['technique'],
        })
    na = [{'property_id': pid, 'reason': 'check not built yet in this round (no claim made); see DESIGN.md §7 for the planned proof'}
          for pid in ALL if pid not in CHECKS]
    m = {
        'version': 1,
        'setup_cmd': 'cd lean && lake build Torf driver',
        'hooks': {
            'guard': 'RNDUSR_TORF_VERIF',
            'enable': 'no source hooks: instrumentation is applied from the harness by replacing module globals of the imported torf modules',
            'baseline_off_cmd': 'cd /repo && /venv/bin/python -m pytest -ra -q -p no:cacheprovider --timeout=900 --continue-on-collection-errors',
            'source_commits': [],
            'add_only': True,
        },
        'engines': [{
            'name': 'lean4-proof+correspondence',
            'path': 'lean/ (models, specs, theorems, driver) + harness/ (correspondence, findings, evidence)',
            'serves_properties': [c['property_id'] for c in checks],
            'kind_free_text': 'machine-checked proof in Lean 4 about hand-written executable models; models tied to the '
                              'code by a differential correspondence check and a kernel translator',
        }],
        'checks': checks,
        'not_applicable': na,
        'notes': 'Run checks from the checkout root. VERIF_SEED selects the random part, VERIF_REPO the tree under test (default /repo).',
    }
    with open(os.path.join(VERIF, 'MANIFEST.json'), 'w') as f:
        json.dump(m, f, indent=1)
        f.write('\n')


if __name__ == '__main__':
    main()
