"""
Regenerates MANIFEST.json from harness/manifest.d/Cxx.json and known_findings.json from
known_findings.d/*.json.   Run:  /venv/bin/python harness/manifest_gen.py
(Development-time only; no check ever writes either file.)

manifest.d/Cxx.json: {"text": level_claimed.text, "design": DESIGN.md section, "note": level_note,
                      "technique": few words}
not_applicable.json (optional): [{"property_id":…, "reason":…}]
"""
import glob
import json
import os

VERIF = os.path.dirname(os.path.dirname(os.path.abspath(__file__)))
ALL = [f'C{i:02d}' for i in range(1, 21)]


def main():
    checks = []
    claimed = []
    for pid in ALL:
        p = os.path.join(VERIF, 'harness', 'manifest.d', f'{pid}.json')
        if not os.path.exists(p):
            continue
        c = json.load(open(p))
        claimed.append(pid)
        checks.append({
            'property_id': pid,
            'quick_cmd': f'./check {pid} --tier quick',
            'thorough_cmd': f'./check {pid} --tier thorough',
            'evidence_file': f'evidence/{pid}.json',
            'replay_cmd_template': f'./check {pid} --replay {{path}}',
            'engine': 'lean4-proof+correspondence',
            'level_claimed': {'category': 'proof', 'text': c['text'], 'design_ref': c['design']},
            'level_note': c['note'],
            'technique': c['technique'],
        })
    na_path = os.path.join(VERIF, 'harness', 'manifest.d', 'not_applicable.json')
    na_given = {e['property_id']: e['reason'] for e in json.load(open(na_path))} if os.path.exists(na_path) else {}
    na = [{'property_id': pid,
           'reason': na_given.get(pid, 'check not built yet (no claim made); DESIGN.md §7 has the planned proof')}
          for pid in ALL if pid not in claimed]
    m = {
        'version': 1,
        'setup_cmd': 'cd lean && lake build Torf driver',
        'hooks': {
            'guard': 'RNDUSR_TORF_VERIF',
            'enable': 'no source hooks: instrumentation is applied from the harness by replacing module globals of the imported torf modules',
            'baseline_off_cmd': 'cd /repo && /venv/bin/python -m pytest -ra -q -p no:cacheprovider --timeout=900 --continue-on-collection-errors',
            'source_commits': [],
            'add_only': True,
        },
        'engines': [{
            'name': 'lean4-proof+correspondence',
            'path': 'lean/ (models, specs, theorems, driver) + harness/ (correspondence, findings, evidence)',
            'serves_properties': claimed,
            'kind_free_text': 'machine-checked proof in Lean 4 about hand-written executable models; models tied to the '
                              'code by a differential correspondence check (and a kernel translator)',
        }],
        'checks': checks,
        'not_applicable': na,
        'notes': 'Run checks from the checkout root. VERIF_SEED selects the random part, VERIF_REPO the tree under test (default /repo).',
    }
    with open(os.path.join(VERIF, 'MANIFEST.json'), 'w') as f:
        json.dump(m, f, indent=1)
        f.write('\n')
    findings = []
    for p in sorted(glob.glob(os.path.join(VERIF, 'known_findings.d', '*.json'))):
        findings.extend(json.load(open(p))['findings'])
    ids = [f['id'] for f in findings]
    assert len(ids) == len(set(ids)), 'duplicate finding ids'
    with open(os.path.join(VERIF, 'known_findings.json'), 'w') as f:
        json.dump({
            'format': 'status "open": genuine defect recorded, not repaired; its witness is replayed on every run and a '
                      'KNOWN-FINDING line is printed while it still fails; `matcher` names the predicate (in '
                      'harness/props/<prop>.py) that is as narrow as the defect.  status "fixed": repaired by the '
                      'given fix: commit in /repo; suppresses nothing; `line` is the record required by the interface.',
            'findings': findings}, f, indent=1)
        f.write('\n')


if __name__ == '__main__':
    main()
