"""
Append / refresh the section "Round-N seeded changes (generated)" of notes/Cxx.md from seeded/Cxx-N?/meta.json.
usage: notes_round.py <round>
"""
import glob, json, os, re, sys
VERIF = os.path.dirname(os.path.dirname(os.path.abspath(__file__)))
rnd = int(sys.argv[1])
by = {}
for d in sorted(glob.glob(os.path.join(VERIF, 'seeded', f'C??-{rnd}?'))):
    m = json.load(open(os.path.join(d, 'meta.json')))
    by.setdefault(m['property'], []).append(m)
for prop, ms in sorted(by.items()):
    p = os.path.join(VERIF, 'notes', f'{prop}.md')
    txt = open(p).read() if os.path.exists(p) else f'# {prop}\n'
    begin, end = f'<!-- BEGIN:round{rnd} -->', f'<!-- END:round{rnd} -->'
    lines = [begin, f'## Round-{rnd} seeded changes (generated from seeded/{prop}-{rnd}?/meta.json by harness/notes_round.py)', '',
             '| id | what the change does | what it needs | detection | note |', '|---|---|---|---|---|']
    def cell(s, n):
        s = re.sub(r'\s+', ' ', str(s or '')).replace('|', '\\|')
        return s if len(s) <= n else s[:n] + '…'
    for m in ms:
        d = m['detection']
        lines.append(f"| {m['id']} | {cell(m.get('summary'), 420)} | {cell(m.get('needs_to_manifest'), 300)} | "
                     f"{d['status']}: {cell(d['caught_by'], 80)} | {cell(d.get('note'), 600)} |")
    lines += ['', end]
    block = '\n'.join(lines)
    if begin in txt:
        txt = re.sub(re.escape(begin) + r'.*?' + re.escape(end), lambda _: block, txt, flags=re.S)
    else:
        txt = txt.rstrip('\n') + '\n\n' + block + '\n'
    open(p, 'w').write(txt)
    print(prop, len(ms))
