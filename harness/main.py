"""
Entry point of every check:   ./check <PROP> [--tier quick|thorough] [--replay FILE]

Exit codes: 0 property held on everything explored (KNOWN-FINDING lines allowed),
            1 violation (a `VIOLATION property=<id> replay=<path>` line is printed),
            2 the check itself is broken (machinery error, timeout, build of the driver failed).
"""
import argparse
import importlib
import json
import os
import sys
import time
import traceback

sys.path.insert(0, os.path.dirname(os.path.dirname(os.path.abspath(__file__))))
from harness import common  # noqa: E402


def write_evidence(ctx, st, wall, nviol, extra=None):
    os.makedirs(common.EVIDENCE_DIR, exist_ok=True)
    trusted = [
        'Lean 4.33.0 kernel',
        'axioms per theorem: ' + json.dumps(st.axioms, sort_keys=True),
        'correspondence harness (harness/props/%s.py): differential test of the Lean model/spec against the real code' % ctx.prop.lower(),
    ]
    mod = ctx.notes.get('trusted_base')
    if mod:
        trusted.extend(mod)
    cov = {
        'obligations': st.obligations,
        'discharged': st.discharged,
        'checker_cmd': st.checker_cmd,
        'trusted_base': trusted,
        'theorems': st.theorems,
        'evaluations': ctx.evaluations,
        'distinct_nontrivial': len(ctx.nontrivial),
        'rule': ctx.notes.get('rule', ''),
        'samples': ctx.samples or [{'note': 'no case ran'}],
        'exhaustive': bool(ctx.exhaustive),
        'input_distribution': dict(ctx.dist),
        'translator': st.translator,
        'known_findings_reproduced': list(ctx.known.keys()),
        'known_findings_not_reproduced': ctx.not_reproduced,
        'correspondence_breaks': len(ctx.corr_breaks),
        'forbidden_tokens': st.forbidden,
        'leanchecker': st.leanchecker,
    }
    for k, v in ctx.notes.items():
        if k not in ('rule', 'trusted_base', 'assumptions'):
            cov[k] = v
    if extra:
        cov.update(extra)
    ev = {
        'property_id': ctx.prop,
        'tier': ctx.tier,
        'seed': ctx.seed,
        'level': 'proof',
        'coverage': cov,
        'assumptions': ctx.notes.get('assumptions', []),
        'wall_s': round(wall, 2),
        'violations': nviol,
    }
    with open(os.path.join(common.EVIDENCE_DIR, f'{ctx.prop}.json'), 'w') as f:
        json.dump(common.jsonable(ev), f, indent=1, sort_keys=True)
        f.write('\n')


def write_replay(ctx, kind, payload):
    os.makedirs(common.REPLAY_DIR, exist_ok=True)
    path = os.path.join(common.REPLAY_DIR, f'{ctx.prop}-{ctx.tier}-seed{ctx.seed}-{kind}.json')
    with open(path, 'w') as f:
        json.dump(common.jsonable({'property': ctx.prop, 'tier': ctx.tier, 'seed': ctx.seed,
                                   'kind': kind, **payload}), f, indent=1, sort_keys=True)
        f.write('\n')
    return os.path.relpath(path, common.VERIF)


def main():
    ap = argparse.ArgumentParser()
    ap.add_argument('prop')
    ap.add_argument('--tier', default=os.environ.get('VERIF_TIER', 'quick'), choices=['quick', 'thorough'])
    ap.add_argument('--replay')
    a = ap.parse_args()
    prop = a.prop.upper()
    seed = int(os.environ.get('VERIF_SEED', '0') or 0)
    t0 = time.time()
    ctx = common.Ctx(prop, a.tier, seed)
    mod = importlib.import_module(f'harness.props.{prop.lower()}')

    if a.replay:
        rp = json.load(open(a.replay))
        st = common.ensure_build(prop)
        drv = common.Driver() if st.driver_ok else None
        res = mod.replay(ctx, drv, rp)
        print(json.dumps(common.jsonable(res), indent=1))
        return 1 if res.get('fails') else 0

    st = common.ensure_build(prop, thorough=ctx.thorough)
    if not st.driver_ok:
        # The model driver itself does not build: the check cannot run.
        print(st.log[-3000:])
        print(f'ERROR: model driver does not build; check {prop} is broken')
        write_evidence(ctx, st, time.time() - t0, 0, {'error': 'driver build failed'})
        return 2
    drv = common.Driver()
    proofs_ok = st.proofs_ok
    ctx.proofs_ok = proofs_ok
    try:
        mod.run(ctx, drv)
        if (not proofs_ok or ctx.corr_breaks) and not ctx.violations and hasattr(mod, 'search'):
            # a proof obligation or the correspondence is broken without a failing input so far:
            # spend a larger budget looking for one on the real code
            ctx.notes['search_ran'] = True
            mod.search(ctx, drv)
    except Exception:
        traceback.print_exc()
        print(f'ERROR: harness exception; check {prop} is broken')
        write_evidence(ctx, st, time.time() - t0, 0, {'error': traceback.format_exc()[-2000:]})
        return 2

    wall = time.time() - t0
    if ctx.machinery_errors:
        print('ERROR: machinery inconsistency (model vs spec under a proved theorem, or driver/harness out of step):')
        print(json.dumps(common.jsonable(ctx.machinery_errors[:3]), indent=1))
        write_evidence(ctx, st, wall, 0, {'error': 'machinery', 'machinery_errors': ctx.machinery_errors[:5]})
        return 2

    for fid, info in ctx.known.items():
        print(f'KNOWN-FINDING: property={prop} {fid}: {info["what"]}')

    rc = 0
    nviol = 0
    if ctx.violations:
        v = ctx.violations[0]
        path = write_replay(ctx, 'violation', {
            'what': v['what'], 'case': v['case'], 'expected': v['expected'], 'observed': v['observed'],
            'more': ctx.violations[1:10],
            'proofs_ok': proofs_ok, 'broken': (st.broken_description() if not proofs_ok else None),
            'correspondence_breaks': ctx.corr_breaks[:5]})
        print(f'VIOLATION property={prop} replay={path}')
        print('  ' + v['what'])
        nviol = len(ctx.violations)
        rc = 1
    elif not proofs_ok:
        path = write_replay(ctx, 'broken-proof', {
            'broken': 'theorem:' + st.broken_description(),
            'theorems': st.theorems, 'axioms': st.axioms,
            'log_tail': st.log[-4000:],
            'note': 'no failing input was found on the implementation; the property is no longer shown to hold'})
        print(f'VIOLATION property={prop} replay={path} no-failing-input-found')
        nviol = 1
        rc = 1
    elif ctx.corr_breaks:
        b = ctx.corr_breaks[0]
        path = write_replay(ctx, 'broken-correspondence', {
            'broken': 'correspondence:' + b['op'], 'case': b['case'], 'model': b['model'], 'impl': b['impl'],
            'more': ctx.corr_breaks[1:10],
            'note': 'model and implementation disagree on this case but the implementation still meets the '
                    'executable specification on everything searched; the theorems no longer speak about this code'})
        print(f'VIOLATION property={prop} replay={path} no-failing-input-found')
        nviol = 1
        rc = 1
    write_evidence(ctx, st, wall, nviol)
    print(f'{prop} {a.tier} seed={seed}: evaluations={ctx.evaluations} nontrivial={len(ctx.nontrivial)} '
          f'obligations={st.obligations} discharged={st.discharged} known={list(ctx.known)} '
          f'wall={wall:.1f}s rc={rc}')
    return rc


if __name__ == '__main__':
    try:
        rc = main()
    finally:
        common.cleanup_scratch()
    sys.exit(rc)
