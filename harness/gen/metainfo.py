"""Grammar-based generator of bencoded torrent metainfo (canonical, valid by construction) and
of mutations of it.  Owned by C05/C06.  Values are int | bytes | list | dict(bytes keys)."""
from harness.impl import bencode_strict as bs

K16 = 16384

# characters chosen for their UTF-8 boundaries: 1/2/3/4-byte encodings, U+FFFF and the BMP
# private-use area (3 bytes, 0xEE/0xEF lead) vs astral characters (4 bytes, 0xF0 lead): in UTF-16
# code-unit order the astral ones sort *before* U+E000..U+FFFF, in code-point / UTF-8 byte order after.
CHARS = ['a', 'b', 'Z', '0', ' ', '/', '\x00', '\x7f', '\x80', '\xe9', '\xfc', '\u07ff', '\u0800', '\ud7ff',
         '\ue000', '\uf8ff', '\uffff', '\U00010000', '\U0001f600', '\U0010ffff', '~', '\n']
BAD_UTF8 = [b'\xff', b'\xfe', b'\x80', b'\xc0\x80', b'\xed\xa0\x80', b'\xf4\x90\x80\x80', b'\xe2\x82',
            b'\xf0\x9f\x98', b'a\xffb', b'\xc3', b'\xf5\x80\x80\x80', b'\xe0\x80\x80', b'\xf0\x80\x80\x80']


def rtext(r, lo=0, hi=4):
    return ''.join(r.choice(CHARS) for _ in range(r.randint(lo, hi))).encode('utf8')


def rbytes(r, utf8=None):
    if utf8 is None:
        utf8 = r.random() < 0.7
    if utf8:
        return rtext(r)
    return r.choice(BAD_UTF8) + (rtext(r, 0, 2) if r.random() < 0.3 else b'')


# names the library gives a meaning to at SOME level of the metainfo: as keys of unknown dictionaries, or at a level where
# they mean nothing (a top-level 'private', a per-file 'name', {'private': 2} inside an unknown field), they are ordinary
# unknown fields and must be preserved like any other - a conversion keyed by name that recurses (seed C05-6b) is not
SCHEMA_NAMES = [b'info', b'creation date', b'announce', b'announce-list', b'comment', b'created by', b'url-list',
                b'httpseeds', b'encoding', b'name', b'piece length', b'pieces', b'length', b'files', b'private', b'md5sum',
                b'source', b'path', b'entropy', b'nodes', b'name.utf-8', b'path.utf-8']


def rkey(r, bad=0.0):
    if r.random() < bad:
        return r.choice(BAD_UTF8)
    if r.random() < 0.2:
        return r.choice(SCHEMA_NAMES)
    return rtext(r, 0, 3)


def rint(r, big=True):
    k = r.random()
    if k < 0.4:
        return r.randint(-5, 5)
    if k < 0.6:
        return r.choice([2 ** 31, 2 ** 63, 2 ** 64, -2 ** 63 - 1, 10 ** 30, -10 ** 30, 255, 256, 10, 99, 100])
    if k < 0.996 or not big:
        return r.randint(-10 ** 12, 10 ** 12)
    return r.choice([1, -1]) * (10 ** r.choice([400, 4000, 4298, 4299]) + r.randint(0, 10 ** 6))


def rval(r, depth=0, maxdepth=6, badkeys=0.0):
    k = r.random()
    if depth >= maxdepth or k < 0.3:
        return rint(r)
    if k < 0.6:
        return rbytes(r)
    if k < 0.8:
        return [rval(r, depth + 1, maxdepth, badkeys) for _ in range(r.choice([0, 0, 1, 2, 3]))]
    return {rkey(r, badkeys): rval(r, depth + 1, maxdepth, badkeys) for _ in range(r.choice([0, 0, 1, 2, 3]))}


def deep(r, n):
    v = rint(r, big=False)
    for _ in range(n):
        v = [v] if r.random() < 0.5 else {rkey(r): v}
    return v


RESERVED_TOP = {b'info', b'creation date', b'announce', b'announce-list', b'comment', b'created by',
                b'url-list', b'httpseeds', b'encoding'}
RESERVED_INFO = {b'name', b'piece length', b'pieces', b'length', b'files', b'private', b'md5sum', b'source'}


def metainfo(r, opts=None):
    """A metainfo value that torf's validate() accepts (unless opts asks for a deviation).
    opts: dict with optional 'private' (value), 'cdate' (value), 'badkeys' (prob.), 'nopieces'."""
    opts = opts or {}
    badkeys = opts.get('badkeys', 0.0)
    single = r.random() < 0.5
    info = {b'name': (rtext(r, 1, 4) or b'n') if r.random() < 0.85 else r.choice(BAD_UTF8),
            b'piece length': K16 * r.choice([1, 1, 2, 4, 64])}
    if single:
        size = info[b'length'] = r.choice([1, K16 - 1, K16, K16 + 1, r.randint(1, 5 * K16)])
        if r.random() < 0.1:
            info[b'md5sum'] = bytes(r.choice(b'0123456789abcdef') for _ in range(32))
    else:
        files = []
        for _ in range(r.randint(1, 4)):
            f = {b'length': r.choice([0, 1, K16, r.randint(0, 2 * K16)]),
                 b'path': [(rtext(r, 1, 3) or b'x') if r.random() < 0.85 else r.choice(BAD_UTF8)
                           for _ in range(r.randint(1, 3))]}
            for _ in range(r.choice([0, 0, 1])):
                k = rkey(r, badkeys)
                if k not in (b'length', b'path', b'md5sum'):
                    f[k] = rval(r, 3, 6, badkeys)
            files.append(f)
        size = sum(f[b'length'] for f in files)
        if size == 0:
            files[0][b'length'] = size = 1
        info[b'files'] = files
    n = -(-size // info[b'piece length'])
    if not opts.get('nopieces'):
        pk = r.random()
        if pk < 0.8:
            info[b'pieces'] = bytes(r.randrange(256) for _ in range(20 * n))
        elif pk < 0.9:
            info[b'pieces'] = bytes([0x61 + r.randrange(3)]) * (20 * n)     # valid UTF-8 pieces
        else:
            info[b'pieces'] = (('\xe9' * 10 * n).encode())                      # valid multi-byte UTF-8
    if 'private' in opts:
        info[b'private'] = opts['private']
    elif r.random() < 0.35:
        info[b'private'] = r.randint(0, 1)
    if r.random() < 0.2:
        info[b'source'] = rbytes(r)
    for _ in range(r.choice([0, 0, 1, 2, 3])):
        k = rkey(r, badkeys)
        if k not in RESERVED_INFO:
            info[k] = rval(r, 1, 6, badkeys)
    md = {b'info': info}
    if 'cdate' in opts:
        md[b'creation date'] = opts['cdate']
    elif r.random() < 0.5:
        md[b'creation date'] = r.choice([0, 1, 2 ** 31 - 1, 2 ** 31, 1700000000, r.randint(0, 2 ** 33),
                                         253402300799, r.randint(-10 ** 9, 0)])
    if r.random() < 0.5:
        md[b'announce'] = r.choice([b'http://a.b/c', b'udp://x.y:1/z', 'http://\xe9x.example/ann'.encode()])
    if r.random() < 0.3:
        md[b'announce-list'] = [[b'http://a.b/c', b'udp://x:1/y'][:r.randint(0, 2)], [b'http://z/']][:r.randint(0, 2)]
    if r.random() < 0.3:
        md[b'comment'] = rbytes(r)
    if r.random() < 0.3:
        md[b'created by'] = rbytes(r)
    if r.random() < 0.2:
        md[b'url-list'] = [b'http://w.s/x'] if r.random() < 0.5 else b'http://w.s/x'
    for _ in range(r.choice([0, 0, 1, 2, 3])):
        k = rkey(r, badkeys)
        if k not in RESERVED_TOP:
            md[k] = rval(r, 0, 6, badkeys) if r.random() < 0.9 else deep(r, r.randint(4, 6))
    return md


def features(v, depth=0, acc=None):
    """feature set of a value, for the input-distribution report and the non-triviality rule"""
    if acc is None:
        acc = set()
    if isinstance(v, int):
        if abs(v) >= 2 ** 64:
            acc.add('bigint')
        if abs(v) >= 10 ** 400:
            acc.add('hugeint')
        if v < 0:
            acc.add('negint')
    elif isinstance(v, bytes):
        try:
            s = v.decode('utf8')
            if any(ord(c) > 0xffff for c in s):
                acc.add('astral-text')
        except UnicodeDecodeError:
            acc.add('non-utf8-bytes')
    elif isinstance(v, list):
        if not v:
            acc.add('empty-list')
        if depth >= 4:
            acc.add('depth>=4')
        for x in v:
            features(x, depth + 1, acc)
    elif isinstance(v, dict):
        if not v:
            acc.add('empty-dict')
        if depth >= 4:
            acc.add('depth>=4')
        ks = list(v)
        if any(len(k) != len(k.decode('utf8', 'replace')) for k in ks):
            acc.add('multibyte-key')
        try:
            dk = [k.decode('utf8') for k in ks]
            u16 = sorted(dk, key=lambda s: s.encode('utf-16-be', 'surrogatepass'))
            if u16 != sorted(dk):
                acc.add('utf16-order-differs')
        except UnicodeDecodeError:
            acc.add('non-utf8-key')
        for k in ks:
            features(v[k], depth + 1, acc)
    return acc


# ---------------------------------------------------------------- mutations (non-canonical / malformed)

def _dict_paths(v, path=()):
    if isinstance(v, dict):
        yield path
        for k, x in v.items():
            yield from _dict_paths(x, path + (k,))
    elif isinstance(v, list):
        for i, x in enumerate(v):
            yield from _dict_paths(x, path + (i,))


def _replace(v, path, f):
    if not path:
        return f(v)
    if isinstance(v, dict):
        return {k: (_replace(x, path[1:], f) if k == path[0] else x) for k, x in v.items()}
    return [(_replace(x, path[1:], f) if i == path[0] else x) for i, x in enumerate(v)]


def mutate_structure(r, md):
    """returns (kind, bytes): a non-canonical or malformed encoding derived from md"""
    paths = [p for p in _dict_paths(md)]
    p = r.choice(paths)
    kind = r.choice(['reverse', 'shuffle', 'dup-first', 'dup-last', 'dup-adjacent', 'odd-arity', 'int-key',
                     'list-key', 'int-key-last'])

    def f(d):
        items = [(k, d[k]) for k in sorted(d)]
        if kind == 'reverse':
            items.reverse()
        elif kind == 'shuffle':
            r.shuffle(items)
        elif kind.startswith('dup') and items:
            k, x = r.choice(items)
            new = (k, r.choice([x, 7, b'dup', [], {}]))
            if kind == 'dup-first':
                items.insert(0, new)
            elif kind == 'dup-last':
                items.append(new)
            else:
                i = items.index((k, x))
                items.insert(i + r.randint(0, 1), new)
        elif kind == 'odd-arity':
            return bs.Pairs(items + [(rkey(r), bs.Raw(b''))])
        elif kind == 'int-key':
            items.insert(r.randint(0, len(items)), (r.randint(0, 9), 1))
        elif kind == 'int-key-last':
            return bs.Pairs(items + [(5, bs.Raw(b''))])
        elif kind == 'list-key':
            items.insert(r.randint(0, len(items)), ([], 1))
        return bs.Pairs(items)
    return kind, bs.ser_raw(_replace(md, p, f))


def mutate_bytes(r, x):
    """byte-level mutations of an encoding"""
    kind = r.choice(['neg-zero', 'lead-zero-int', 'lead-zero-len', 'trailing', 'truncate',
                     'empty', 'empty-int', 'minus-only', 'plus-int', 'space-int', 'bitflip', 'extra-e',
                     'missing-e', 'colon-only', 'long-len', 'double-minus'])
    if r.random() < 0.03:   # the 4300-digit limit of int(); costly on the model side, so rarer
        kind = r.choice(['lead-zero-len-many', 'len-4301-digits', 'int-4301-digits', 'int-4300-digits'])
    import re
    if kind == 'neg-zero':
        return kind, _splice_int(r, x, b'i-0e')
    if kind == 'lead-zero-int':
        return kind, _splice_int(r, x, b'i0' + str(r.randint(0, 99)).encode() + b'e')
    if kind == 'empty-int':
        return kind, _splice_int(r, x, b'ie')
    if kind == 'minus-only':
        return kind, _splice_int(r, x, b'i-e')
    if kind == 'double-minus':
        return kind, _splice_int(r, x, b'i--1e')
    if kind == 'plus-int':
        return kind, _splice_int(r, x, b'i+1e')
    if kind == 'space-int':
        return kind, _splice_int(r, x, r.choice([b'i 1e', b'i1 e', b'i1_0e', b'i0x1e']))
    if kind == 'int-4301-digits':
        return kind, _splice_int(r, x, b'i' + b'1' * 4301 + b'e')
    if kind == 'int-4300-digits':
        return kind, _splice_int(r, x, b'i-' + b'9' * 4300 + b'e')
    if kind in ('lead-zero-len', 'lead-zero-len-many', 'len-4301-digits', 'colon-only', 'long-len'):
        ms = list(re.finditer(rb'(?<![0-9])([0-9]+):', x))
        if not ms:
            return 'trailing', x + b'e'
        m = r.choice(ms)
        if kind == 'lead-zero-len':
            return kind, x[:m.start()] + b'0' + x[m.start():]
        if kind == 'lead-zero-len-many':
            return kind, x[:m.start()] + b'0' * (4300 - len(m.group(1))) + x[m.start():]
        if kind == 'len-4301-digits':
            return kind, x[:m.start()] + b'0' * (4301 - len(m.group(1))) + x[m.start():]
        if kind == 'colon-only':
            return kind, x[:m.start()] + x[m.end() - 1:]
        return kind, x[:m.start()] + r.choice([b'99999999', b'9999999']) + x[m.end() - 1:]
    if kind == 'trailing':
        return kind, x + r.choice([b'e', b'i0e', b'0:', b'\n', b'x'])
    if kind == 'truncate':
        return kind, x[:r.randrange(max(1, len(x)))]
    if kind == 'empty':
        return kind, r.choice([b'', b'e', b'd', b'l', b'i', b'de', b'le', b'0:', b'i0e', b'dde', b'lle', b'ldee'])
    if kind == 'bitflip':
        i = r.randrange(max(1, len(x)))
        return kind, x[:i] + bytes([x[i] ^ (1 << r.randrange(8))]) + x[i + 1:]
    if kind == 'extra-e':
        i = r.randrange(len(x))
        return kind, x[:i] + b'e' + x[i:]
    if kind == 'missing-e':
        idx = [i for i, c in enumerate(x) if c == 0x65]
        if not idx:
            return 'truncate', x[:-1]
        i = r.choice(idx)
        return kind, x[:i] + x[i + 1:]
    raise AssertionError(kind)


def _splice_int(r, x, lit):
    """put the literal where a value may stand: as a new top-level entry value"""
    # x = d … e ; insert key 'zz<n>' with the literal as value at the end (keeps the rest intact)
    k = b'\xf4\x8f\xbf\xbf' + str(r.randint(0, 9)).encode()   # sorts last among valid UTF-8 keys
    return x[:-1] + str(len(k)).encode() + b':' + k + lit + b'e'
