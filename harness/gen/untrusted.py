"""Generators of property C08: untrusted bytes for Torrent.read_stream/read and untrusted strings
for Magnet.from_string.  Owned by C08.  Seeds come from the canonical-metainfo grammar of C05
(harness/gen/metainfo.py); everything random comes from the `random.Random` passed in."""
import urllib.parse

from harness.gen import metainfo as gen
from harness.impl import bencode_strict as bstrict

K16 = 16384
VALID_INFO = (b'4:infod6:lengthi5e4:name1:a12:piece lengthi16384e6:pieces20:' + b'x' * 20 + b'e')
VALID = b'd' + VALID_INFO + b'e'

# length prefixes: 10^k for k up to 30, around 2^31, 2^32, 2^63 and the exact OverflowError border
SSIZE_BORDER = 2 ** 63 - 34
PREFIXES_SMALL = [10 ** k for k in range(3, 9)] + [2 ** 31 - 1, 2 ** 31, 2 ** 32, 10 ** 9]
PREFIXES_OVERFLOW = [SSIZE_BORDER + 1, 2 ** 63 - 1, 2 ** 63, 2 ** 63 + 1, 2 ** 64] + [10 ** k for k in range(19, 31)]
PREFIXES_WINDOW = [10 ** k for k in range(11, 19)] + [223372036854775807, 2 ** 62, SSIZE_BORDER, SSIZE_BORDER - 1,
                                                      2 ** 40, 2 ** 48]

CDATES = [0, 1, -1, 2 ** 31 - 1, 2 ** 31, 253402300799, 253402300800, -62135596800, -62135596801, -62135596799,
          10 ** 11, 10 ** 12, 10 ** 15, 10 ** 18, 2 ** 63 - 1, 2 ** 63, -2 ** 63, 10 ** 20, -10 ** 20, 10 ** 400,
          67768036191676799, 67768036191676800, -67768040609740800, -67768040609740801,
          b'', b'x', b'2021-01-01', b'\xff', [], [1], [[]], {}, {b'a': 1}, 86400 * 365 * 50]
PRIVATES = [0, 1, 2, -1, 10 ** 30, b'', b'0', b'x', b'\xff', [], [0], {}, {b'a': b'b'}]
WRONG = [5, -1, 0, b'', b'x', b'\xff\xfe', [], [1], [b'a'], [[]], {}, {b'a': 1}, {b'\xff': 1}, 10 ** 30]


def nest(kind, depth, leaf=b'i1e'):
    """containers nested `depth` deep"""
    if kind == 'l':
        return b'l' * depth + leaf + b'e' * depth
    if kind == 'd':
        return b'd1:a' * depth + leaf + b'e' * depth
    out = leaf           # mixed
    for i in range(depth):
        out = (b'l' + out + b'e') if i % 2 else (b'd1:a' + out + b'e')
    return out


def with_entry(key, payload, base=VALID_INFO, top=True):
    """valid torrent with one extra top-level entry key -> payload (raw bencode)"""
    k = str(len(key)).encode() + b':' + key
    return b'd' + k + payload + base + b'e' if key < b'info' else b'd' + base + k + payload + b'e'


def info_with(key, payload):
    k = str(len(key)).encode() + b':' + key
    return (b'd4:infod6:lengthi5e4:name1:a12:piece lengthi16384e6:pieces20:' + b'x' * 20 + k + payload + b'ee')


def fixed_read_cases():
    """hand-picked inputs (always run): every shape the property text names"""
    out = []

    def add(kind, x, **kw):
        out.append(dict(kind=kind, x=x, **kw))

    add('fixed/valid', VALID)
    for s in [b'', b'e', b'd', b'l', b'i', b'de', b'le', b'i0e', b'0:', b'1:a', b'i-0e', b'i01e', b'ie', b'i-e',
              b':', b'd:e', b'd1:ae', b'di1ei2ee', b'dlei1ee', b'd01:ai1ee', VALID + b'x', VALID[:-1], b'x' * 100,
              b'd4:infoi1ee', b'd4:infolee', b'd4:info0:e', b'd4:infodee', b'd4:infod6:pieces0:ee',
              b'd4:infod6:piecesi5eee', b'd4:infod6:piecesleee', b'd4:infod6:piecesdeee',
              b'd4:infode4:info' + VALID_INFO[6:] + b'e', b'd4:infod6:pieces1:ae4:infoi1ee',
              b'd4:infod6:lengthi5e6:lengthi6e4:name1:a12:piece lengthi16384e6:pieces20:' + b'x' * 20 + b'ee',
              b'd4:infod4:name1:a6:lengthi5e12:piece lengthi16384e6:pieces20:' + b'x' * 20 + b'ee',
              b'd1:\xffi1e' + VALID_INFO + b'e', info_with(b'\xff', b'i1e'),
              b'd4:infod5:filesd1:ad6:lengthi5e4:pathl1:aeee4:name1:a12:piece lengthi16384e6:pieces20:' + b'x' * 20 + b'ee',
              b'd4:infod5:filesde4:name1:a12:piece lengthi16384e6:pieces20:' + b'x' * 20 + b'ee',
              b'd4:infod5:filesld6:lengthi5e4:pathl1:\xffeee4:name1:a12:piece lengthi16384e6:pieces20:' + b'x' * 20 + b'ee',
              b'd4:infod5:filesld6:lengthi5e4:pathdeee4:name1:a12:piece lengthi16384e6:pieces20:' + b'x' * 20 + b'ee',
              b'd4:infod5:filesli3ee4:name1:a12:piece lengthi16384e6:pieces20:' + b'x' * 20 + b'ee']:
        add('fixed/small', s)
    for n in PREFIXES_SMALL + PREFIXES_OVERFLOW + PREFIXES_WINDOW:
        add('fixed/prefix', b'd4:name' + str(n).encode() + b':xe', prefix=n)
        add('fixed/prefix', b'd' + str(n).encode() + b':x', prefix=n)
    for digits in (4299, 4300, 4301, 5000):
        add('fixed/digits', b'd1:ai' + b'9' * digits + b'ee')
        add('fixed/digits', b'd1:ai-' + b'9' * digits + b'ee')
        add('fixed/digits', b'd' + b'0' * (digits - 1) + b'1:ai1ee')
        add('fixed/digits', b'd' + b'9' * digits + b':ai1ee', prefix=10 ** 4000)
    for cd in CDATES:
        add('fixed/cdate', with_entry(b'creation date', bstrict.ser(cd)))
    for p in PRIVATES:
        add('fixed/private', info_with(b'private', bstrict.ser(p)))
    for w in WRONG:
        for key in (b'announce', b'announce-list', b'comment', b'created by', b'url-list', b'encoding'):
            add('fixed/wrong-type', with_entry(key, bstrict.ser(w)))
        for key in (b'name', b'piece length', b'length', b'files', b'md5sum', b'source'):
            md = {b'info': {b'length': 5, b'name': b'a', b'piece length': K16, b'pieces': b'x' * 20}}
            md[b'info'][key] = w
            add('fixed/wrong-type', bstrict.ser(md))
        md = {b'info': {b'length': 5, b'name': b'a', b'piece length': K16, b'pieces': w}}
        add('fixed/wrong-type', bstrict.ser(md))
        add('fixed/wrong-type', bstrict.ser({b'info': w}))
        add('fixed/wrong-type', bstrict.ser(w))
    return out


def depth_cases(fuel_hint=997, wide=True):
    """nesting around the recursion threshold and far beyond it"""
    out = []
    th = fuel_hint // 2
    depths = sorted(set([10, 100, 200, 400, th - 3, th - 2, th - 1, th, th + 1, th + 2, th + 3, 600, 1000, 5000]))
    for d in depths:
        if d <= 0:
            continue
        for k in ('l', 'd', 'm'):
            for leaf in (b'i1e', b'1:a', b'le', b'de'):
                if not wide and leaf not in (b'i1e', b'1:a'):
                    continue
                out.append(dict(kind='depth/top', x=with_entry(b'a', nest(k, d, leaf)), depth=d))
            out.append(dict(kind='depth/info', x=info_with(b'z', nest(k, d)), depth=d))
            out.append(dict(kind='depth/pieces', depth=d,
                            x=b'd4:infod6:lengthi5e4:name1:a12:piece lengthi16384e6:pieces' + nest(k, d) + b'ee'))
            out.append(dict(kind='depth/creation-date', x=with_entry(b'creation date', nest(k, d)), depth=d))
            out.append(dict(kind='depth/private', x=info_with(b'private', nest(k, d)), depth=d))
            out.append(dict(kind='depth/toplevel', x=nest(k, d), depth=d))
    return out


def regression_19d011f():
    """nesting 480..520 at the default recursion limit: read succeeds up to the decode threshold and
    dump() of the result must answer MetainfoError, never RecursionError (fix 19d011f, ex-D08g)"""
    out = []
    for d in range(480, 521):
        out.append(dict(kind='depth/regression-19d011f', x=with_entry(b'a', nest('l', d, b'i1e')), depth=d))
        out.append(dict(kind='depth/regression-19d011f', x=with_entry(b'a', nest('d', d, b'1:a')), depth=d))
    return out


def regression_3420ff7():
    """`pieces` (exempt from decode_dict) nested far beyond the C recursion limit of repr(): with
    validate=True read_stream must answer MetainfoError, and validate()/dump() of the torrent read with
    validate=False too — never RecursionError (fix 3420ff7, ex-D08i: assert_type formatted repr(value))"""
    out = []
    for d in (1000, 1200, 1500, 1600, 2000, 3000, 5000, 20000):
        for k in ('l', 'd', 'm'):
            out.append(dict(kind='depth/regression-3420ff7', depth=d,
                            x=b'd4:infod6:lengthi5e4:name1:a12:piece lengthi16384e6:pieces' + nest(k, d) + b'ee'))
    return out


def huge_depth_cases():
    return [dict(kind='depth/huge', x=with_entry(b'a', nest(k, d)), depth=d, modelled=False)
            for d in (20000, 100000) for k in ('l', 'd')] + \
           [dict(kind='depth/huge', x=b'l' * 100000, depth=100000, modelled=False),
            dict(kind='depth/huge', x=b'd1:a' * 50000, depth=50000, modelled=False)]


def seeded(r, n):
    """fuzz seeded with valid torrents: truncations, bit flips, structure-aware and byte mutations"""
    out = []
    for _ in range(n):
        opts = {}
        k = r.random()
        if k < 0.1:
            opts['private'] = r.choice(PRIVATES)
        elif k < 0.25:
            opts['cdate'] = r.choice(CDATES)
        elif k < 0.35:
            opts['badkeys'] = 0.5
        md = gen.metainfo(r, opts)
        x = bstrict.ser(md)
        m = r.random()
        if m < 0.12:
            out.append(dict(kind='seed/valid', x=x))
        elif m < 0.27:
            out.append(dict(kind='seed/truncate', x=x[:r.randrange(len(x))]))
        elif m < 0.42:
            y = bytearray(x)
            for _ in range(r.choice([1, 1, 1, 2, 3])):
                i = r.randrange(len(y))
                y[i] ^= 1 << r.randrange(8)
            out.append(dict(kind='seed/bitflip', x=bytes(y)))
        elif m < 0.52:
            mk, y = gen.mutate_structure(r, md)
            out.append(dict(kind='seed/struct-' + mk, x=y))
        elif m < 0.62:
            mk, y = gen.mutate_bytes(r, x)
            out.append(dict(kind='seed/bytes-' + mk, x=y))
        elif m < 0.72:
            # wrong type somewhere
            paths = list(gen._dict_paths(md))
            p = r.choice(paths)
            w = r.choice(WRONG)

            def f(d):
                d = dict(d)
                if d:
                    d[r.choice(sorted(d))] = w
                else:
                    d[b'k'] = w
                return d
            y = bstrict.ser(gen._replace(md, p, f))
            out.append(dict(kind='seed/wrong-type', x=y))
        elif m < 0.80:
            # huge length prefix spliced over an existing one
            import re
            ms = list(re.finditer(rb'(?<![0-9])([0-9]+):', x))
            mm = r.choice(ms)
            n_ = r.choice(PREFIXES_SMALL + PREFIXES_OVERFLOW + PREFIXES_WINDOW)
            out.append(dict(kind='seed/prefix', x=x[:mm.start()] + str(n_).encode() + x[mm.end() - 1:], prefix=n_))
        elif m < 0.86:
            d = r.choice([1, 2, 5, 20, 40, 45, 50, 55, 60, 100, 300, 497, 498, 499, 700])
            key = r.choice([b'a', b'zz', b'\xff'])
            y = x[:-1] if key > b'info' else x[:1]
            rest = x[-1:] if key > b'info' else x[1:]
            out.append(dict(kind='seed/deep', depth=d,
                            x=y + str(len(key)).encode() + b':' + key + nest(r.choice('ldm'), d, r.choice([b'i1e', b'0:', b'le'])) + rest))
        elif m < 0.93:
            # splice / delete / duplicate a random slice
            i, j = sorted((r.randrange(len(x) + 1), r.randrange(len(x) + 1)))
            op = r.choice(['del', 'dup', 'swap'])
            if op == 'del':
                y = x[:i] + x[j:]
            elif op == 'dup':
                y = x[:j] + x[i:j] + x[j:]
            else:
                y = x[:i] + bytes(reversed(x[i:j])) + x[j:]
            out.append(dict(kind='seed/splice-' + op, x=y))
        else:
            n_ = r.choice([1, 2, 3, 5, 8, 20, 100])
            alpha = r.choice([b'dlie0123456789:-a', bytes(range(256))])
            out.append(dict(kind='random', x=bytes(r.choice(alpha) for _ in range(n_))))
    return out


def exhaustive_small(maxlen):
    import itertools
    alpha = [b'd', b'l', b'e', b'i', b'1', b'0', b':', b'-', b'a']
    out = []
    for n in range(0, maxlen + 1):
        for tup in itertools.product(alpha, repeat=n):
            out.append(dict(kind='small-exhaustive', x=b''.join(tup)))
    return out


def truncations(x, step=1):
    return [dict(kind='truncate-every-offset', x=x[:i]) for i in range(0, len(x), step)]


def big_cases():
    """inputs at the size limit (10 MB) — few, slow on the real code"""
    M = 10 ** 7
    return [dict(kind='big/limit+1', x=b'x' * (M + 1), modelled=False),
            dict(kind='big/limit', x=b'x' * M, modelled=False),
            dict(kind='big/limit-valid', x=with_entry(b'z', str(M - 200).encode() + b':' + b'z' * (M - 200)), modelled=False),
            dict(kind='big/digits', x=b'd' + b'9' * (M - 10) + b':ae', modelled=False),
            dict(kind='big/int-digits', x=b'd1:ai' + b'9' * (M - 10) + b'ee', modelled=False)]


# ------------------------------------------------------------------------------------------ magnets

H40 = 'a1b2c3d4e5f60718293a4b5c6d7e8f9012345678'
B32 = 'abcdefghijklmnopqrstuvwxyz234567'
GOOD_URLS = [' http://a b/c', 'http://a.b/c', 'udp://t.example:6969/announce', 'https://[::1]:80/x', 'http://a b/c', 'ftp://x',
             'http://éx.example/ann', 'http://a:0/', 'http://a:65535']
BAD_URLS = ['abc', '', '//a', 'http:', 'http://', 'http://a:99999', 'http://a:x', 'http://[', 'http://[zz]/',
            'http://a]b/', 'http://℀/', '://', 'a b', 'http://a:-1', 'http://[::1', 'http://a:65536']
XT_VARIANTS = [H40, H40.upper(), B32, B32.upper(), 'urn:btih:' + H40, 'URN:BTIH:' + H40.upper(), 'urn:btih:' + B32,
               'Urn:BtIh:' + B32, H40[:-1], H40 + 'a', B32[:-1], B32 + 'a', 'urn:btih:' + H40 + 'x', 'urn:btih:',
               'urn:sha1:' + H40, '', ' ', H40 + '\n', '\n' + H40, ' ' + H40, H40 + ' ', 'g' * 40, '1' * 32, '8' * 32,
               'z' * 32, 'z' * 40, 'k' * 31 + 'K', 's' * 31 + 'ſ', 'i' * 31 + 'İ', 'i' * 31 + 'ı',
               'a' * 39 + 'ſ', 'urn:btİh:' + H40, 'urn:btıh:' + H40, 'urn:btih:' + 'k' * 31 + 'K',
               'ａ' * 40, '١' * 40, '0' * 40, '0' * 32, 'urn:btih:urn:btih:' + H40, 'urn%3Abtih%3A' + H40]
XLS = ['0', '1', '-1', '5', '1e5', '1.5', '9' * 20, '9' * 4300, '9' * 4301, '-' + '9' * 4301, '+5', ' 5 ', '1_0',
       '0x10', '', '١٢', '５', '--5', '5 5', 'five', '²', '00', '1__0', '_1', '\n7\n', '0.0', 'inf',
       'nan', 'True', '2' * 4299]


def q(s):
    return urllib.parse.quote(s, safe='')


def magnet_fixed():
    out = []
    base = 'magnet:?xt=urn:btih:' + H40
    for s in ['', ' ', '\n', 'magnet:', 'magnet:?', 'magnet', 'magnet:?&', 'magnet:?=', 'magnet:?xt', 'magnet:?xt=',
              base, '  ' + base + '\n', base.upper(), 'MAGNET:?xt=' + H40, '?xt=' + H40, 'xt=' + H40, '//[', 'magnet://[',
              'magnet://[::1', 'magnet://[::1]?xt=' + H40, 'magnet://ex]ample?xt=' + H40, 'magnet://℀/?xt=' + H40,
              'magnet://ｅxample.com?xt=' + H40, 'http://x/?xt=' + H40, 'magnet:/?xt=' + H40,
              'magnet://host/path?xt=' + H40, 'magnet:?xt=' + H40 + '#frag', 'magnet:?xt=' + H40 + ';xl=0',
              'magnet:?xt=' + H40 + '&xt=' + H40, 'magnet:?xt=' + H40 + '&foo=1', 'magnet:?xt=' + H40 + '&x.pe=1',
              'magnet:?xt=' + H40 + '&x_pe=1', 'magnet:?xt=' + H40 + '&x_=', 'magnet:?xt=' + H40 + '&=1',
              'magnet:?xt=' + H40 + '&XT=' + H40, 'magnet:?XT=' + H40, 'magnet:?xt=' + H40 + '\x00',
              '\x00', 'magnet:?xt=' + H40 + '&dn=a&dn=b', 'magnet:?xt=' + H40 + '&dn=%ff%fe',
              'magnet:?xt=' + H40 + '&kt=a+b&kt=c', 'magnet:?xt=' + H40 + '&kt=a+b+c', 'magnet:?xt=' + H40 + '&kt=',
              'magnet:?xt=' + H40 + '&xl=1&xl=2', 'magnet:?xt=' + H40 + '&xs=http://a&xs=http://b',
              'magnet:?xt=' + H40 + '&as=http://a&as=http://b', 'magnet:?xt=' + H40 + '&tr=http://a&tr=http://a',
              'magnet:?xt=' + H40 + '&xl=x&xs=bad', 'magnet:?xt=' + H40 + '&xs=bad&xl=x',
              'magnet:?xt=' + H40 + '&tr=bad&xl=x', 'magnet:?xt=' + H40 + '&ws=bad&tr=bad2&dn=a&dn=b',
              'magnet:?xt=bad&foo=1', 'magnet:?foo=1', 'magnet:?dn=a', ' magnet:?xt=' + H40 + '　',
              'magnet:?xt=' + H40 + '&tr=http://a%5B', 'magnet:?xt=' + H40 + '&tr=http://%5B::1%5D:80/a',
              'mag\tnet:?xt=' + H40, 'magnet:?x\nt=' + H40, 'magnet:?xt=' + H40[:20] + '\n' + H40[20:]]:
        out.append(dict(kind='magnet/fixed', uri=s))
    for v in XT_VARIANTS:
        out.append(dict(kind='magnet/xt', uri='magnet:?xt=' + q(v)))
        out.append(dict(kind='magnet/xt', uri='magnet:?xt=' + v))
    for v in XLS:
        out.append(dict(kind='magnet/xl', uri=base + '&xl=' + q(v)))
    for p in ('tr', 'ws', 'xs', 'as'):
        for u in GOOD_URLS + BAD_URLS:
            out.append(dict(kind='magnet/url-' + p, uri=base + '&' + p + '=' + q(u)))
            out.append(dict(kind='magnet/url-' + p, uri=base + '&' + p + '=' + u))
    out.append(dict(kind='magnet/surrogate', uri='magnet:?xt=' + H40 + '&tr=http://a\udc80', modelled=False))
    out.append(dict(kind='magnet/surrogate', uri='\udc80', modelled=False))
    out.append(dict(kind='magnet/surrogate', uri='magnet:?xt=\udc80', modelled=False))
    out.append(dict(kind='magnet/astral', uri=base + '&dn=\U0001f600', modelled=False))
    return out


PARAM_POOL = ['xt', 'xt', 'dn', 'xl', 'tr', 'tr', 'xs', 'as', 'ws', 'kt', 'x_pe', 'x.pe', 'foo', '', 'XT', 'tr.1']
CHARS = list('abz09 /:?&=#%+[]@.-_~\n\t\x00') + ['é', 'İ', 'ſ', 'K', '℀', 'ａ', '١',
                                                   ' ', '%5B', '%00', '%ff', '%0a']


def magnet_random(r, n):
    out = []
    for _ in range(n):
        k = r.random()
        if k < 0.7:
            parts = []
            for _ in range(r.choice([0, 1, 1, 2, 2, 3, 4, 6])):
                p = r.choice(PARAM_POOL)
                if p in ('xt', 'XT'):
                    v = r.choice(XT_VARIANTS)
                    if r.random() < 0.15:
                        i = r.randrange(len(v) + 1)
                        v = v[:i] + r.choice(CHARS) + v[i + (r.random() < 0.5):]
                elif p == 'xl':
                    v = r.choice(XLS)
                elif p in ('tr', 'ws', 'xs', 'as', 'tr.1'):
                    v = r.choice(GOOD_URLS + BAD_URLS)
                else:
                    v = ''.join(r.choice(CHARS) for _ in range(r.randint(0, 4)))
                sep = r.choice(['=', '=', '=', '=', '', '=='])
                parts.append(p + sep + (q(v) if r.random() < 0.7 else v))
            pre = r.choice(['magnet:?', 'magnet:?', 'magnet:?', 'magnet:?', 'magnet:', 'magnet://h/?', 'magnet://[::1]/?',
                            'magnet://[/?', '?', '', 'http://x/?', 'Magnet:?', ' magnet:?', 'magnet:?&', 'magnet:#?',
                            'magnet://℀/?'])
            s = pre + r.choice(['&', '&', '&', ';', '&&']).join(parts) + r.choice(['', '', '', '\n', '#f', '&', ' '])
            out.append(dict(kind='magnet/grammar', uri=s))
        elif k < 0.9:
            s = r.choice(magnet_fixed())['uri']
            if s and not any(0xd800 <= ord(c) <= 0xdfff or ord(c) > 0xffff for c in s):
                for _ in range(r.choice([1, 1, 2])):
                    i = r.randrange(len(s) + 1)
                    op = r.random()
                    if op < 0.4:
                        s = s[:i] + r.choice(CHARS) + s[i:]
                    elif op < 0.7:
                        s = s[:i] + s[i + 1:]
                    else:
                        j = r.randrange(len(s) + 1)
                        s = s[:min(i, j)] + s[max(i, j):]
            out.append(dict(kind='magnet/mutated', uri=s))
        else:
            out.append(dict(kind='magnet/random', uri=''.join(r.choice(CHARS) for _ in range(r.randint(0, 30)))))
    return out
