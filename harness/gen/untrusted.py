"""Generators of property C08: untrusted bytes for Torrent.read_stream/read and untrusted strings
for Magnet.from_string.  Owned by C08.  Seeds come from the canonical-metainfo grammar of C05
(harness/gen/metainfo.py); everything random comes from the `random.Random` passed in."""
import urllib.parse

from harness.gen import metainfo as gen
from harness.impl import bencode_strict as bstrict

K16 = 16384
VALID_INFO = (b'4:infod6:lengthi5e4:name1:a12:piece lengthi16384e6:pieces20:' + b'x' * 20 + b'e')
VALID = b'd' + VALID_INFO + b'e'

# length prefixes: 10^k for k up to 30, around 2^31, 2^32, 2^63 and the exact OverflowError border
SSIZE_BORDER = 2 ** 63 - 34
PREFIXES_SMALL = [10 ** k for k in range(3, 9)] + [2 ** 31 - 1, 2 ** 31, 2 ** 32, 10 ** 9]
PREFIXES_OVERFLOW = [SSIZE_BORDER + 1, 2 ** 63 - 1, 2 ** 63, 2 ** 63 + 1, 2 ** 64] + [10 ** k for k in range(19, 31)]
PREFIXES_WINDOW = [10 ** k for k in range(11, 19)] + [223372036854775807, 2 ** 62, SSIZE_BORDER, SSIZE_BORDER - 1,
                                                      2 ** 40, 2 ** 48]

CDATES = [0, 1, -1, 2 ** 31 - 1, 2 ** 31, 253402300799, 253402300800, -62135596800, -62135596801, -62135596799,
          10 ** 11, 10 ** 12, 10 ** 15, 10 ** 18, 2 ** 63 - 1, 2 ** 63, -2 ** 63, 10 ** 20, -10 ** 20, 10 ** 400,
          67768036191676799, 67768036191676800, -67768040609740800, -67768040609740801,
          b'', b'x', b'2021-01-01', b'\xff', [], [1], [[]], {}, {b'a': 1}, 86400 * 365 * 50]
PRIVATES = [0, 1, 2, -1, 10 ** 30, b'', b'0', b'x', b'\xff', [], [0], {}, {b'a': b'b'}]
WRONG = [5, -1, 0, b'', b'x', b'\xff\xfe', [], [1], [b'a'], [[]], {}, {b'a': 1}, {b'\xff': 1}, 10 ** 30]


def nest(kind, depth, leaf=b'i1e'):
    """containers nested `depth` deep"""
    if kind == 'l':
        return b'l' * depth + leaf + b'e' * depth
    if kind == 'd':
        return b'd1:a' * depth + leaf + b'e' * depth
    out = leaf           # mixed
    for i in range(depth):
        out = (b'l' + out + b'e') if i % 2 else (b'd1:a' + out + b'e')
    return out


def with_entry(key, payload, base=VALID_INFO, top=True):
    """valid torrent with one extra top-level entry key -> payload (raw bencode)"""
    k = str(len(key)).encode() + b':' + key
    return b'd' + k + payload + base + b'e' if key < b'info' else b'd' + base + k + payload + b'e'


def info_with(key, payload):
    k = str(len(key)).encode() + b':' + key
    return (b'd4:infod6:lengthi5e4:name1:a12:piece lengthi16384e6:pieces20:' + b'x' * 20 + k + payload + b'ee')


def fixed_read_cases():
    """hand-picked inputs (always run): every shape the property text names"""
    out = []

    def add(kind, x, **kw):
        out.append(dict(kind=kind, x=x, **kw))

    add('fixed/valid', VALID)
    for s in [b'', b'e', b'd', b'l', b'i', b'de', b'le', b'i0e', b'0:', b'1:a', b'i-0e', b'i01e', b'ie', b'i-e',
              b':', b'd:e', b'd1:ae', b'di1ei2ee', b'dlei1ee', b'd01:ai1ee', VALID + b'x', VALID[:-1], b'x' * 100,
              b'd4:infoi1ee', b'd4:infolee', b'd4:info0:e', b'd4:infodee', b'd4:infod6:pieces0:ee',
              b'd4:infod6:piecesi5eee', b'd4:infod6:piecesleee', b'd4:infod6:piecesdeee',
              b'd4:infode4:info' + VALID_INFO[6:] + b'e', b'd4:infod6:pieces1:ae4:infoi1ee',
              b'd4:infod6:lengthi5e6:lengthi6e4:name1:a12:piece lengthi16384e6:pieces20:' + b'x' * 20 + b'ee',
              b'd4:infod4:name1:a6:lengthi5e12:piece lengthi16384e6:pieces20:' + b'x' * 20 + b'ee',
              b'd1:\xffi1e' + VALID_INFO + b'e', info_with(b'\xff', b'i1e'),
              b'd4:infod5:filesd1:ad6:lengthi5e4:pathl1:aeee4:name1:a12:piece lengthi16384e6:pieces20:' + b'x' * 20 + b'ee',
              b'd4:infod5:filesde4:name1:a12:piece lengthi16384e6:pieces20:' + b'x' * 20 + b'ee',
              b'd4:infod5:filesld6:lengthi5e4:pathl1:\xffeee4:name1:a12:piece lengthi16384e6:pieces20:' + b'x' * 20 + b'ee',
              b'd4:infod5:filesld6:lengthi5e4:pathdeee4:name1:a12:piece lengthi16384e6:pieces20:' + b'x' * 20 + b'ee',
              b'd4:infod5:filesli3ee4:name1:a12:piece lengthi16384e6:pieces20:' + b'x' * 20 + b'ee']:
        add('fixed/small', s)
    for n in PREFIXES_SMALL + PREFIXES_OVERFLOW + PREFIXES_WINDOW:
        add('fixed/prefix', b'd4:name' + str(n).encode() + b':xe', prefix=n)
        add('fixed/prefix', b'd' + str(n).encode() + b':x', prefix=n)
    for digits in (4299, 4300, 4301, 5000):
        add('fixed/digits', b'd1:ai' + b'9' * digits + b'ee')
        add('fixed/digits', b'd1:ai-' + b'9' * digits + b'ee')
        add('fixed/digits', b'd' + b'0' * (digits - 1) + b'1:ai1ee')
        add('fixed/digits', b'd' + b'9' * digits + b':ai1ee', prefix=10 ** 4000)
    for cd in CDATES:
        add('fixed/cdate', with_entry(b'creation date', bstrict.ser(cd)))
    for p in PRIVATES:
        add('fixed/private', info_with(b'private', bstrict.ser(p)))
    for w in WRONG:
        for key in (b'announce', b'announce-list', b'comment', b'created by', b'url-list', b'encoding'):
            add('fixed/wrong-type', with_entry(key, bstrict.ser(w)))
        for key in (b'name', b'piece length', b'length', b'files', b'md5sum', b'source'):
            md = {b'info': {b'length': 5, b'name': b'a', b'piece length': K16, b'pieces': b'x' * 20}}
            md[b'info'][key] = w
            add('fixed/wrong-type', bstrict.ser(md))
        md = {b'info': {b'length': 5, b'name': b'a', b'piece length': K16, b'pieces': w}}
        add('fixed/wrong-type', bstrict.ser(md))
        add('fixed/wrong-type', bstrict.ser({b'info': w}))
        add('fixed/wrong-type', bstrict.ser(w))
    return out


def depth_cases(fuel_hint=997, wide=True):
    """nesting around the recursion threshold and far beyond it"""
    out = []
    th = fuel_hint // 2
    depths = sorted(set([10, 100, 200, 400, th - 3, th - 2, th - 1, th, th + 1, th + 2, th + 3, 600, 1000, 5000]))
    for d in depths:
        if d <= 0:
            continue
        for k in ('l', 'd', 'm'):
            for leaf in (b'i1e', b'1:a', b'le', b'de'):
                if not wide and leaf not in (b'i1e', b'1:a'):
                    continue
                out.append(dict(kind='depth/top', x=with_entry(b'a', nest(k, d, leaf)), depth=d))
            out.append(dict(kind='depth/info', x=info_with(b'z', nest(k, d)), depth=d))
            out.append(dict(kind='depth/pieces', depth=d,
                            x=b'd4:infod6:lengthi5e4:name1:a12:piece lengthi16384e6:pieces' + nest(k, d) + b'ee'))
            out.append(dict(kind='depth/creation-date', x=with_entry(b'creation date', nest(k, d)), depth=d))
            out.append(dict(kind='depth/private', x=info_with(b'private', nest(k, d)), depth=d))
            out.append(dict(kind='depth/toplevel', x=nest(k, d), depth=d))
    return out


def regression_19d011f():
    """nesting 480..520 at the default recursion limit: read succeeds up to the decode threshold and
    dump() of the result must answer MetainfoError, never RecursionError (fix 19d011f, ex-D08g)"""
    out = []
    for d in range(480, 521):
        out.append(dict(kind='depth/regression-19d011f', x=with_entry(b'a', nest('l', d, b'i1e')), depth=d))
        out.append(dict(kind='depth/regression-19d011f', x=with_entry(b'a', nest('d', d, b'1:a')), depth=d))
    return out


def regression_3420ff7():
    """`pieces` (exempt from decode_dict) nested far beyond the C recursion limit of repr(): with
    validate=True read_stream must answer MetainfoError, and validate()/dump() of the torrent read with
    validate=False too — never RecursionError (fix 3420ff7, ex-D08i: assert_type formatted repr(value))"""
    out = []
    for d in (1000, 1200, 1500, 1600, 2000, 3000, 5000, 20000):
        for k in ('l', 'd', 'm'):
            out.append(dict(kind='depth/regression-3420ff7', depth=d,
                            x=b'd4:infod6:lengthi5e4:name1:a12:piece lengthi16384e6:pieces' + nest(k, d) + b'ee'))
    return out


def huge_depth_cases():
    return [dict(kind='depth/huge', x=with_entry(b'a', nest(k, d)), depth=d, modelled=False)
            for d in (20000, 100000) for k in ('l', 'd')] + \
           [dict(kind='depth/huge', x=b'l' * 100000, depth=100000, modelled=False),
            dict(kind='depth/huge', x=b'd1:a' * 50000, depth=50000, modelled=False)]


# ------------------------------------------------------------------- hostile values in every field
# (round 2) every check validate() or a getter makes must be reached by values of every decoded type
# and by "hostile" text: non-ASCII letters, full-width / Arabic-Indic / superscript digits, NUL,
# newlines, bidi and BOM characters, astral characters, empty, whitespace, very long, path-like,
# URL-like with bad ports / hosts, and near misses of an MD5 digest.

MD5 = 'd41d8cd98f00b204e9800998ecf8427e'
HOSTILE_TEXT = [
    '', ' ', '  x ', '\t', '\n', 'a\nb', '\r\n', '\x00', 'a\x00b', '\x7f', '\x85', '\u2028',
    '\xe4' * 32, MD5[:31] + '\xe9', '\uff10' * 32, MD5, MD5 + '\n',
    '\uff11', '\u0661\u0662\u0663', '\xb2', '1', '0', '-1', '1e3', 'True',
    '.', '..', '/', 'a/b', '/abs', '../x', '\\', 'a\\b', 'con', '~',
    '\u202e', '\ufeff', '\u200b', '\u0130', '\u017f', '\ud7ff', '\ue000', '\uffff', '\U0001f600', '\U0010ffff',
    'http://a.b/c', 'http://\xe4.b/c', ' http://a/', 'http://a:99999/', 'x' * 300, 'x' * 5000,
]
# near misses of an MD5 digest: for the md5sum fields (and `name` as a control)
HOSTILE_MD5 = [MD5[:31] + '\uff11', '\u0661' * 32, MD5[:16] + '\xb2' + MD5[17:], MD5.upper(), MD5 + '\n\n', '\n' + MD5, MD5 + ' ',
               MD5 + '\x00', MD5[:31], MD5 + '0', MD5[:31] + 'g', MD5[:31] + '\u0130', 'K' * 32, '\uff21' * 32, '0x' + MD5[:30],
               '-' + MD5[:31], '+' + MD5[:31], ' ' + MD5[:31], MD5[:31] + '_', MD5 + '\r\n', MD5[:31] + '\n', '\U0001d7d8' * 32]
# URL-like text: for the fields that hold URLs (and `comment` as a control)
HOSTILE_URL = ['http://\uff41.b/', 'http://a.b:\uff18\uff10/', 'http://a:\xb2/', 'http://a:\u0661/', 'http://a:-1/', 'http://a:/',
               'http://a:65535/', 'http://a:65536/', 'http://a: 80/', 'http://a:80 /', 'http://a:8_0/', 'http://a:+80/',
               'http://[::1', 'http://[zz]/', 'http://[::1]:80/', 'http://a]b/', 'http://\u2100/', 'http://\xe4\xdf.\u0130/',
               'http://a b/', 'http://a/\n', 'http://a\x00/', 'http://a\t/', 'http:', 'http://', '://', 'udp://t:6969',
               'HTTP://A', 'http://' + 'a' * 300 + '/', 'http://a..b/', 'http://xn--/', 'http://a/%zz', 'http://a/?\U0001f600',
               '\xe4://a/', 'http\uff1a//a/', 'http://a@b@c/', 'http://:80/', 'http://\u200b/']
HOSTILE_LONG = ['x' * 70000, '\xe9' * 40000, MD5 * 2000, 'http://a/' + 'b' * 70000]
HOSTILE_OTHER = [0, 1, -1, 2, 16384, 16385, 2 ** 31, 2 ** 63, 10 ** 30, -10 ** 30, 2 ** 53 + 1, 2 ** 1024, -2 ** 1024, 10 ** 4299,
                 b'\xff', b'\xc3', b'\xed\xa0\x80', b'a\xffb', MD5.encode()[:31] + b'\xff',
                 [], [b''], [b'a'], [b'\xff'], [1], [[]], [[b'http://a/']], [[b'\xff']], [[1]], [b'a', [b'b']], [{}],
                 [MD5.encode()], [b'\xef\xbc\x91'],
                 {}, {b'a': b'b'}, {b'0': b'x'}, {b'\xff': 1}, {b'length': 1}, {b'a': {b'b': []}}]
URL_KEYS = (b'announce', b'announce-list', b'url-list', b'httpseeds', b'comment')
LONG_KEYS = (b'md5sum', b'name', b'path', b'announce', b'comment', b'source', b'pieces')


def values_for(path, long=False):
    """hostile values for the field at `path`: generic text and every decoded type everywhere, MD5 near misses
    at md5sum, URL-like text where URLs live"""
    keys = [k for k in path if not isinstance(k, int)]
    vs = [t.encode('utf8') for t in HOSTILE_TEXT] + list(HOSTILE_OTHER)
    if keys[-1] in (b'md5sum', b'name'):
        vs += [t.encode('utf8') for t in HOSTILE_MD5]
    if keys[0] in URL_KEYS:
        vs += [t.encode('utf8') for t in HOSTILE_URL]
    if long and keys[-1] in LONG_KEYS:
        vs += [t.encode('utf8') for t in HOSTILE_LONG]
    return vs


def hostile_values(long=False):
    vs = [t.encode('utf8') for t in HOSTILE_TEXT + HOSTILE_MD5 + HOSTILE_URL] + list(HOSTILE_OTHER)
    if long:
        vs += [t.encode('utf8') for t in HOSTILE_LONG]
    return vs


def layout(kind, full):
    """valid base torrents: single-/multi-file, minimal or with every optional field validate() or
    a getter looks at"""
    if kind == 'single':
        info = {b'length': 30000, b'name': b'some file.bin', b'piece length': K16, b'pieces': b'\x01' * 40}
        if full:
            info[b'md5sum'] = MD5.encode()
    else:
        files = [{b'length': 20000, b'path': [b'a', b'b.txt']}, {b'length': 10000, b'path': [b'c.txt']}]
        if full:
            files[0][b'md5sum'] = MD5.encode()
            files[1][b'md5sum'] = MD5.upper().encode()
        info = {b'files': files, b'name': b'some dir', b'piece length': K16, b'pieces': b'\x02' * 40}
    md = {b'info': info}
    if full:
        info[b'private'] = 1
        info[b'source'] = b'src'
        md.update({b'announce': b'http://tracker.example.org:6881/announce',
                   b'announce-list': [[b'http://tracker.example.org:6881/announce', b'udp://b.example:1/a'],
                                      [b'http://c.example/announce']],
                   b'url-list': [b'http://seed.example/file', b'http://seed2.example/file'],
                   b'httpseeds': [b'http://hs.example/seed'],
                   b'comment': b'a comment', b'created by': b'someone 1.0', b'creation date': 1700000000,
                   b'encoding': b'UTF-8'})
    return md


# key chains (dict keys as bytes, list indexes as int); a missing container on the way is created
FIELDS_TOP = [(b'announce',), (b'announce-list',), (b'announce-list', 0), (b'announce-list', 0, 0), (b'announce-list', 1, 0),
              (b'url-list',), (b'url-list', 0), (b'httpseeds',), (b'httpseeds', 0), (b'comment',), (b'created by',),
              (b'creation date',), (b'encoding',), (b'info',), (b'unknown',)]
FIELDS_INFO = [(b'info', b'private'), (b'info', b'source'), (b'info', b'name'), (b'info', b'md5sum'),
               (b'info', b'piece length'), (b'info', b'length'), (b'info', b'pieces'), (b'info', b'files'),
               (b'info', b'unknown')]
FIELDS_FILES = [(b'info', b'files', 0), (b'info', b'files', 1), (b'info', b'files', 0, b'md5sum'),
                (b'info', b'files', 1, b'md5sum'), (b'info', b'files', 0, b'path'), (b'info', b'files', 0, b'path', 0),
                (b'info', b'files', 1, b'path', 0), (b'info', b'files', 0, b'path', 1), (b'info', b'files', 0, b'length'),
                (b'info', b'files', 1, b'length'), (b'info', b'files', 0, b'unknown')]


def put(md, path, v):
    """copy of `md` with `v` stored at `path`"""
    def rec(o, path):
        k = path[0]
        if isinstance(k, int):
            o = list(o) if isinstance(o, list) else []
            while len(o) <= k:
                o.append(b'x')
            o[k] = v if len(path) == 1 else rec(o[k], path[1:])
            return o
        o = dict(o) if isinstance(o, dict) else {}
        o[k] = v if len(path) == 1 else rec(o.get(k), path[1:])
        return o
    return rec(md, path)


def path_label(path):
    return '.'.join(str(k) if isinstance(k, int) else k.decode() for k in path)


def field_matrix(full_product=False):
    """every field x every hostile value; layouts single-/multi-file, minimal / with all optional fields:
    all applicable layouts (`full_product`) or one per (field, value), taken in rotation"""
    lays = [(k, f, layout(k, f)) for k in ('single', 'multi') for f in (True, False)]
    out = []
    for pi, path in enumerate(FIELDS_TOP + FIELDS_INFO + FIELDS_FILES):
        # `files` next to `length` in a single-file torrent: the full layout is enough
        app = [l for l in lays if not (path in FIELDS_FILES and l[0] == 'single' and not l[1])]
        for vi, v in enumerate(values_for(path, long=True)):
            for kind, full, base in (app if full_product else [app[(pi + vi) % len(app)]]):
                out.append(dict(kind='field/' + path_label(path), layout=kind + ('-full' if full else '-min'),
                                path=path_label(path), x=bstrict.ser(put(base, path, v))))
    return out


# --------------------------------------------------------------- keys harvested from the source (round 6)
# The field matrix above knows the keys the code read when it was written.  `harvested_key_cases` takes the
# vocabulary from the source under test (harness/gen/keyharvest.py) and puts values of every bencodable type
# under every harvested key at every level a reader can look at (top level, `info`, a file entry), in torrents
# in which the *other* keys are present or absent: the four valid layouts and each of them with one required
# key removed (`pieces`, `name`, `piece length`, `length` / `files`, a file's `length` / `path`, `info`).

# one value per bencodable type and shape a comparison / conversion / method call distinguishes
KEY_VALUES_CORE = [2, -1, 10 ** 30, b'2', b'\xff2', [2], {b'major': 2}, b'']
KEY_VALUES_MORE = [0, 1, 2 ** 63, -2 ** 1024, b'x', b' 2 ', '\xe4'.encode('utf8'), '２'.encode('utf8'), b'\xff', b'2.0',
                   b'x' * 300, [], [b'x'], [b'2'], [[2]], [b'\xff'], [{}], {}, {b'a': b'b'}, {b'\xff': 1},
                   {b'a': {b'b': [1]}}, {b'2': 2}]
KEY_VALUES_SECONDARY = [b'2', 2, [2], {b'major': 2}]
KEY_LEVELS = ('top', 'info', 'file')


def drop(md, path):
    """copy of `md` without the entry at `path` (missing containers: unchanged)"""
    def rec(o, path):
        k = path[0]
        if isinstance(k, int):
            if not isinstance(o, list) or k >= len(o):
                return o
            o = list(o)
            if len(path) == 1:
                del o[k]
            else:
                o[k] = rec(o[k], path[1:])
            return o
        if not isinstance(o, dict) or k not in o:
            return o
        o = dict(o)
        if len(path) == 1:
            del o[k]
        else:
            o[k] = rec(o[k], path[1:])
        return o
    return rec(md, path)


def key_contexts(full=False):
    """[(label, metainfo, has_files)]: the valid layouts and the same with one required key removed"""
    out = []
    lays = {(k, f): layout(k, f) for k in ('single', 'multi') for f in (True, False)}
    for (k, f), md in lays.items():
        out.append((k + ('-full' if f else '-min'), md, k == 'multi'))
    removals = {'single': [(b'info', b'pieces'), (b'info', b'name'), (b'info', b'piece length'), (b'info', b'length')],
                'multi': [(b'info', b'pieces'), (b'info', b'name'), (b'info', b'piece length'), (b'info', b'files'),
                          (b'info', b'files', 0, b'length'), (b'info', b'files', 0, b'path'), (b'info', b'files', 1, b'path')]}
    for k in ('single', 'multi'):
        for f in ((False, True) if full else (False,)):
            for p in removals[k]:
                out.append((k + ('-full' if f else '-min') + '-no-' + path_label(p[1:]), drop(lays[(k, f)], p),
                            k == 'multi' and p != (b'info', b'files')))
    # every optional field present, the piece hashes missing (what a "v2 only" torrent looks like to a v1 reader)
    if not full:
        for k in ('single', 'multi'):
            out.append((k + '-full-no-pieces', drop(lays[(k, True)], (b'info', b'pieces')), k == 'multi'))
    for k in ('single', 'multi'):
        out.append((k + '-full-no-info', drop(lays[(k, True)], (b'info',)), False))
    return out


def _key_path(level, key, fi=0):
    return {'top': (key,), 'info': (b'info', key), 'file': (b'info', b'files', fi, key)}[level]


def _has(md, path):
    o = md
    for k in path:
        if isinstance(k, int):
            if not isinstance(o, list) or k >= len(o):
                return False
        elif not isinstance(o, dict) or k not in o:
            return False
        o = o[k]
    return True


# values of the companions in the "crowded" contexts: a number, a text that is also a URL, a nested mapping
COMPANION_VALUES = {'int': 2, 'text': b'http://x.example/a', 'dict': {b'a': {b'': {b'length': 2}}}}
CROWD_BASES = ('single-min', 'single-min-no-pieces', 'multi-min', 'multi-min-no-pieces')
KEY_VALUES_CROWD = [b'2', [2], {b'major': 2}, 2]


def _ser_fast(v):
    """canonical bencoding of the small values used below (bstrict.ser formats integers digit by digit)"""
    if isinstance(v, int):
        return b'i%de' % v
    if isinstance(v, bytes):
        return b'%d:%s' % (len(v), v)
    if isinstance(v, list):
        return b'l' + b''.join(_ser_fast(e) for e in v) + b'e'
    return b'd' + b''.join(_ser_fast(k) + _ser_fast(v[k]) for k in sorted(v)) + b'e'


def crowded_contexts(primary, vocab, full=False):
    """contexts in which the *other* harvested keys are present too: every primary key that is outside the vocabulary of
    the model at a level (`vocab`: level -> set of keys; for the model such a key changes nothing,
    C08_unknown_key_irrelevant) sits there with the same companion value (a number / a text / a nested mapping), in a
    minimal layout with and without `pieces`.  A branch that is guarded by the presence or the value of one new key and
    reads another one is reached here.  Thorough: companions at all three levels at once (top level, `info`, every file
    entry), four base layouts; quick: companions at the level of the key under test, two base layouts.
    -> [(label, metainfo, has_files, levels served)]"""
    base = {c[0]: c for c in key_contexts(False)}
    out = []
    for b in (CROWD_BASES if full else ('single-min-no-pieces', 'multi-min')):
        label, md, has_files = base[b]
        for kind, cv in COMPANION_VALUES.items():
            for levels in ([KEY_LEVELS] if full else [(lv,) for lv in KEY_LEVELS]):
                if levels == ('file',) and not has_files:
                    continue
                m = md
                for key in sorted(primary):
                    if 'top' in levels and key not in vocab.get('top', ()) and key not in m:
                        m = put(m, (key,), cv)
                    if 'info' in levels and key not in vocab.get('info', ()) and key not in m[b'info']:
                        m = put(m, (b'info', key), cv)
                    if 'file' in levels and has_files and key not in vocab.get('file', ()):
                        for fi, e in enumerate(m[b'info'][b'files']):
                            if key not in e:
                                m = put(m, (b'info', b'files', fi, key), cv)
                out.append((label + '-crowded-' + kind + ('' if full else '@' + levels[0]), m, has_files, levels))
    if not full:
        # quick: companions at both levels of the single-file layouts as well (a guard at another level than the read)
        for b in ('single-min', 'single-min-no-pieces'):
            label, md, has_files = base[b]
            for kind, cv in COMPANION_VALUES.items():
                m = md
                for key in sorted(primary):
                    if key not in vocab.get('top', ()) and key not in m:
                        m = put(m, (key,), cv)
                    if key not in vocab.get('info', ()) and key not in m[b'info']:
                        m = put(m, (b'info', key), cv)
                out.append((label + '-crowded-' + kind + '@all', m, has_files, ('cross',)))
    return out


def harvested_key_cases(primary, secondary, full=False, known=(), vocab=None):
    """every harvested key at every level x values of every bencodable type x contexts.  `known` = set of
    (level, key) the static field matrix already sweeps with all values (they get the core values only); `vocab` =
    the key sets of the model by level (for the crowded contexts; None: no crowded contexts).
    Quick (`full=False`): primary keys: core values in every context, the other values in one context in rotation, four
    values in every crowded context; secondary keys: four values in four contexts.  Thorough: the full product for the
    primary keys (crowded contexts: core values), core values in every context for the secondary ones (crowded: two).
    Each case carries `x_without`: the same torrent with the key absent, so that the model can be evaluated without it
    (C08_unknown_key_irrelevant)."""
    ctxs = key_contexts(full)
    sec_ctx = [c for c in ctxs if c[0] in CROWD_BASES]
    crowd = crowded_contexts(primary, vocab, full) if vocab is not None else []
    out = []

    def add(level, key, v, ctx, tier, fi=0):
        label, md, has_files = ctx
        if level == 'file' and not has_files:
            return
        if level == 'file':
            fi = fi % len(md[b'info'][b'files'])
        path = _key_path(level, key, fi)
        try:
            x = _ser_fast(put(md, path, v))
            xw = _ser_fast(drop(md, path)) if _has(md, path) else _ser_fast(md)
        except Exception:   # noqa
            return
        out.append(dict(kind='hkey/' + level + ('' if tier == 'primary' else '-secondary'), path=path_label(path),
                        context=label, hkey=dict(level=level, key=key.hex(), tier=tier), x=x, x_without=xw))

    for ki, key in enumerate(sorted(primary)):
        for li, level in enumerate(KEY_LEVELS):
            core = KEY_VALUES_CORE if full or (level, key) not in known else KEY_VALUES_CORE[3:7]
            for vi, v in enumerate(core):
                for ci, ctx in enumerate(ctxs):
                    add(level, key, v, ctx, 'primary', fi=vi + ci)
            for vi, v in enumerate(KEY_VALUES_MORE):
                for ctx in (ctxs if full else [ctxs[(ki + li + vi) % len(ctxs)]]):
                    add(level, key, v, ctx, 'primary', fi=vi)
            for vi, v in enumerate(KEY_VALUES_CORE if full else KEY_VALUES_CROWD):
                for ci, ctx in enumerate(crowd):
                    if level in ctx[3] or (ctx[3] == ('cross',) and vi < 2 and level != 'file'):
                        add(level, key, v, ctx[:3], 'primary', fi=vi + ci)
    for ki, key in enumerate(sorted(secondary)):
        for level in KEY_LEVELS:
            for vi, v in enumerate(KEY_VALUES_CORE if full else KEY_VALUES_SECONDARY):
                for ci, ctx in enumerate(ctxs + (crowd if vi in (3, 5) else []) if full else sec_ctx):
                    add(level, key, v, ctx[:3], 'secondary', fi=vi + ci)
    return out


def static_key_slots():
    """(level, key) pairs the field matrix sweeps"""
    out = set()
    for p in FIELDS_TOP + FIELDS_INFO + FIELDS_FILES:
        if len(p) == 1:
            out.add(('top', p[0]))
        elif len(p) == 2 and p[0] == b'info' and not isinstance(p[1], int):
            out.add(('info', p[1]))
        elif len(p) == 4 and p[:2] == (b'info', b'files') and not isinstance(p[3], int):
            out.add(('file', p[3]))
    return out


# ------------------------------------------------------------------------------ number ladder (round 3)
# every numeric field validate() / the setters look at gets every magnitude class a conversion could
# stumble over: machine-word borders, the 2^53 float-precision border, the float *range* border 2^1024
# (float(n) / n / m / math.isfinite(n) raise OverflowError from there on), 10^308, and the decoder's
# 4300-digit limit — in torrents that are otherwise valid, once with the numbers around it left as they
# are (the count check fails after the number passed its own check) and once *fitted* (piece length a
# multiple of 16384 chosen so that the piece count is right: the torrent validates and every later
# check, dump(), infohash and magnet() are reached with the number in place).

def _pos_ladder():
    out = [0, 1, 2, 16383, 16384, 16385, 2 ** 31 - 1, 2 ** 31, 2 ** 31 + 1, 2 ** 32, 2 ** 53 - 1, 2 ** 53, 2 ** 53 + 1,
           2 ** 63 - 1, 2 ** 63, 2 ** 63 + 1, 2 ** 64, 10 ** 308, 2 ** 1023, 2 ** 1024 - 1, 2 ** 1024, 2 ** 1024 + 1, 2 ** 1025,
           10 ** 309, 10 ** 400, 2 ** 2048, 10 ** 4298, 10 ** 4299, 10 ** 4300 - 1, 10 ** 4300]
    return out


LADDER = _pos_ladder() + [-n for n in _pos_ladder() if n]
PAIRS = [(2 ** 53 - 1, 1), (2 ** 53, 1), (2 ** 53, 2 ** 53), (2 ** 63 - 1, 1), (2 ** 63, 2 ** 63), (2 ** 1023, 2 ** 1023),
         (2 ** 1024 - 1, 1), (2 ** 1024 - 1, 2 ** 1024 - 1), (2 ** 1024, 0), (0, 2 ** 1024), (1, 2 ** 1024), (10 ** 308, 10 ** 308),
         (9 * 10 ** 307, 9 * 10 ** 307), (9 * 10 ** 4299, 9 * 10 ** 4299), (10 ** 4300 - 1, 1), (2 ** 1024, -1), (-2 ** 1024, 2 ** 1025),
         (2 ** 1023, -2 ** 1023), (2 ** 1024, 2 ** 1024)]


def _fit(total):
    """smallest multiple of 16384 that holds `total` bytes in one piece"""
    return K16 * max(1, -(-total // K16))


def number_ladder():
    out = []

    def add(field, md, **kw):
        out.append(dict(kind='number/' + field, x=bstrict.ser(md), **kw))

    one = b'\x03' * 20
    for n in LADDER:
        # single-file length: as it is, and with a fitting piece length (one piece)
        md = layout('single', True)
        add('length', put(md, (b'info', b'length'), n))
        md = put(put(md, (b'info', b'length'), n), (b'info', b'pieces'), one)
        add('length-fitted', put(md, (b'info', b'piece length'), _fit(n)))
        add('length-fitted', put(put(layout('single', False), (b'info', b'length'), n),
                                 (b'info', b'piece length'), _fit(n) * 2))         # 2 pieces there: count is wrong by one
        # multi-file: either file
        for i in (0, 1):
            md = layout('multi', bool(i))
            other = md[b'info'][b'files'][1 - i][b'length']
            add('files.length', put(md, (b'info', b'files', i, b'length'), n))
            md = put(put(md, (b'info', b'files', i, b'length'), n), (b'info', b'pieces'), one)
            add('files.length-fitted', put(md, (b'info', b'piece length'), _fit(n + other)))
        # piece length: the number itself and the multiple of 16384 next to it, one piece
        for pl in (n, K16 * n, K16 * (n // K16), K16 * (n // K16) + K16):
            for kind in ('single', 'multi'):
                md = put(layout(kind, kind == 'multi'), (b'info', b'pieces'), one)
                add('piece-length', put(md, (b'info', b'piece length'), pl))
        # piece length a huge multiple, length just below / at / above it
        if n > K16:
            pl = _fit(n)
            for ln in (pl - 1, pl, pl + 1):
                md = put(put(layout('single', False), (b'info', b'piece length'), pl), (b'info', b'length'), ln)
                add('length-vs-piece-length', put(md, (b'info', b'pieces'), one))
        for kind in ('single', 'multi'):
            add('creation-date', put(layout(kind, True), (b'creation date',), n))
            add('private', put(layout(kind, True), (b'info', b'private'), n))
    for a, b in PAIRS:
        for full in (True, False):
            md = layout('multi', full)
            md = put(put(md, (b'info', b'files', 0, b'length'), a), (b'info', b'files', 1, b'length'), b)
            add('pair', md)
            md = put(md, (b'info', b'pieces'), one)
            add('pair-fitted', put(md, (b'info', b'piece length'), _fit(a + b)))
            add('pair-fitted', put(md, (b'info', b'piece length'), _fit(a + b) + K16))
            if a + b > K16:
                add('pair-fitted', put(md, (b'info', b'piece length'), _fit(a + b) - K16))   # two pieces needed, one there
    return out


# ----------------------------------------------------------------------- numbers stored as text (round 4)
# every field the reader, validate() or a getter converts or compares as a number gets *numeric-looking strings*:
# what str.isdigit() / bytes.isdigit() let through and int() / float() / datetime do not (or the other way round).

DIGIT_LENGTHS = (1, 2, 10, 19, 20, 39, 308, 309, 310, 4299, 4300, 4301, 5000)
NUM_FORMS = ['0', '1', '-1', '+1', '-0', '+0', '00', '007', ' 5', '5 ', ' 5 ', '\t5\n', '\x0b5\x0c', '5\x00', '\x1c5', '5\x85', '\xa05',
             '5\u3000', '\u200b5', '\ufeff5', '1_000', '1__0', '_1', '1_', '1_0_0', '+-1', '--1', '- 1', '0x10', '0X1f', '0o7', '0b1', '1e5',
             '1E5', '1e400', '1.0', '1.', '.5', '1.5', '-1.5', '1,000', '1 000', 'inf', '-inf', 'Infinity', 'nan', 'NaN', '-nan', 'True',
             'None', '1j', '1L', '1n', '\u0661\u0662\u0663', '\u0665', '\uff15', '\uff11\uff12\uff13', '-\uff15', '\u06f5', '\u096b',
             '\U0001d7d3', '\xb2', '\xb9\xb2\xb3', '\u0663\xb2', '5\xb2', '\u2464', '\u2160', '\xbd', '\u3007', '\u4e94', '\u0f33',
             '1\u0661', '\uff10x10', '1\uff3f0', '\u22125', '\uff0b5', '\uff0d5']
NUM_LONG = ['-' + '9' * 4300, '-' + '9' * 4301, '+' + '9' * 4301, ' ' + '9' * 4301, '9' * 4301 + ' ', '9' * 4301 + '\n', '9' * 4300 + '\xb2',
            '\xb2' * 4301, '\uff19' * 4300, '\uff19' * 4301, '\u0663' * 4301, '9' + '_9' * 4299, '9' + '_9' * 4300, '9' * 2150 + '_' + '9' * 2151,
            '0' * 4300 + '_1', '1.' + '0' * 4301, '1e' + '9' * 4301, '0x' + 'f' * 4301, '9' * 4301 + 'x', 'x' + '9' * 4301]
NUM_NON_UTF8 = [b'123\xff', b'\xff123', b'\xb2', b'12\xb3', b'\xb9\xb2\xb3', b'1\x80', b'\xc0\xb1', b'\xed\xa0\xb1', b'9' * 4301 + b'\xff',
                b'\xff' + b'9' * 4301, b'\xb2' * 4301]


def digit_runs(lengths=DIGIT_LENGTHS):
    out = []
    for k in lengths:
        out += ['9' * k, '1' + '0' * (k - 1), '0' * k]
        if k > 1:
            out.append('0' * (k - 1) + '1')
    return out


def numeric_strings(long=True):
    """byte strings that look like numbers: ASCII digit runs around every border (64-bit, float range, the 4300-digit
    limit, 10^5 digits), signs, white space, underscores, other radixes, exponents / floats / inf / nan, Unicode decimal
    digits (int() accepts), other Unicode digits and numerics (isdigit() true, int() refuses), look-alike signs — as
    UTF-8 and as byte strings that are not UTF-8"""
    vs = [t.encode('utf8') for t in digit_runs() + NUM_FORMS + NUM_LONG] + list(NUM_NON_UTF8)
    if long:
        vs += [b'9' * 100000, b'0' * 99999 + b'1', '\uff19'.encode('utf8') * 20000]
    return vs


# fields whose value a reader / validator / getter treats as a number, and URL fields whose port is one
NUM_FIELDS = [(b'creation date',), (b'info', b'private'), (b'info', b'length'), (b'info', b'piece length'),
              (b'info', b'files', 0, b'length'), (b'info', b'files', 1, b'length'), (b'info', b'pieces'), (b'encoding',)]
PORT_FIELDS = [(b'announce',), (b'announce-list', 0, 0), (b'url-list', 0), (b'url-list',), (b'httpseeds', 0)]


def numeric_string_cases(full_product=False):
    """the ladder of numeric-looking strings in every numeric field and as the port of every URL field, in otherwise
    valid single- and multi-file torrents"""
    lays = [(k, f, layout(k, f)) for k in ('single', 'multi') for f in (True, False)]
    out = []
    vals = numeric_strings(long=True)
    for pi, path in enumerate(NUM_FIELDS + PORT_FIELDS):
        app = [l for l in lays if not (b'files' in path and l[0] == 'single' and not l[1])]
        for vi, v in enumerate(vals):
            if path in PORT_FIELDS:
                if len(v) > 6000:
                    continue
                v = b'http://tracker.example.org:' + v + b'/announce'
            for kind, full, base in (app if full_product else [app[(pi + vi) % len(app)]]):
                out.append(dict(kind='numstr/' + path_label(path), layout=kind + ('-full' if full else '-min'),
                                path=path_label(path), x=bstrict.ser(put(base, path, v))))
    return out


def sweep_values():
    """everything the search puts into one field: hostile text, values of every type, the number ladder, the
    numeric-looking strings and their long forms"""
    vs = hostile_values(long=True) + list(LADDER) + numeric_strings(long=True)
    vs += [b'http://tracker.example.org:' + v + b'/announce' for v in numeric_strings(long=False) if len(v) < 6000]
    return vs


def parse_path_label(label):
    return tuple(int(p) if p.isdigit() else p.encode() for p in label.split('.'))


def field_sweep(path, bases):
    """every sweep value at `path` of every base metainfo"""
    out = []
    vals = sweep_values()
    for bi, base in enumerate(bases):
        for v in vals:
            try:
                x = bstrict.ser(put(base, path, v))
            except Exception:   # noqa
                continue
            out.append(dict(kind='sweep/' + path_label(path), path=path_label(path), x=x))
    return out


def md5_near_misses(r, n):
    """strings around the MD5 pattern: a digest with 0-2 characters replaced / inserted / deleted by hostile
    ones, as `md5sum` of a single-file torrent and of a file of a multi-file torrent"""
    pool = list('0123456789abcdefABCDEFgG \n\x00\t-+_xX') + ['\xe4', '\xe9', '\uff10', '\uff11', '\uff21', '\u0661', '\xb2',
                                                        '\u0130', '\u017f', '\u212a', '\u2028', '\U0001d7d8', '\r']
    out = []
    for _ in range(n):
        cs = list(MD5 if r.random() < 0.7 else ''.join(r.choice('0123456789abcdefABCDEF') for _ in range(32)))
        for _ in range(r.choice([0, 1, 1, 1, 2])):
            i = r.randrange(len(cs) + 1)
            op = r.random()
            if op < 0.5 and i < len(cs):
                cs[i] = r.choice(pool)
            elif op < 0.8:
                cs.insert(i, r.choice(pool))
            elif i < len(cs):
                del cs[i]
        v = ''.join(cs).encode('utf8')
        kind = r.choice(['single', 'multi'])
        path = (b'info', b'md5sum') if kind == 'single' else (b'info', b'files', r.randrange(2), b'md5sum')
        out.append(dict(kind='field/md5-near-miss', layout=kind, x=bstrict.ser(put(layout(kind, r.random() < 0.5), path, v))))
    return out


def _value_paths(v, path=()):
    """paths of all values (leaves and containers) below the top-level dict"""
    if isinstance(v, dict):
        for k, x in v.items():
            yield path + (k,)
            yield from _value_paths(x, path + (k,))
    elif isinstance(v, list):
        for i, x in enumerate(v):
            yield path + (i,)
            yield from _value_paths(x, path + (i,))


_HOSTILE_POOL = None


def hostile_mutation(r, md):
    """a generated (valid) metainfo with a hostile value at a random place, or a hostile string spliced into the
    text that is there"""
    global _HOSTILE_POOL
    if _HOSTILE_POOL is None:
        _HOSTILE_POOL = hostile_values()
    paths = list(_value_paths(md))
    path = r.choice(paths)
    v = r.choice(_HOSTILE_POOL)
    if r.random() < 0.3:
        # splice into the existing value when that is text
        o = md
        for k in path:
            o = o[k]
        if isinstance(o, bytes) and isinstance(v, bytes):
            i = r.randrange(len(o) + 1)
            v = o[:i] + v[:40] + o[i:]
    return bstrict.ser(put(md, path, v))


def seeded(r, n):
    """fuzz seeded with valid torrents: truncations, bit flips, structure-aware and byte mutations"""
    out = []
    for _ in range(n):
        opts = {}
        k = r.random()
        if k < 0.1:
            opts['private'] = r.choice(PRIVATES)
        elif k < 0.25:
            opts['cdate'] = r.choice(CDATES)
        elif k < 0.35:
            opts['badkeys'] = 0.5
        md = gen.metainfo(r, opts)
        x = bstrict.ser(md)
        m = r.random()
        if m < 0.05:
            out.append(dict(kind='seed/valid', x=x))
        elif m < 0.12:
            out.append(dict(kind='seed/hostile-field', x=hostile_mutation(r, md)))
        elif m < 0.27:
            out.append(dict(kind='seed/truncate', x=x[:r.randrange(len(x))]))
        elif m < 0.42:
            y = bytearray(x)
            for _ in range(r.choice([1, 1, 1, 2, 3])):
                i = r.randrange(len(y))
                y[i] ^= 1 << r.randrange(8)
            out.append(dict(kind='seed/bitflip', x=bytes(y)))
        elif m < 0.52:
            mk, y = gen.mutate_structure(r, md)
            out.append(dict(kind='seed/struct-' + mk, x=y))
        elif m < 0.62:
            mk, y = gen.mutate_bytes(r, x)
            out.append(dict(kind='seed/bytes-' + mk, x=y))
        elif m < 0.72:
            # wrong type somewhere
            paths = list(gen._dict_paths(md))
            p = r.choice(paths)
            w = r.choice(WRONG)

            def f(d):
                d = dict(d)
                if d:
                    d[r.choice(sorted(d))] = w
                else:
                    d[b'k'] = w
                return d
            y = bstrict.ser(gen._replace(md, p, f))
            out.append(dict(kind='seed/wrong-type', x=y))
        elif m < 0.80:
            # huge length prefix spliced over an existing one
            import re
            ms = list(re.finditer(rb'(?<![0-9])([0-9]+):', x))
            mm = r.choice(ms)
            n_ = r.choice(PREFIXES_SMALL + PREFIXES_OVERFLOW + PREFIXES_WINDOW)
            out.append(dict(kind='seed/prefix', x=x[:mm.start()] + str(n_).encode() + x[mm.end() - 1:], prefix=n_))
        elif m < 0.86:
            d = r.choice([1, 2, 5, 20, 40, 45, 50, 55, 60, 100, 300, 497, 498, 499, 700])
            key = r.choice([b'a', b'zz', b'\xff'])
            y = x[:-1] if key > b'info' else x[:1]
            rest = x[-1:] if key > b'info' else x[1:]
            out.append(dict(kind='seed/deep', depth=d,
                            x=y + str(len(key)).encode() + b':' + key + nest(r.choice('ldm'), d, r.choice([b'i1e', b'0:', b'le'])) + rest))
        elif m < 0.93:
            # splice / delete / duplicate a random slice
            i, j = sorted((r.randrange(len(x) + 1), r.randrange(len(x) + 1)))
            op = r.choice(['del', 'dup', 'swap'])
            if op == 'del':
                y = x[:i] + x[j:]
            elif op == 'dup':
                y = x[:j] + x[i:j] + x[j:]
            else:
                y = x[:i] + bytes(reversed(x[i:j])) + x[j:]
            out.append(dict(kind='seed/splice-' + op, x=y))
        else:
            n_ = r.choice([1, 2, 3, 5, 8, 20, 100])
            alpha = r.choice([b'dlie0123456789:-a', bytes(range(256))])
            out.append(dict(kind='random', x=bytes(r.choice(alpha) for _ in range(n_))))
    return out


def exhaustive_small(maxlen):
    import itertools
    alpha = [b'd', b'l', b'e', b'i', b'1', b'0', b':', b'-', b'a']
    out = []
    for n in range(0, maxlen + 1):
        for tup in itertools.product(alpha, repeat=n):
            out.append(dict(kind='small-exhaustive', x=b''.join(tup)))
    return out


def truncations(x, step=1):
    return [dict(kind='truncate-every-offset', x=x[:i]) for i in range(0, len(x), step)]


def big_cases():
    """inputs at the size limit (10 MB) — few, slow on the real code"""
    M = 10 ** 7
    return [dict(kind='big/limit+1', x=b'x' * (M + 1), modelled=False),
            dict(kind='big/limit', x=b'x' * M, modelled=False),
            dict(kind='big/limit-valid', x=with_entry(b'z', str(M - 200).encode() + b':' + b'z' * (M - 200)), modelled=False),
            dict(kind='big/digits', x=b'd' + b'9' * (M - 10) + b':ae', modelled=False),
            dict(kind='big/int-digits', x=b'd1:ai' + b'9' * (M - 10) + b'ee', modelled=False)]


# ------------------------------------------------------------------------------------------ magnets

H40 = 'a1b2c3d4e5f60718293a4b5c6d7e8f9012345678'
B32 = 'abcdefghijklmnopqrstuvwxyz234567'
GOOD_URLS = [' http://a b/c', 'http://a.b/c', 'udp://t.example:6969/announce', 'https://[::1]:80/x', 'http://a b/c', 'ftp://x',
             'http://éx.example/ann', 'http://a:0/', 'http://a:65535']
BAD_URLS = ['abc', '', '//a', 'http:', 'http://', 'http://a:99999', 'http://a:x', 'http://[', 'http://[zz]/',
            'http://a]b/', 'http://℀/', '://', 'a b', 'http://a:-1', 'http://[::1', 'http://a:65536']
XT_VARIANTS = [H40, H40.upper(), B32, B32.upper(), 'urn:btih:' + H40, 'URN:BTIH:' + H40.upper(), 'urn:btih:' + B32,
               'Urn:BtIh:' + B32, H40[:-1], H40 + 'a', B32[:-1], B32 + 'a', 'urn:btih:' + H40 + 'x', 'urn:btih:',
               'urn:sha1:' + H40, '', ' ', H40 + '\n', '\n' + H40, ' ' + H40, H40 + ' ', 'g' * 40, '1' * 32, '8' * 32,
               'z' * 32, 'z' * 40, 'k' * 31 + 'K', 's' * 31 + 'ſ', 'i' * 31 + 'İ', 'i' * 31 + 'ı',
               'a' * 39 + 'ſ', 'urn:btİh:' + H40, 'urn:btıh:' + H40, 'urn:btih:' + 'k' * 31 + 'K',
               'ａ' * 40, '١' * 40, '0' * 40, '0' * 32, 'urn:btih:urn:btih:' + H40, 'urn%3Abtih%3A' + H40,
               'urn:btmh:1220caf1e1c30e81cb361b9ee167c4aa64228a7fa4fa9f6105232b28ad099f3a302e', 'URN:BTMH:1220' + H40, 'urn:btmh:',
               'urn:ed2k:' + H40[:32], 'urn:tree:tiger:' + B32, 'urn:md5:' + H40[:32], 'urn:bitprint:' + B32 + '.' + B32,
               'urn:btmh:1220caf1e1c30e81cb361b9ee167c4aa64228a7fa4fa9f6105232b28ad099f3a302e', 'urn:btih:' + B32]
XLS = ['0', '1', '-1', '5', '1e5', '1.5', '9' * 20, '9' * 4300, '9' * 4301, '-' + '9' * 4301, '+5', ' 5 ', '1_0',
       '0x10', '', '١٢', '５', '--5', '5 5', 'five', '²', '00', '1__0', '_1', '\n7\n', '0.0', 'inf',
       'nan', 'True', '2' * 4299]


def q(s):
    return urllib.parse.quote(s, safe='')


def magnet_fixed():
    out = []
    base = 'magnet:?xt=urn:btih:' + H40
    for s in ['', ' ', '\n', 'magnet:', 'magnet:?', 'magnet', 'magnet:?&', 'magnet:?=', 'magnet:?xt', 'magnet:?xt=',
              base, '  ' + base + '\n', base.upper(), 'MAGNET:?xt=' + H40, '?xt=' + H40, 'xt=' + H40, '//[', 'magnet://[',
              'magnet://[::1', 'magnet://[::1]?xt=' + H40, 'magnet://ex]ample?xt=' + H40, 'magnet://℀/?xt=' + H40,
              'magnet://ｅxample.com?xt=' + H40, 'http://x/?xt=' + H40, 'magnet:/?xt=' + H40,
              'magnet://host/path?xt=' + H40, 'magnet:?xt=' + H40 + '#frag', 'magnet:?xt=' + H40 + ';xl=0',
              'magnet:?xt=' + H40 + '&xt=' + H40, 'magnet:?xt=' + H40 + '&foo=1', 'magnet:?xt=' + H40 + '&x.pe=1',
              'magnet:?xt=' + H40 + '&x_pe=1', 'magnet:?xt=' + H40 + '&x_=', 'magnet:?xt=' + H40 + '&=1',
              'magnet:?xt=' + H40 + '&XT=' + H40, 'magnet:?XT=' + H40, 'magnet:?xt=' + H40 + '\x00',
              '\x00', 'magnet:?xt=' + H40 + '&dn=a&dn=b', 'magnet:?xt=' + H40 + '&dn=%ff%fe',
              'magnet:?xt=' + H40 + '&kt=a+b&kt=c', 'magnet:?xt=' + H40 + '&kt=a+b+c', 'magnet:?xt=' + H40 + '&kt=',
              'magnet:?xt=' + H40 + '&xl=1&xl=2', 'magnet:?xt=' + H40 + '&xs=http://a&xs=http://b',
              'magnet:?xt=' + H40 + '&as=http://a&as=http://b', 'magnet:?xt=' + H40 + '&tr=http://a&tr=http://a',
              'magnet:?xt=' + H40 + '&xl=x&xs=bad', 'magnet:?xt=' + H40 + '&xs=bad&xl=x',
              'magnet:?xt=' + H40 + '&tr=bad&xl=x', 'magnet:?xt=' + H40 + '&ws=bad&tr=bad2&dn=a&dn=b',
              'magnet:?xt=bad&foo=1', 'magnet:?foo=1', 'magnet:?dn=a', ' magnet:?xt=' + H40 + '　',
              'magnet:?xt=' + H40 + '&tr=http://a%5B', 'magnet:?xt=' + H40 + '&tr=http://%5B::1%5D:80/a',
              'mag\tnet:?xt=' + H40, 'magnet:?x\nt=' + H40, 'magnet:?xt=' + H40[:20] + '\n' + H40[20:]]:
        out.append(dict(kind='magnet/fixed', uri=s))
    for v in XT_VARIANTS:
        out.append(dict(kind='magnet/xt', uri='magnet:?xt=' + q(v)))
        out.append(dict(kind='magnet/xt', uri='magnet:?xt=' + v))
    for v in XLS:
        out.append(dict(kind='magnet/xl', uri=base + '&xl=' + q(v)))
    for p in ('tr', 'ws', 'xs', 'as'):
        for u in GOOD_URLS + BAD_URLS:
            out.append(dict(kind='magnet/url-' + p, uri=base + '&' + p + '=' + q(u)))
            out.append(dict(kind='magnet/url-' + p, uri=base + '&' + p + '=' + u))
    out.append(dict(kind='magnet/surrogate', uri='magnet:?xt=' + H40 + '&tr=http://a\udc80', modelled=False))
    out.append(dict(kind='magnet/surrogate', uri='\udc80', modelled=False))
    out.append(dict(kind='magnet/surrogate', uri='magnet:?xt=\udc80', modelled=False))
    out.append(dict(kind='magnet/astral', uri=base + '&dn=\U0001f600', modelled=False))
    return out


# ------------------------------------------------------------------ exact topics real links carry (round 4)
H64 = 'caf1e1c30e81cb361b9ee167c4aa64228a7fa4fa9f6105232b28ad099f3a302e'
B39 = 'LWPNACQDBZRYXW3VHJVCJ64QBZNGHOHHHZWCLNQ'
TOPICS = {
    'btih-hex': 'urn:btih:' + H40, 'btih-b32': 'urn:btih:' + B32, 'bare-hex': H40, 'bare-b32': B32,
    'btmh': 'urn:btmh:1220' + H64, 'btmh-short': 'urn:btmh:1220' + H40, 'btmh-empty': 'urn:btmh:', 'btmh-nocolon': 'urn:btmh',
    'btmh-junk': 'urn:btmh:xyz', 'btmh-blake': 'urn:btmh:1e20' + H64, 'btih-v2hash': 'urn:btih:' + H64, 'bare-64hex': H64,
    'bare-multihash': '1220' + H64, 'sha1': 'urn:sha1:' + B32.upper(), 'ed2k': 'urn:ed2k:' + H40[:32], 'ed2khash': 'urn:ed2khash:' + H40[:32],
    'tiger': 'urn:tree:tiger:' + B39, 'md5': 'urn:md5:' + H40[:32], 'aich': 'urn:aich:' + B32.upper(), 'kzhash': 'urn:kzhash:' + H40 + H40[:32],
    'bitprint': 'urn:bitprint:' + B32.upper() + '.' + B39, 'crc32': 'urn:crc32:1a2b3c4d', 'urn-only': 'urn:', 'uuid': 'urn:uuid:' + H40[:32],
}
TOPIC_CORE = ['btih-hex', 'btih-b32', 'bare-hex', 'btmh', 'btmh-blake', 'btmh-empty', 'sha1', 'ed2k', 'tiger', 'bitprint']


def _case_variants(v):
    """a topic with its prefix in lower / upper / mixed case and with percent-encoded characters"""
    i = v.rfind(':') + 1
    pre, rest = v[:i], v[i:]
    out = [v, pre.upper() + rest, pre.title() + rest, pre.swapcase() + rest.upper()]
    if pre:
        out += [pre.replace(':', '%3A') + rest, pre.replace(':', '%3a') + rest, '%75' + pre[1:] + rest,
                ''.join('%%%02x' % ord(c) for c in pre) + rest, pre[:-1] + '%3A' + rest, q(v), ' ' + v, v + ' ', v + '%0A', pre + ' ' + rest]
    return out


def magnet_topics():
    """exact topics of every URN namespace, alone, in pairs and triples in every order, with every multiplicity; numbered
    xt.N parameters; case and percent-encoding of the prefix; the other BEP 9 / BEP 53 / common parameters"""
    out = []

    def add(kind, query):
        out.append(dict(kind='magnet/topic-' + kind, uri='magnet:?' + query))

    rest = '&dn=foo&tr=http%3A%2F%2Ftracker.example.org%2Fannounce'
    for name, v in TOPICS.items():
        for w in _case_variants(v):
            add('single', 'xt=' + w)
            add('single', 'xt=' + w + rest)
            if name in TOPIC_CORE:
                add('single', 'dn=foo&xt=' + w)
        add('numbered', 'xt.1=' + v)
        add('numbered', 'xt.1=' + v + '&xt.2=' + TOPICS['btih-hex'])
        add('numbered', 'xt=' + TOPICS['btih-hex'] + '&xt.1=' + v)
        add('x_', 'xt=' + TOPICS['btih-hex'] + '&x_xt=' + v)
        for p in ('xs', 'as', 'kt', 'dn', 'ws', 'tr'):
            add('elsewhere', 'xt=' + TOPICS['btih-hex'] + '&' + p + '=' + v)
    for a in TOPIC_CORE:
        for b in TOPIC_CORE:
            add('pair', 'xt=' + TOPICS[a] + '&xt=' + TOPICS[b])
            add('pair', 'xt=' + TOPICS[a] + '&dn=foo&xt=' + TOPICS[b] + rest)
    import itertools
    for tri in itertools.product(['btih-hex', 'btmh', 'sha1', 'btmh-blake'], repeat=3):
        add('triple', '&'.join('xt=' + TOPICS[t] for t in tri))
    for n in (3, 10, 100):
        add('many', '&'.join(['xt=' + TOPICS['btmh']] * n))
        add('many', '&'.join(['xt=' + TOPICS['btmh']] * n + ['xt=' + TOPICS['btih-hex']]))
        add('many', '&'.join(['xt=' + TOPICS['btih-hex']] + ['xt=' + TOPICS['btmh']] * n))
    base = 'xt=' + TOPICS['btih-hex']
    for extra in ['so=0', 'so=0,2,4-6', 'so=', 'so=x', 'so=0&so=1', 'x.pe=1.2.3.4:6881', 'x.pe=[::1]:6881', 'x.pe=host:99999', 'x.pe=',
                  'x.pe=a&x.pe=b', 'x_pe=1.2.3.4:6881', 'x.=1', 'x.a.b=1', 'mt=http://a/list', 'xs=urn:btih:' + H40, 'xs=dchub://hub:411',
                  'as=urn:sha1:' + B32, 'kt=a+b&kt=c', 'select-only=0', 'select_only=0', 'fl=1', 'sl=1', 'xl=5&xl=5', 'dn=', 'tr=',
                  'tr.1=http://a/', 'ws.1=http://a/', 'dn.1=a', 'XT=' + H40, 'Xt=' + H40, 'xT=' + TOPICS['btmh'], 'xt', 'xt=', 'xt==',
                  'xt=&xt=' + TOPICS['btmh'], 'xt=' + TOPICS['btmh'] + '&xt=']:
        add('param', base + '&' + extra)
        add('param', extra + '&' + base)
        add('param', 'xt=' + TOPICS['btmh'] + '&' + extra)
        add('param', extra)
    return out


def magnet_numeric():
    """the numeric-looking strings as xl and as the port of every URL parameter"""
    out = []
    base = 'magnet:?xt=urn:btih:' + H40
    for v in numeric_strings(long=True):
        try:
            t = v.decode('utf8')
        except UnicodeDecodeError:
            t = ''.join('%%%02x' % b for b in v)            # not UTF-8: only percent-encoded
            out.append(dict(kind='magnet/numstr-xl', uri=base + '&xl=' + t))
            continue
        out.append(dict(kind='magnet/numstr-xl', uri=base + '&xl=' + q(t)))
        if t != q(t) and '&' not in t and '#' not in t:
            out.append(dict(kind='magnet/numstr-xl', uri=base + '&xl=' + t))
        if len(t) < 6000:
            for p in ('tr', 'ws', 'xs', 'as'):
                out.append(dict(kind='magnet/numstr-port', uri=base + '&' + p + '=' + q('http://h:' + t + '/a')))
    return out


# ----------------------------------------------------------------------- the authority dimension (round 5)
# `//userinfo@host:port` of the magnet URI itself and of every URL-valued parameter.  urlparse() splits it eagerly (an
# unbalanced bracket raises ValueError there) but validates host and port LAZILY: `.port` raises ValueError for anything that
# is not a decimal number in 0..65535, `.hostname` lower-cases / strips brackets and the zone.
AUTH_USERINFO = ['', 'user@', 'user:pw@', '@', ':@', 'a@b@', 'user:p:w@', '%40@', 'us er@']
AUTH_HOST = ['', 'host', 'Host.Example.ORG', '1.2.3.4', '999.1.1.1', '[::1]', '[fe80::1%25eth0]', '[fe80::1%eth0]', '[v1.x]', '[::1',
             '::1]', '[]', '[zz]', '[::1]x', 'h[o]st', 'xn--nxasmq6b', 'b\xfccher.example', '\uff41.b', 'a..b', '.', 'h%20st', 'h st',
             '-', 'a' * 300]
AUTH_PORT = ['', ':', ':80', ':0', ':00080', ':65535', ':65536', ':99999', ':-1', ':+80', ':x', ':80x', ':6881x', ':8 0', ': 80',
             ':80 ', ':\u0668\u0660', ':\uff18\uff10', ':\xb2', ':1_0', ':0x50', ':1e3', ':80:81', '::', ':' + '9' * 20, ':' + '9' * 4301,
             ':' + '0' * 4301, ':%38%30', ':\t80', ':80\n']
AUTH_TAIL = ['?xt=', '/?xt=', '/path?xt=', '/?dn=x&xt=', ';p?xt=', '#?xt=', '/a/../?xt=', '//?xt=']


AUTH_USERINFO_Q = ['', 'user@', 'user:pw@', '@', 'a@b@']
AUTH_HOST_Q = ['', 'host', '1.2.3.4', '[::1]', '[fe80::1%25eth0]', '[::1', '::1]', '[zz]', 'b\xfccher.example', 'a..b', 'h st', 'a' * 300]
AUTH_PORT_Q = ['', ':', ':80', ':0', ':65535', ':65536', ':99999', ':-1', ':x', ':6881x', ': 80', ':\u0668\u0660', ':\xb2', ':80:81',
               ':' + '9' * 20, ':' + '9' * 4301]


def authorities(quick=False):
    if quick:
        return [u + h + p for u in AUTH_USERINFO_Q for h in AUTH_HOST_Q for p in AUTH_PORT_Q]
    return [u + h + p for u in AUTH_USERINFO for h in AUTH_HOST for p in AUTH_PORT]


def magnet_authority(full=False):
    """the authority grid (9 userinfo x 24 hosts x 30 ports = 6480; quick: 5 x 12 x 16 = 960) as authority of the magnet URI (8 placements of path / query)
    and of the URL in tr / ws / xs / as; quick: one placement and one parameter per authority, in rotation"""
    out = []
    base = 'magnet:?xt=urn:btih:' + H40
    for i, a in enumerate(authorities(quick=not full)):
        for ti, tail in enumerate(AUTH_TAIL):
            if full or ti == i % len(AUTH_TAIL):
                out.append(dict(kind='magnet/authority-uri', uri='magnet://' + a + tail + H40))
        if i % 7 == 0:
            out.append(dict(kind='magnet/authority-uri', uri='magnet://' + a))                      # no query at all
            out.append(dict(kind='magnet/authority-uri', uri='MAGNET://' + a + '?xt=' + H40))
            out.append(dict(kind='magnet/authority-uri', uri='//' + a + '?xt=' + H40))              # scheme from the default
        for pi, p in enumerate(('tr', 'ws', 'xs', 'as')):
            if full or pi == i % 4:
                u = ('http', 'udp', 'https', 'ftp')[(i // 4) % 4] + '://' + a + ('/announce', '', '/?x=1', ':')[(i // 16) % 4]
                out.append(dict(kind='magnet/authority-' + p, uri=base + '&' + p + '=' + (q(u) if i % 3 else u.replace('&', '%26').replace('#', '%23'))))
    return out


def _authority_span(s, start):
    """(begin, end) of the authority that starts after '//' at `start`"""
    j = len(s)
    for ch in '/?#':
        k = s.find(ch, start)
        if k != -1:
            j = min(j, k)
    return start, j


def authority_sweep(uri):
    """the whole authority grid in the place of the authority of the URI and of every URL-valued parameter (percent-decoded
    and re-encoded); when the URI has no authority, one is put after the scheme"""
    out, seen = [], set()

    def add(u):
        if u not in seen:
            seen.add(u)
            out.append(dict(kind='magnet/sweep-authority', uri=u))

    auths = authorities()
    head, sep, query = uri.partition('?')
    st = uri.strip()
    i = st.find('//')
    if 0 <= i <= st.find(':') + 1 and (st.find('?') == -1 or i < st.find('?')):
        b, e = _authority_span(st, i + 2)
        for a in auths:
            add(st[:b] + a + st[e:])
    elif ':' in head:
        k = st.find(':') + 1
        for a in auths:
            add(st[:k] + '//' + a + ('' if st[k:k + 1] in ('?', '/', '#', '') else '/') + st[k:])
    fields = query.split('&') if sep else []
    for fi, f in enumerate(fields):
        k, eq, v = f.partition('=')
        if k in ('tr', 'ws', 'xs', 'as') and eq:
            u = urllib.parse.unquote(v.replace('+', ' '))
            j = u.find('//')
            if j == -1:
                continue
            b, e = _authority_span(u, j + 2)
            for a in auths[::3]:
                add(head + '?' + '&'.join(fields[:fi] + [k + '=' + q(u[:b] + a + u[e:])] + fields[fi + 1:]))
    return out


def magnet_sweep(uri):
    """search after a correspondence break on `uri`: its parameters alone, in pairs, dropped, doubled, reordered, and every
    value replaced by the values of its class (topics, numeric strings, URLs)"""
    head, sep, query = uri.partition('?')
    if not sep:
        head, query = 'magnet:', uri
    fields = [f for f in query.split('&') if f]
    out, seen = [], set()

    def add(fs):
        u = head + '?' + '&'.join(fs)
        if u not in seen and len(seen) < 6000:
            seen.add(u)
            out.append(dict(kind='magnet/sweep', uri=u))

    n = len(fields)
    for i in range(n):
        add([fields[i]])
        add(fields[:i] + fields[i + 1:])
        add(fields[:i] + [fields[i]] * 2 + fields[i + 1:])
        add([fields[i]] * 2)
        for j in range(n):
            if i != j:
                add([fields[i], fields[j]])
    add(list(reversed(fields)))
    pools = {'xt': [w for v in TOPICS.values() for w in _case_variants(v)],
             'xl': [q(v.decode('utf8')) for v in numeric_strings(long=True) if _is_utf8(v)],
             'url': [q(u) for u in GOOD_URLS + BAD_URLS] + [q('http://h:' + d + '/') for d in digit_runs()]}
    for i, f in enumerate(fields):
        k = f.partition('=')[0]
        pool = pools['xt'] if k.lower().startswith('xt') else pools['xl'] if k == 'xl' else \
            pools['url'] if k in ('tr', 'ws', 'xs', 'as') else pools['xt'][:40] + pools['xl'][:60]
        for v in pool:
            add(fields[:i] + [k + '=' + v] + fields[i + 1:])
            add([k + '=' + v])
    return out


def _is_utf8(b):
    try:
        b.decode('utf8')
        return True
    except UnicodeDecodeError:
        return False


ESCAPES = ['%', '%%', '%z', '%zz', '%4', '%41', '%e9', '%E9', '%c3%a9', '%c3', '%00', '%0a', '%0A', '%26', '%3D', '%3d', '%2B',
           '%25', '%2541', '%u00e9', '%ED%A0%80', '%ff%fe', '%ef%bf%bd', '%20', '+', '%e2%80%ae', '%ef%bc%91', '%c2%85',
           '%f0%9f%98', '%80', '%c0%80', '%e0%80%80', '%7f', '%1', 'a%', '%a', '%g0', '%0g', '% 41', '%+41']
FIELD_COUNTS = [0, 1, 2, 10, 100, 999, 1000, 1001, 1002, 3000]
FIELD_COUNTS_THOROUGH = [500, 998, 1003, 2000, 5000, 10000, 20000]


def magnet_sizes(thorough=False):
    """size dimensions of the magnet grammar (round 2): number of `&`-separated fields (counted before blank
    values are dropped) 0 … several thousand in every shape a field can have, `;` as would-be separator, very
    long single values, percent-escapes (valid, invalid, non-UTF-8, encoded separators) in every position.
    Distinct tr/ws values stay <= 1003 (known quadratic time, finding D08h)."""
    out = []
    base = 'magnet:?xt=urn:btih:' + H40
    url = 'http%3A%2F%2Ftracker.example.org%3A6969%2Fannounce'

    def add(shape, n, uri):
        out.append(dict(kind='magnet/size-' + shape, uri=uri, fields=n))

    counts = FIELD_COUNTS + (FIELD_COUNTS_THOROUGH if thorough else [])
    for n in counts:
        add('amp', n, base + '&' * n)
        add('amp-only', n, 'magnet:?' + '&' * n)
        add('leading-amp', n, 'magnet:?' + '&' * n + 'xt=' + H40)
        add('blank-tr', n, base + '&tr=' * n)
        add('no-equals', n, base + '&tr' * n)
        add('same-tr', n, base + ('&tr=' + url) * n)
        add('same-ws', n, base + '&ws=http://seed.example/file' * n)
        add('bad-tr', n, base + '&tr=not+a+url' * n)
        add('dn', n, base + '&dn=foo' * n)
        add('kt', n, base + '&kt=a+b' * n)
        add('xl', n, base + '&xl=5' * n)
        add('xt-many', n, 'magnet:?' + '&'.join(['xt=' + H40] * n))
        add('no-xt', n, 'magnet:?' + '&'.join(['dn=x'] * n))
        add('semicolon', n, base + ';tr=http://a' * n)
        add('semicolon-amp', n, base + ';&' * n)
        add('mixed', n, base + ''.join(('&tr=http://a', '&', '&x_a=1', '&kt=', '&=v', '&k', '&x_b=%41')[i % 7] for i in range(n)))
        add('x_-same', n, base + '&x_a=1' * n)
        add('equals-only', n, base + '&=' * n)
        add('value-only', n, base + '&=v' * n)
        if n <= 1003:
            add('distinct-tr', n, base + ''.join('&tr=http://t%d.example/a' % i for i in range(n)))
            add('distinct-ws', n, base + ''.join('&ws=http://w%d.example/f' % i for i in range(n)))
        if n <= 5000:
            add('unknown-distinct', n, base + ''.join('&foo%d=bar' % i for i in range(n)))
            add('x_-distinct', n, base + ''.join('&x_%d=1' % i for i in range(n)))
        add('tail-xt', n, 'magnet:?' + 'tr=http://a&' * n + 'xt=' + H40)
    for ln in ((1000, 4299, 4300, 4301, 20000, 100000) if thorough else (4300, 4301, 100000)):
        add('long-dn', ln, base + '&dn=' + 'a' * ln)
        add('long-xt', ln, 'magnet:?xt=' + 'a' * ln)
        add('long-xt-urn', ln, 'magnet:?xt=urn:btih:' + 'a' * ln)
        add('long-tr', ln, base + '&tr=http://a/' + 'b' * ln)
        add('long-tr-host', ln, base + '&tr=http://' + 'b' * ln + '/')
        add('long-kt', ln, base + '&kt=' + 'a+' * (ln // 2))
        add('long-xl', ln, base + '&xl=' + '9' * ln)
        add('long-key', ln, base + '&' + 'k' * ln + '=1')
        add('long-x_key', ln, base + '&x_' + 'k' * ln + '=1')
        add('long-pct', ln, base + '&dn=' + '%41' * (ln // 3))
        add('long-pct-bad', ln, base + '&dn=' + '%e9' * (ln // 3))
        add('long-pct-tr', ln, base + '&tr=' + url + '%2F' * (ln // 3))
        add('long-spaces', ln, ' ' * ln + base + '\n' * ln)
        add('long-scheme', ln, 'm' * ln + ':?xt=' + H40)
    for e in ESCAPES:
        for pos in ('xt=' + H40 + '{}', 'xt={}' + H40, 'xt=urn:btih{}' + H40, 'xt=' + H40 + '&dn={}', 'xt=' + H40 + '&dn=a{}b',
                    'xt=' + H40 + '&xl=1{}', 'xt=' + H40 + '&xl={}', 'xt=' + H40 + '&tr=http://a/{}', 'xt=' + H40 + '&tr=http://a{}/',
                    'xt=' + H40 + '&tr={}', 'xt=' + H40 + '&ws=http://a/{}', 'xt=' + H40 + '&xs=http://a/{}',
                    'xt=' + H40 + '&as=http://a/{}', 'xt=' + H40 + '&kt=a{}b', 'xt=' + H40 + '&x_a={}', 'xt=' + H40 + '&x_{}=1',
                    'xt=' + H40 + '&{}=1', 'xt=' + H40 + '&d{}n=1', 'x{}t=' + H40, '{}xt=' + H40, 'xt=' + H40 + '&tr{}=http://a',
                    'xt=' + H40 + '{}dn=a', 'xt=' + H40 + '&dn=a{}dn=b', 'xt=' + H40 + '&dn{}a'):
            out.append(dict(kind='magnet/escape', uri='magnet:?' + pos.format(e)))
    for key in ('%78t', 'x%74', '%78%74', 'x%5Fa', '%78_a', 'd%6e', 't%72', 'xt%3D' + H40, 'x%00t', 'xt%00', '+xt', 'xt+'):
        out.append(dict(kind='magnet/escape-key', uri='magnet:?' + key + '=' + H40))
        out.append(dict(kind='magnet/escape-key', uri=base + '&' + key + '=http://a'))
    return out


# ------------------------------------------------------------------ repeated units (round 3)
# one character class repeated: every white-space class str.strip() knows, the invisible characters it does not
# know, escapes, separators, digits, letters of the hash alphabets, URL punctuation
UNITS = {
    'sp': ' ', 'tab': '\t', 'nl': '\n', 'cr': '\r', 'vt': '\x0b', 'ff': '\x0c', 'fs': '\x1c', 'us': '\x1f', 'nel': '\x85',
    'nbsp': '\xa0', 'ogham': '\u1680', 'enquad': '\u2000', 'emsp': '\u2003', 'thin': '\u2009', 'hair': '\u200a', 'ls': '\u2028',
    'ps': '\u2029', 'nnbsp': '\u202f', 'mmsp': '\u205f', 'ideo': '\u3000', 'bom': '\ufeff', 'zwsp': '\u200b', 'lrm': '\u200e',
    'rlm': '\u200f', 'ws-mix': ' \t\n\r', 'crlf': '\r\n', 'sp-a': ' a',
    'pct20': '%20', 'pct': '%', 'pctzz': '%zz', 'pcte9': '%e9', 'pctc3a9': '%c3%a9', 'pct00': '%00', 'pct2': '%2', 'pct25': '%25',
    'plus': '+', 'amp': '&', 'semi': ';', 'eq': '=', 'amp-eq': '&=', 'zero': '0', 'nine': '9', 'a': 'a', 'f': 'f', 'A': 'A', 'z': 'z',
    'seven': '7', 'slash': '/', 'colon': ':', 'dot': '.', 'at': '@', 'lbr': '[', 'rbr': ']', 'hash': '#', 'qm': '?', 'dash': '-',
    'under': '_', 'comma': ',', 'auml': '\xe4', 'bslash': '\\', 'nul': '\x00', 'a-dot': 'a.', 'a-colon': 'a:',
}
WS_UNITS = ['sp', 'tab', 'nl', 'cr', 'vt', 'ff', 'fs', 'us', 'nel', 'nbsp', 'ogham', 'enquad', 'emsp', 'thin', 'hair', 'ls', 'ps',
            'nnbsp', 'mmsp', 'ideo', 'bom', 'zwsp', 'lrm', 'rlm', 'ws-mix', 'crlf']
MAGNET_POSITIONS = {
    'start': lambda run, base: run + base,
    'end': lambda run, base: base + run,
    'bare': lambda run, base: 'a' + run + 'b',
    'mid-scheme': lambda run, base: 'mag' + run + 'net:?xt=' + H40,
    'after-scheme': lambda run, base: 'magnet:' + run + '?xt=' + H40,
    'mid-xt': lambda run, base: 'magnet:?xt=' + H40[:20] + run + H40[20:],
    'xt-run': lambda run, base: 'magnet:?xt=' + run + '!',
    'xt-urn-run': lambda run, base: 'magnet:?xt=urn:btih:' + run + '!',
    'mid-dn': lambda run, base: base + '&dn=a' + run + 'b',
    'mid-xl': lambda run, base: base + '&xl=1' + run + 'x',
    'mid-kt': lambda run, base: base + '&kt=a' + run + 'b',
    'mid-tr-path': lambda run, base: base + '&tr=http://h/' + run + 'b',
    'mid-tr-host': lambda run, base: base + '&tr=http://' + run + 'b/',
    'mid-tr-port': lambda run, base: base + '&tr=http://h:' + run + 'b/',
    'mid-ws': lambda run, base: base + '&ws=http://h/' + run + 'b',
    'mid-xs': lambda run, base: base + '&xs=http://h/' + run + 'b',
    'mid-key': lambda run, base: base + '&x_' + run + 'k=1',
    'between': lambda run, base: base + '&dn=a' + run + '&xl=5',
}


def magnet_unit(pos, unit, n):
    """magnet string of about n characters: `unit` repeated at `pos`"""
    u = UNITS[unit]
    return MAGNET_POSITIONS[pos](u * max(1, n // len(u)), 'magnet:?xt=urn:btih:' + H40)


def magnet_padding():
    """judged stream: short runs (1, 2, 40) of every unit at every position — what strip() removes, what it
    leaves, what urlparse / parse_qs make of it"""
    out = []
    for pos in MAGNET_POSITIONS:
        for unit in UNITS:
            for k in (1, 40):
                out.append(dict(kind='magnet/unit-' + pos, uri=magnet_unit(pos, unit, k * len(UNITS[unit]))))
    return out


BUNITS = {
    'sp': b' ', 'tab': b'\t', 'nl': b'\n', 'nbsp': '\xa0'.encode(), 'emsp': '\u2003'.encode(), 'bom': '\ufeff'.encode(),
    'auml': '\xe4'.encode(), 'pct': b'%', 'pct20': b'%20', 'slash': b'/', 'dot': b'.', 'bslash': b'\\', 'zero': b'0', 'nine': b'9',
    'a': b'a', 'f': b'f', 'colon': b':', 'at': b'@', 'lbr': b'[', 'xff': b'\xff', 'nul': b'\x00', 'a-dot': b'a.', 'sp-a': b' a',
    'amp': b'&', 'hash': b'#', 'qm': b'?',
}
# fields that hold text: key chain, the value the run is embedded in (prefix, suffix)
READ_FIELDS = {
    'name': ((b'info', b'name'), b'n', b'x'),
    'md5sum': ((b'info', b'md5sum'), b'', b'!'),
    'md5sum-hex': ((b'info', b'md5sum'), MD5.encode()[:31], b''),
    'file-md5sum': ((b'info', b'files', 1, b'md5sum'), b'', b'!'),
    'path': ((b'info', b'files', 0, b'path', 0), b'p', b'x'),
    'source': ((b'info', b'source'), b's', b'x'),
    'announce-path': ((b'announce',), b'http://h/', b'x'),
    'announce-host': ((b'announce',), b'http://', b'x/'),
    'announce-port': ((b'announce',), b'http://h:', b'x/'),
    'announce-scheme': ((b'announce',), b'h', b'x://h/'),
    'announce-list': ((b'announce-list', 0, 0), b'http://h/', b'x'),
    'url-list': ((b'url-list', 0), b'http://h/', b'x'),
    'url-list-str': ((b'url-list',), b'http://h/', b'x'),
    'httpseeds': ((b'httpseeds', 0), b'http://h/', b'x'),
    'comment': ((b'comment',), b'c', b'x'),
    'created-by': ((b'created by',), b'c', b'x'),
    'encoding': ((b'encoding',), b'U', b'x'),
    'unknown': ((b'zzz',), b'', b'x'),
    'info-unknown': ((b'info', b'zzz'), b'', b'x'),
}
READ_POSITIONS = ('start', 'mid', 'end')
# shapes of the encoding itself: digits in length prefixes and integers, nesting, long keys
READ_STRUCT = {
    'prefix-nines': lambda n: b'd' + b'9' * n + b':ae',
    'prefix-zeros': lambda n: b'd' + b'0' * n + b'1:ai1ee',
    'prefix-zeros-only': lambda n: b'd' + b'0' * n,
    'int-nines': lambda n: b'd1:ai' + b'9' * n + b'ee',
    'int-zeros': lambda n: b'd1:ai' + b'0' * n + b'ee',
    'int-minus': lambda n: b'd1:ai' + b'-' * n + b'ee',
    'int-neg-nines': lambda n: b'd1:ai-' + b'9' * n + b'ee',
    'int-4300-many': lambda n: b'd1:al' + (b'i' + b'9' * 4300 + b'e') * max(1, n // 4302) + b'e' + VALID_INFO + b'e',
    'int-4301-late': lambda n: b'd1:al' + b'i7e' * (n // 3) + b'i' + b'9' * 4301 + b'ee' + VALID_INFO + b'e',
    'colons': lambda n: b'd' + b':' * n,
    'nest-l': lambda n: b'd1:a' + b'l' * (n // 2) + b'e' * (n // 2) + VALID_INFO + b'e',
    'nest-d': lambda n: b'd1:a' + b'd1:a' * (n // 5) + b'i1e' + b'e' * (n // 5) + VALID_INFO + b'e',
    'nest-l-unclosed': lambda n: b'd1:a' + b'l' * n,
    'nest-d-unclosed': lambda n: b'd1:a' * (n // 4),
    'nest-mixed-unclosed': lambda n: b'd1:a' + b'ld1:a' * (n // 5),
    'nest-pieces': lambda n: b'd4:infod6:lengthi5e4:name1:a12:piece lengthi16384e6:pieces' + b'l' * (n // 2) + b'e' * (n // 2) + b'ee',
    'nest-in-files': lambda n: (b'd4:infod5:files' + b'l' * (n // 2) + b'e' * (n // 2) +
                                b'4:name1:a12:piece lengthi16384e6:pieces20:' + b'x' * 20 + b'ee'),
    'closers': lambda n: b'd1:ale' + b'e' * n,
    'key-long': lambda n: b'd' + VALID_INFO + str(n).encode() + b':' + b'k' * n + b'i1ee',
    'key-long-xff': lambda n: b'd' + VALID_INFO + str(n).encode() + b':' + b'\xff' * n + b'i1ee',
    'key-long-info': lambda n: b'd4:infod' + VALID_INFO[7:-1] + str(n).encode() + b':' + b'z' * n + b'i1eee',
    'keys-long-many': lambda n: b'd' + VALID_INFO + b''.join(b'104:' + b'k' * 100 + b'%04d' % i + b'i1e'
                                                             for i in range(min(9999, n // 110))) + b'e',
    'pieces-long': lambda n: (b'd4:infod6:lengthi' + str(K16 * (n // 20)).encode() + b'e4:name1:a12:piece lengthi16384e6:pieces' +
                              str(20 * (n // 20)).encode() + b':' + b'\x07' * (20 * (n // 20)) + b'ee'),
    'files-many-paths': lambda n: (b'd4:infod5:filesld6:lengthi1e4:pathl' + b'9:pppppppp/' * (n // 11) +
                                   b'eee4:name1:a12:piece lengthi16384e6:pieces20:' + b'x' * 20 + b'ee'),
    'tiers-empty': lambda n: b'd13:announce-listl' + b'le' * (n // 4) + b'e7:comment' + str(n // 2).encode() + b':' + b'c' * (n // 2) + VALID_INFO + b'e',
    'url-list-many': lambda n: b'd' + VALID_INFO + b'8:url-listl' + b'10:http://h/a' * (n // 13) + b'ee',
    'url-list-bad-late': lambda n: b'd' + VALID_INFO + b'8:url-listl' + b'10:http://h/a' * (n // 13) + b'1:xee',
}


def read_unit(field, pos, unit, n):
    """torrent of about n bytes: byte unit repeated inside the text of `field`"""
    path, pre, suf = READ_FIELDS[field]
    u = BUNITS[unit]
    run = u * max(1, n // len(u))
    v = {'start': run + pre + suf, 'mid': pre + run + suf, 'end': pre + suf + run}[pos]
    kind = 'multi' if b'files' in path else 'single'
    return bstrict.ser(put(layout(kind, True), path, v))


def read_padding():
    """judged stream: short runs of every byte unit in every text field at every position"""
    out = []
    for field in READ_FIELDS:
        for pos in READ_POSITIONS:
            for unit in BUNITS:
                for k in (1, 33):
                    out.append(dict(kind='field-unit/' + field, x=read_unit(field, pos, unit, k * len(BUNITS[unit]))))
    return out


PARAM_POOL = ['xt', 'xt', 'dn', 'xl', 'tr', 'tr', 'xs', 'as', 'ws', 'kt', 'x_pe', 'x.pe', 'foo', '', 'XT', 'tr.1']
CHARS = list('abz09 /:?&=#%+[]@.-_~\n\t\x00') + ['é', 'İ', 'ſ', 'K', '℀', 'ａ', '١',
                                                   ' ', '%5B', '%00', '%ff', '%0a']


def magnet_random(r, n):
    out = []
    for _ in range(n):
        k = r.random()
        if k < 0.7:
            parts = []
            for _ in range(r.choice([0, 1, 1, 2, 2, 3, 4, 6])):
                p = r.choice(PARAM_POOL)
                if p in ('xt', 'XT'):
                    v = r.choice(XT_VARIANTS)
                    if r.random() < 0.15:
                        i = r.randrange(len(v) + 1)
                        v = v[:i] + r.choice(CHARS) + v[i + (r.random() < 0.5):]
                elif p == 'xl':
                    v = r.choice(XLS)
                elif p in ('tr', 'ws', 'xs', 'as', 'tr.1'):
                    v = r.choice(GOOD_URLS + BAD_URLS)
                else:
                    v = ''.join(r.choice(CHARS) for _ in range(r.randint(0, 4)))
                sep = r.choice(['=', '=', '=', '=', '', '=='])
                parts.append(p + sep + (q(v) if r.random() < 0.7 else v))
            if r.random() < 0.02:
                # many fields: a random block repeated so that the count lands around a round number
                block = [r.choice(['tr=http://a', 'tr=', 'tr', '', 'x_a=1', 'dn=', 'kt=', '=', '=v', 'ws=http://s/f',
                                   'tr=http%3A%2F%2Fa', 'x_a=' + r.choice(ESCAPES)]) for _ in range(r.randint(1, 3))]
                total = r.choice([99, 100, 101, 500, 999, 1000, 1001, 1500, 2500]) + r.randint(-1, 1)
                k = r.randrange(len(parts) + 1)
                parts[k:k] = (block * (total // len(block) + 1))[:max(0, total - len(parts))]
            elif r.random() < 0.1 and parts:
                k = r.randrange(len(parts))
                i = r.randrange(len(parts[k]) + 1)
                parts[k] = parts[k][:i] + r.choice(ESCAPES) + parts[k][i:]
            pre = r.choice(['magnet:?', 'magnet:?', 'magnet:?', 'magnet:?', 'magnet:', 'magnet://h/?', 'magnet://[::1]/?',
                            'magnet://[/?', '?', '', 'http://x/?', 'Magnet:?', ' magnet:?', 'magnet:?&', 'magnet:#?',
                            'magnet://℀/?'])
            s = pre + r.choice(['&', '&', '&', ';', '&&']).join(parts) + r.choice(['', '', '', '\n', '#f', '&', ' '])
            out.append(dict(kind='magnet/grammar', uri=s))
        elif k < 0.9:
            s = r.choice(magnet_fixed())['uri']
            if s and not any(0xd800 <= ord(c) <= 0xdfff or ord(c) > 0xffff for c in s):
                for _ in range(r.choice([1, 1, 2])):
                    i = r.randrange(len(s) + 1)
                    op = r.random()
                    if op < 0.4:
                        s = s[:i] + r.choice(CHARS) + s[i:]
                    elif op < 0.7:
                        s = s[:i] + s[i + 1:]
                    else:
                        j = r.randrange(len(s) + 1)
                        s = s[:min(i, j)] + s[max(i, j):]
            out.append(dict(kind='magnet/mutated', uri=s))
        else:
            out.append(dict(kind='magnet/random', uri=''.join(r.choice(CHARS) for _ in range(r.randint(0, 30)))))
    return out
