"""Generators of file layouts (sizes against a piece length) shared by the stream properties."""
import itertools


def exhaustive(Ls, max_files, size_range=lambda L: range(0, 2 * L + 2), min_files=1):
    for L in Ls:
        for n in range(min_files, max_files + 1):
            for sizes in itertools.product(size_range(L), repeat=n):
                yield L, list(sizes)


def boundary_sizes(rng, L, kmax=4):
    k = rng.randint(1, kmax)
    return rng.choice([0, 1, 1, 2, L - 1, L, L + 1, k * L - 1, k * L, k * L + 1,
                       rng.randint(0, 3 * L), rng.randint(0, 3 * L)])


def random_sizes(rng, L, nmax=40):
    """boundary-directed random layout: mixture of shapes"""
    shape = rng.choice(['few', 'few', 'many', 'tiny-runs', 'many-handles', 'mixed'])
    if shape == 'few':
        n = rng.randint(1, 5)
        sizes = [max(0, boundary_sizes(rng, L)) for _ in range(n)]
    elif shape == 'many':
        n = rng.randint(6, nmax)
        sizes = [max(0, boundary_sizes(rng, L, 2)) for _ in range(n)]
    elif shape == 'tiny-runs':
        sizes = []
        for _ in range(rng.randint(1, 4)):
            sizes += [rng.choice([1, 1, 1, 2, 0])] * rng.randint(1, 2 * L + 3)
            sizes.append(max(0, boundary_sizes(rng, L)))
        sizes = sizes[:nmax]
    elif shape == 'many-handles':
        n = rng.randint(12, max(13, nmax))
        sizes = [rng.choice([1, 2, L, L + 1, max(0, L - 1), 0]) for _ in range(n)]
    else:
        n = rng.randint(2, 12)
        sizes = [rng.randint(0, 4 * L) for _ in range(n)]
    if sum(sizes) == 0:
        sizes[rng.randrange(len(sizes))] = rng.randint(1, 2 * L)
    return shape, sizes


def paths_for(n, rng=None, nested=True):
    """n pairwise distinct relative paths (component lists); some nested when asked"""
    out = []
    for i in range(n):
        name = f'f{i:03d}'
        if nested and rng is not None and rng.random() < 0.35:
            depth = rng.randint(1, 3)
            comps = [f'd{rng.randint(0, 3)}' for _ in range(depth)] + [name]
        else:
            comps = [name]
        out.append(comps)
    return out


def nontrivial_key(L, sizes):
    """a layout is non-trivial when >= 2 files and at least one file boundary lies strictly
    inside a piece"""
    if len(sizes) < 2:
        return None
    pos = 0
    inside = False
    for s in sizes[:-1]:
        pos += s
        if pos % L != 0 and pos < sum(sizes):
            inside = True
    return (L, tuple(sizes)) if inside else None
