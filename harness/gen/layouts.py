"""Generators of file layouts (sizes against a piece length) shared by the stream properties."""
import itertools


def exhaustive(Ls, max_files, size_range=lambda L: range(0, 2 * L + 2), min_files=1):
    for L in Ls:
        for n in range(min_files, max_files + 1):
            for sizes in itertools.product(size_range(L), repeat=n):
                yield L, list(sizes)


def boundary_sizes(rng, L, kmax=4):
    k = rng.randint(1, kmax)
    return rng.choice([0, 1, 1, 2, L - 1, L, L + 1, k * L - 1, k * L, k * L + 1,
                       rng.randint(0, 3 * L), rng.randint(0, 3 * L)])


def random_sizes(rng, L, nmax=40):
    """boundary-directed random layout: mixture of shapes"""
    shape = rng.choice(['few', 'few', 'many', 'tiny-runs', 'many-handles', 'mixed'])
    if shape == 'few':
        n = rng.randint(1, 5)
        sizes = [max(0, boundary_sizes(rng, L)) for _ in range(n)]
    elif shape == 'many':
        n = rng.randint(6, nmax)
        sizes = [max(0, boundary_sizes(rng, L, 2)) for _ in range(n)]
    elif shape == 'tiny-runs':
        sizes = []
        for _ in range(rng.randint(1, 4)):
            sizes += [rng.choice([1, 1, 1, 2, 0])] * rng.randint(1, 2 * L + 3)
            sizes.append(max(0, boundary_sizes(rng, L)))
        sizes = sizes[:nmax]
    elif shape == 'many-handles':
        n = rng.randint(12, max(13, nmax))
        sizes = [rng.choice([1, 2, L, L + 1, max(0, L - 1), 0]) for _ in range(n)]
    else:
        n = rng.randint(2, 12)
        sizes = [rng.randint(0, 4 * L) for _ in range(n)]
    if sum(sizes) == 0:
        sizes[rng.randrange(len(sizes))] = rng.randint(1, 2 * L)
    return shape, sizes


def paths_for(n, rng=None, nested=True):
    """n pairwise distinct relative paths (component lists); some nested when asked; one layout in eight uses
    `tricky_paths` (names that are string prefixes of one another, case variants, dots, spaces, non-ASCII)"""
    if nested and rng is not None and n <= 40 and rng.random() < 0.125:
        return tricky_paths(n, rng)
    out = []
    for i in range(n):
        name = f'f{i:03d}'
        if nested and rng is not None and rng.random() < 0.35:
            depth = rng.randint(1, 3)
            comps = [f'd{rng.randint(0, 3)}' for _ in range(depth)] + [name]
        else:
            comps = [name]
        out.append(comps)
    return out


_FILE_NAMES = ['a', 'a.b', 'ab', 'a b', 'A', 'a.b.c', 'a-', 'README', 'README.md', 'file', 'file.bak', 'f', 'f0', 'f00',
               '\u00e4', 'a\u0308', 'x.torrent', '-', '~', 'a#b', 'a%20b', 'a+b']
_DIR_NAMES = ['d', 'd1', 'd10', 'd1.x', 'D1', 'cd1', 'cd10', 'd 1', 'sub', 'sub.d', 'su']


def tricky_paths(n, rng):
    """n pairwise distinct relative paths whose names are string prefixes of one another, differ in case only, contain
    dots, spaces, '%', '+', '#', non-ASCII (composed and decomposed) — the shapes on which a textual path comparison
    (startswith on joined paths, case folding, normalisation, splitting at dots) goes wrong.  No path is a directory
    prefix of another (file names and directory names come from disjoint pools), so the layout exists on disk."""
    out, seen = [], set()
    while len(out) < n:
        depth = rng.choice([0, 0, 1, 1, 2])
        comps = [rng.choice(_DIR_NAMES) for _ in range(depth)] + [rng.choice(_FILE_NAMES)]
        if len(out) >= len(_FILE_NAMES) // 2 and tuple(comps) in seen:
            comps[-1] += f'.{len(out)}'
        if tuple(comps) in seen:
            continue
        seen.add(tuple(comps))
        out.append(comps)
    return out


def nontrivial_key(L, sizes):
    """a layout is non-trivial when >= 2 files and at least one file boundary lies strictly
    inside a piece"""
    if len(sizes) < 2:
        return None
    pos = 0
    inside = False
    for s in sizes[:-1]:
        pos += s
        if pos % L != 0 and pos < sum(sizes):
            inside = True
    return (L, tuple(sizes)) if inside else None
