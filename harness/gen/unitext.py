"""Wide text alphabet for byte-exactness checks (owned by C05).

torf keeps every byte string of a torrent that is valid UTF-8 as `str` and writes it back with
`str.encode('utf8')`.  A round trip is byte-exact only if *no* step looks at the text: no Unicode
normalisation (NFC/NFD/NFKC/NFKD), no case mapping, no stripping of white space / BOM / zero-width
or bidi controls, no replacement of unassigned code points or noncharacters, no special treatment
of non-BMP characters.  The alphabet below is built from the Unicode database of the running
Python (`unicodedata`), class by class, so that every such step changes at least one generated
string; the classification is only used to *generate* and to *label* inputs, never to compute an
expected result (the expected result is the input bytes).

    wtext(r)            -> str   (no surrogates: always encodable as UTF-8)
    wbytes_invalid(r)   -> bytes that are not valid UTF-8 (the decoder keeps them as bytes)
    equivalent_keys(r)  -> list of distinct strings that are equal after some normalisation
    text_features(b)    -> set of labels for a byte string
"""
import unicodedata as ud

_SCAN = None


def _scan():
    """code points by class, from the running interpreter's Unicode database"""
    global _SCAN
    if _SCAN is not None:
        return _SCAN
    cls = {'nfc_changes': [], 'nfkc_only': [], 'decomposes': [], 'unassigned': [], 'combining': [],
           'case_special': [], 'format': [], 'space': [], 'nonchar': [], 'private': []}
    rng = list(range(0, 0xd800)) + list(range(0xe000, 0x32400)) + list(range(0xe0000, 0xe0200)) + \
        list(range(0xf0000, 0xf0010)) + list(range(0x10fff0, 0x110000))
    for cp in rng:
        c = chr(cp)
        cat = ud.category(c)
        if (cp & 0xfffe) == 0xfffe or 0xfdd0 <= cp <= 0xfdef:
            cls['nonchar'].append(c)
        elif cat == 'Cn':
            if cp < 0x3000 or cp % 97 == 0:       # keep the list small: all BMP holes below U+3000, a sample above
                cls['unassigned'].append(c)
            continue
        elif cat == 'Co':
            if cp % 251 == 0 or cp in (0xe000, 0xf8ff, 0xf0000, 0x10fffd):
                cls['private'].append(c)
            continue
        if ud.normalize('NFC', c) != c:
            cls['nfc_changes'].append(c)           # singletons, composition exclusions, CJK compat
        elif ud.normalize('NFKC', c) != c:
            cls['nfkc_only'].append(c)             # ligatures, width variants, circled, super/subscripts, NBSP \u2026
        if ud.normalize('NFD', c) != c and ud.normalize('NFC', c) == c:
            cls['decomposes'].append(c)            # precomposed: NFD(c) is a non-NFC spelling of c
        if ud.combining(c):
            cls['combining'].append(c)
        if cat == 'Cf':
            cls['format'].append(c)                # ZWSP/ZWJ/ZWNJ, LRM/RLM, embeddings, isolates, BOM, SHY, tags
        if cat in ('Zs', 'Zl', 'Zp') or c.isspace():
            cls['space'].append(c)
        if (len(c.casefold()) != 1 or len(c.upper()) != 1 or len(c.lower()) != 1
                or c.lower().upper().lower() != c.lower() or c.casefold() != c.lower()):
            cls['case_special'].append(c)          # \u00df \u1e9e \u0130 \u0131 \u017f \u01c5 \u03c2 \u0149 \u0390 \ufb03 K(Kelvin) \u2026
    _SCAN = cls
    return cls


# hand-picked members that must always have a good chance (the usual suspects in real file names)
CURATED = {
    # decomposed / non-canonically ordered spellings (valid UTF-8, not NFC)
    'nfd': ['e\u0301', 'A\u030a', 'u\u0308', 'n\u0303', 'o\u0302\u0301', 'a\u0323\u0302', '\u1112\u1161\u11ab',
            '\u1100\u1161', '\u0915\u093c', '\u05d0\u05b7', 'q\u0307\u0323', 'q\u0323\u0307',
            'a\u0315\u0300\u05ae\u0300b', '\u0627\u0653', '\u30ab\u3099', '\u0cc6\u0cd5', '\U00011099\U000110ba',
            'Cafe\u0301', 're\u0301sume\u0301', '\u03b1\u0301', '\u0438\u0306', '\u1e0b\u0323', 'o\u0308\u0323'],
    # single code points that NFC itself rewrites (singletons, composition exclusions, CJK compatibility)
    'singleton': ['\u2126', '\u212a', '\u212b', '\u0340', '\u0341', '\u0343', '\u0344', '\u0374', '\u037e', '\u0387',
                  '\u1f71', '\u2000', '\u2001', '\u2329', '\u232a', '\uf900', '\uf9d0', '\ufa10', '\ufb1d',
                  '\u0958', '\u0f43', '\u2adc', '\U0002f800', '\U0002fa1d', '\U0001d15e'],
    # NFC-stable but rewritten by NFKC / NFKD
    'compat': ['\ufb01', '\ufb03', '\u2460', '\uff46', '\uff21', '\u00b2', '\u00a0', '\u338f', '\ufdfa', '\U0001d400',
               '\u2024', '\u01c6', '\u00bd', '\u2122', '\u3000', '\u1e9b', '\u017f', '\u00b5', '\u2002', '\ufe10',
               '\U0001f100', '\u3392'],
    'unassigned': ['\u0378', '\u0530', '\u2065', '\u05ff', '\U0001fffd', '\U0002fffd', '\U00032400', '\U000e0080',
                   '\U000e01f0', '\U00050000'],
    'nonchar': ['\ufdd0', '\ufdef', '\ufffe', '\uffff', '\U0001fffe', '\U0001ffff', '\U0010fffe', '\U0010ffff'],
    'nonbmp': ['\U00010000', '\U0001f600', '\U0001d11e', '\U000e0001', '\U000e0100', '\U000f0000', '\U00020000',
               '\U0001f1e9\U0001f1ea', '\U0001f468\u200d\U0001f469\u200d\U0001f467', '\U0001f44d\U0001f3fd',
               '\U00010400', '\U0001e900', '\U00016e40'],
    'bidi_zw': ['\u200b', '\u200c', '\u200d', '\u200e', '\u200f', '\u202a', '\u202b', '\u202c', '\u202d', '\u202e',
                '\u2066', '\u2067', '\u2068', '\u2069', '\ufeff', '\u00ad', '\u061c', '\u180e', '\u2060', '\ufe0f',
                '\ufe0e', '\u034f', '\u115f', '\u3164', '\u2061', '\U000e0020', '\U000e007f'],
    'case': ['\u00df', '\u1e9e', '\u0130', '\u0131', '\u017f', '\u01c5', '\u03c2', '\u0390', '\u0149', '\ufb03',
             '\u212a', '\u1e9b', '\u03a3', '\u1fd3', 'I', 'i\u0307', '\u0345', '\u10d0', '\u1c90', '\ua64a', '\u1c88',
             '\u13a0', '\uab70', '\U00010400', '\U00010428', 'A', 'a', 'Z', 'z'],
    'space_ctl': [' ', '\t', '\n', '\r', '\r\n', '\x0b', '\x0c', '\x1c', '\x1d', '\x1e', '\x1f', '\x85', '\u00a0',
                  '\u1680', '\u2028', '\u2029', '\u202f', '\u3000', '\x00', '\x1b', '\x7f', '\x80', '\x9f', '\u205f'],
    'pathish': ['/', '\\', '..', '.', ':', '*', '?', '"', '<', '>', '|', '~', '%2f', '%', '+', '&', '=', '#', '@'],
    'boundary': ['\x7f', '\x80', '\u07ff', '\u0800', '\ud7ff', '\ue000', '\uf8ff', '\ufffd', '\uffff', '\U00010000',
                 '\U0010ffff', 'a', 'b', '0', '~'],
}

CLASSES = ['nfd', 'singleton', 'compat', 'unassigned', 'nonchar', 'nonbmp', 'bidi_zw', 'case', 'space_ctl',
           'pathish', 'boundary', 'db-nfc', 'db-nfkc', 'db-nfd', 'db-unassigned', 'db-combining', 'db-case',
           'db-format', 'db-space', 'db-private', 'any']


def cluster(r, cls=None):
    """one short string (1..6 code points) of the given class (random class if None)"""
    if cls is None:
        cls = r.choice(CLASSES)
    if cls in CURATED:
        return r.choice(CURATED[cls])
    s = _scan()
    if cls == 'db-nfc':
        return r.choice(s['nfc_changes'])
    if cls == 'db-nfkc':
        return r.choice(s['nfkc_only'])
    if cls == 'db-nfd':                       # decomposed spelling of a precomposed character (incl. Hangul)
        c = r.choice(s['decomposes']) if r.random() < 0.8 else chr(r.randrange(0xac00, 0xd7a4))
        return ud.normalize('NFD', c)
    if cls == 'db-unassigned':
        return r.choice(s['unassigned'])
    if cls == 'db-combining':                 # base + 1..3 marks in random (often non-canonical) order
        return r.choice('aeoqx\u03a9\u05d0') + ''.join(r.choice(s['combining']) for _ in range(r.randint(1, 3)))
    if cls == 'db-case':
        return r.choice(s['case_special'])
    if cls == 'db-format':
        return r.choice(s['format'])
    if cls == 'db-space':
        return r.choice(s['space'])
    if cls == 'db-private':
        return r.choice(s['private'])
    if cls == 'any':                          # any scalar value at all
        while True:
            cp = r.randrange(0x110000)
            if not 0xd800 <= cp < 0xe000:
                return chr(cp)
    raise KeyError(cls)


def wtext(r, lo=1, hi=4, ascii_mix=0.3):
    """text made of `lo..hi` clusters; with probability `ascii_mix` per position an ASCII letter"""
    n = r.randint(lo, hi)
    k = r.random()
    out = []
    one = r.choice(CLASSES) if k < 0.5 else None       # half of the strings stay within one class
    for _ in range(n):
        if r.random() < ascii_mix:
            out.append(r.choice('abcXYZ019 ._-'))
        else:
            out.append(cluster(r, one))
    s = ''.join(out)
    k = r.random()
    if k < 0.08:                                       # edge white space / BOM / zero width at the ends
        s = r.choice(CURATED['space_ctl'] + ['\ufeff', '\u200b', '\u00a0']) + s
    elif k < 0.16:
        s = s + r.choice(CURATED['space_ctl'] + ['\ufeff', '\u200b', '\u00a0', '.'])
    return s


def variants(r, s):
    """strings that some normalisation identifies with `s` (and that differ from it), if any"""
    out = []
    for f in (lambda x: ud.normalize('NFC', x), lambda x: ud.normalize('NFD', x), lambda x: ud.normalize('NFKC', x),
              lambda x: ud.normalize('NFKD', x), str.casefold, str.lower, str.upper, str.strip,
              lambda x: x.lstrip('\ufeff'), lambda x: ''.join(c for c in x if ud.category(c) != 'Cf'),
              lambda x: x.replace('\r\n', '\n'), lambda x: x.encode('utf8').decode('utf8', 'ignore')):
        try:
            t = f(s)
        except Exception:  # noqa
            continue
        if t != s and t not in out and not any(0xd800 <= ord(c) < 0xe000 for c in t):
            out.append(t)
    return out


def equivalent_keys(r):
    """2..4 pairwise distinct strings identified by some normalisation (they must stay distinct keys)"""
    for _ in range(20):
        s = wtext(r, 1, 3)
        vs = variants(r, s)
        if vs:
            r.shuffle(vs)
            return [s] + vs[:r.randint(1, 3)]
    return ['e\u0301', '\u00e9']


INVALID = [
    b'\xff', b'\xfe', b'\x80', b'\xbf', b'\xc0\x80', b'\xc1\xbf', b'\xe0\x80\x80', b'\xe0\x9f\xbf', b'\xf0\x80\x80\x80',
    b'\xf0\x8f\xbf\xbf', b'\xf4\x90\x80\x80', b'\xf5\x80\x80\x80', b'\xf8\x88\x80\x80\x80', b'\xfc\x84\x80\x80\x80\x80',
    b'\xed\xa0\x80', b'\xed\xbf\xbf', b'\xed\xa0\xbd\xed\xb8\x80', b'\xed\xb8\x80', b'\xe2\x82', b'\xf0\x9f\x98', b'\xc3',
    b'\xc3\x28', b'\xa0\xa1', b'\xe2\x28\xa1', b'\xf0\x28\x8c\xbc', b'\xff\xfe', b'\xfe\xff', b'\xff\xfea\x00',
    b'caf\xe9', b'\x93quoted\x94', b'\x83\x65\x83\x58\x83\x67', b'\xb2\xe2\xca\xd4', b'\x81\x30\x81\x30',
    b'\xef\xbb', b'\xef\xbf', b'\x00\xff', b'\xe9',
]


def wbytes_invalid(r):
    """bytes that are NOT valid UTF-8: the decoder must keep them verbatim.  Often a well-formed
    (possibly non-NFC) text with one ill-formed sequence inside, so that a partly decoding step
    (errors='replace'/'ignore'/'surrogateescape'/'surrogatepass') shows."""
    bad = r.choice(INVALID)
    k = r.random()
    if k < 0.3:
        return bad
    if k < 0.55:
        return wtext(r, 1, 2).encode('utf8') + bad
    if k < 0.8:
        return bad + wtext(r, 1, 2).encode('utf8')
    return wtext(r, 1, 2).encode('utf8') + bad + wtext(r, 1, 2).encode('utf8')


def text_features(b):
    """labels of a byte string (for the input-distribution report and the non-triviality rule)"""
    acc = set()
    try:
        s = b.decode('utf8')
    except UnicodeDecodeError:
        acc.add('non-utf8-bytes')
        if b'\xed\xa0' in b or b'\xed\xb0' in b or b'\xed\xb8' in b or b'\xed\xbf' in b:
            acc.add('wtf8-surrogate-bytes')
        if b.decode('utf8', 'ignore'):
            acc.add('partly-decodable-bytes')
        return acc
    if not s or s.isascii() and s.strip() == s and s.isprintable():
        return acc
    if ud.normalize('NFC', s) != s:
        acc.add('non-nfc')
    if ud.normalize('NFD', s) != s:
        acc.add('non-nfd')
    if ud.normalize('NFKC', s) != ud.normalize('NFC', s):
        acc.add('non-nfkc')
    if s.casefold() != s or s.upper().lower() != s.lower():
        acc.add('case-sensitive-text')
    if any(len(c.casefold()) != 1 or len(c.upper()) != 1 for c in s):
        acc.add('case-special')
    if s.strip() != s or s[:1] == '\ufeff' or s[-1:] in '.\u200b\ufeff':
        acc.add('edge-space-or-bom')
    for c in s:
        cp = ord(c)
        cat = ud.category(c)
        if cp > 0xffff:
            acc.add('astral-text')
        if (cp & 0xfffe) == 0xfffe or 0xfdd0 <= cp <= 0xfdef:
            acc.add('noncharacter')
        elif cat == 'Cn':
            acc.add('unassigned')
        elif cat == 'Cf':
            acc.add('format-bidi-zw')
        elif cat == 'Co':
            acc.add('private-use')
        elif cat == 'Cc':
            acc.add('control')
        elif cat in ('Zl', 'Zp') or c in '\x85\x0b\x0c\x1c\x1d\x1e':
            acc.add('line-separator')
    return acc


TEXT_NONTRIVIAL = {'non-nfc', 'non-nfd', 'non-nfkc', 'case-special', 'edge-space-or-bom', 'astral-text',
                   'noncharacter', 'unassigned', 'format-bidi-zw', 'private-use', 'control', 'line-separator',
                   'wtf8-surrogate-bytes', 'partly-decodable-bytes'}
