"""Vocabulary of dictionary keys harvested from the source under test at run time.  Owned by C08.

The generators of C08 used to put wrongly-typed values only under keys the code was *known* to read when
the generators were written.  A key that new code starts reading (`info.get('meta version', 1) > 1`) was
outside that vocabulary.  This module walks the AST of `$VERIF_REPO/torf/*.py` (the working tree that is
being checked) and returns every string / bytes constant that is used the way a key is used:

  primary    `x['k']` (load, store, delete), `x.get('k'…)`, `.pop`, `.setdefault`, `.__getitem__`,
             `.__contains__`, `'k' in x` / `not in`, `… == 'k'` / `!=`, keys of dict displays, constants
             inside tuple / list arguments of a call (the key paths of `assert_type(md, ('info', 'name'), …)`),
             `case 'k':` / mapping patterns of `match`
  secondary  every other short constant of the code that is not a doc string, not part of an f-string and not
             below a `raise` — module constants, call arguments (`_get(info, 'k')`), defaults, tuples of names
             (a key that reaches the subscript through a variable is still in the vocabulary)

Nothing is filtered by meaning: separators, mode strings and regular-expression texts come along as
"keys"; they cost a few cases and can never alarm (an unknown key the code does not read changes nothing).
"""
import ast
import glob
import os

from harness import common

KEY_METHODS = ('get', 'pop', 'setdefault', '__getitem__', '__contains__', '__delitem__', '__setitem__')
MAX_LEN = 48


def _const(n):
    if isinstance(n, ast.Constant) and isinstance(n.value, (str, bytes)):
        v = n.value
        if isinstance(v, str):
            try:
                v = v.encode('utf8')
            except UnicodeEncodeError:
                return None
        return v
    return None


def _usable(k):
    return k is not None and 0 < len(k) <= MAX_LEN and b'\n' not in k


def harvest_tree(tree):
    """(primary, secondary) of one module: dicts key -> sorted list of the ways it is used"""
    prim, sec = {}, {}

    def add(d, k, how):
        if _usable(k):
            d.setdefault(k, set()).add(how)

    skip = set()           # doc strings, f-string parts, everything below `raise`: text, not keys
    for n in ast.walk(tree):
        if isinstance(n, (ast.Module, ast.ClassDef, ast.FunctionDef, ast.AsyncFunctionDef)) and n.body and \
                isinstance(n.body[0], ast.Expr) and isinstance(n.body[0].value, ast.Constant):
            skip.add(id(n.body[0].value))
        if isinstance(n, (ast.JoinedStr, ast.Raise)):
            for e in ast.walk(n):
                skip.add(id(e))
    for n in ast.walk(tree):
        if isinstance(n, ast.Subscript):
            add(prim, _const(n.slice), 'subscript')
            if isinstance(n.slice, ast.Tuple):
                for e in n.slice.elts:
                    add(prim, _const(e), 'subscript')
        elif isinstance(n, ast.Call):
            if isinstance(n.func, ast.Attribute) and n.func.attr in KEY_METHODS and n.args:
                add(prim, _const(n.args[0]), '.' + n.func.attr)
            for a in list(n.args) + [kw.value for kw in n.keywords]:
                if isinstance(a, (ast.Tuple, ast.List)):
                    for e in a.elts:
                        add(prim, _const(e), 'key-path')
        elif isinstance(n, ast.Compare):
            items = [n.left] + list(n.comparators)
            for i, op in enumerate(n.ops):
                if isinstance(op, (ast.In, ast.NotIn)):
                    add(prim, _const(items[i]), 'in')
                    if isinstance(items[i + 1], (ast.Tuple, ast.List, ast.Set)):
                        for e in items[i + 1].elts:          # key in ('a', 'b')
                            add(prim, _const(e), 'in')
                elif isinstance(op, (ast.Eq, ast.NotEq)):
                    add(prim, _const(items[i]), '==')
                    add(prim, _const(items[i + 1]), '==')
        elif isinstance(n, ast.Dict):
            for e in n.keys:
                if e is not None:
                    add(prim, _const(e), 'dict-display')
        elif hasattr(ast, 'MatchValue') and isinstance(n, ast.MatchValue):
            add(prim, _const(n.value), 'match')
        elif hasattr(ast, 'MatchMapping') and isinstance(n, ast.MatchMapping):
            for e in n.keys:
                add(prim, _const(e), 'match')
    for n in ast.walk(tree):
        if id(n) in skip:
            continue
        k = _const(n)
        if _usable(k) and k not in prim:
            add(sec, k, 'constant')
    return prim, sec


_CACHE = {}


def harvest(repo=None):
    """{'primary': {key: [uses…]}, 'secondary': {key: […]}, 'files': n, 'errors': […]} for `repo`/torf/*.py"""
    repo = repo or common.REPO
    if repo in _CACHE:
        return _CACHE[repo]
    prim, sec, errors = {}, {}, []
    files = sorted(glob.glob(os.path.join(repo, 'torf', '*.py')))
    for p in files:
        try:
            with open(p, 'rb') as f:
                tree = ast.parse(f.read())
        except (OSError, SyntaxError, ValueError) as e:
            errors.append(f'{os.path.basename(p)}: {type(e).__name__}')
            continue
        a, b = harvest_tree(tree)
        fn = os.path.basename(p)
        for src, dst in ((a, prim), (b, sec)):
            for k, hows in src.items():
                dst.setdefault(k, set()).update(f'{fn}:{h}' for h in hows)
    for k in prim:
        sec.pop(k, None)
    out = {'primary': {k: sorted(v) for k, v in sorted(prim.items())},
           'secondary': {k: sorted(v) for k, v in sorted(sec.items())},
           'files': len(files), 'errors': errors}
    _CACHE[repo] = out
    return out
