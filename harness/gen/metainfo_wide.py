"""Wide-text pass over the metainfo grammar (owned by C05).

`widen(r, md)` takes a metainfo value produced by `harness.gen.metainfo.metainfo` (valid by
construction) and rewrites / adds text in every place where torf decodes byte strings to `str`:
values *and* dictionary keys, at top level, inside `info`, inside file entries, in path components,
in nested unknown structures.  The text comes from `harness.gen.unitext` (non-NFC, non-NFKC,
unassigned, noncharacters, non-BMP, bidi / zero-width, case-mapping specials, edge white space,
BOM, ...) and from ill-formed UTF-8 (which the decoder keeps as bytes).  Validity is preserved:
`validate()` only looks at types of the standard fields, URLs are kept parseable.

`deep_doc(...)` builds canonical torrents with one deeply nested unknown field *iteratively* (no
recursion in the harness), for the depth probes.
"""
from harness.gen import metainfo as base
from harness.gen import unitext as ut

TEXT_KEYS_TOP = [b'comment', b'created by', b'comment.utf-8', b'publisher', b'publisher.utf-8', b'publisher-url',
                 b'publisher-url.utf-8', b'encoding', b'title', b'description', b'source', b'x_cross_seed',
                 b'errorCallback', b'website', b'rss']
TEXT_KEYS_INFO = [b'name.utf-8', b'source', b'publisher', b'publisher.utf-8', b'ed2k', b'filehash', b'description',
                  b'x_cross_seed', b'collections', b'similar', b'unique', b'profile']
TEXT_KEYS_FILE = [b'path.utf-8', b'attr', b'ed2k', b'filehash', b'sha1', b'symlink path', b'mtime', b'title']
HOSTS = ['a.b', 'tracker.example.org:6969', 'bu\u0308cher.example', 'b\u00fccher.example', '\u4f8b\u3048.jp',
         'xn--bcher-kva.example', '[::1]:80', '\u2126.example', 'stra\u00dfe.example', 'a\u200db.example',
         '\U0001f600.ws', 'K.example', '\u212a.example', '\uff41.example']


def wvalue(r):
    """a wide text value: mostly well-formed text, sometimes ill-formed bytes"""
    if r.random() < 0.8:
        return ut.wtext(r).encode('utf8')
    return ut.wbytes_invalid(r)


def wkey(r):
    """a wide dictionary key (always well-formed UTF-8; ill-formed keys are a separate case class)"""
    return ut.wtext(r, 1, 3).encode('utf8')


def wurl(r):
    scheme = r.choice(['http', 'https', 'udp', 'HTTP', 'wss'])
    path = '/'.join(ut.wtext(r, 1, 2, ascii_mix=0.5).replace('#', '').replace('?', '') for _ in range(r.randint(0, 2)))
    q = ('?' + ut.wtext(r, 1, 2, ascii_mix=0.5)) if r.random() < 0.3 else ''
    return (scheme + '://' + r.choice(HOSTS) + '/' + path + q).encode('utf8')


def wtree(r, depth=0, maxdepth=3):
    """nested unknown structure with wide keys and values"""
    k = r.random()
    if depth >= maxdepth or k < 0.5:
        return wvalue(r) if r.random() < 0.85 else base.rint(r)
    if k < 0.75:
        return [wtree(r, depth + 1, maxdepth) for _ in range(r.randint(0, 3))]
    d = {}
    if r.random() < 0.3:
        for kk in ut.equivalent_keys(r):
            d[kk.encode('utf8')] = wtree(r, depth + 1, maxdepth)
    for _ in range(r.randint(0, 3)):
        d[wkey(r)] = wtree(r, depth + 1, maxdepth)
    return d


def _add(r, d, reserved, n_known, known_keys, in_file=False):
    """add unknown entries to dict `d`: real-world text keys, wide keys, normalisation-equivalent key groups"""
    for _ in range(n_known):
        k = r.choice(known_keys)
        if k in d or k in reserved and k not in (b'comment', b'created by', b'source'):
            continue
        if k == b'path.utf-8':
            d[k] = [ut.wtext(r).encode('utf8') for _ in range(r.randint(1, 3))]
        elif k in (b'collections', b'similar'):
            d[k] = [wvalue(r) for _ in range(r.randint(0, 3))]
        elif k == b'mtime':
            d[k] = r.randint(0, 2 ** 33)
        else:
            d[k] = wvalue(r)
    for _ in range(r.choice([0, 1, 1, 2])):
        k = wkey(r)
        if k not in reserved and k not in d:
            d[k] = wtree(r, 0, 3)
    if r.random() < 0.25:
        v = 0
        for kk in ut.equivalent_keys(r):
            k = kk.encode('utf8')
            if k not in reserved and k not in d:
                v += 1
                d[k] = r.choice([v, str(v).encode(), kk.encode('utf8'), [kk.encode('utf8')]])


def widen(r, md):
    """in-place wide-text rewrite of a valid metainfo; returns md"""
    info = md.get(b'info')
    if isinstance(info, dict):
        if b'name' in info and r.random() < 0.6:
            info[b'name'] = wvalue(r) or b'n'
        if isinstance(info.get(b'files'), list):
            for f in info[b'files']:
                if not isinstance(f, dict):
                    continue
                if isinstance(f.get(b'path'), list):
                    f[b'path'] = [(wvalue(r) or b'x') if r.random() < 0.5 else c for c in f[b'path']]
                    if r.random() < 0.2:
                        f[b'path'].append(wvalue(r) or b'x')
                if r.random() < 0.5:
                    _add(r, f, {b'length', b'path', b'md5sum'}, r.choice([0, 1, 2]), TEXT_KEYS_FILE, in_file=True)
        if b'source' in info and r.random() < 0.5:
            info[b'source'] = wvalue(r)
        _add(r, info, base.RESERVED_INFO - {b'source'}, r.choice([0, 1, 2]), TEXT_KEYS_INFO)
    for k in (b'comment', b'created by'):
        if k in md and r.random() < 0.6:
            md[k] = wvalue(r)
    _add(r, md, base.RESERVED_TOP - {b'comment', b'created by'}, r.choice([0, 1, 2]), TEXT_KEYS_TOP)
    k = r.random()
    if k < 0.25:
        md[b'announce'] = wurl(r)
    if 0.15 < k < 0.4:
        md[b'announce-list'] = [[wurl(r) for _ in range(r.randint(0, 2))] for _ in range(r.randint(0, 2))]
    if 0.3 < k < 0.5:
        md[b'url-list'] = [wurl(r) for _ in range(r.randint(0, 2))] if r.random() < 0.6 else wurl(r)
    if 0.45 < k < 0.55:
        md[b'httpseeds'] = [wurl(r)]
    return md


def wide_features(v, acc=None, where='top'):
    """labels: 'text:<f>' for values, 'key:<f>' for keys, 'wide@<where>' for the place"""
    if acc is None:
        acc = set()
    stack = [(v, where, None)]
    while stack:
        x, w, pk = stack.pop()
        if isinstance(x, bytes):
            fs = ut.text_features(x) & (ut.TEXT_NONTRIVIAL | {'non-utf8-bytes'})
            for f in fs:
                acc.add('text:' + f)
            if fs - {'non-utf8-bytes'}:
                acc.add('wide@' + (pk if pk in ('name', 'path') else w))
        elif isinstance(x, list):
            for e in x:
                stack.append((e, w, pk))
        elif isinstance(x, dict):
            ks = list(x)
            seen = {}
            for k in ks:
                fs = ut.text_features(k) & ut.TEXT_NONTRIVIAL
                for f in fs:
                    acc.add('key:' + f)
                if fs:
                    acc.add('widekey@' + w)
                try:
                    s = k.decode('utf8')
                except UnicodeDecodeError:
                    continue
                for nk in _norms(s):
                    if nk in seen and seen[nk] != s:
                        acc.add('key:normalisation-equivalent-pair')
                    seen.setdefault(nk, s)
            for k in ks:
                w2, pk2 = w, pk
                if w == 'top' and k == b'info':
                    w2 = 'info'
                elif w == 'info' and k == b'files':
                    w2 = 'file'
                elif w == 'info' and k == b'name':
                    pk2 = 'name'
                elif w == 'file' and k == b'path':
                    pk2 = 'path'
                stack.append((x[k], w2, pk2))
    return acc


def _norms(s):
    import unicodedata as ud
    return {('nfc', ud.normalize('NFC', s)), ('nfkc', ud.normalize('NFKC', s)), ('fold', s.casefold()),
            ('strip', s.strip())}


# ---------------------------------------------------------------------------- deep documents (iterative)

def bstr(b):
    return str(len(b)).encode('ascii') + b':' + b


def ser_flat(v):
    """canonical bencoding without recursion (explicit stack)"""
    out = []
    stack = [('v', v)]
    while stack:
        tag, x = stack.pop()
        if tag == 'raw':
            out.append(x)
        elif isinstance(x, bool):
            raise TypeError('bool')
        elif isinstance(x, int):
            out.append(b'i' + _int_bytes(x) + b'e')
        elif isinstance(x, bytes):
            out.append(bstr(x))
        elif isinstance(x, list):
            out.append(b'l')
            stack.append(('raw', b'e'))
            for e in reversed(x):
                stack.append(('v', e))
        elif isinstance(x, dict):
            out.append(b'd')
            stack.append(('raw', b'e'))
            for k in sorted(x, reverse=True):
                stack.append(('v', x[k]))
                stack.append(('raw', bstr(k)))
        else:
            raise TypeError(type(x))
    return b''.join(out)


def _int_bytes(i):
    from harness.impl import pyval
    return pyval._int_str(i).encode('ascii')


LEAVES = {
    'empty': None,                     # innermost container is empty
    'int': 1,
    'ascii': b'a',
    'text': 'e\u0301'.encode('utf8'),  # valid UTF-8 (becomes str: one more frame for the str converter)
    'bytes': b'\xff',                  # ill-formed UTF-8 (stays bytes)
    'bigint': 2 ** 70,
}


def nest(pattern, d, leaf, bush=None):
    """`d` containers nested along `pattern` ('l' list / 'd' dict, repeated cyclically) around LEAVES[leaf];
    level i (0 = outermost) additionally holds the side entries `bush(i)` (list of small values), so that
    nest(p, d) is nest(p, d+1) with the innermost level removed.  Built bottom-up, no recursion."""
    inner = LEAVES[leaf]
    for i in range(d - 1, -1, -1):
        c = pattern[i % len(pattern)]
        side = bush(i) if bush else []
        if c == 'l':
            cur = ([] if inner is None and i == d - 1 else [inner]) + list(side)
        else:
            cur = {} if inner is None and i == d - 1 else {b'k': inner}
            for j, s in enumerate(side):
                cur[b's%d' % j] = s
        inner = cur
    return inner


def deep_doc(where, pattern, d, leaf, bush=None, multi=False):
    """(torrent bytes, bytes of its info dict) of a valid canonical torrent with a nest of depth `d` under an
    unknown key at `where` in {'top', 'info', 'file', 'top-list', 'info-dict'}"""
    v = nest(pattern, d, leaf, bush) if d > 0 else (LEAVES[leaf] if LEAVES[leaf] is not None else b'')
    info = {b'name': b'deep', b'piece length': base.K16, b'pieces': bytes(range(20)) * 2}
    if multi or where == 'file':
        f = {b'length': 20000, b'path': [b'dir', b'file.bin']}
        if where == 'file':
            f[b'x-tree'] = v
        info[b'files'] = [f, {b'length': 5, b'path': ['e\u0301.txt'.encode('utf8')]}]
    else:
        info[b'length'] = 20000
    md = {b'announce': b'http://tracker.example.org:6969/announce', b'info': info}
    if where == 'top':
        md[b'x-nests'] = v
    elif where == 'info':
        info[b'x-tree'] = v
    elif where == 'top-list':
        md[b'x-nests'] = [1, b'a', v, b'z']
    elif where == 'info-dict':
        info[b'x-tree'] = {b'a': 1, b'm': v, b'z': []}
    return ser_flat(md), ser_flat(info)
