"""
Record a verified seeded change under /verif/seeded/<id>/ (patch.diff, demo.py, meta.json).
usage: seed_record.py <PROP> <variant> <status> <caught_by> [note]     (variant "2a" = round 2, variant a)
  status: caught | caught-after-strengthening | caught-no-input | missed
Reads /tmp/seed-out/<PROP>/<variant>/ and the last seedtest output in /tmp/seedtest-<PROP>-<variant>.log if present.
"""
import json, os, shutil, sys
VERIF = os.path.dirname(os.path.dirname(os.path.abspath(__file__)))
prop, var, status, caught_by = sys.argv[1:5]
note = sys.argv[5] if len(sys.argv) > 5 else ''
rnd = 1
if len(var) == 2 and var[0].isdigit():
    rnd, var0 = int(var[0]), var[1]
    src = f'/tmp/seed-out{rnd}/{prop}/{var0}'
else:
    src = f'/tmp/seed-out/{prop}/{var}'
dst = os.path.join(VERIF, 'seeded', f'{prop}-{var}')
os.makedirs(dst, exist_ok=True)
shutil.copy(os.path.join(src, 'patch.diff'), dst)
shutil.copy(os.path.join(src, 'demo.py'), dst)
m = json.load(open(os.path.join(src, 'meta.json')))
log = f'/tmp/seedtest-{prop}-{var}.log'
meta = {
    'id': f'{prop}-{var}', 'property': prop, 'round': rnd,
    'origin': 'independent sub-agent given only the property text and a scratch worktree of /repo',
    'summary': m.get('summary'), 'needs_to_manifest': m.get('needs'), 'sites': m.get('sites'),
    'suite_with_change': m.get('suite'),
    'what_i_ran': [
        f'git clone /repo <scratch>; demo.py on the clean clone -> exit 0; git apply patch.diff; demo.py -> exit 1',
        f'VERIF_REPO=<scratch> ./check {prop} --tier quick  (harness/seedtest.py)',
    ],
    'detection': {'status': status, 'caught_by': caught_by, 'note': note,
                  'seedtest_output': open(log).read().splitlines()[-8:] if os.path.exists(log) else None},
}
json.dump(meta, open(os.path.join(dst, 'meta.json'), 'w'), indent=1)
print('recorded', dst)
