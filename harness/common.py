"""
Shared infrastructure of the torf verification harness.

* locations (everything relative to this checkout; the repo under test is $VERIF_REPO or /repo)
* build: translator (if any) + `lake build` under a file lock; audit (`#print axioms`)
* Driver: JSON-lines batch interface to the compiled Lean model driver
* Ctx: per-run bookkeeping (cases, violations, known findings, correspondence breaks, evidence)
"""
import collections
import contextlib
import fcntl
import hashlib
import json
import os
import random
import re
import shutil
import subprocess
import sys
import time

VERIF = os.path.dirname(os.path.dirname(os.path.abspath(__file__)))
REPO = os.environ.get('VERIF_REPO', '/repo')
LEAN_DIR = os.path.join(VERIF, 'lean')
DRIVER_BIN = os.path.join(LEAN_DIR, '.lake', 'build', 'bin', 'driver')
EVIDENCE_DIR = os.path.join(VERIF, 'evidence')
REPLAY_DIR = os.path.join(VERIF, 'replays')
CORPUS_DIR = os.path.join(VERIF, 'corpus')
ALLOWED_AXIOMS = {'propext', 'Classical.choice', 'Quot.sound'}
FORBIDDEN_RE = re.compile(
    r'\bsorry\b|\badmit\b|^\s*axiom\s|native_decide|bv_decide|implemented_by|\bunsafe\s|maxHeartbeats\s+0',
    re.M)

PY = sys.executable
NPROC = int(os.environ.get('VERIF_JOBS', '0')) or min(16, os.cpu_count() or 1)


def import_torf():
    """Import torf from the repository under test (its current working tree)."""
    if REPO not in sys.path:
        sys.path.insert(0, REPO)
    import torf  # noqa
    assert os.path.abspath(torf.__file__).startswith(os.path.abspath(REPO)), torf.__file__
    return torf


def scratch_root():
    """Per-run scratch directory on tmpfs; created by the main process (which removes it at exit)
    and shared with its worker processes through $VERIF_SCRATCH."""
    d = os.environ.get('VERIF_SCRATCH')
    if not d:
        base = '/dev/shm' if os.path.isdir('/dev/shm') and os.access('/dev/shm', os.W_OK) else None
        if base is None:
            import tempfile
            base = tempfile.gettempdir()
        d = os.path.join(base, f'torf-verif-{os.getpid()}')
        os.environ['VERIF_SCRATCH'] = d
    os.makedirs(d, exist_ok=True)
    return d


def worker_dir():
    d = os.path.join(scratch_root(), f'w{os.getpid()}')
    os.makedirs(d, exist_ok=True)
    return d


def cleanup_scratch():
    d = os.environ.get('VERIF_SCRATCH')
    if d and os.path.basename(d).startswith('torf-verif-'):
        shutil.rmtree(d, ignore_errors=True)


def pmap(fn, chunks, procs=None):
    """Run fn over chunks in a fork pool (fn must be a module-level function)."""
    import multiprocessing as mp
    procs = procs or NPROC
    scratch_root()
    if procs <= 1 or len(chunks) <= 1:
        return [fn(c) for c in chunks]
    with mp.get_context('fork').Pool(procs) as pool:
        return pool.map(fn, chunks, chunksize=1)


def split(xs, n):
    n = max(1, min(n, len(xs)))
    k = (len(xs) + n - 1) // n
    return [xs[i:i + k] for i in range(0, len(xs), k)] if xs else []


def _strip_lean_comments(src):
    # remove /- … -/ (nested) and -- … comments; good enough for the forbidden-token scan
    out = []
    i, n, depth = 0, len(src), 0
    while i < n:
        if src.startswith('/-', i):
            depth += 1
            i += 2
        elif depth and src.startswith('-/', i):
            depth -= 1
            i += 2
        elif depth:
            i += 1
        elif src.startswith('--', i):
            j = src.find('\n', i)
            i = n if j < 0 else j
        else:
            out.append(src[i])
            i += 1
    return ''.join(out)


def run_cmd(cmd, cwd=None, timeout=3600, env=None):
    p = subprocess.run(cmd, cwd=cwd, stdout=subprocess.PIPE, stderr=subprocess.STDOUT,
                       timeout=timeout, env=env, text=True)
    out = '\n'.join(l for l in p.stdout.splitlines() if 'conda.cli.condarc' not in l)
    return p.returncode, out


@contextlib.contextmanager
def build_lock():
    os.makedirs(os.path.join(LEAN_DIR, '.lake'), exist_ok=True)
    with open(os.path.join(LEAN_DIR, '.lake', 'build.lock'), 'w') as f:
        fcntl.flock(f, fcntl.LOCK_EX)
        try:
            yield
        finally:
            fcntl.flock(f, fcntl.LOCK_UN)


def property_modules(prop):
    """Lean modules holding the property theorems of `prop`: Properties/<prop>.lean plus any
    Properties/<prop><Suffix>.lean (e.g. <prop>Kernels.lean: bridges to the translated kernels)."""
    d = os.path.join(LEAN_DIR, 'Torf', 'Properties')
    out = []
    if os.path.isdir(d):
        for fn in sorted(os.listdir(d)):
            m = re.fullmatch(prop + r'([A-Z]\w*)?\.lean', fn)
            if m:
                out.append(fn[:-5])
    return out


def property_theorems(prop):
    """Names of the property theorems, parsed from the property's modules."""
    names = []
    for mod in property_modules(prop):
        src = _strip_lean_comments(open(os.path.join(LEAN_DIR, 'Torf', 'Properties', f'{mod}.lean')).read())
        names += re.findall(r'^theorem\s+(' + prop + r'_\w+)', src, re.M)
    return names


def forbidden_tokens():
    """Scan lean/Torf and lean/Driver for sorry/axiom/native_decide… (comments stripped)."""
    hits = []
    for root in ('Torf', 'Driver'):
        for dp, _, fns in os.walk(os.path.join(LEAN_DIR, root)):
            for fn in fns:
                if fn.endswith('.lean'):
                    p = os.path.join(dp, fn)
                    src = _strip_lean_comments(open(p).read())
                    for m in FORBIDDEN_RE.finditer(src):
                        hits.append(f'{os.path.relpath(p, LEAN_DIR)}: {m.group(0).strip()}')
    return hits


class BuildStatus:
    def __init__(self):
        self.driver_ok = False
        self.prop_ok = False
        self.log = ''
        self.theorems = []
        self.axioms = {}          # theorem -> list of axioms
        self.bad_axioms = {}      # theorem -> offending axioms
        self.missing = []         # theorems with no audit line
        self.forbidden = []
        self.translator = {}
        self.checker_cmd = ''
        self.leanchecker = None

    @property
    def obligations(self):
        return len(self.theorems)

    @property
    def discharged(self):
        if not self.prop_ok:
            return 0
        return sum(1 for t in self.theorems if t in self.axioms and t not in self.bad_axioms)

    @property
    def proofs_ok(self):
        return (self.prop_ok and self.obligations > 0 and self.discharged == self.obligations
                and not self.forbidden)

    def broken_description(self):
        if not self.prop_ok:
            m = re.findall(r'error: (\S+\.lean:\d+:\d+: .*)', self.log)
            return ('theorem-module-does-not-build (' + ', '.join(getattr(self, 'failed_modules', [])) + '): ' +
                    '; '.join(m[:5]))
        if self.forbidden:
            return 'forbidden tokens: ' + ', '.join(self.forbidden[:5])
        if self.bad_axioms:
            return 'axioms outside the trusted base: ' + json.dumps(self.bad_axioms)
        if self.missing:
            return 'theorems without audit: ' + ', '.join(self.missing)
        return ''


def ensure_build(prop, thorough=False):
    """Regenerate translated kernels, build the driver and the property's theorem module,
    and audit the axioms of every property theorem.  Serialised by a file lock."""
    st = BuildStatus()
    with build_lock():
        try:
            from harness import translate
            st.translator = translate.regenerate()
        except Exception as e:  # translator problems are never an alarm by themselves
            st.translator = {'status': f'translator-error: {e!r}'}
        rc, out = run_cmd(['lake', 'build', 'driver'], cwd=LEAN_DIR)
        st.driver_ok = rc == 0 and os.path.exists(DRIVER_BIN)
        st.log += out
        if not st.driver_ok and st.translator.get('changed'):
            # generated kernels do not compile: fall back to the committed snapshot
            from harness import translate
            translate.restore_snapshot()
            st.translator['fallback'] = 'generated kernels did not compile; snapshot restored'
            rc, out = run_cmd(['lake', 'build', 'driver'], cwd=LEAN_DIR)
            st.driver_ok = rc == 0 and os.path.exists(DRIVER_BIN)
            st.log += out
        mods = property_modules(prop)
        st.prop_ok = bool(mods)
        st.failed_modules = []
        for mod in mods:
            rc, out = run_cmd(['lake', 'build', f'+Torf.Properties.{mod}'], cwd=LEAN_DIR)
            if rc != 0:
                st.prop_ok = False
                st.failed_modules.append(mod)
            st.log += out
        st.theorems = property_theorems(prop)
        st.forbidden = forbidden_tokens()
        st.checker_cmd = ('cd lean && lake build ' + ' '.join(f'+Torf.Properties.{m}' for m in mods) + ' && '
                          f'lake env lean .lake/audit/{prop}.lean  # #print axioms of every property theorem')
        if st.prop_ok:
            adir = os.path.join(LEAN_DIR, '.lake', 'audit')
            os.makedirs(adir, exist_ok=True)
            apath = os.path.join(adir, f'{prop}.lean')
            with open(apath, 'w') as f:
                for mod in mods:
                    f.write(f'import Torf.Properties.{mod}\n')
                for t in st.theorems:
                    f.write(f'#print axioms Torf.{prop}.{t}\n')
            rc, out = run_cmd(['lake', 'env', 'lean', apath], cwd=LEAN_DIR)
            st.log += out
            for t in st.theorems:
                m = re.search(r"'Torf\." + prop + r"\." + t + r"' depends on axioms: \[([^\]]*)\]", out, re.S)
                if m:
                    ax = [a.strip() for a in m.group(1).replace('\n', ' ').split(',') if a.strip()]
                    st.axioms[t] = ax
                    bad = [a for a in ax if a not in ALLOWED_AXIOMS]
                    if bad:
                        st.bad_axioms[t] = bad
                elif re.search(r"'Torf\." + prop + r"\." + t + r"' does not depend on any axioms", out):
                    st.axioms[t] = []
                else:
                    st.missing.append(t)
            if thorough:
                rc, out = run_cmd(['lake', 'env', 'leanchecker'] + [f'Torf.Properties.{m}' for m in mods],
                                  cwd=LEAN_DIR, timeout=1800)
                st.leanchecker = {'rc': rc, 'tail': out[-300:]}
                st.checker_cmd += ' && lake env leanchecker ' + ' '.join(f'Torf.Properties.{m}' for m in mods)
    return st


class Driver:
    """Batch interface to the Lean model driver (one JSON per line)."""

    def __init__(self):
        if not os.path.exists(DRIVER_BIN):
            raise RuntimeError('driver not built')

    def run(self, requests):
        """requests: list of dicts (without id). Returns list of replies in order."""
        if not requests:
            return []
        lines = []
        for i, r in enumerate(requests):
            r = dict(r)
            r['id'] = i
            lines.append(json.dumps(r, separators=(',', ':')))
        data = ('\n'.join(lines) + '\n').encode()
        p = subprocess.run([DRIVER_BIN], input=data, stdout=subprocess.PIPE, stderr=subprocess.PIPE)
        if p.returncode != 0:
            raise RuntimeError(f'driver failed rc={p.returncode}: {p.stderr[-500:]!r}')
        out = [None] * len(requests)
        for line in p.stdout.splitlines():
            if not line.strip():
                continue
            j = json.loads(line)
            out[j['id']] = j
        for i, o in enumerate(out):
            if o is None:
                raise RuntimeError(f'driver gave no reply for request {i}: {requests[i]!r}')
            if 'err' in o:
                raise RuntimeError(f'driver error for {requests[i]!r}: {o["err"]}')
        return out


def load_known_findings():
    p = os.path.join(VERIF, 'known_findings.json')
    if not os.path.exists(p):
        return []
    return json.load(open(p))['findings']


class Ctx:
    def __init__(self, prop, tier, seed):
        self.prop = prop
        self.tier = tier
        self.seed = seed
        self.rng = random.Random(f'{prop}/{seed}')
        self.t0 = time.time()
        self.evaluations = 0
        self.nontrivial = set()
        self.samples = []
        self.dist = collections.Counter()
        self.violations = []       # dicts: {'what':…, 'case':…, 'expected':…, 'observed':…}
        self.corr_breaks = []      # dicts: {'op':…, 'case':…, 'model':…, 'impl':…}
        self.known = collections.OrderedDict()    # finding id -> first case
        self.not_reproduced = []   # open findings whose witness no longer fails
        self.machinery_errors = []  # model ∉ spec under hyp etc. -> exit 2
        self.notes = {}
        self.findings = [f for f in load_known_findings() if f['property'] == prop]
        self.exhaustive = False
        self.budget_scale = float(os.environ.get('VERIF_BUDGET', '1'))

    @property
    def thorough(self):
        return self.tier == 'thorough'

    def n(self, quick, thorough):
        return max(1, int((thorough if self.thorough else quick) * self.budget_scale))

    def case(self, key=None, nontrivial=False, kind=None):
        self.evaluations += 1
        if kind:
            self.dist[kind] += 1
        if nontrivial and key is not None:
            self.nontrivial.add(key if isinstance(key, (str, int, tuple)) else json.dumps(key, sort_keys=True))

    def sample(self, s, limit=6):
        if len(self.samples) < limit:
            self.samples.append(s)

    def open_findings(self):
        return [f for f in self.findings if f.get('status') == 'open']

    def violation(self, what, case, expected=None, observed=None, finding_matchers=None):
        """Record a deviation of the implementation from the specification.  If an open known
        finding's matcher accepts (case, observed) it is recorded as that finding instead."""
        for f in self.open_findings():
            m = (finding_matchers or {}).get(f['matcher'])
            if m is not None and m(case, observed, f):
                if f['id'] not in self.known:
                    self.known[f['id']] = {'case': case, 'observed': observed, 'what': f['what']}
                self.dist['known-finding:' + f['id']] += 1
                return f['id']
        if len(self.violations) < 50:
            self.violations.append({'what': what, 'case': case, 'expected': expected, 'observed': observed})
        return None

    def corr_break(self, op, case, model, impl):
        if len(self.corr_breaks) < 50:
            self.corr_breaks.append({'op': op, 'case': case, 'model': model, 'impl': impl})

    def machinery_error(self, msg, case=None):
        if len(self.machinery_errors) < 20:
            self.machinery_errors.append({'msg': msg, 'case': case})

    def elapsed(self):
        return time.time() - self.t0


def sha1(b):
    return hashlib.sha1(b).digest()


def jsonable(x):
    if isinstance(x, (bytes, bytearray)):
        return {'hex': bytes(x).hex()}
    if isinstance(x, dict):
        return {str(k): jsonable(v) for k, v in x.items()}
    if isinstance(x, (list, tuple, set, frozenset)):
        return [jsonable(v) for v in x]
    if isinstance(x, (int, float, str, bool)) or x is None:
        return x
    return repr(x)
