"""Regenerates the generated tables of DESIGN.md (between <!-- BEGIN:x --> / <!-- END:x --> markers)
from known_findings.json, seeded/*/meta.json, MANIFEST.json and the Lean property modules."""
import glob, json, os, re, sys
VERIF = os.path.dirname(os.path.dirname(os.path.abspath(__file__)))
sys.path.insert(0, VERIF)
from harness import common

def findings_tables():
    fs = json.load(open(os.path.join(VERIF, 'known_findings.json')))['findings']
    out = ['**Repaired in /repo** (one `fix:` commit each; the unedited suite passes with all of them; a fixed entry suppresses nothing — the witness is a regression case of the property\'s check):\n',
           '| id | property | commit | what failed |', '|---|---|---|---|']
    for f in fs:
        if f['status'] == 'fixed':
            out.append(f"| {f['id']} | {f['property']} | `{f.get('commit','')}` | {f['what']} |")
    out += ['', '**Open (recorded, not repaired)** — each is replayed on every run and printed as `KNOWN-FINDING:` while it still fails; the matcher is as narrow as the defect:\n',
            '| id | property | what fails | why not repaired | matcher |', '|---|---|---|---|---|']
    for f in fs:
        if f['status'] == 'open':
            out.append(f"| {f['id']} | {f['property']} | {f['what']} | {f.get('why_not_fixed', f.get('why_not_repaired', 'see notes/' + f['property'] + '.md'))} | `{f.get('matcher','')}` |")
    return '\n'.join(out)

def seeded_table():
    out = ['| id | property | change (independent sub-agent) | needs to manifest | detection |', '|---|---|---|---|---|']
    for p in sorted(glob.glob(os.path.join(VERIF, 'seeded', '*', 'meta.json'))):
        m = json.load(open(p))
        d = m['detection']
        det = d['status'] + ': ' + d['caught_by'] + ((' — ' + d['note']) if d.get('note') else '')
        out.append(f"| {m['id']} | {m['property']} | {(m.get('summary') or '').replace('|','/')[:260]} | {(m.get('needs_to_manifest') or '').replace('|','/')[:220]} | {det.replace('|','/')} |")
    return '\n'.join(out)

def theorem_table():
    out = ['| property | theorems (Lean, all kernel-checked, axioms ⊆ propext/Classical.choice/Quot.sound) |', '|---|---|']
    for i in range(1, 21):
        pid = f'C{i:02d}'
        ts = common.property_theorems(pid)
        out.append(f"| {pid} | {len(ts)}: " + ', '.join(f'`{t}`' for t in ts) + ' |')
    return '\n'.join(out)

def main():
    p = os.path.join(VERIF, 'DESIGN.md')
    s = open(p).read()
    for name, fn in (('findings', findings_tables), ('seeded', seeded_table), ('theorems', theorem_table)):
        pat = re.compile(r'(<!-- BEGIN:' + name + r' -->\n).*?(<!-- END:' + name + r' -->)', re.S)
        if pat.search(s):
            s = pat.sub(lambda m: m.group(1) + fn() + '\n' + m.group(2), s)
    open(p, 'w').write(s)

if __name__ == '__main__':
    main()
