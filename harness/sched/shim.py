"""
Deterministic cooperative scheduler for torf._generate (no change to /repo: the module globals
`threading`, `queue` and `time_monotonic` of torf._generate are replaced from the harness).

Every controlled thread is a real OS thread but runs only while it holds the baton.  At each
synchronisation operation (Thread.start / is_alive / join, Event.set / wait, Queue.put / get) it
announces the operation and parks; the scheduler (running in the caller's thread) picks one
thread whose operation is enabled — or fires the timeout alternative of a `get(timeout)` /
`wait(timeout)` whose condition is false — according to a strategy driven by one PRNG.  "No
thread can move" is reported as a deadlock instead of hanging; a long tail of idle-only steps as
a livelock.  Every step is logged as (thread, op, decision, |piece queue|, |hash queue|, event).
"""
import collections
import random
import sys
import threading as _t
import types

SPIN_AFTER = 4000        # jumps/branches in torf code without a synchronisation operation
_MON_TOOL = 4
_mon_installed = False


def _code_objects(co):
    yield co
    for k in co.co_consts:
        if isinstance(k, types.CodeType):
            yield from _code_objects(k)


def install_spin_monitor(modules):
    """A busy wait on plain attributes (no queue/event/thread operation in the loop) would keep the
    baton for ever.  Count the jumps and branches a controlled thread takes in torf's code since its
    last operation and turn every SPIN_AFTER-th into an idle `spin` scheduling point — what
    pre-emption does to such a loop on real threads."""
    global _mon_installed
    if _mon_installed or not hasattr(sys, 'monitoring'):
        return
    mon = sys.monitoring
    try:
        mon.use_tool_id(_MON_TOOL, 'torf-verif-spin')
    except ValueError:
        return
    ev = mon.events.JUMP | mon.events.BRANCH

    def hit(code, src, dst):
        ct = getattr(_local, 'ct', None)
        if ct is None or ct.pending is not None or ct.finished:
            return
        ct.spin += 1
        if ct.spin >= SPIN_AFTER:
            ct.spin = 0
            ct.sched.yield_op(ct, 'spin:' + code.co_name, lambda: True, idle=True)
            ct.sched.note_after(ct)

    mon.register_callback(_MON_TOOL, mon.events.JUMP, hit)
    mon.register_callback(_MON_TOOL, mon.events.BRANCH, hit)
    for m in modules:
        for v in list(vars(m).values()):
            fns = []
            if isinstance(v, types.FunctionType):
                fns.append(v)
            elif isinstance(v, type) and getattr(v, '__module__', None) == m.__name__:
                for a in vars(v).values():
                    a = getattr(a, 'fget', a)
                    a = getattr(a, '__func__', a)
                    if isinstance(a, types.FunctionType):
                        fns.append(a)
            for f in fns:
                for co in _code_objects(f.__code__):
                    mon.set_local_events(_MON_TOOL, co, ev)
    _mon_installed = True


class Deadlock(Exception):
    pass


class _Abort(BaseException):
    pass


class Sched:
    def __init__(self, choose, rng, max_steps=20000, clock_jumps=(0.0, 0.0, 0.0, 0.125, 0.25, 2.0)):
        self.rng = rng
        self.choose = choose
        self.threads = collections.OrderedDict()   # name -> CT
        self.trace = []
        self.steps = 0
        self.max_steps = max_steps
        self.wake_sched = _t.Semaphore(0)
        self.now = 1024.0          # virtual clock; all values are multiples of 1/8 s (exact in binary)
        self.clock_jumps = clock_jumps
        self.queues = []
        self.events = []
        self.alive_at_return = None
        self.main_result = None
        self.outcome = None          # 'done' | 'deadlock' | 'livelock' | 'budget'
        self.stuck = None
        self.refuse_start = set()
        self.idle_tail = 0
        self.aborting = False        # the outcome is decided; parked threads are being unwound

    # ---- called by controlled threads
    def yield_op(self, ct, op, enabled, can_timeout=False, idle=False):
        if self.aborting:
            # teardown after a deadlock/livelock/budget outcome: cleanup code of the unwinding thread
            # (finally: join …) must not park again, nobody would wake it
            raise _Abort()
        ct.spin = 0
        ct.pending = (op, enabled, can_timeout, idle)
        self.wake_sched.release()
        ct.sem.acquire()
        d = ct.decision
        ct.pending = None
        if d == 'abort':
            raise _Abort()
        return d

    def clock(self):
        return self.now

    def _summary(self):
        pq = len(self.queues[0].q) if self.queues else 0
        hq = len(self.queues[1].q) if len(self.queues) > 1 else 0
        ev = bool(self.events and self.events[0]._f)
        return pq, hq, ev

    def run(self, main_fn):
        main = CT(self, 'main', main_fn)
        self.threads['main'] = main
        main.real.start()
        main.first_park.wait()
        self.wake_sched.release()
        while True:
            self.wake_sched.acquire()      # the running thread parked or finished
            if main.finished and self.alive_at_return is None:
                self.alive_at_return = [c.name for c in self.threads.values() if not c.finished]
            live = [c for c in self.threads.values() if not c.finished]
            if not live:
                self.outcome = 'done'
                break
            cands = []
            for c in live:
                if c.pending is None:
                    continue
                op, enabled, can_to, idle = c.pending
                if enabled():
                    cands.append((c.name, 'go'))
                elif can_to:
                    cands.append((c.name, 'timeout'))
            if not cands:
                self.outcome = 'deadlock'
                self.stuck = [(c.name, c.pending[0] if c.pending else None) for c in live]
                break
            self.steps += 1
            if self.steps > self.max_steps:
                # livelock only if nothing but idle steps (timeouts, the janitor's polling) is possible:
                # a thread with an enabled non-idle operation means the schedule was merely unfair
                progress_possible = any(d == 'go' and not _is_idle(self, n) for n, d in cands)
                self.outcome = ('livelock' if (not progress_possible and
                                               self.idle_tail >= min(1500, self.max_steps // 2)) else 'budget')
                self.stuck = [(c.name, c.pending[0] if c.pending else None) for c in live]
                break
            cands.sort()
            name, d = self.choose(self, cands)
            c = self.threads[name]
            op, _, _, idle = c.pending
            self.idle_tail = self.idle_tail + 1 if (d == 'timeout' or idle) else 0
            self.now += self.rng.choice(self.clock_jumps)
            c.decision = d
            c.last_entry = len(self.trace)
            self.trace.append([name, op, d, None, None, None])
            c.sem.release()
        # fill in the state summary after the last step, abort what is still parked
        self._abort_rest()
        return main

    def note_after(self, ct):
        """called by the shims right after an operation took effect"""
        if ct.last_entry is not None:
            pq, hq, ev = self._summary()
            e = self.trace[ct.last_entry]
            e[3], e[4], e[5] = pq, hq, ev

    def _abort_rest(self):
        self.aborting = True
        for c in list(self.threads.values()):
            if not c.finished and c.pending is not None:
                c.decision = 'abort'
                c.sem.release()
        for c in list(self.threads.values()):
            c.real.join(timeout=2.0)


class CT:
    def __init__(self, sched, name, fn):
        self.sched = sched
        self.name = name
        self.fn = fn
        self.sem = _t.Semaphore(0)
        self.pending = None
        self.decision = None
        self.finished = False
        self.exc = None
        self.last_entry = None
        self.spin = 0
        self.first_park = _t.Event()
        self.real = _t.Thread(target=self._run, name='shim-' + name, daemon=True)

    def _run(self):
        _local.ct = self
        try:
            # first park: do not wake the scheduler, the starting thread is still running
            self.pending = ('begin', lambda: True, False, False)
            self.first_park.set()
            self.sem.acquire()
            self.pending = None
            if self.decision == 'abort':
                return
            self.fn()
        except _Abort:
            pass
        except BaseException as e:   # noqa  (Worker catches everything itself; main_fn too)
            self.exc = e
        finally:
            self.finished = True
            self.sched.wake_sched.release()


_local = _t.local()


def cur():
    return _local.ct


def make_shims(sched):
    class Thread:
        def __init__(self, name=None, target=None, **kw):
            self.name = name
            self._target = target
            self._ct = None

        def start(self):
            c = cur()
            sched.yield_op(c, 'start:' + self.name, lambda: True)
            if self.name in sched.refuse_start:
                sched.note_after(c)
                raise RuntimeError("can't start new thread")
            self._ct = CT(sched, self.name, self._target)
            sched.threads[self.name] = self._ct
            self._ct.real.start()
            self._ct.first_park.wait()
            sched.note_after(c)

        def is_alive(self):
            c = cur()
            # the janitor's polling of is_alive() is an idle step
            sched.yield_op(c, 'alive?:' + self.name, lambda: True, idle=(c.name == 'janitor'))
            sched.note_after(c)
            return self._ct is not None and not self._ct.finished

        def join(self, timeout=None):
            c = cur()
            if self._ct is None:
                raise RuntimeError('cannot join thread before it is started')
            # join(timeout) returns silently when the timeout expires
            sched.yield_op(c, 'join:' + self.name, lambda: self._ct is None or self._ct.finished,
                           timeout is not None)
            sched.note_after(c)

    class Event:
        def __init__(self):
            self._f = False
            sched.events.append(self)

        def set(self):
            c = cur()
            sched.yield_op(c, 'ev.set', lambda: True)
            self._f = True
            sched.note_after(c)

        def is_set(self):
            return self._f

        def wait(self, timeout=None):
            c = cur()
            r = sched.yield_op(c, 'ev.wait', lambda: self._f, timeout is not None)
            sched.note_after(c)
            return r == 'go'

    class Empty(Exception):
        pass

    class Full(Exception):
        pass

    class Queue:
        def __init__(self, maxsize=0):
            self.maxsize = maxsize
            self.q = collections.deque()
            self.tag = 'pq' if not sched.queues else 'hq'
            sched.queues.append(self)

        def put(self, item, block=True, timeout=None):
            c = cur()
            room = lambda: self.maxsize <= 0 or len(self.q) < self.maxsize   # noqa: E731
            if not block:
                sched.yield_op(c, self.tag + '.put_nowait', lambda: True)
                if not room():
                    sched.note_after(c)
                    raise Full
            elif sched.yield_op(c, self.tag + '.put', room, timeout is not None) == 'timeout':
                sched.note_after(c)
                raise Full
            self.q.append(item)
            sched.note_after(c)

        def get(self, block=True, timeout=None):
            c = cur()
            if not block:
                sched.yield_op(c, self.tag + '.get_nowait', lambda: True)
                r = 'go' if self.q else 'timeout'
            else:
                r = sched.yield_op(c, self.tag + '.get', lambda: len(self.q) > 0, timeout is not None)
            if r == 'timeout':
                sched.note_after(c)
                raise Empty
            x = self.q.popleft()
            sched.note_after(c)
            return x

        def qsize(self):
            return len(self.q)

        def empty(self):
            return not self.q

    th = types.SimpleNamespace(
        Thread=Thread, Event=Event,
        current_thread=lambda: types.SimpleNamespace(name=cur().name if getattr(_local, 'ct', None) else 'main'))
    qu = types.SimpleNamespace(Queue=Queue, Empty=Empty, Full=Full)
    return th, qu


# ---------------------------------------------------------------- strategies

def strategy(kind, rng, params=None):
    """returns choose(sched, cands) -> (name, decision); cands sorted list of (name, decision)"""
    params = params or {}
    if kind == 'uniform':
        return lambda s, cands: rng.choice(cands)
    if kind == 'timeouts-first':
        # fire every timeout as early as possible (but not forever: cap consecutive timeouts)
        def ch(s, cands):
            tos = [c for c in cands if c[1] == 'timeout']
            if tos and s.idle_tail < 6:
                return rng.choice(tos)
            gos = [c for c in cands if c[1] == 'go']
            return rng.choice(gos or cands)
        return ch
    if kind == 'stall':
        victim = params['victim']
        patience = params.get('patience', 400)

        def ch(s, cands):
            others = [c for c in cands if c[0] != victim]
            non_idle = [c for c in others if c[1] == 'go' and not _is_idle(s, c[0])]
            if non_idle:
                return rng.choice(non_idle)
            if others and s.idle_tail < patience:
                return rng.choice(others)
            return rng.choice(cands)
        return ch
    if kind == 'pct':
        # priorities with d change points
        d = params.get('d', 2)
        horizon = params.get('horizon', 300)
        prio = {}
        changes = sorted(rng.sample(range(1, horizon), d))

        def ch(s, cands):
            for name, _ in cands:
                if name not in prio:
                    prio[name] = rng.random() + 1.0
            if changes and s.steps >= changes[0]:
                changes.pop(0)
                top = max(cands, key=lambda c: prio[c[0]])
                prio[top[0]] = rng.random() * 0.5
            # never starve forever on idle spinning
            if s.idle_tail > 50:
                return rng.choice(cands)
            best = max(prio[c[0]] for c in cands)
            return rng.choice([c for c in cands if prio[c[0]] == best])
        return ch
    if kind == 'explicit':
        sched_list = list(params['schedule'])

        def ch(s, cands):
            if sched_list:
                want = tuple(sched_list.pop(0))
                if want in cands:
                    return want
            return rng.choice(cands)
        return ch
    raise ValueError(kind)


def _is_idle(s, name):
    c = s.threads.get(name)
    return bool(c and c.pending and c.pending[3])
