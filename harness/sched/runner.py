"""
Run Torrent.generate()/verify() of the real code under the deterministic scheduler shim.

A *pipeline case* is a dict:
  mode       'generate' | 'verify'
  L, sizes, paths, cseed, disk, flips      layout and damage (see harness/props/c02.py)
  threads    number of hasher threads
  cb         None | {'table': {done: 'cancel'|'raise'}}   user callback deciding by pieces_done
  interval   reporting interval
  strategy   {'kind': …, 'params': {…}, 'seed': n}
  refuse     list of thread names whose start is refused
  read_fault None | n   (the n-th read() call on a content file raises OSError(EIO))
  raw_fault  None | plan   (added for C01; default off) content files are opened as io.BufferedReader over a raw file
             that follows the fault plan of harness/impl/rawfault.py: short raw reads, raw read / seek calls that
             raise an errno or MemoryError — a read() then consumes bytes before it raises, as in production;
             the plan's bookkeeping (calls, fired, reads) is returned as obs['raw_fault']
  late       None | {'files': [i, …], 'at_read': n}   these files are intact when the run starts; they get their state of
             `disk` / `flips` when the reader makes its n-th read() call (it is then still inside an earlier file)
  hash_fault None | [[hasher name, n], …]   (the n-th sha1() call made by that hasher thread raises
             MemoryError inside HasherPool._handle_piece; n counts from 1; added for C01)
  os_fault   None | {'op': 'close'|'seek', 'nth': n, 'errno': e}   the n-th close() / seek() call on a content file (counted
             over all content files, from 1) raises OSError(e); close() really closes the file first
             | {'op': 'open'|'stat', 'file': i, 'errno': e}   open() / os.path.getsize() of content file i raises OSError(e)
             (added in round 6 for C03/C04; the bookkeeping is returned as obs['os_fault'])
  arg_fault  None | {'arg': 'callback'|'interval'|'threads', 'value': tag}   generate()/verify() is called with an argument
             of the wrong type (see ARG_VALUES); everything else as usual
  max_steps
"""
import errno
import os
import random

from harness import common
from harness.impl import content
from harness.sched import shim

FLIP = 1 << 39


class CbError(Exception):
    pass


class CbBaseError(KeyboardInterrupt):
    """an exception from the callback that does not derive from Exception (Ctrl-C, SystemExit …)"""


class SpinDetected(BaseException):
    """raised by the fault proxy when the code retries a failing read() thousands of times"""


def build_tree(wd, c):
    """content tree in the damaged state; returns (files, orig contents, top path)"""
    files = [{'path': p, 'size': s} for p, s in zip(c['paths'], c['sizes'])]
    top = os.path.join(wd, 'T')
    content.make_tree(wd, 'T', files, seed=c['cseed'])
    orig = [content.file_bytes(c['cseed'], i, f['size']) for i, f in enumerate(files)]
    flips = {}
    for f, o in c.get('flips', []):
        flips.setdefault(f, []).append(o)
    disk = c.get('disk') or ['ok'] * len(files)
    late = (c.get('late') or {}).get('files') or []

    def apply(i):
        f, st = files[i], disk[i]
        p = os.path.join(top, *f['path'])
        data = bytearray(orig[i])
        if st == 'missing':
            os.unlink(p)
            return
        if st != 'ok':
            n = int(st)
            data = bytearray((orig[i] + content.file_bytes(c['cseed'] + 1, i, max(0, n - len(orig[i]))))[:n])
        for o in flips.get(i, []):
            if o < len(data):
                data[o] ^= 0xFF
        patched = False
        for pf, po, pb in c.get('patches') or []:      # explicit byte patches (e.g. one piece copied over another)
            if pf == i and po < len(data):
                data[po] = pb
                patched = True
        if st != 'ok' or i in flips or patched:
            with open(p, 'wb') as fh:
                fh.write(bytes(data))
    for i in range(len(files)):
        if i not in late:
            apply(i)
    # files listed in c['late'] are intact when the run starts and get their state of c['disk'] / c['flips'] DURING the run
    # (run_case: at the n-th read() call of the reader, which is still inside an earlier file)
    build_tree.apply_late = lambda: [apply(i) for i in late]
    return files, orig, top


class _FaultyFile:
    """proxy around a real file object whose n-th read() (counted over all files) fails"""

    def __init__(self, fh, plan):
        self._fh = fh
        self._plan = plan

    def read(self, *a):
        self._plan['calls'] += 1
        if self._plan.get('late_at') == self._plan['calls']:
            self._plan['late']()
            self._plan['late_done'] = True
        fa = self._plan['fail_at']
        if fa is not None and fa <= self._plan['calls'] < fa + self._plan.get('burst', 1):
            self._plan['fired'] += 1
            if self._plan['fired'] > 4000:
                raise SpinDetected('read() retried > 4000 times on MemoryError without giving up')
            kind = self._plan.get('kind', 'oserror')
            if kind == 'oserror':
                raise OSError(errno.EIO, 'injected I/O error')
            raise MemoryError('injected')
        return self._fh.read(*a)

    def __getattr__(self, name):
        return getattr(self._fh, name)


def interval_value(c):
    """the reporting interval as the caller hands it over: the same number in every numeric type that can be compared
    with the clock's float (the gate only ever compares; a gate that does arithmetic on the interval may not support them)"""
    v = c.get('interval', 0)
    ty = c.get('interval_type')
    if ty == 'decimal':
        import decimal
        return decimal.Decimal(repr(float(v)))
    if ty == 'fraction':
        import fractions
        return fractions.Fraction(v)
    if ty == 'int' and float(v).is_integer():
        return int(v)
    if ty == 'bool' and v in (0, 1):
        return bool(v)
    return v


# what a callback may answer to ask for a stop: the documented contract is `is not None`, so falsy values count
CANCEL_ANSWERS = [True, False, 0, '', (), 0.0, 'stop', 1]


class _OsFaultFile(_FaultyFile):
    """as _FaultyFile; additionally the n-th close() / seek() call (counted over all content files) fails"""

    def __init__(self, fh, plan, osplan):
        super().__init__(fh, plan)
        self._os = osplan

    def _hit(self, op):
        o = self._os
        o['calls'][op] = o['calls'].get(op, 0) + 1
        if o['op'] == op and o.get('nth') == o['calls'][op]:
            o['fired'] = True
            o['fired_at_step'] = o['step']()
            o['fired_file'] = o['index_of'].get(self._fh.name, -1)
            return True
        return False

    def close(self):
        self._fh.close()
        if self._hit('close'):
            raise OSError(self._os.get('errno', errno.EIO), 'injected close error', self._fh.name)

    def seek(self, *a):
        if self._hit('seek'):
            raise OSError(self._os.get('errno', errno.EIO), 'injected seek error', self._fh.name)
        return self._fh.seek(*a)


class _NotCallable:
    """an object that is neither callable nor falsy"""


def arg_value(tag, threads):
    """the value behind an `arg_fault` tag (json-able cases carry the tag only)"""
    return {
        'cb-str': 'progress', 'cb-int': 7, 'cb-tuple': (1, 2), 'cb-object': _NotCallable(),
        'cb-arity0': (lambda: None), 'cb-arity1': (lambda x: None),
        'iv-str': '1', 'iv-none': None, 'iv-object': _NotCallable(), 'iv-list': [1],
        'th-half': threads + 0.5, 'th-whole': float(threads),
    }[tag]


def run_case(torf, wd, c):
    """returns observation dict"""
    from torf import _generate as G
    from torf import _stream as S
    files, orig, top = build_tree(wd, c)
    apply_late = build_tree.apply_late
    L = c['L']
    stream = b''.join(orig)
    want_pieces = b''.join(common.sha1(stream[i:i + L]) for i in range(0, len(stream), L))
    t = content.make_torrent(torf, wd, 'T', files, L)
    if c['mode'] == 'verify':
        t._path = None
        t.metainfo['info']['pieces'] = want_pieces
        t.validate = lambda: None
    else:
        t.metainfo['info'].pop('pieces', None)
    index_of = {os.path.join(top, *f['path']): i for i, f in enumerate(files)}

    st = c['strategy']
    rng = random.Random(st['seed'])
    choose = shim.strategy(st['kind'], rng, st.get('params'))
    sched = shim.Sched(choose, rng, max_steps=c.get('max_steps', 20000))
    sched.refuse_start = set(c.get('refuse') or [])
    th, qu = shim.make_shims(sched)
    shim.install_spin_monitor([G, S])
    saved = (G.threading, G.queue, G.time_monotonic)
    saved_open = S.__dict__.get('open', None)
    saved_sha1 = G.sha1
    hash_plan = {'faults': [tuple(x) for x in (c.get('hash_fault') or [])], 'calls': {}, 'fired': []}
    plan = {'calls': 0, 'fail_at': c.get('read_fault'), 'fired': 0, 'burst': c.get('read_fault_burst', 1),
            'kind': c.get('read_fault_kind', 'oserror')}
    if c.get('late'):
        plan['late_at'], plan['late'] = c['late']['at_read'], apply_late
    gate_nows = []

    def clock():
        # every time_monotonic() call made by the collecting thread is one evaluation of the interval gate
        if shim.cur().name == 'main':
            gate_nows.append(sched.now)
        elif shim.cur().name == 'reader':
            # the out-of-memory handler polls the clock in a loop without synchronisation operations:
            # let time pass a little (1/64 s, exact in binary) on every look
            sched.now += 0.015625
        return sched.now

    G.threading, G.queue, G.time_monotonic = th, qu, clock
    if hash_plan['faults']:
        def sha1_proxy(*a, **k):
            name = shim.cur().name
            n = hash_plan['calls'][name] = hash_plan['calls'].get(name, 0) + 1
            if (name, n) in hash_plan['faults']:
                hash_plan['fired'].append([name, n])
                raise MemoryError('injected: out of memory in sha1()')
            return saved_sha1(*a, **k)
        G.sha1 = sha1_proxy
    if c.get('read_fault') is not None or c.get('count_reads') or c.get('late'):
        import builtins
        S.open = lambda p, mode='r', *a, **k: _FaultyFile(builtins.open(p, mode, *a, **k), plan)
    osplan = None
    saved_os = S.os
    if c.get('os_fault') is not None:
        import builtins
        osplan = dict(c['os_fault'], calls={}, fired=False, fired_at_step=None, fired_file=None,
                      step=lambda: len(sched.trace), index_of=index_of)
        fpath = None
        if osplan['op'] in ('open', 'stat'):
            fpath = os.path.join(top, *files[osplan['file']]['path'])

        def os_open(p, mode='r', *a, **k):
            if osplan['op'] == 'open' and str(p) == fpath:
                osplan['calls']['open'] = osplan['calls'].get('open', 0) + 1
                osplan['fired'], osplan['fired_at_step'], osplan['fired_file'] = True, len(sched.trace), osplan['file']
                raise OSError(osplan.get('errno', errno.EIO), 'injected open error', str(p))
            return _OsFaultFile(builtins.open(p, mode, *a, **k), plan, osplan)
        S.open = os_open
        if osplan['op'] == 'stat':
            import types

            def getsize(p):
                if str(p) == fpath:
                    osplan['calls']['stat'] = osplan['calls'].get('stat', 0) + 1
                    osplan['fired'], osplan['fired_at_step'], osplan['fired_file'] = True, len(sched.trace), osplan['file']
                    raise OSError(osplan.get('errno', errno.EIO), 'injected stat error', str(p))
                return os.path.getsize(p)

            class _Fwd:
                def __init__(self, real, **over):
                    self.__dict__['_real'] = real
                    self.__dict__.update(over)

                def __getattr__(self, n):
                    return getattr(self._real, n)
            S.os = _Fwd(os, path=_Fwd(os.path, getsize=getsize))
    raw_plan = None
    if c.get('raw_fault') is not None:
        import copy
        from harness.impl import rawfault
        raw_plan = copy.deepcopy(c['raw_fault'])
        S.open = rawfault.open_factory(raw_plan)
    calls = []
    cb_exc = CbError('callback says no')
    cb_base_exc = CbBaseError('callback interrupted')
    cbspec = c.get('cb')

    def user_cb(*args):
        if c['mode'] == 'generate':
            tor, fp, done, total = args
            rec = {'same_torrent': tor is t, 'done': done, 'total': total, 'now': sched.now}
        else:
            tor, fp, done, total, pi, ph, exc = args
            rec = {'same_torrent': tor is t, 'done': done, 'total': total, 'piece': pi,
                   'hash': None if ph is None else bytes(ph).hex(), 'now': sched.now,
                   'exc': None if exc is None else exc_obs(torf, exc, index_of, cb_exc)}
        rec['at_step'] = len(sched.trace)
        nth = sum(1 for cl in calls if cl['done'] == done)      # earlier calls for the same piece
        calls.append(rec)
        d = (cbspec.get('table') or {}).get(str(done))
        if d == 'cancel-first':
            # ask to stop for the first error of a piece only; answer None to its further errors
            d = 'cancel' if nth == 0 else None
        if d == 'cancel':
            # "anything that is not None stops": the value is a dimension of the case (default True)
            return CANCEL_ANSWERS[cbspec.get('answer', 0)]
        if d == 'raise':
            raise cb_exc
        if d == 'raise-base':
            raise cb_base_exc
        return None

    res = {}

    kw = {'threads': c['threads'], 'callback': user_cb if cbspec else None, 'interval': interval_value(c)}
    if c.get('arg_fault') is not None:
        kw[c['arg_fault']['arg']] = arg_value(c['arg_fault']['value'], c['threads'])

    def main():
        try:
            if c['mode'] == 'generate':
                res['ret'] = t.generate(**kw)
            else:
                res['ret'] = t.verify(top, **kw)
        except shim._Abort:
            pass                     # unwound by the scheduler after a deadlock/livelock/budget outcome: no result
        except BaseException as e:   # noqa
            res['exc'] = e

    try:
        sched.run(main)
    finally:
        G.threading, G.queue, G.time_monotonic = saved
        G.sha1 = saved_sha1
        S.os = saved_os
        if saved_open is None:
            S.__dict__.pop('open', None)
        else:
            S.open = saved_open
    obs = {
        'outcome': sched.outcome, 'stuck': sched.stuck, 'steps': sched.steps,
        'alive_at_return': sched.alive_at_return,
        'trace': [e for e in sched.trace if not (e[0] == 'main' and e[1] == 'begin')],
        'calls': calls,
        'pieces_stored': t.metainfo['info'].get('pieces') if c['mode'] == 'generate' else None,
        'want_pieces': want_pieces,
        'total': len(want_pieces) // 20,
        'read_calls': plan['calls'], 'fault_fired': plan['fired'], 'late_done': plan.get('late_done', False),
        'hash_fault_fired': hash_plan['fired'],
        'raw_fault': raw_plan,
        'os_fault': None if osplan is None else dict(
            {k: osplan[k] for k in ('op', 'calls', 'fired', 'fired_file')},
            # index into obs['trace'] (which leaves out main's own `begin` entry)
            fired_at_step=None if osplan['fired_at_step'] is None else osplan['fired_at_step'] - sum(
                1 for e in sched.trace[:osplan['fired_at_step']] if e[0] == 'main' and e[1] == 'begin')),
        'gate_nows': gate_nows,
        'structure': {'pq_max': sched.queues[0].maxsize if sched.queues else None,
                      'hq_max': sched.queues[1].maxsize if len(sched.queues) > 1 else None},
    }
    if 'exc' in res:
        obs['result'] = {'raised': exc_obs(torf, res['exc'], index_of, cb_exc, cb_base_exc)}
    elif 'ret' in res:
        obs['result'] = {'returned': res['ret']}
    else:
        obs['result'] = None
    return obs


def exc_obs(torf, e, index_of, cb_exc=None, cb_base_exc=None):
    if (cb_exc is not None and e is cb_exc) or (cb_base_exc is not None and e is cb_base_exc):
        return {'kind': 'cb'}
    if isinstance(e, SpinDetected):
        return {'kind': 'spin', 'msg': str(e)}
    if isinstance(e, torf.VerifyContentError):
        return {'kind': 'content', 'piece': e.piece_index}
    if isinstance(e, torf.ReadError):
        return {'kind': 'read', 'file': index_of.get(str(e.path), -1), 'errno': e.errno}
    if isinstance(e, torf.VerifyFileSizeError):
        return {'kind': 'size', 'file': index_of.get(str(e.filepath), -1)}
    if isinstance(e, torf.TorfError):
        return {'kind': 'torf:' + type(e).__name__}
    if isinstance(e, RuntimeError) and "can't start new thread" in str(e):
        return {'kind': 'startRefused'}
    return {'kind': 'internal', 'exc_type': type(e).__name__, 'msg': str(e)[:120]}
