"""
Run schedule cases in THIS interpreter and print one JSON observation per line.

The caller starts it with `python -O` / `-OO` (asserts stripped, docstrings dropped): Python compiles `assert`
statements away under these flags, so a change that moves bookkeeping INTO an assert only misbehaves there.
usage:  /venv/bin/python -O -B -m harness.sched.optworker < cases.jsonl > obs.jsonl     (cwd = /verif)
"""
import json
import sys
import traceback

from harness import common
from harness.sched import runner


def _jsonable(o):
    if isinstance(o, (bytes, bytearray)):
        return {'$bytes': bytes(o).hex()}
    if isinstance(o, (list, tuple)):
        return [_jsonable(x) for x in o]
    if isinstance(o, dict):
        return {str(k): _jsonable(v) for k, v in o.items()}
    return o


def unjson(o):
    if isinstance(o, dict):
        if set(o) == {'$bytes'}:
            return bytes.fromhex(o['$bytes'])
        return {k: unjson(v) for k, v in o.items()}
    if isinstance(o, list):
        return [unjson(x) for x in o]
    return o


def main():
    torf = common.import_torf()
    wd = common.worker_dir()
    print(json.dumps({'optimize': sys.flags.optimize}), flush=True)
    for line in sys.stdin:
        c = json.loads(line)
        try:
            obs = runner.run_case(torf, wd, c)
        except BaseException:   # noqa
            obs = {'harness_exc': traceback.format_exc()[-1500:]}
        print(json.dumps(_jsonable(obs)), flush=True)


if __name__ == '__main__':
    main()
