"""
Exit paths of the hashing pipeline (round 6; shared by C03 and C04, owned by them).

Two fault dimensions the scheduler-controlled runs did not have:

* **faults in every OS call the reader makes** — close() (in the reader's `finally` block and when
  `_get_open_file` evicts the oldest of more than 10 open files), seek(), open(), stat — next to the
  read() faults of C04, at every position of the run;
* **failures of the calling thread itself**: generate()/verify() called with an argument that makes
  it raise (a callback that is not callable or takes the wrong number of arguments, an interval or a
  thread count of the wrong type), wherever in the call that happens.

Every run is judged against what the property demands (the call returns or raises, no worker
thread is alive at that moment, nothing is left blocked, no partial piece string; a failing content
file surfaces as the library's read error) and its logged label sequence is replayed in the Lean
model with exit paths (`lean/Torf/Model/PipelineExit.lean`, driver op `c04.replay`): program points,
enabledness, queue lengths, the threads alive when main returned, the class of the result, and —
for a run that ends blocked — that the model is blocked in the same place.
"""
import errno
import json
import math

from harness import common
from harness.gen import layouts
from harness.props import c03

CB_TAGS = ['cb-str', 'cb-int', 'cb-tuple', 'cb-object', 'cb-arity0', 'cb-arity1']
IV_TAGS = ['iv-str', 'iv-none', 'iv-object', 'iv-list']
TH_TAGS = ['th-half', 'th-whole']
MAX_OPEN = 10        # TorrentFileStream.max_open_files: the 12th file evicts the first


def _base(rng, threads, npieces, mode, L=2, nfiles=None, sizes=None):
    if sizes is None:
        total = max(1, npieces * L - rng.choice([0, 0, 1]))
        nfiles = nfiles or rng.randint(1, 3)
        cuts = sorted(rng.sample(range(1, total), min(total - 1, nfiles - 1))) if total > 1 else []
        sizes = [b - a for a, b in zip([0] + cuts, cuts + [total])]
    return {'mode': mode, 'L': L, 'sizes': sizes, 'paths': layouts.paths_for(len(sizes), rng, nested=False),
            'cseed': rng.randrange(1 << 30), 'threads': threads, 'disk': ['ok'] * len(sizes), 'flips': [],
            'cb': None, 'interval': 0, 'strategy': c03.mk_strategy(rng, threads), 'max_steps': 40000}


def _some_cb(rng, npieces, passive_only=False):
    r = rng.random()
    if passive_only or r < 0.45:
        return rng.choice([None, {'table': {}}])
    k = rng.randint(1, max(1, npieces))
    return {'table': {str(k): rng.choice(['cancel', 'raise', 'raise-base'])}}


def gen_cases(ctx, slim=False, scale=1.0):
    """slim: the slice C03 runs (final close() faults and arguments the collector trips over);
    otherwise C04's enumeration"""
    rng = ctx.rng
    cases = []

    def add(c, family):
        c['fault'] = family
        cases.append(c)

    modes = ('generate', 'verify')
    # 1. close() in the reader's finally block: every open file x how the reader got there (end of stream, stop request,
    #    callback exception, read fault)
    for threads in ((1, 2) if slim else (1, 2, 3)):
        cap = 3 * threads
        for npieces in ((2, cap + 2) if slim else (1, cap, cap + 3)):
            for nfiles in (1, 3):
                for nth in range(1, min(nfiles, npieces * 2) + 1):
                    for mode in modes:
                        c = _base(rng, threads, npieces, mode, nfiles=nfiles)
                        c['os_fault'] = {'op': 'close', 'nth': nth, 'errno': rng.choice([errno.EIO, errno.ESTALE, errno.ENOSPC])}
                        c['os_fault']['nth'] = min(nth, len(c['sizes']))
                        c['cb'] = _some_cb(rng, npieces)
                        add(c, 'close-final')
    if not slim:
        for _ in range(int(ctx.n(24, 600) * scale)):
            threads = rng.choice([1, 2, 3])
            npieces = rng.choice([2, 3 * threads, 3 * threads + 4])
            c = _base(rng, threads, npieces, rng.choice(modes))
            c['os_fault'] = {'op': 'close', 'nth': rng.randint(1, len(c['sizes'])), 'errno': errno.EIO}
            c['read_fault'] = rng.randint(1, 2 * npieces)
            c['read_fault_kind'] = 'oserror'
            c['cb'] = _some_cb(rng, npieces, passive_only=True)
            add(c, 'read-then-close')
        # 2. more files than may be open at a time: close() of an evicted file fails in the middle of the run (early nth)
        #    or in the finally block (late nth)
        for _ in range(int(ctx.n(40, 1000) * scale)):
            threads = rng.choice([1, 2, 3])
            nfiles = rng.choice([MAX_OPEN + 2, MAX_OPEN + 3, MAX_OPEN + 5])
            sizes = [rng.choice([1, 2, 2, 3]) for _ in range(nfiles)]
            c = _base(rng, threads, 0, rng.choice(modes), sizes=sizes)
            nev = nfiles - MAX_OPEN - 1
            c['os_fault'] = {'op': 'close', 'nth': rng.choice([rng.randint(1, nev), rng.randint(1, nev), rng.randint(nev + 1, nfiles)]),
                             'errno': errno.EIO}
            c['cb'] = _some_cb(rng, sum(sizes) // 2, passive_only=rng.random() < 0.6)
            add(c, 'close-evicted')
        # 3. seek() (one call per file that is opened)
        for threads in (1, 2):
            cap = 3 * threads
            for npieces in (2, cap + 3):
                for nfiles in (1, 3):
                    for nth in range(1, nfiles + 1):
                        for mode in modes:
                            c = _base(rng, threads, npieces, mode, nfiles=nfiles)
                            c['os_fault'] = {'op': 'seek', 'nth': min(nth, len(c['sizes'])), 'errno': rng.choice([errno.EIO, errno.ESPIPE])}
                            c['cb'] = _some_cb(rng, npieces, passive_only=True)
                            add(c, 'seek')
        # 4. open() and stat of one content file
        for _ in range(int(ctx.n(48, 1200) * scale)):
            threads = rng.choice([1, 2, 3])
            npieces = rng.choice([2, 3 * threads, 3 * threads + 4])
            c = _base(rng, threads, npieces, rng.choice(modes), nfiles=rng.randint(1, 4))
            op = rng.choice(['open', 'open', 'stat'])
            c['os_fault'] = {'op': op, 'file': rng.randrange(len(c['sizes'])),
                             'errno': rng.choice([errno.EACCES, errno.EMFILE, errno.EIO])}
            c['cb'] = rng.choice([None, {'table': {}}])
            add(c, op)
    # 5. arguments that make the call itself fail
    tags = [('callback', t) for t in CB_TAGS] + [('interval', t) for t in IV_TAGS]
    if not slim:
        tags += [('threads', t) for t in TH_TAGS] * 2
    for arg, tag in tags:
        for threads in ((1, 2) if slim else (1, 2, 3)):
            for npieces in ((3 * threads + 3,) if slim else (1, 2, 3 * threads + 3)):
                for mode in modes:
                    c = _base(rng, threads, npieces, mode)
                    c['arg_fault'] = {'arg': arg, 'value': tag}
                    # (for a callback of the wrong type the harness's own callback is replaced by that value)
                    c['cb'] = {'table': {}} if arg == 'callback' else rng.choice([None, {'table': {}}])
                    add(c, 'arg-' + arg)
    return cases


# ------------------------------------------------------------------ model side

def model_case(c):
    """the case as the sequential model sees it: a file that cannot be opened is treated exactly like a missing one
    (`iter_pieces` takes the same branch for both)"""
    of = c.get('os_fault')
    if of and of['op'] == 'open':
        d = list(c['disk'])
        d[of['file']] = 'missing'
        return dict(c, disk=d)
    return c


def reader_puts(trace, lo=0, hi=None):
    return sum(1 for e in trace[lo:hi] if e[0] == 'reader' and e[1] == 'pq.put')


def model_cfg(c, obs, c02reply):
    mc = model_case(c)
    if c.get('read_fault') is not None and obs.get('fault_fired'):
        mc = dict(mc, read_fault_item=max(0, reader_puts(obs['trace']) - 1))
    cfg = c03.model_cfg(mc, c02reply)
    pqm = (obs.get('structure') or {}).get('pq_max')
    if pqm and pqm > 0:
        cfg['cap'] = int(math.ceil(pqm))       # a queue with a fractional bound holds ceil(bound) entries
    of, oo = c.get('os_fault'), obs.get('os_fault') or {}
    if of and oo.get('fired') and of['op'] in ('close', 'seek'):
        before = reader_puts(obs['trace'], 0, oo['fired_at_step'])
        after = reader_puts(obs['trace'], oo['fired_at_step'])
        if of['op'] == 'close' and after == 0:
            cfg['closeFault'] = True          # the end-of-stream marker was already queued: the finally block's close()
        else:
            cfg['readFault'] = before         # the generator raised after `before` pieces
            cfg['faultCall'] = 'evict' if of['op'] == 'close' else 'seek'
    af = c.get('arg_fault')
    if af:
        if af['arg'] == 'threads':
            cfg['mainFail'] = 'poolInit'
        elif af['arg'] == 'callback' or first_call_gated(c, cfg):
            cfg['cbByDone'] = [[1, 'raise']]
    return cfg


def first_call_gated(c, cfg):
    """an interval of the wrong type is only looked at when the first report is not a forced one (last piece, error,
    mismatch)"""
    items = cfg['items']
    return len(items) > 1 and all(k in ('data', 'nodata') for k in items)


def result_matches(c, obs, mres):
    res = obs['result']
    if mres is None or res is None:
        return mres is None and res is None
    r = mres.get('raised')
    if r and r['kind'] == 'mainFailed':
        return 'raised' in res and res['raised'].get('kind') == 'internal'
    if r and r['kind'] == 'readerExc':
        if 'raised' not in res:
            return False
        if r['class'] == 'readError':
            return res['raised'].get('kind') == 'read'
        return res['raised'].get('kind') == 'internal' and res['raised'].get('exc_type') == 'OSError'
    if r and r['kind'] == 'cb' and c.get('arg_fault'):
        return 'raised' in res and res['raised'].get('kind') == 'internal'
    return c03.model_result_matches(c, obs, mres)


def check_correspondence(ctx, c, case, obs, rep):
    st = obs.get('structure') or {}
    if st.get('hq_max') not in (0, None) or (st.get('pq_max') is not None and st['pq_max'] <= 0):
        ctx.corr_break('c04.structure', case, {'pq': 'bounded (capacity >= 1)', 'hq': 'unbounded'}, st)
        ctx.notes['structure_seen'] = st
        return False
    if not rep['ok']:
        ctx.corr_break('c04.replay', case, {k: rep[k] for k in rep if k != 'id'},
                       {'trace_around': obs['trace'][max(0, rep['at'] - 6): rep['at'] + 2]})
        return False
    model = {'terminal': rep['terminal'], 'running': rep['running'], 'result': rep['result'],
             'aliveAtReturn': rep['aliveAtReturn'], 'enabled': rep['enabled']}
    impl = {'outcome': obs['outcome'], 'result': obs['result'], 'alive_at_return': obs['alive_at_return'],
            'stuck': obs['stuck']}
    if obs['outcome'] == 'done':
        good = rep['terminal'] and not rep['running'] and result_matches(c, obs, rep['result']) and \
            sorted(rep['aliveAtReturn'] or []) == sorted(obs['alive_at_return'] or [])
    elif obs['outcome'] == 'deadlock':
        # the run ended blocked: the model must be blocked too, with the same threads left
        good = not rep['enabled'] and sorted(rep['running']) == sorted(n for n, _ in obs['stuck'] if n != 'main') and \
            (obs['result'] is None or (rep['terminal'] and result_matches(c, obs, rep['result']) and
                                       sorted(rep['aliveAtReturn'] or []) == sorted(obs['alive_at_return'] or [])))
    else:
        return True
    if not good:
        ctx.corr_break('c04.replay(final)', case, model, impl)
        return False
    # the reader's exit protocol, as the model's ghost variables record it
    if obs['outcome'] == 'done' and 'reader' not in (c.get('refuse') or []) and not rep['result'] is None:
        started = any(e[0] == 'reader' for e in obs['trace'])
        if started and (rep['sentinels'] != 1 or not rep['closed']):
            ctx.machinery_error(f'model: reader ended with {rep["sentinels"]} end-of-stream markers queued, closed={rep["closed"]}', case)
            return False
    return True


# ------------------------------------------------------------------ verdict

def _d04c(case, observed, finding):
    """a thread count that is not an integer: HasherPool.__init__ raises after the reader was started"""
    af = case.get('arg_fault') or {}
    if af.get('arg') != 'threads' or not isinstance(observed, dict):
        return False
    res = observed.get('result') or {}
    return res.get('raised', {}).get('exc_type') == 'TypeError' and \
        set(observed.get('problems') or ['?']) <= {'hang', 'threads'} and \
        set(observed.get('alive_at_return') or []) <= {'reader'} and \
        all(n == 'reader' for n, _ in (observed.get('stuck') or []))


def _d04d(case, observed, finding):
    """close() of a content file fails: the OSError reaches the caller unwrapped"""
    of = case.get('os_fault') or {}
    if of.get('op') != 'close' or not isinstance(observed, dict):
        return False
    r = (observed.get('result') or {}).get('raised', {})
    return r.get('kind') == 'internal' and r.get('exc_type') == 'OSError' and observed.get('problems') == ['close-kind']


MATCHERS = {'pool_constructor_fails_on_thread_count': _d04c, 'close_error_not_wrapped': _d04d}


def judge(ctx, c, case, obs, rep, c02reply, strict, matchers):
    problems, tags = [], []
    res = obs['result'] or {}
    of, oo, af = c.get('os_fault'), obs.get('os_fault') or {}, c.get('arg_fault')
    if obs['outcome'] == 'budget':
        ctx.dist['step-budget-exhausted(inconclusive)'] += 1
        return
    if obs['outcome'] in ('deadlock', 'livelock'):
        problems.append(f'{obs["outcome"]}: threads blocked at {obs["stuck"]}' +
                        ('' if obs['result'] is None else ' after the call had returned'))
        tags.append('hang')
    if obs['alive_at_return']:
        problems.append(f'worker threads still running when the call returned: {obs["alive_at_return"]}')
        tags.append('threads')
    if c['mode'] == 'generate':
        stored = obs['pieces_stored']
        if res == {'returned': True}:
            if stored != obs['want_pieces']:
                problems.append('generate() returned True but the stored piece string is not the complete correct one')
                tags.append('pieces')
        elif stored is not None:
            problems.append(f'generate() did not succeed ({res}) but stored a piece string of {len(stored)} bytes')
            tags.append('pieces')
    table = ((c.get('cb') or {}).get('table') or {})
    stop_k = [int(k) for k in table]
    cb_decided = any(cl['done'] in stop_k for cl in obs['calls'])
    r = res.get('raised', {})
    if obs['outcome'] == 'done':
        if of and oo.get('fired') and of['op'] == 'seek' and r.get('kind') != 'read':
            problems.append(f'seek() on a content file failed but the caller got {res} instead of the read error')
            tags.append('result')
        if of and of['op'] in ('open', 'stat') and not cb_decided:
            exp = c03.expected_outcome(model_case(c), c02reply)
            if not c03._match_expected(exp, obs['result']):
                problems.append(f'{of["op"]} of content file {of["file"]} failed: the caller got {res}, expected {exp}')
                tags.append('result')
        if of and of['op'] == 'close' and oo.get('fired') and strict and 'raised' in res and \
                r.get('kind') not in ('read', 'cb'):
            problems.append(f'close() of a content file failed and the caller got {r.get("exc_type") or r} '
                            f'instead of the library\'s read error')
            tags.append('close-kind')
        if not af and r.get('kind') == 'internal' and not (of and of['op'] == 'close' and r.get('exc_type') == 'OSError'):
            problems.append(f'internal exception escaped: {r}')
            tags.append('result')
        if af and af['arg'] == 'callback' and 'raised' not in res:
            problems.append(f'a callback that cannot be called was accepted: the call returned {res}')
            tags.append('result')
    if problems:
        fid = ctx.violation(f'{c["mode"]}(threads={c["threads"]}, fault={c.get("fault")}): ' + '; '.join(problems[:3]),
                            case, 'returns/raises cleanly, no thread left',
                            {'outcome': obs['outcome'], 'result': obs['result'], 'alive_at_return': obs['alive_at_return'],
                             'stuck': obs['stuck'], 'problems': sorted(set(tags)), 'os_fault': oo or None,
                             'trace_tail': obs['trace'][-20:]}, matchers)
        if fid is None:
            return
        ctx.dist[f'known-finding-class({fid})'] += 1
    check_correspondence(ctx, c, case, obs, rep)


CASE_KEYS = ('mode', 'L', 'sizes', 'paths', 'cseed', 'threads', 'disk', 'flips', 'cb', 'interval', 'strategy', 'max_steps',
             'refuse', 'read_fault', 'read_fault_kind', 'os_fault', 'arg_fault', 'fault')


def is_exit_case(c):
    return c.get('os_fault') is not None or c.get('arg_fault') is not None


def evaluate(ctx, drv, cases, strict=True, matchers=None):
    matchers = MATCHERS if matchers is None else matchers
    mcs = [model_case(c) for c in cases]
    vidx = [i for i, mc in enumerate(mcs) if c03.needs_c02(mc)]
    c02 = drv.run([{'op': 'c02.verify', 'L': mcs[i]['L'], 'sizes': mcs[i]['sizes'], 'disk': mcs[i]['disk'],
                    'flips': c03.model_flips(mcs[i]), 'single': False, 'pathIsDir': True} for i in vidx])
    c02by = dict(zip(vidx, c02))
    results = common.pmap(c03._run_chunk, common.split(cases, common.NPROC * 4))
    flat = [x for chunk in results for x in chunk]
    reqs = []
    for i, (c, obs) in enumerate(flat):
        if 'harness_exc' in obs:
            raise RuntimeError(f'harness failure: {obs["harness_exc"]}')
        reqs.append({'op': 'c04.replay', 'cfg': model_cfg(c, obs, c02by.get(i)), 'trace': obs['trace']})
    replies = drv.run(reqs)
    for i, ((c, obs), rep) in enumerate(zip(flat, replies)):
        case = {k: c[k] for k in CASE_KEYS if c.get(k) is not None}
        oo = obs.get('os_fault') or {}
        fired = bool(oo.get('fired')) or c.get('arg_fault') is not None
        ctx.case(key=json.dumps(case, sort_keys=True), nontrivial=fired,
                 kind=f"{c.get('fault')}/{c['mode']}/N{c['threads']}")
        if fired:
            ctx.dist['exit-fault-fired'] += 1
        if oo.get('fired') and c['os_fault']['op'] == 'close':
            ctx.dist['close-fault/' + ('finally' if reqs[i]['cfg'].get('closeFault') else 'evicted')] += 1
        ctx.sample({'case': case, 'outcome': obs['outcome'], 'result': obs['result'],
                    'alive_at_return': obs['alive_at_return']}, limit=4)
        judge(ctx, c, case, obs, rep, c02by.get(i), strict, matchers)
