import Torf.Base.Chunks
import Torf.Model.Stream
import Torf.Model.Generate
import Torf.Lemmas.Stream
import Torf.Properties.C01
