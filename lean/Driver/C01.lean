import Driver.Util
import Torf.Model.Generate
open Lean Torf
namespace Driver.C01

/-- op `c01.iter` : {L, sizes} ↦ model = pieces of `iterPieces` as runs, spec = pieces of
    `chunks` as runs, count = nPieces -/
def iter (j : Json) : Except String Json := do
  let L ← getNat j "L"
  let sizes ← getNats j "sizes"
  let files := mkFiles sizes
  let model := Stream.iterPieces L files
  let spec := chunks L files.flatten
  let total := sizes.sum
  return jobj [("model", jarr (model.map pieceJson)),
               ("specEq", jbool (model == spec)),
               ("spec", if model == spec then Json.null else jarr (spec.map pieceJson)),
               ("count", jnat (Generate.torrentPieces total L)),
               ("hyp", jbool (L > 0))]

/-- op `c01.collect` : {n, arrival : permutation of 0..n-1} ↦ order in which the collector
    stores the digests (digest of piece i is represented by i) -/
def collect (j : Json) : Except String Json := do
  let arrival ← getNats j "arrival"
  let pieces ← getNat j "pieces"
  let hs := Generate.collectorHashes (arrival.map fun i => (i, i))
  let out : Json := match Generate.finish pieces hs with
    | .stored h => jobj [("kind", "stored"), ("hashes", jnats h)]
    | .cancelled => jobj [("kind", "cancelled")]
    | .tooMany => jobj [("kind", "tooMany")]
  return jobj [("model", out)]

def handle (op : String) (j : Json) : Except String Json :=
  match op with
  | "c01.iter" => iter j
  | "c01.collect" => collect j
  | _ => throw s!"unknown op {op}"

end Driver.C01
