import Driver.Util
import Driver.C03
import Torf.Model.Generate
import Torf.Model.GenHistory
import Torf.Model.PipelineHF
import Torf.Model.StreamFault
import Torf.Spec.Pipeline
open Lean Torf
namespace Driver.C01

/-- op `c01.iter` : {L, sizes} ↦ model = pieces of `iterPieces` as runs, spec = pieces of
    `chunks` as runs, count = nPieces -/
def iter (j : Json) : Except String Json := do
  let L ← getNat j "L"
  let sizes ← getNats j "sizes"
  let files := mkFiles sizes
  let model := Stream.iterPieces L files
  let spec := chunks L files.flatten
  let total := sizes.sum
  return jobj [("model", jarr (model.map pieceJson)),
               ("specEq", jbool (model == spec)),
               ("spec", if model == spec then Json.null else jarr (spec.map pieceJson)),
               ("count", jnat (Generate.torrentPieces total L)),
               ("hyp", jbool (L > 0))]

/-- op `c01.collect` : {n, arrival : permutation of 0..n-1} ↦ order in which the collector
    stores the digests (digest of piece i is represented by i) -/
def collect (j : Json) : Except String Json := do
  let arrival ← getNats j "arrival"
  let pieces ← getNat j "pieces"
  let hs := Generate.collectorHashes (arrival.map fun i => (i, i))
  let out : Json := match Generate.finish pieces hs with
    | .stored h => jobj [("kind", "stored"), ("hashes", jnats h)]
    | .cancelled => jobj [("kind", "cancelled")]
    | .tooMany => jobj [("kind", "tooMany")]
  return jobj [("model", out)]

/-! ### histories (Model/GenHistory.lean) -/

/-- bytes of version `v` of file `j`: elements `(v * 2^20 + j) * 2^40 + k`; `pieceJson` then sends
    runs `[v * 2^20 + j, offset, length]` -/
def verBase : Nat := 1048576

def verFile (v j sz : Nat) : List Nat := (List.range sz).map fun k => (v * verBase + j) * elemBase + k

/-- history op: ["replace", j, v] | ["rewrite", j, v] | ["new"] | ["touch", s, j] | ["close", s] | ["gen"] -/
def parseHOp (sizes : List Nat) (x : Json) : Except String (GenHistory.Op Nat) := do
  let a ← x.getArr?
  let tag ← (a[0]?.getD Json.null).getStr?
  let n (i : Nat) : Except String Nat := (a[i]?.getD Json.null).getNat?
  match tag with
  | "replace" => do let j ← n 1; let v ← n 2; return .replace j (verFile v j (sizes.getD j 0))
  | "rewrite" => do let j ← n 1; let v ← n 2; return .rewrite j (verFile v j (sizes.getD j 0))
  | "new" => return .newStream
  | "touch" => do let s ← n 1; let j ← n 2; return .touch s j
  | "close" => do let s ← n 1; return .close s
  | "gen" => return .generate
  | _ => throw s!"bad history op {tag}"

def outcomeJson : Generate.Outcome (List Nat) → Json
  | .stored h => jobj [("kind", "stored"), ("pieces", jarr (h.map pieceJson))]
  | .cancelled => jobj [("kind", "cancelled")]
  | .tooMany => jobj [("kind", "tooMany")]

/-- op `c01.history` : {L, cap, sizes, ops, shared?} ↦ for every "gen" of the history the model's
    outcome (`runHist`, digest = the piece itself) and whether it equals the specification
    (`specHist`: chunks of the current bytes) -/
def history (j : Json) : Except String Json := do
  let L ← getNat j "L"
  let cap ← getNat j "cap"
  let sizes ← getNats j "sizes"
  let shared := (getBool j "shared").toOption.getD false
  let ops ← (← getArr j "ops").mapM (parseHOp sizes)
  let files0 := sizes.zipIdx.map fun (sz, i) => verFile 0 i sz
  let model := GenHistory.runHist shared (fun p => p) L cap (GenHistory.World.init files0) ops
  let spec := GenHistory.specHist (fun p => p) L files0 ops
  return jobj [("model", jarr (model.map outcomeJson)),
               ("specEq", jbool (model == spec)),
               ("spec", if model == spec then Json.null else jarr (spec.map outcomeJson)),
               ("count", jnat (Generate.torrentPieces sizes.sum L)),
               ("hyp", jbool (L > 0 && sizes.sum > 0 && GenHistory.sizesKept (files0.map List.length) ops))]

/-! ### histories with edits of the metainfo (Model/GenHistory.lean, second part) -/

/-- meta: {L, files: [[path id, length], …], name, listId} -/
def parseMeta (j : Json) : Except String GenHistory.Meta := do
  let L ← getNat j "L"
  let files ← (← getArr j "files").mapM fun x => do
    let a ← x.getArr?
    if h : a.size = 2 then return ({ path := (← a[0].getNat?), length := (← a[1].getNat?) } : GenHistory.Entry)
    else throw "files entry must be a pair"
  let name := (getOptNat j "name").getD 0
  let listId := (getOptNat j "listId").getD 0
  return { L := L, files := files, name := name, listId := listId }

/-- op: ["replace", p, v, size] | ["rewrite", p, v, size] | ["create", p, v, size] (p = the id the new
    path gets; must be the number of paths so far) | ["new"] | ["touch", s, p] | ["close", s] |
    ["meta", k, meta] | ["newtor", meta] | ["get", k] | ["gen", k] -/
def parseMOp (x : Json) : Except String (GenHistory.MOp Nat) := do
  let a ← x.getArr?
  let tag ← (a[0]?.getD Json.null).getStr?
  let n (i : Nat) : Except String Nat := (a[i]?.getD Json.null).getNat?
  match tag with
  | "replace" => do return .disk (.replace (← n 1) (verFile (← n 2) (← n 1) (← n 3)))
  | "rewrite" => do return .disk (.rewrite (← n 1) (verFile (← n 2) (← n 1) (← n 3)))
  | "create" => do return .create (verFile (← n 2) (← n 1) (← n 3))
  | "new" => return .disk .newStream
  | "touch" => do return .disk (.touch (← n 1) (← n 2))
  | "close" => do return .disk (.close (← n 1))
  | "meta" => do return .setMeta (← n 1) (← parseMeta (a[2]?.getD Json.null))
  | "newtor" => do return .newTor (← parseMeta (a[1]?.getD Json.null))
  | "get" => do return .get (← n 1)
  | "gen" => do return .generate (← n 1)
  | _ => throw s!"bad history op {tag}"

def resJson : GenHistory.Res (List Nat) → Json
  | .out o => outcomeJson o
  | .failed => jobj [("kind", "failed")]

def fpOf (kind : String) : GenHistory.Meta → List Nat :=
  match kind with
  | "listId" => fun m => [m.listId]
  | "paths" => fun m => m.files.map (·.path)
  | _ => GenHistory.fpSeed

/-- op `c01.mhistory` : {cap, sizes (paths 0.. at version 0), metas, ops, memo?: "seed"|"listId"|"paths"}
    ↦ for every "gen" the model's result (`runHistM`, digest = the piece itself) and whether the
    sequence equals the specification (`specHistM`) -/
def mhistory (j : Json) : Except String Json := do
  let cap ← getNat j "cap"
  let sizes ← getNats j "sizes"
  let metas ← (← getArr j "metas").mapM parseMeta
  let ops ← (← getArr j "ops").mapM parseMOp
  let memo := (getStr j "memo").toOption
  let files0 := sizes.zipIdx.map fun (sz, i) => verFile 0 i sz
  let model := GenHistory.runHistM memo.isSome (fpOf (memo.getD "")) (fun p => p) cap
    (GenHistory.MWorld.init files0 metas) ops
  let spec := GenHistory.specHistM (fun p => p) metas files0 ops
  return jobj [("model", jarr (model.map resJson)),
               ("specEq", jbool (model == spec)),
               ("spec", if model == spec then Json.null else jarr (spec.map resJson)),
               ("hyp", jbool (GenHistory.metasOk metas ops))]

/-! ### a failing read layer (Model/StreamFault.lean) -/

def parseEv (x : Json) : Except String StreamFault.Ev := do
  let a ← x.getArr?
  let tag ← (a[0]?.getD Json.null).getStr?
  match tag with
  | "ok" => return .ok
  | "fail" => do
    let k ← (a[1]?.getD Json.null).getNat?
    let e ← (a[2]?.getD Json.null).getStr?
    return .fail k (if e == "mem" then .mem else .os)
  | _ => throw s!"bad read event {tag}"

/-- op `c01.readfault` : {L, sizes, plan: [["ok"] | ["fail", k, "os"|"mem"], …], retryOs?: n, seekBack?: bool}
    ↦ what `generate()` does over that read layer (policy: the code unless stated), the ghost counters,
    whether the plan is inside `C01_read_fault_code_partial` (`hyp`) and whether the model meets the
    theorem's disjunction (`sound`) -/
def readfault (j : Json) : Except String Json := do
  let L ← getNat j "L"
  let sizes ← getNats j "sizes"
  let plan ← (← getArr j "plan").mapM parseEv
  let pol : StreamFault.Policy :=
    { retryOs := getOptNat j "retryOs", seekBack := (getBool j "seekBack").toOption.getD false }
  let files := mkFiles sizes
  let r := StreamFault.iterPieces pol L files plan
  let gen := StreamFault.generate pol (fun p => p) L files plan
  let spec := chunks L files.flatten
  let upFront := plan.all fun ev => match ev with
    | .fail k .mem => k == 0
    | _ => true
  let sound := match gen with
    | none => true
    | some (.stored h) => h == spec
    | some _ => false
  return jobj [("model", match gen with
                  | none => jobj [("kind", "raised")]
                  | some o => outcomeJson o),
               ("osRaised", jnat r.2.osRaised), ("memRaised", jnat r.2.memRaised), ("lost", jnat r.2.lost),
               ("sound", jbool sound), ("count", jnat (Generate.torrentPieces sizes.sum L)),
               ("hyp", jbool (L > 0 && sizes.sum > 0 && upFront && pol.retryOs.isNone))]

/-! ### schedules with hasher faults (Model/PipelineHF.lean) -/

open Torf.Pipeline Torf.PipelineHF in
/-- op `c01.replayx`: replay a logged label sequence of a `generate()` run in the pipeline model
    with hasher faults.  {cfg (as c03.replay), hashFault: [[hasher index, j], …], L, sizes, trace}.
    Reply: ok / where the replay broke; terminal; result; dead, lost; what `Torrent.generate`
    does with that result (`generateX`, digest = the piece itself) and whether the theorem's
    disjunction holds for it (`sound`). -/
def replayx (j : Json) : Except String Json := do
  let base ← Driver.C03.parseCfg (← j.getObjVal? "cfg")
  let hf ← (← getArr j "hashFault").mapM fun x => do
    let a ← x.getArr?
    if h : a.size = 2 then return ((← a[0].getNat?), (← a[1].getNat?))
    else throw "hashFault entry must be a pair"
  let cfg : CfgX := { base := base, hashFault := fun i k => hf.contains (i, k) }
  let L ← getNat j "L"
  let sizes ← getNats j "sizes"
  let files := mkFiles sizes
  let trace ← getArr j "trace"
  let mut x := initX cfg
  let mut idx := 0
  for e in trace do
    let a ← e.getArr?
    if a.size < 3 then throw "trace entry too short"
    let tidS ← a[0]!.getStr?
    let op ← a[1]!.getStr?
    let dec ← a[2]!.getStr?
    let tid ← Driver.C03.parseTid tidS
    let expected := opNameX x tid
    if expected != op then
      return jobj [("ok", jbool false), ("at", jnat idx), ("why", jstr "op-mismatch"),
                   ("modelOp", jstr expected), ("implOp", jstr op), ("thread", jstr tidS)]
    match stepX cfg x { tid := tid, timeout := dec == "timeout" } with
    | none =>
      return jobj [("ok", jbool false), ("at", jnat idx), ("why", jstr "not-enabled-in-model"),
                   ("thread", jstr tidS), ("implOp", jstr op), ("decision", jstr dec)]
    | some x' =>
      x := x'
      if a.size ≥ 6 then
        match a[3]!.getNat?, a[4]!.getNat?, a[5]!.getBool? with
        | .ok pq, .ok hq, .ok fin =>
          if pq != x.base.pq.length || hq != x.base.hq.length || fin != x.base.fin then
            return jobj [("ok", jbool false), ("at", jnat idx), ("why", jstr "state-mismatch"),
                         ("model", jobj [("pq", jnat x.base.pq.length), ("hq", jnat x.base.hq.length),
                                         ("fin", jbool x.base.fin)]),
                         ("impl", jobj [("pq", jnat pq), ("hq", jnat hq), ("fin", jbool fin)]),
                         ("thread", jstr tidS), ("implOp", jstr op)]
        | _, _, _ => pure ()
    idx := idx + 1
  let result : Json := match resultX? x with
    | none => Json.null
    | some (.hasherExc h) => jobj [("hasherExc", jstr s!"hasher{h+1}")]
    | some (.base r) => Driver.C03.resultJson (some r)
  let gen := generateX (fun p => p) L files x
  let spec := chunks L files.flatten
  let n := (Generate.readerTasks L files).length
  let (genJ, sound) : Json × Bool := match gen, resultX? x with
    | some (.outcome (.stored h)), _ => (jobj [("kind", "stored"), ("pieces", jarr (h.map pieceJson))], h == spec)
    | some (.outcome .cancelled), some (.base (.returned c)) => (jobj [("kind", "cancelled")], c.length < n)
    | some (.outcome .cancelled), _ => (jobj [("kind", "cancelled")], false)
    | some (.outcome .tooMany), _ => (jobj [("kind", "tooMany")], false)
    | some .raised, _ => (jobj [("kind", "raised")], true)
    | none, _ => (Json.null, true)
  -- a run that lost a piece must not store anything (C01_hash_fault_lost_not_success)
  let lostOk := x.lost.isEmpty || (match gen with | some (.outcome (.stored _)) => false | _ => true)
  return jobj [("ok", jbool true), ("terminal", jbool (terminalX x)), ("result", result),
               ("dead", jarr (x.dead.map fun h => jstr s!"hasher{h+1}")), ("lost", jnats x.lost),
               ("canProgress", jbool (x.reraised.isNone && canProgress base x.base)),
               ("generate", genJ), ("sound", jbool (sound && lostOk)),
               ("spec", jarr (spec.map pieceJson)),
               ("hyp", jbool (L > 0 && sizes.sum > 0 && base.items == List.replicate n .data))]

def handle (op : String) (j : Json) : Except String Json :=
  match op with
  | "c01.iter" => iter j
  | "c01.collect" => collect j
  | "c01.history" => history j
  | "c01.mhistory" => mhistory j
  | "c01.readfault" => readfault j
  | "c01.replayx" => replayx j
  | _ => throw s!"unknown op {op}"

end Driver.C01
