import Driver.Util
import Driver.C03
import Torf.Model.PipelineExit
import Torf.Spec.Pipeline
open Lean Torf.Pipeline Torf.PipelineExit
namespace Driver.C04

def parseFaultCall (s : String) : Except String FaultCall :=
  match s with
  | "read" => pure .read | "seek" => pure .seek | "oom" => pure .oom | "evict" => pure .evict
  | _ => throw s!"bad faultCall {s}"

def parseMainPoint (s : String) : Except String MainPoint :=
  match s with
  | "poolInit" => pure .poolInit | "beforeCollect" => pure .beforeCollect
  | _ => throw s!"bad mainFail {s}"

/-- cfg of `c03.replay` plus optional `faultCall`, `closeFault`, `mainFail` -/
def parseCfgE (j : Json) : Except String CfgE := do
  let base ← Driver.C03.parseCfg j
  let fc ← match j.getObjValAs? String "faultCall" with
    | .ok s => parseFaultCall s
    | .error _ => pure .read
  let cf := (j.getObjValAs? Bool "closeFault").toOption.getD false
  let mf ← match j.getObjValAs? String "mainFail" with
    | .ok s => (parseMainPoint s).map some
    | .error _ => pure none
  return { base := base, faultCall := fc, closeFault := cf, mainFail := mf }

def rexcStr : RExc → String
  | .readError => "readError" | .osError => "osError"

def pointStr : MainPoint → String
  | .poolInit => "poolInit" | .beforeCollect => "beforeCollect"

def resultEJson : Option ResultE → Json
  | none => Json.null
  | some (.mainFailed p) => jobj [("raised", jobj [("kind", "mainFailed"), ("point", jstr (pointStr p))])]
  | some (.readerExc k) => jobj [("raised", jobj [("kind", "readerExc"), ("class", jstr (rexcStr k))])]
  | some (.base r) => Driver.C03.resultJson (some r)

/-- op `c04.replay`: replay a logged label sequence in the model with exit paths
    (`Model/PipelineExit.lean`).  Same request and reply as `c03.replay`; the reply also carries
    the ghost variables of the extended state. -/
def replay (j : Json) : Except String Json := do
  let cfg ← parseCfgE (← j.getObjVal? "cfg")
  let trace ← getArr j "trace"
  let mut s := initE cfg
  let mut idx := 0
  let mut aliveAtReturn : Option (List String) := none
  for e in trace do
    let a ← e.getArr?
    if a.size < 3 then throw "trace entry too short"
    let tidS ← a[0]!.getStr?
    let op ← a[1]!.getStr?
    let dec ← a[2]!.getStr?
    let tid ← Driver.C03.parseTid tidS
    let expected := opNameE s tid
    if expected != op then
      return jobj [("ok", jbool false), ("at", jnat idx), ("why", jstr "op-mismatch"),
                   ("modelOp", jstr expected), ("implOp", jstr op), ("thread", jstr tidS)]
    match stepE cfg s { tid := tid, timeout := dec == "timeout" } with
    | none =>
      return jobj [("ok", jbool false), ("at", jnat idx), ("why", jstr "not-enabled-in-model"),
                   ("thread", jstr tidS), ("implOp", jstr op), ("decision", jstr dec)]
    | some s' =>
      s := s'
      if a.size ≥ 6 then
        match a[3]!.getNat?, a[4]!.getNat?, a[5]!.getBool? with
        | .ok pq, .ok hq, .ok fin =>
          if pq != s.base.pq.length || hq != s.base.hq.length || fin != s.base.fin then
            return jobj [("ok", jbool false), ("at", jnat idx), ("why", jstr "state-mismatch"),
                         ("model", jobj [("pq", jnat s.base.pq.length), ("hq", jnat s.base.hq.length),
                                         ("fin", jbool s.base.fin)]),
                         ("impl", jobj [("pq", jnat pq), ("hq", jnat hq), ("fin", jbool fin)]),
                         ("thread", jstr tidS), ("implOp", jstr op)]
        | _, _, _ => pure ()
      if terminalE s && aliveAtReturn.isNone then
        aliveAtReturn := some (Driver.C03.runningThreads cfg.base s.base)
    idx := idx + 1
  -- which threads could still take a step (for runs that end stuck)
  let enabled := (allLabels cfg.base).filterMap fun l =>
    match stepE cfg s l with
    | some _ => some (Driver.C03.tidStr l.tid)
    | none => none
  return jobj [("ok", jbool true), ("terminal", jbool (terminalE s)),
               ("result", resultEJson (resultE? s)),
               ("aliveAtReturn", match aliveAtReturn with | some l => jarr (l.map jstr) | none => Json.null),
               ("running", jarr ((Driver.C03.runningThreads cfg.base s.base).map jstr)),
               ("enabled", jarr (enabled.eraseDups.map jstr)),
               ("stop", jbool s.base.stop), ("seen", jnats s.base.seen), ("collected", jnats s.base.collected),
               ("sentinels", jnat s.sentinels), ("closed", jbool s.closed),
               ("readerExc", match s.rexcKind with | some k => jstr (rexcStr k) | none => Json.null)]

/-- ops of property C04: `c04.<name>` -/
def handle (op : String) (j : Json) : Except String Json :=
  match op with
  | "c04.replay" => replay j
  | _ => throw s!"unknown op {op}"

end Driver.C04
