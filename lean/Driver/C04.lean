import Driver.Util
open Lean
namespace Driver.C04

/-- ops of property C04: `c04.<name>` -/
def handle (op : String) (_j : Json) : Except String Json :=
  throw s!"unknown op {op}"

end Driver.C04
