import Driver.Util
open Lean
namespace Driver.C19

/-- ops of property C19: `c19.<name>` -/
def handle (op : String) (_j : Json) : Except String Json :=
  throw s!"unknown op {op}"

end Driver.C19
