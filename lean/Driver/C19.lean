import Driver.Util
import Torf.Model.Handles
import Torf.Model.Missing
import Torf.Model.HandlesDisk
import Torf.Model.HandlesIter
open Lean Torf Torf.Handles
namespace Driver.C19

/-- digests in the driver: `(0, piece)` is the genuine digest of `piece` (the harness applies
    real SHA-1 to the bytes), `(1, piece)` a stored hash that is deliberately wrong -/
abbrev Dig := Nat × List Nat

/-- the stream geometry by plain arithmetic (layouts without zero-length files): files having
    a byte in `[iL, min((i+1)L, T))`, and `seek_to = iL − pos(first relevant file)` -/
def geomArith (sizes : List Nat) (L : Nat) (i : Nat) : Except Err (List Nat × Nat) :=
  let T := sizes.sum
  let lo := i * L
  let hi := min ((i + 1) * L) T
  let ents : List (Nat × Nat × Nat) :=
    (sizes.zipIdx.foldl (fun (acc : List (Nat × Nat × Nat) × Nat) (sz, j) =>
      (acc.1 ++ [(j, acc.2, sz)], acc.2 + sz)) ([], 0)).1
  let rel := ents.filter fun (_, pos, sz) => pos < hi && lo < pos + sz
  match rel with
  | [] => .ok ([], 0)
  | (_, pos, _) :: _ => .ok (rel.map (·.1), lo - pos)

def parseOp (j : Json) : Except String Op := do
  let name ← getStr j "op"
  match name with
  | "iterFull" => return .iterFull
  | "iterAbandon" => return .iterAbandon (← getNat j "a")
  | "getPiece" => return .getPiece (← getInt j "a")
  | "getPieceHash" => return .getPieceHash (← getInt j "a")
  | "verifyPiece" => return .verifyPiece (← getInt j "a")
  | "close" => return .close
  | "ctxExit" => return .ctxExit
  | _ => throw s!"unknown stream op {name}"

def errName : Err → String
  | .value => "ValueError"
  | .assertion => "AssertionError"
  | .closedHandle => "closed-handle"
  | .fuel => "fuel"

def digJson (d : Dig) : Json := jobj [("wrong", jbool (d.1 != 0)), ("of", pieceJson d.2)]

def outJson : Out Nat Dig → Json
  | .pieces ps => jobj [("k", "pieces"), ("v", jarr (ps.map pieceJson))]
  | .piece p => jobj [("k", "piece"), ("v", pieceJson p)]
  | .digest d => jobj [("k", "digest"), ("v", digJson d)]
  | .bool b => jobj [("k", "bool"), ("v", jbool b)]
  | .none => jobj [("k", "none")]
  | .err e => jobj [("k", "err"), ("v", jstr (errName e))]

/-- a stored digest sent by the harness: `[flag, a, b]` = the digest of the stream bytes `[a, b)`,
    bitwise complemented when `flag ≠ 0` -/
def parseDig (flat : List Nat) (j : Json) : Except String Dig := do
  match (← (j.getArr?)).toList with
  | [f, a, b] =>
    let f ← f.getNat?
    let a ← a.getNat?
    let b ← b.getNat?
    return (f, (flat.drop a).take (b - a))
  | _ => throw "bad stored digest"

/-- a history step: an operation, or `{"op":"setHashes","stored":[[flag,a,b],…]}` -/
def parseStep (flat : List Nat) (j : Json) : Except String (Step Dig) := do
  let name ← getStr j "op"
  if name == "setHashes" then
    return .setStored (← (← getArr j "stored").mapM (parseDig flat))
  else
    return .op (← parseOp j)

/-- the specification's answers along a history with hash replacements -/
def specAllS (files : List (List Nat)) (L : Nat) (H : List Nat → Dig) :
    List Dig → List (Step Dig) → List (Out Nat Dig)
  | _, [] => []
  | st, .op o :: ss => specOut files L H st o :: specAllS files L H st ss
  | _, .setStored hs :: ss => .none :: specAllS files L H hs ss

/-- op `c19.history` : {L, sizes, cap, ops, wrong : [piece indexes whose stored hash is wrong],
    fix? : Bool} ↦ per step the model's answer `m`, the specification's answer `s`
    (null when equal to `m`) and the size of the handle table afterwards `nopen`;
    a step is an operation or a replacement of the stored hashes (`setHashes`);
    `hyp` = piece length ≥ 1 and no zero-length file (the arithmetic geometry is then the
    code's geometry; zero-length files are C11's business). -/
def history (j : Json) : Except String Json := do
  let L ← getNat j "L"
  let sizes ← getNats j "sizes"
  let cap ← getNat j "cap"
  let wrong := (getNats j "wrong").toOption.getD []
  let fix := (getBool j "fix").toOption.getD true
  let files := mkFiles sizes
  let steps ← (← getArr j "ops").mapM (parseStep files.flatten)
  let H : List Nat → Dig := fun p => (0, p)
  let stored : List Dig := (chunks L files.flatten).zipIdx.map fun (p, i) =>
    if wrong.contains i then (1, p) else (0, p)
  let c : Cfg Nat Dig :=
    { files := files, L := L, cap := cap, geom := geomArith sizes L, H := H, stored := stored,
      fix := fix }
  let res := runAllS c steps []
  let spec := specAllS files L H stored steps
  let rows := (res.zip spec).map fun ((o, n), s) =>
    jobj [("m", outJson o), ("s", if s == o then Json.null else outJson s), ("nopen", jnat n)]
  return jobj [("rows", jarr rows), ("hyp", jbool (L > 0 && sizes.all (· > 0))),
               ("npieces", jnat (nPieces L sizes.sum))]

/-- op `c19.damagedIter` : {L, sizes, disk : ["ok" | "missing" | actual size]} ↦ the items of a
    complete `iter_pieces()` on that disk according to `iterDamaged true` (= `Missing.iterItems`),
    `null` when the model says an internal error escapes; an abandoned iteration takes a prefix -/
def damagedIter (j : Json) : Except String Json := do
  let L ← getNat j "L"
  let sizes ← getNats j "sizes"
  let states ← getArr j "disk"
  let disk : List (Option (List Nat)) ← (sizes.zip states).zipIdx.mapM fun ((sz, st), i) =>
    match st with
    | .str "ok" => pure (some ((List.range sz).map fun k => i * elemBase + k))
    | .str "missing" => pure none
    | .num n => pure (some ((List.range n.mantissa.toNat).map fun k => i * elemBase + k))
    | _ => throw "bad disk state"
  let kind : Missing.ErrKind → String | .read => "read" | .size => "size"
  let r := (iterDamaged true L sizes disk {}).1
  return jobj [("items", match r with
    | none => Json.null
    | some its => jarr (its.map fun it =>
        jobj [("data", jopt pieceJson it.data),
              ("excs", jarr (it.excs.map fun (k, e) => jarr [jnat k, jstr (kind e)]))]))]

/-! ### histories on a disk that changes between the operations (`Torf.HandlesDisk`) -/

namespace D
open Torf.HandlesDisk

def errName : HandlesDisk.Err → String
  | .value => "ValueError"
  | .assertion => "AssertionError"
  | .size => "VerifyFileSizeError"
  | .readNoent => "ReadError"
  | .readOther => "ReadError"
  | .internal => "internal"

def kindName : Missing.ErrKind → String | .read => "ReadError" | .size => "VerifyFileSizeError"

def itemJson (it : Missing.Item Nat) : Json :=
  jobj [("data", jopt pieceJson it.data),
        ("excs", jarr (it.excs.map fun (k, e) => jarr [jnat k, jstr (kindName e)]))]

def outJson : HandlesDisk.Out Nat Dig → Json
  | .items xs => jobj [("k", "items"), ("v", jarr (xs.map itemJson))]
  | .piece p => jobj [("k", "piece"), ("v", pieceJson p)]
  | .digest d => jobj [("k", "digest"), ("v", digJson d)]
  | .bool b => jobj [("k", "bool"), ("v", jbool b)]
  | .none => jobj [("k", "none")]
  | .err e => jobj [("k", "err"), ("v", jstr (errName e))]

/-- symbolic content number `cid`, `n` bytes from offset `off` -/
def sym (cid off n : Nat) : List Nat := (List.range n).map fun k => cid * elemBase + off + k


def optNat (j : Json) (k : String) : Option Nat :=
  match j.getObjVal? k with
  | .ok (.num n) => if n.exponent == 0 && n.mantissa ≥ 0 then some n.mantissa.toNat else none
  | _ => none

/-- a history step; content created by the step at position `pos` has the number `cid0 + pos`;
    an operation may carry `cp` (content_path argument: a root) and `fault` (listed file whose first
    read/seek in this operation raises OSError) -/
def parseStep (flat : List Nat) (cid0 dirsize pos : Nat) (j : Json) :
    Except String (HandlesDisk.Step Nat Dig) := do
  let name ← getStr j "op"
  if name == "setHashes" then
    return .setStored (← (← getArr j "stored").mapM (parseDig flat))
  else if name == "disk" then
    let kind ← getStr j "kind"
    let f ← getNat j "j"
    let n := (getNat j "n").toOption.getD 0
    let cid := cid0 + pos
    match kind with
    | "truncate" => return .disk (.truncate f n)
    | "extend" => return .disk (.extend f (sym cid 0 n))
    | "rewrite" => return .disk (.rewrite f (sym cid 0 n))
    | "replace" => return .disk (.replace f (sym cid 0 n))
    | "unlink" => return .disk (.unlink f)
    | "mkdir" => return .disk (.mkdir f dirsize)
    | _ => throw s!"unknown disk change {kind}"
  else
    let fault : Option Fault := (optNat j "fault").map fun f =>
      { file := f, seek := (getBool j "fseek").toOption.getD false }
    return .op (optNat j "cp") fault (← parseOp j)

def geomD (sizes : List Nat) (L : Nat) (i : Nat) : Except HandlesDisk.Err (List Nat × Nat) :=
  match geomArith sizes L i with
  | .ok r => .ok r
  | .error _ => .error .internal

/-- an answer together with, for `verifyPiece`, the piece and the stored digest that were compared
    (the harness decides equality of digests on the real bytes) -/
def ansJson (c : HandlesDisk.Cfg Nat Dig) (d : Disk Nat) (a : Option Nat) (f : Option Fault) (x : Handles.Op)
    (o : Obj) : Json :=
  let cmp : Json := match x with
    | .verifyPiece i =>
      match Handles.pyIndex c.stored i, (getPiece c d (c.base a) f i o).1 with
      | some st, .ok p => jobj [("st", digJson st), ("p", pieceJson p)]
      | _, _ => Json.null
    | _ => Json.null
  jobj [("o", outJson (run c d a f x o).out), ("cmp", cmp)]

/-- the rows of a history, with what the harness needs to judge them: per step the model's answer
    `m`, the specification's answer `s` (null when equal), the number of handles afterwards, `clean`
    (no stale handle of a file the operation may read), `stale` (number of stale handles when the step
    starts); for a disk change `open` = the object holds a handle of the target; for `verifyPiece`
    the piece and the stored digest that were compared (`cmp`) -/
def rowsD (c : HandlesDisk.Cfg Nat Dig) : Disk Nat → List (HandlesDisk.Step Nat Dig) → Obj → List Json
  | _, [], _ => []
  | d, .op a f x :: ss, o =>
    let r := run c d a f x o
    let s := specOut c d a x
    let clean := cleanFor c d a x o.tbl
    -- with stale handles, answers C19 does not forbid either: the fresh object's (same fault) and the
    -- one of reading old inodes throughout
    let alts := if clean then [] else [ansJson c d a f x {}, ansJson c (d.oldView o.tbl) a f x {}]
    jobj [("m", outJson r.out), ("s", if s == r.out then Json.null else outJson s),
          ("nopen", jnat r.obj.tbl.length), ("clean", jbool clean), ("alts", jarr alts),
          ("stale", jnat (o.tbl.filter fun h => !h.current d).length),
          ("cmp", (ansJson c d a f x o).getObjValD "cmp"),
          ("scmp", (ansJson c d a Option.none x {}).getObjValD "cmp")]
      :: rowsD c d ss r.obj
  | d, .disk x :: ss, o =>
    jobj [("m", outJson .none), ("s", Json.null), ("nopen", jnat o.tbl.length), ("clean", jbool true),
          ("stale", jnat (o.tbl.filter fun h => !h.current d).length),
          ("open", jbool (inoOf o.tbl x.target).isSome)]
      :: rowsD c (d.apply x) ss o
  | d, .setStored hs :: ss, o =>
    jobj [("m", outJson .none), ("s", Json.null), ("nopen", jnat o.tbl.length), ("clean", jbool true),
          ("stale", jnat (o.tbl.filter fun h => !h.current d).length)]
      :: rowsD { c with stored := hs } d ss o

/-- op `c19.diskHistory` : {L, sizes, cap, wrong, roots, ctor?, disk : per path (root-major)
    "ok" | "missing" | "corrupt" | actual size, dirsize, memo?, ops} — `clean` in a row = no stale handle
    of a path the operation reads (the fault decoration is the harness' business).  Content
    numbers: `j` = the recorded content of file `j`, `nfiles + q` = the filler / corrupt content of
    path `q` at the start, `nfiles + roots·nfiles + pos` = content created by step `pos` -/
def history (j : Json) : Except String Json := do
  let L ← getNat j "L"
  let sizes ← getNats j "sizes"
  let cap ← getNat j "cap"
  let wrong := (getNats j "wrong").toOption.getD []
  let memo := (getBool j "memo").toOption.getD false
  let dirsize := (getNat j "dirsize").toOption.getD 0
  let roots := (getNat j "roots").toOption.getD 1
  let n := sizes.length
  let files := mkFiles sizes
  let states := (getArr j "disk").toOption.getD []
  let ents : List (List Nat × Entry) ← (List.range (roots * n)).mapM fun q =>
    let i := q % n
    let sz := sizes.getD i 0
    match states.getD q (Json.str "ok") with
    | .str "ok" => pure (sym i 0 sz, Entry.file q)
    | .str "missing" => pure (sym i 0 sz, Entry.absent)
    | .str "corrupt" => pure (sym (n + q) 0 sz, Entry.file q)
    | .num k =>
      let k := k.mantissa.toNat
      pure (sym i 0 (min k sz) ++ sym (n + q) 0 (k - sz), Entry.file q)
    | _ => throw "bad disk state"
  let d : Disk Nat := { inodes := ents.map (·.1), dir := ents.map (·.2) }
  let cid0 := n + roots * n
  let steps ← (← getArr j "ops").zipIdx.mapM fun (s, pos) => parseStep files.flatten cid0 dirsize pos s
  let H : List Nat → Dig := fun p => (0, p)
  let stored : List Dig := (chunks L files.flatten).zipIdx.map fun (p, i) =>
    if wrong.contains i then (1, p) else (0, p)
  let c : HandlesDisk.Cfg Nat Dig :=
    { sizes := sizes, L := L, cap := cap, geom := geomD sizes L, H := H, stored := stored, memo := memo,
      ctorPath := optNat j "ctor" }
  return jobj [("rows", jarr (rowsD c d steps {})),
               ("hyp", jbool (L > 0 && sizes.all (· > 0))),
               ("npieces", jnat (nPieces L sizes.sum))]

end D

/-! ### histories with kept (suspended) iterators (`Torf.HandlesIter`) -/

namespace I
open Torf.HandlesIter

def parseOpI (j : Json) : Except String HandlesIter.Op := do
  let name ← getStr j "op"
  match name with
  | "iterFull" => return .iterFull
  | "iterAbandon" => return .iterAbandon (← getNat j "a")
  | "getPiece" => return .getPiece (← getInt j "a")
  | "getPieceHash" => return .getPieceHash (← getInt j "a")
  | "verifyPiece" => return .verifyPiece (← getInt j "a")
  | "close" => return .close
  | "ctxExit" => return .ctxExit
  | "iterStart" => return .iterStart
  | "iterNext" => return .iterNext (← getNat j "s") (← getNat j "k")
  | "iterDrop" => return .iterDrop (← getNat j "s")
  | _ => throw s!"unknown stream op {name}"

/-- the operation as one of `Torf.Handles` (for its specification), if it is one -/
def plainOp : HandlesIter.Op → Option Handles.Op
  | .iterFull => some .iterFull
  | .iterAbandon k => some (.iterAbandon k)
  | .getPiece i => some (.getPiece i)
  | .getPieceHash i => some (.getPieceHash i)
  | .verifyPiece i => some (.verifyPiece i)
  | .close => some .close
  | .ctxExit => some .ctxExit
  | _ => none

/-- what the driver remembers about a kept iterator: items yielded so far, whether every resumption
    so far found its handle undisturbed, whether the stream was closed while it was suspended
    inside a file, whether it was dropped -/
structure Slot where
  pos : Nat := 0
  ok : Bool := true
  closed : Bool := false
  dropped : Bool := false

/-- per step: model answer `m`, specification `s` (null when equal; for `iterNext s k` the `k` chunks
    that follow the ones the iterator has yielded so far — none for a dropped iterator), `nopen` =
    descriptors the object keeps open, `ntbl` = size of its table, `undisturbed` = (for `iterNext`)
    nothing has moved or closed the handle the iterator is suspended on — now, and at every earlier
    resumption of this iterator —, `closed` = the stream was closed (`close()` / context exit) while
    this iterator was suspended inside a file: resuming it then is outside the property -/
def rowsI (c : HandlesIter.Cfg Nat Dig) (spec : Handles.Op → Handles.Out Nat Dig) (all : List (List Nat)) :
    List HandlesIter.Op → HandlesIter.Obj Nat → List Slot → List Json
  | [], _, _ => []
  | x :: xs, o, sl =>
    let r := HandlesIter.run c x o
    let (s, und, cl, sl') : Handles.Out Nat Dig × Bool × Bool × List Slot :=
      match x with
      | .iterStart => (.none, true, false, sl ++ [{}])
      | .iterNext i k =>
        let t := sl.getD i {}
        let u := undisturbed o i && t.ok
        let got := match r.out with | .pieces ps => ps.length | _ => 0
        (.pieces (if t.dropped then [] else (all.drop t.pos).take k), u, t.closed,
         sl.set i { t with pos := t.pos + got, ok := u })
      | .iterDrop i => (.none, true, false, sl.set i { sl.getD i {} with dropped := true })
      | .close | .ctxExit =>
        (.none, true, false, sl.zipIdx.map fun (t, i) =>
          match o.gens[i]? with
          | some (.inFile ..) => { t with closed := true }
          | _ => t)
      | _ => ((plainOp x).map spec |>.getD .none, true, false, sl)
    jobj [("m", outJson r.out), ("s", if s == r.out then Json.null else outJson s),
          ("nopen", jnat r.obj.opened.length), ("ntbl", jnat r.obj.tbl.length), ("undisturbed", jbool und),
          ("closed", jbool cl)]
      :: rowsI c spec all xs r.obj sl'

/-- op `c19.iterHistory` : {L, sizes, cap, wrong, pop?, ops} -/
def history (j : Json) : Except String Json := do
  let L ← getNat j "L"
  let sizes ← getNats j "sizes"
  let cap ← getNat j "cap"
  let wrong := (getNats j "wrong").toOption.getD []
  let pop := (getBool j "pop").toOption.getD false
  let files := mkFiles sizes
  let ops ← (← getArr j "ops").mapM parseOpI
  let H : List Nat → Dig := fun p => (0, p)
  let all := chunks L files.flatten
  let stored : List Dig := all.zipIdx.map fun (p, i) => if wrong.contains i then (1, p) else (0, p)
  let c : HandlesIter.Cfg Nat Dig :=
    { files := files, L := L, cap := cap, geom := geomArith sizes L, H := H, stored := stored, pop := pop }
  return jobj [("rows", jarr (rowsI c (Handles.specOut files L H stored) all ops {} [])),
               ("hyp", jbool (L > 0 && sizes.all (· > 0))),
               ("npieces", jnat (nPieces L sizes.sum))]

end I

def handle (op : String) (j : Json) : Except String Json :=
  match op with
  | "c19.history" => history j
  | "c19.damagedIter" => damagedIter j
  | "c19.diskHistory" => D.history j
  | "c19.iterHistory" => I.history j
  | _ => throw s!"unknown op {op}"

end Driver.C19
