import Driver.Util
import Torf.Model.Handles
open Lean Torf Torf.Handles
namespace Driver.C19

/-- digests in the driver: `(0, piece)` is the genuine digest of `piece` (the harness applies
    real SHA-1 to the bytes), `(1, piece)` a stored hash that is deliberately wrong -/
abbrev Dig := Nat × List Nat

/-- the stream geometry by plain arithmetic (layouts without zero-length files): files having
    a byte in `[iL, min((i+1)L, T))`, and `seek_to = iL − pos(first relevant file)` -/
def geomArith (sizes : List Nat) (L : Nat) (i : Nat) : Except Err (List Nat × Nat) :=
  let T := sizes.sum
  let lo := i * L
  let hi := min ((i + 1) * L) T
  let ents : List (Nat × Nat × Nat) :=
    (sizes.zipIdx.foldl (fun (acc : List (Nat × Nat × Nat) × Nat) (sz, j) =>
      (acc.1 ++ [(j, acc.2, sz)], acc.2 + sz)) ([], 0)).1
  let rel := ents.filter fun (_, pos, sz) => pos < hi && lo < pos + sz
  match rel with
  | [] => .ok ([], 0)
  | (_, pos, _) :: _ => .ok (rel.map (·.1), lo - pos)

def parseOp (j : Json) : Except String Op := do
  let name ← getStr j "op"
  match name with
  | "iterFull" => return .iterFull
  | "iterAbandon" => return .iterAbandon (← getNat j "a")
  | "getPiece" => return .getPiece (← getInt j "a")
  | "getPieceHash" => return .getPieceHash (← getInt j "a")
  | "verifyPiece" => return .verifyPiece (← getInt j "a")
  | "close" => return .close
  | "ctxExit" => return .ctxExit
  | _ => throw s!"unknown stream op {name}"

def errName : Err → String
  | .value => "ValueError"
  | .assertion => "AssertionError"
  | .closedHandle => "closed-handle"
  | .fuel => "fuel"

def digJson (d : Dig) : Json := jobj [("wrong", jbool (d.1 != 0)), ("of", pieceJson d.2)]

def outJson : Out Nat Dig → Json
  | .pieces ps => jobj [("k", "pieces"), ("v", jarr (ps.map pieceJson))]
  | .piece p => jobj [("k", "piece"), ("v", pieceJson p)]
  | .digest d => jobj [("k", "digest"), ("v", digJson d)]
  | .bool b => jobj [("k", "bool"), ("v", jbool b)]
  | .none => jobj [("k", "none")]
  | .err e => jobj [("k", "err"), ("v", jstr (errName e))]

/-- op `c19.history` : {L, sizes, cap, ops, wrong : [piece indexes whose stored hash is wrong],
    fix? : Bool} ↦ per operation the model's answer `m`, the specification's answer `s`
    (null when equal to `m`) and the size of the handle table afterwards `nopen`;
    `hyp` = piece length ≥ 1 and no zero-length file (the arithmetic geometry is then the
    code's geometry; zero-length files are C11's business). -/
def history (j : Json) : Except String Json := do
  let L ← getNat j "L"
  let sizes ← getNats j "sizes"
  let cap ← getNat j "cap"
  let wrong := (getNats j "wrong").toOption.getD []
  let fix := (getBool j "fix").toOption.getD true
  let ops ← (← getArr j "ops").mapM parseOp
  let files := mkFiles sizes
  let H : List Nat → Dig := fun p => (0, p)
  let stored : List Dig := (chunks L files.flatten).zipIdx.map fun (p, i) =>
    if wrong.contains i then (1, p) else (0, p)
  let c : Cfg Nat Dig :=
    { files := files, L := L, cap := cap, geom := geomArith sizes L, H := H, stored := stored,
      fix := fix }
  let res := runAll c ops []
  let rows := (ops.zip res).map fun (op, (o, n)) =>
    let s := specOut files L H stored op
    jobj [("m", outJson o), ("s", if s == o then Json.null else outJson s), ("nopen", jnat n)]
  return jobj [("rows", jarr rows), ("hyp", jbool (L > 0 && sizes.all (· > 0))),
               ("npieces", jnat (nPieces L sizes.sum))]

def handle (op : String) (j : Json) : Except String Json :=
  match op with
  | "c19.history" => history j
  | _ => throw s!"unknown op {op}"

end Driver.C19
