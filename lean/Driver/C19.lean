import Driver.Util
import Torf.Model.Handles
import Torf.Model.Missing
open Lean Torf Torf.Handles
namespace Driver.C19

/-- digests in the driver: `(0, piece)` is the genuine digest of `piece` (the harness applies
    real SHA-1 to the bytes), `(1, piece)` a stored hash that is deliberately wrong -/
abbrev Dig := Nat × List Nat

/-- the stream geometry by plain arithmetic (layouts without zero-length files): files having
    a byte in `[iL, min((i+1)L, T))`, and `seek_to = iL − pos(first relevant file)` -/
def geomArith (sizes : List Nat) (L : Nat) (i : Nat) : Except Err (List Nat × Nat) :=
  let T := sizes.sum
  let lo := i * L
  let hi := min ((i + 1) * L) T
  let ents : List (Nat × Nat × Nat) :=
    (sizes.zipIdx.foldl (fun (acc : List (Nat × Nat × Nat) × Nat) (sz, j) =>
      (acc.1 ++ [(j, acc.2, sz)], acc.2 + sz)) ([], 0)).1
  let rel := ents.filter fun (_, pos, sz) => pos < hi && lo < pos + sz
  match rel with
  | [] => .ok ([], 0)
  | (_, pos, _) :: _ => .ok (rel.map (·.1), lo - pos)

def parseOp (j : Json) : Except String Op := do
  let name ← getStr j "op"
  match name with
  | "iterFull" => return .iterFull
  | "iterAbandon" => return .iterAbandon (← getNat j "a")
  | "getPiece" => return .getPiece (← getInt j "a")
  | "getPieceHash" => return .getPieceHash (← getInt j "a")
  | "verifyPiece" => return .verifyPiece (← getInt j "a")
  | "close" => return .close
  | "ctxExit" => return .ctxExit
  | _ => throw s!"unknown stream op {name}"

def errName : Err → String
  | .value => "ValueError"
  | .assertion => "AssertionError"
  | .closedHandle => "closed-handle"
  | .fuel => "fuel"

def digJson (d : Dig) : Json := jobj [("wrong", jbool (d.1 != 0)), ("of", pieceJson d.2)]

def outJson : Out Nat Dig → Json
  | .pieces ps => jobj [("k", "pieces"), ("v", jarr (ps.map pieceJson))]
  | .piece p => jobj [("k", "piece"), ("v", pieceJson p)]
  | .digest d => jobj [("k", "digest"), ("v", digJson d)]
  | .bool b => jobj [("k", "bool"), ("v", jbool b)]
  | .none => jobj [("k", "none")]
  | .err e => jobj [("k", "err"), ("v", jstr (errName e))]

/-- a stored digest sent by the harness: `[flag, a, b]` = the digest of the stream bytes `[a, b)`,
    bitwise complemented when `flag ≠ 0` -/
def parseDig (flat : List Nat) (j : Json) : Except String Dig := do
  match (← (j.getArr?)).toList with
  | [f, a, b] =>
    let f ← f.getNat?
    let a ← a.getNat?
    let b ← b.getNat?
    return (f, (flat.drop a).take (b - a))
  | _ => throw "bad stored digest"

/-- a history step: an operation, or `{"op":"setHashes","stored":[[flag,a,b],…]}` -/
def parseStep (flat : List Nat) (j : Json) : Except String (Step Dig) := do
  let name ← getStr j "op"
  if name == "setHashes" then
    return .setStored (← (← getArr j "stored").mapM (parseDig flat))
  else
    return .op (← parseOp j)

/-- the specification's answers along a history with hash replacements -/
def specAllS (files : List (List Nat)) (L : Nat) (H : List Nat → Dig) :
    List Dig → List (Step Dig) → List (Out Nat Dig)
  | _, [] => []
  | st, .op o :: ss => specOut files L H st o :: specAllS files L H st ss
  | _, .setStored hs :: ss => .none :: specAllS files L H hs ss

/-- op `c19.history` : {L, sizes, cap, ops, wrong : [piece indexes whose stored hash is wrong],
    fix? : Bool} ↦ per step the model's answer `m`, the specification's answer `s`
    (null when equal to `m`) and the size of the handle table afterwards `nopen`;
    a step is an operation or a replacement of the stored hashes (`setHashes`);
    `hyp` = piece length ≥ 1 and no zero-length file (the arithmetic geometry is then the
    code's geometry; zero-length files are C11's business). -/
def history (j : Json) : Except String Json := do
  let L ← getNat j "L"
  let sizes ← getNats j "sizes"
  let cap ← getNat j "cap"
  let wrong := (getNats j "wrong").toOption.getD []
  let fix := (getBool j "fix").toOption.getD true
  let files := mkFiles sizes
  let steps ← (← getArr j "ops").mapM (parseStep files.flatten)
  let H : List Nat → Dig := fun p => (0, p)
  let stored : List Dig := (chunks L files.flatten).zipIdx.map fun (p, i) =>
    if wrong.contains i then (1, p) else (0, p)
  let c : Cfg Nat Dig :=
    { files := files, L := L, cap := cap, geom := geomArith sizes L, H := H, stored := stored,
      fix := fix }
  let res := runAllS c steps []
  let spec := specAllS files L H stored steps
  let rows := (res.zip spec).map fun ((o, n), s) =>
    jobj [("m", outJson o), ("s", if s == o then Json.null else outJson s), ("nopen", jnat n)]
  return jobj [("rows", jarr rows), ("hyp", jbool (L > 0 && sizes.all (· > 0))),
               ("npieces", jnat (nPieces L sizes.sum))]

/-- op `c19.damagedIter` : {L, sizes, disk : ["ok" | "missing" | actual size]} ↦ the items of a
    complete `iter_pieces()` on that disk according to `iterDamaged true` (= `Missing.iterItems`),
    `null` when the model says an internal error escapes; an abandoned iteration takes a prefix -/
def damagedIter (j : Json) : Except String Json := do
  let L ← getNat j "L"
  let sizes ← getNats j "sizes"
  let states ← getArr j "disk"
  let disk : List (Option (List Nat)) ← (sizes.zip states).zipIdx.mapM fun ((sz, st), i) =>
    match st with
    | .str "ok" => pure (some ((List.range sz).map fun k => i * elemBase + k))
    | .str "missing" => pure none
    | .num n => pure (some ((List.range n.mantissa.toNat).map fun k => i * elemBase + k))
    | _ => throw "bad disk state"
  let kind : Missing.ErrKind → String | .read => "read" | .size => "size"
  let r := (iterDamaged true L sizes disk {}).1
  return jobj [("items", match r with
    | none => Json.null
    | some its => jarr (its.map fun it =>
        jobj [("data", jopt pieceJson it.data),
              ("excs", jarr (it.excs.map fun (k, e) => jarr [jnat k, jstr (kind e)]))]))]

def handle (op : String) (j : Json) : Except String Json :=
  match op with
  | "c19.history" => history j
  | "c19.damagedIter" => damagedIter j
  | _ => throw s!"unknown op {op}"

end Driver.C19
