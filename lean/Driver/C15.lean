import Driver.Util
open Lean
namespace Driver.C15

/-- ops of property C15: `c15.<name>` -/
def handle (op : String) (_j : Json) : Except String Json :=
  throw s!"unknown op {op}"

end Driver.C15
