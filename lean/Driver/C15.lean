import Driver.Util
import Torf.Spec.Create
import Torf.Spec.CreateNames
import Torf.Model.CreateHistory
open Lean Torf.Paths Torf.Create
namespace Driver.C15

/-! ops of property C15

  common case fields: `name`, `files` = [{rel:[…], size}], `order` = indices into `files` (walk
  order), `cwd` = components, `spelling` = string, `st` = {exg, exr, ing, inr},
  `fs` = [[abs components, size | null]] (everything that exists in the scratch file system).

  * `c15.queries` ↦ the strings the model / the spec will hand to `casefold`, `fnmatch`, `re`
  * `c15.history` (`cwd`, `fs`, `ops` = [{op:"path", sp: str|null} | {op:"fire", st}]) ↦ the state
                   after every operation (model `trace`) and the fresh object for that state
  * `c15.files`   (`items` = [{path:[…], size}], `cwd`, `fs`) ↦ model of `Torrent.files = …`
  * `c15.opaque`  (`name`, `files`, `st`, `st2`, `rho` = [[name, new name]], oracle tables) ↦ the
                   hypothesis `Spec.opaqueB` of `C15_names_opaque`, `cleanTree` of the renamed tree,
                   and both sides of `C15_names_opaque_spec`
  * `c15.create`  (+ tables `cf` = [[s, casefold s]], `glob` = [[text, pattern, bool]],
                   `rex` = [[pattern, text, bool]]) ↦ model, spec, hyp (+ its conjuncts),
                   `listed` = model of `utils.list_files`
-/

structure Case where
  tree : Tree
  st : Settings
  cwd : Comps
  spelling : PPath
  order : List FileEnt
  fs : FS

def getStrs (j : Json) (k : String) : Except String (List String) :=
  (·.toList) <$> j.getObjValAs? (Array String) k

def parseCase (j : Json) : Except String Case := do
  let name ← getStr j "name"
  let fjs ← getArr j "files"
  let files ← fjs.mapM fun f => do
    let rel ← getStrs f "rel"
    let size ← getNat f "size"
    pure (⟨rel, size⟩ : FileEnt)
  let idx ← getNats j "order"
  let order := idx.filterMap fun i => files[i]?
  let cwd ← getStrs j "cwd"
  let sp ← getStr j "spelling"
  let stj ← j.getObjVal? "st"
  let st : Settings := ⟨← getStrs stj "exg", ← getStrs stj "exr", ← getStrs stj "ing", ← getStrs stj "inr"⟩
  let fsj ← getArr j "fs"
  let fs ← fsj.mapM fun e => do
    let a ← e.getArr?
    let p ← (a[0]?.getD Json.null).getArr?
    let comps ← p.toList.mapM fun c => c.getStr?
    let sz : Option Nat := ((a[1]?.getD Json.null).getNat?).toOption
    pure (comps, sz)
  pure ⟨⟨name, files⟩, st, cwd, parse sp, order, fs⟩

def Case.env (c : Case) : Env := ⟨c.cwd, c.spelling, c.order, fsExists c.fs c.cwd⟩

def createdJson : Created → Json
  | .empty => jobj [("kind", "empty")]
  | .single n s => jobj [("kind", "single"), ("name", jstr n), ("size", jnat s)]
  | .multi n fs => jobj [("kind", "multi"), ("name", jstr n),
      ("files", jarr (fs.map fun (p, s) => jarr [jarr (p.map jstr), jnat s]))]

def resultJson : Except Err Created → Json
  | .ok c => createdJson c
  | .error .relativeTo => jobj [("kind", "error"), ("err", "ValueError:relative_to")]
  | .error .commonPath => jobj [("kind", "error"), ("err", "CommonPathError")]

/-- the pattern-path strings `filter_files` builds for the listed files (model) -/
def modelPatPaths (c : Case) : List String :=
  let B := pathlibNorm c.spelling
  -- `filter_files` only sees what `_set_files`' own empty-file rule has left
  let listed := dropEmpty (fsExists c.fs c.cwd) (listFiles id B c.order)
  match withGetter c.cwd (abspath c.cwd B) listed with
  | .ok items =>
    -- `basepath = abspath(basepath).name` (since 1742c6d)
    let base := (pathlibNorm ⟨false, [name (abspath c.cwd B)]⟩).comps
    items.map fun it => withBaseStr base it.2
  | .error _ => []

def queries (j : Json) : Except String Json := do
  let c ← parseCase j
  let B := pathlibNorm c.spelling
  return jobj [("listed", jarr (c.order.map fun f => jstr (walkStr B f))),
               ("patpaths", jarr ((modelPatPaths c).map jstr)),
               ("specpaths", jarr (c.tree.files.map fun f => jstr (Spec.patPath c.tree.name f)))]

def lookup2 (tbl : List (String × String × Bool)) (a b : String) : Bool :=
  match tbl.find? (fun e => e.1 == a && e.2.1 == b) with
  | some e => e.2.2
  | none => false

def parseOracles (j : Json) : Except String Oracles := do
  let cfj ← getArr j "cf"
  let cf ← cfj.mapM fun e => do
    let a ← e.getArr?
    pure ((← (a[0]?.getD Json.null).getStr?), (← (a[1]?.getD Json.null).getStr?))
  let tbl (k : String) : Except String (List (String × String × Bool)) := do
    let tj ← getArr j k
    tj.mapM fun e => do
      let a ← e.getArr?
      pure ((← (a[0]?.getD Json.null).getStr?), (← (a[1]?.getD Json.null).getStr?),
            (← (a[2]?.getD Json.null).getBool?))
  let g ← tbl "glob"
  let r ← tbl "rex"
  pure ⟨fun s => ((cf.find? (·.1 == s)).map (·.2)).getD s, lookup2 g, lookup2 r⟩

def create (j : Json) : Except String Json := do
  let c ← parseCase j
  let o ← parseOracles j
  let env := c.env
  let model := pathSetter o c.st env
  let spec := Spec.created o c.st c.tree
  let B := pathlibNorm c.spelling
  let listed := (listFiles o.cf B c.order).map fun it => jstr (walkStr B it.ent)
  return jobj [("model", resultJson model),
               ("spec", createdJson spec),
               ("modelEqSpec", jbool (model == .ok spec)),
               ("hyp", jbool (Spec.hypB env c.tree)),
               ("hypName", "cleanTree ∧ fileSpellOK ∧ nameOK ∧ listedExist ∧ order.isPerm"),
               ("hypParts", jobj [("cleanTree", jbool (Spec.cleanTree c.tree)),
                                  ("fileSpellOK", jbool (Spec.fileSpellOK env c.tree)),
                                  ("nameOK", jbool (Spec.nameOK env c.tree)),
                                  ("listedExist", jbool (Spec.listedExist env c.tree)),
                                  ("perm", jbool (c.order.isPerm c.tree.files))]),
               ("listed", jarr listed)]

/-- `Torrent.files = [File(path, size), …]` without patterns, in `cwd` on file system `fs`
    (correspondence only: the `files` setter is outside C15's statement) -/
def filesSet (j : Json) : Except String Json := do
  let cwd ← getStrs j "cwd"
  let fsj ← getArr j "fs"
  let fs ← fsj.mapM fun e => do
    let a ← e.getArr?
    let p ← (a[0]?.getD Json.null).getArr?
    let comps ← p.toList.mapM fun c => c.getStr?
    let sz : Option Nat := ((a[1]?.getD Json.null).getNat?).toOption
    pure (comps, sz)
  let ij ← getArr j "items"
  let items ← ij.mapM fun f => do
    let path ← getStrs f "path"
    let size ← getNat f "size"
    pure (path, size)
  let o : Oracles := ⟨id, fun _ _ => false, fun _ _ => false⟩
  return jobj [("model", resultJson (filesSetter o ⟨[], [], [], []⟩ cwd (fsExists fs cwd) items))]

/-! ### histories on one object (`c15.history`)

  The history family uses a pattern fragment the driver evaluates itself (no oracle tables, the
  strings matched depend on the whole history): ASCII names; wildcard patterns whose only special
  character is `*`; regular expressions `lit`, `^lit`, `lit$`, `^lit$` with `lit` free of special
  characters.  `casefold` on ASCII is `toLower`. -/

def globStar : List Char → List Char → Bool
  | [], [] => true
  | [], _ :: _ => false
  | '*' :: ps, [] => globStar ps []
  | '*' :: ps, t :: ts => globStar ps (t :: ts) || globStar ('*' :: ps) ts
  | _ :: _, [] => false
  | p :: ps, t :: ts => p == t && globStar ps ts
termination_by p t => p.length + t.length

def isInfixL (lit : List Char) : List Char → Bool
  | [] => lit.isEmpty
  | t :: ts => lit.isPrefixOf (t :: ts) || isInfixL lit ts

def rexSimple (pat text : String) : Bool :=
  let p := pat.toList
  let t := text.toList
  let pre := p.head? == some '^'
  let suf := p.getLast? == some '$'
  let lit := (if pre then p.drop 1 else p)
  let lit := if suf then lit.dropLast else lit
  if pre && suf then lit == t
  else if pre then lit.isPrefixOf t
  else if suf then lit.reverse.isPrefixOf t.reverse
  else isInfixL lit t

def simpleO : Oracles :=
  ⟨fun s => s.map Char.toLower, fun text pat => globStar pat.toList text.toList, rexSimple⟩

def parseFS (j : Json) : Except String FS := do
  let fsj ← getArr j "fs"
  fsj.mapM fun e => do
    let a ← e.getArr?
    let p ← (a[0]?.getD Json.null).getArr?
    let comps ← p.toList.mapM fun c => c.getStr?
    let sz : Option Nat := ((a[1]?.getD Json.null).getNat?).toOption
    pure (comps, sz)

/-- what `list_files` finds under a spelled path of the scratch file system -/
def fsListing (fs : FS) (cwd : Comps) (B : PPath) : Option (List FileEnt) :=
  let q := normpath true (if B.abs then B.comps else cwd ++ B.comps)
  match fs.find? (fun e => e.1 == q) with
  | some (_, some n) => some [⟨[], n⟩]
  | _ =>
    if fs.any (fun e => q.isPrefixOf e.1) then
      some (fs.filterMap fun e =>
        match e.2 with
        | some n => if q.isPrefixOf e.1 && e.1 != q then some ⟨e.1.drop q.length, n⟩ else none
        | none => none)
    else none

def parseSettings (stj : Json) : Except String Settings := do
  pure ⟨← getStrs stj "exg", ← getStrs stj "exr", ← getStrs stj "ing", ← getStrs stj "inr"⟩

def hstJson (s : HSt) (err : Option HErr) : Json :=
  jobj [("created", createdJson s.created),
        ("path", match s.path with | some B => jstr (strOf B) | none => Json.null),
        ("infoName", match s.infoName with | some n => jstr n | none => Json.null),
        ("reattached", jbool s.reattached),
        ("err", match err with
          | none => Json.null
          | some .read => jstr "ReadError"
          | some (.create .relativeTo) => jstr "ValueError"
          | some (.create .commonPath) => jstr "CommonPathError")]

def history (j : Json) : Except String Json := do
  let cwd ← getStrs j "cwd"
  let fs ← parseFS j
  let w : World := ⟨cwd, fsExists fs cwd, fsListing fs cwd⟩
  let opsj ← getArr j "ops"
  let ops ← opsj.mapM fun oj => do
    let k ← getStr oj "op"
    if k == "path" then
      match (oj.getObjValAs? String "sp").toOption with
      | some sp => pure (HOp.path (some (parse sp)))
      | none => pure (HOp.path none)
    else
      let st ← parseSettings (← oj.getObjVal? "st")
      pure (HOp.fire st)
  let tr := trace simpleO w HSt.init ops
  let states := tr.map fun (s, e) =>
    let fr := match s.path with
      | some B => let f := fresh simpleO w s.st B
                  jobj [("created", createdJson f.created),
                        ("infoName", match f.infoName with | some n => jstr n | none => Json.null)]
      | none => Json.null
    (hstJson s e).setObjVal! "fresh" fr
  return jobj [("states", jarr states)]

/-- the renaming theorem on a concrete tree: `rho` is a finite table, identity elsewhere -/
def opaqueOp (j : Json) : Except String Json := do
  let name ← getStr j "name"
  let fjs ← getArr j "files"
  let files ← fjs.mapM fun f => do
    let rel ← getStrs f "rel"
    let size ← getNat f "size"
    pure (⟨rel, size⟩ : FileEnt)
  let t : Tree := ⟨name, files⟩
  let st ← parseSettings (← j.getObjVal? "st")
  let st2 ← parseSettings (← j.getObjVal? "st2")
  let rj ← getArr j "rho"
  let tbl ← rj.mapM fun e => do
    let a ← e.getArr?
    pure ((← (a[0]?.getD Json.null).getStr?), (← (a[1]?.getD Json.null).getStr?))
  let ρ : String → String := fun s => ((tbl.find? (·.1 == s)).map (·.2)).getD s
  let o ← parseOracles j
  let lhs := Spec.created o st2 (Spec.renameTree ρ t)
  let rhs := Spec.renameCreated ρ (Spec.created o st t)
  return jobj [("opaque", jbool (Spec.opaqueB o o st st2 ρ t)),
               ("cleanRenamed", jbool (Spec.cleanTree (Spec.renameTree ρ t))),
               ("renamedSpec", createdJson lhs), ("specRenamed", createdJson rhs),
               ("eq", jbool (lhs == rhs))]

def handle (op : String) (j : Json) : Except String Json :=
  match op with
  | "c15.queries" => queries j
  | "c15.create" => create j
  | "c15.files" => filesSet j
  | "c15.history" => history j
  | "c15.opaque" => opaqueOp j
  | _ => throw s!"unknown op {op}"

end Driver.C15
