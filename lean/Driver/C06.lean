import Driver.Util
import Driver.PyJson
import Driver.C05
import Torf.Model.ReadStream
import Torf.Model.WriteInfo
import Torf.Spec.Span
open Lean Torf Torf.Bencode Torf.Codec Torf.ReadStream
namespace Driver.C06
open Driver.C05

-- `valueSpan` / `spanOf` are the specification in `Torf/Spec/Span.lean` (theorem `C06_span`)

/-- op `c06.export` : {m : metainfo as PyVal dict, vok} ↦ dump(), the bytes fed to SHA-1,
    canonical-form verdict of the strict parser, span of the `info` value in the dump -/
def exportOp (j : Json) : Except String Json := do
  let m ← getPy j "m"
  let vok ← getBool j "vok"
  let validate ← getBool j "validate"
  let env : Env := { fromTs := fun _ => none, validate := fun _ => vok }
  match m with
  | .dict md =>
    let d := dump env md validate
    let ib := infoBytes env md
    let (canonOk, span) : Bool × Json := match d with
      | .ok bs => (match parseStrict env.lim bs with
        | some (.dict kvs) => (true, jopt (fun (p : Nat × Nat) => jnats [p.1, p.2]) (valueSpan kInfo kvs 1))
        | _ => (false, Json.null))
      | .error _ => (true, Json.null)
    return jobj [("dump", jexc jhex d), ("infoBytes", jexc jhex ib),
                 ("canon", jbool canonOk), ("span", span), ("hyp", jbool (wf m))]
  | _ => throw "metainfo must be a dict"

/-- op `c06.hash` : {digest} ↦ hexdigest, infohash_base32, magnet xt, decoders' round trips -/
def hashOp (j : Json) : Except String Json := do
  let d ← getHex j "digest"
  let h := Base32.hexLower d
  let b32 := match Base32.b16decode (Base32.upper h) with
    | some d' => some (Base32.b32encode d')
    | none => none
  let str (b : Bytes) : Json := jstr (String.ofList (b.map fun c => Char.ofNat c.toNat))
  return jobj [("hex", str h),
               ("b32", jopt str b32),
               ("xt", jexc str (magnetXt (urnBtih ++ h))),
               ("b32dec", jopt jhex (b32.bind Base32.b32decode)),
               ("unhex", jopt jhex (Base32.unhexLower h)),
               ("hyp", jbool (d.length == 20))]

/-- op `c06.b32` : {x} ↦ b32encode(x), b32decode(b32encode(x)) -/
def b32Op (j : Json) : Except String Json := do
  let x ← getHex j "x"
  let e := Base32.b32encode x
  return jobj [("enc", jstr (String.ofList (e.map fun c => Char.ofNat c.toNat))),
               ("dec", jopt jhex (Base32.b32decode e))]

/-- ASCII string ↔ byte list (hash strings) -/
def asciiOf (s : String) : Bytes := s.toList.map fun c => UInt8.ofNat c.toNat
def strOf (b : Bytes) : Json := jstr (String.ofList (b.map fun c => Char.ofNat c.toNat))

/-- a digest function given as a finite table `[[bytes, digest], …]` (hex); `[]` elsewhere -/
def tableH (j : Json) : Except String (Bytes → Bytes) := do
  let rows ← getArr j "H"
  let tab ← rows.mapM fun r => do
    match r with
    | .arr #[.str a, .str b] => pure ((← unhex a), (← unhex b))
    | _ => throw "H: rows are [hex, hex]"
  return fun x => match tab.find? (fun p => p.1 == x) with
    | some p => p.2
    | none => []

/-- op `c06.history` : one object from `Magnet.torrent()` and what happens to it afterwards.
    {base16 : the magnet's hash as `_infohash_as_base16()` gives it, adopted : did the magnet hold
    downloaded metadata, stages : [{copy, m, vok, H}]}  ↦  per stage (after `copy()` if `copy`, then
    any changes that leave the metainfo `m`): the stored hash, `dump(validate=True/False)`, the three
    reports (model), and the specification: the span of `info` in the validated dump and the hex
    digest of exactly those bytes (theorems `C06_explicit_span_validated`, `C06_history`). -/
def historyOp (j : Json) : Except String Json := do
  let base16 := asciiOf (← getStr j "base16")
  let adopted ← getBool j "adopted"
  let stages ← getArr j "stages"
  let mut o : Obj := ofMagnet [] adopted base16
  let mut out : List Json := []
  for st in stages do
    let m ← getPy st "m"
    let vok ← getBool st "vok"
    let copy ← getBool st "copy"
    let H ← tableH st
    let env : Env := { fromTs := fun _ => none, validate := fun _ => vok }
    match m with
    | .dict md =>
      o := o.run ((if copy then [Step.copy] else []) ++ [Step.mutate md])
      let dT := dump env o.md true
      let dF := dump env o.md false
      let ib := infoBytes env o.md
      let infoIsDict := match PyVal.lookupStr "info" (ensureInfo o.md) with
        | some (.dict _) => true
        | _ => false
      let (canonOk, span, specHash) : Bool × Json × Json := match dT with
        | .ok bs => (match parseStrict env.lim bs, spanOf env.lim kInfo bs with
          | some (.dict _), some (off, len) =>
            (true, jnats [off, len], strOf (Base32.hexLower (H ((bs.drop off).take len))))
          | some (.dict _), none => (true, Json.null, Json.null)
          | _, _ => (false, Json.null, Json.null))
        | .error _ => (true, Json.null, Json.null)
      let source := match ib, o.explicit with
        | .ok _, _ => "calculated"
        | .error _, some _ => "stored"
        | .error _, none => "none"
      out := out ++ [jobj [
        ("explicit", jopt strOf o.explicit),
        ("dumpT", jexc jhex dT), ("dumpF", jexc jhex dF), ("infoBytes", jexc jhex ib),
        ("infohash", jexc strOf (o.infohash env H)),
        ("b32", jexc strOf (o.infohashBase32 env H)),
        ("xt", jexc strOf (o.magnetXt env H)),
        ("source", jstr source),
        ("canon", jbool canonOk), ("span", span), ("specHash", specHash),
        ("hyp", jbool (wf m && (!vok || infoIsDict)))]]
    | _ => throw "metainfo must be a dict"
  return jobj [("stages", jarr out)]

/-- op `c06.write` : {m, vok, validate, worlds : [{ov, kind : absent | file | other | dir, node : hex (file), existsAns, openErr?, quota?, closeErr?}]}
    ↦ per world: the outcome of `Torrent.write()` in the model (`WriteInfo.writeFile`: C17's effect model fed
    with this property's `dump`) and what is at the path afterwards.  Theorems `C06_write_exact_or_error`,
    `C06_write_short_is_error`, `C06_written_file`. -/
def writeOp (j : Json) : Except String Json := do
  let m ← getPy j "m"
  let vok ← getBool j "vok"
  let validate ← getBool j "validate"
  let env : Env := { fromTs := fun _ => none, validate := fun _ => vok }
  let worlds ← getArr j "worlds"
  match m with
  | .dict md =>
    let d := dump env md validate
    let outs ← worlds.mapM fun w => do
      let ov ← getBool w "ov"
      let node : Write.Node ← match (w.getObjValAs? String "kind").toOption with
        | some "file" => do pure (.file (← getHex w "node"))
        | some "other" => pure .other
        | some "dir" => pure .dir
        | _ => pure .absent
      let wenv : Write.Env := {
        existsAns := (← getBool w "existsAns"),
        openErr := (w.getObjValAs? Bool "openErr").toOption.getD false,
        quota := (w.getObjValAs? Nat "quota").toOption,
        closeErr := (w.getObjValAs? Bool "closeErr").toOption.getD false }
      let (r, t', _) := WriteInfo.writeFile env md validate ov { node := node, env := wenv }
      let res : Json := match r with
        | .ok () => jobj [("ok", Json.null)]
        | .error .metainfo => jobj [("err", jstr "metainfo")]
        | .error .write => jobj [("err", jstr "write")]
        | .error .value => jobj [("err", jstr "value")]
        | .error (.internal s) => jobj [("err", jstr ("internal:" ++ s))]
      let after : Json := match t'.node with
        | .file b => jhex b
        | _ => Json.null
      -- the specification (C06_write_exact_or_error): a normal return ⇒ the file is exactly the dump
      let specOk : Bool := match r, d, t'.node with
        | .ok (), .ok bs, .file b => b == bs
        | .ok (), _, _ => false
        | .error _, _, _ => true
      pure (jobj [("result", res), ("after", after), ("specOk", jbool specOk)])
    return jobj [("worlds", jarr outs), ("hyp", jbool (wf m))]
  | _ => throw "metainfo must be a dict"

def handle (op : String) (j : Json) : Except String Json :=
  match op with
  | "c06.export" => exportOp j
  | "c06.hash" => hashOp j
  | "c06.b32" => b32Op j
  | "c06.history" => historyOp j
  | "c06.write" => writeOp j
  | _ => throw s!"unknown op {op}"

end Driver.C06
