import Driver.Util
open Lean
namespace Driver.C06

/-- ops of property C06: `c06.<name>` -/
def handle (op : String) (_j : Json) : Except String Json :=
  throw s!"unknown op {op}"

end Driver.C06
