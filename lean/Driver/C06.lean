import Driver.Util
import Driver.PyJson
import Driver.C05
import Torf.Model.ReadStream
import Torf.Spec.Span
open Lean Torf Torf.Bencode Torf.Codec Torf.ReadStream
namespace Driver.C06
open Driver.C05

-- `valueSpan` / `spanOf` are the specification in `Torf/Spec/Span.lean` (theorem `C06_span`)

/-- op `c06.export` : {m : metainfo as PyVal dict, vok} ↦ dump(), the bytes fed to SHA-1,
    canonical-form verdict of the strict parser, span of the `info` value in the dump -/
def exportOp (j : Json) : Except String Json := do
  let m ← getPy j "m"
  let vok ← getBool j "vok"
  let validate ← getBool j "validate"
  let env : Env := { fromTs := fun _ => none, validate := fun _ => vok }
  match m with
  | .dict md =>
    let d := dump env md validate
    let ib := infoBytes env md
    let (canonOk, span) : Bool × Json := match d with
      | .ok bs => (match parseStrict env.lim bs with
        | some (.dict kvs) => (true, jopt (fun (p : Nat × Nat) => jnats [p.1, p.2]) (valueSpan kInfo kvs 1))
        | _ => (false, Json.null))
      | .error _ => (true, Json.null)
    return jobj [("dump", jexc jhex d), ("infoBytes", jexc jhex ib),
                 ("canon", jbool canonOk), ("span", span), ("hyp", jbool (wf m))]
  | _ => throw "metainfo must be a dict"

/-- op `c06.hash` : {digest} ↦ hexdigest, infohash_base32, magnet xt, decoders' round trips -/
def hashOp (j : Json) : Except String Json := do
  let d ← getHex j "digest"
  let h := Base32.hexLower d
  let b32 := match Base32.b16decode (Base32.upper h) with
    | some d' => some (Base32.b32encode d')
    | none => none
  let str (b : Bytes) : Json := jstr (String.ofList (b.map fun c => Char.ofNat c.toNat))
  return jobj [("hex", str h),
               ("b32", jopt str b32),
               ("xt", jexc str (magnetXt (urnBtih ++ h))),
               ("b32dec", jopt jhex (b32.bind Base32.b32decode)),
               ("unhex", jopt jhex (Base32.unhexLower h)),
               ("hyp", jbool (d.length == 20))]

/-- op `c06.b32` : {x} ↦ b32encode(x), b32decode(b32encode(x)) -/
def b32Op (j : Json) : Except String Json := do
  let x ← getHex j "x"
  let e := Base32.b32encode x
  return jobj [("enc", jstr (String.ofList (e.map fun c => Char.ofNat c.toNat))),
               ("dec", jopt jhex (Base32.b32decode e))]

def handle (op : String) (j : Json) : Except String Json :=
  match op with
  | "c06.export" => exportOp j
  | "c06.hash" => hashOp j
  | "c06.b32" => b32Op j
  | _ => throw s!"unknown op {op}"

end Driver.C06
