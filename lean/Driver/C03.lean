import Driver.Util
open Lean
namespace Driver.C03

/-- ops of property C03: `c03.<name>` -/
def handle (op : String) (_j : Json) : Except String Json :=
  throw s!"unknown op {op}"

end Driver.C03
