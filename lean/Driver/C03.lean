import Driver.Util
import Torf.Model.Pipeline
open Lean Torf.Pipeline
namespace Driver.C03

def parseTid (s : String) : Except String Tid :=
  if s == "main" then pure .main
  else if s == "reader" then pure .reader
  else if s == "janitor" then pure .janitor
  else if s.startsWith "hasher" then
    match (s.drop 6).toString.toNat? with
    | some (n + 1) => pure (.hasher n)
    | _ => throw s!"bad thread {s}"
  else throw s!"bad thread {s}"

def parseKind (s : String) : Except String ItemKind :=
  match s with
  | "data" => pure .data | "mismatch" => pure .mismatch | "nodata" => pure .nodata | "exc" => pure .exc
  | _ => throw s!"bad item kind {s}"

def parseDecision (s : String) : Except String Decision :=
  match s with
  | "pass" => pure .pass | "cancel" => pure .cancel | "raise" => pure .raise
  | _ => throw s!"bad decision {s}"

/-- cfg: {N, cap, items:[kind], readFault: n|null, refuse:[tid], raiseOnBad, cbByDone: [[done, decision], …]} -/
def parseCfg (j : Json) : Except String Cfg := do
  let N ← getNat j "N"
  let cap ← getNat j "cap"
  let items ← (← getArr j "items").mapM fun x => do parseKind (← x.getStr?)
  let rf := getOptNat j "readFault"
  let refuse ← (← getArr j "refuse").mapM fun x => do parseTid (← x.getStr?)
  let rob ← getBool j "raiseOnBad"
  let table ← (← getArr j "cbByDone").mapM fun x => do
    let a ← x.getArr?
    if h : a.size = 2 then return ((← a[0].getNat?), (← parseDecision (← a[1].getStr?)))
    else throw "cbByDone entry must be a pair"
  return { N := N, cap := cap, items := items, readFault := rf, refuse := refuse, raiseOnBad := rob,
           cb := fun _ done => (table.lookup done).getD .pass }

def tidStr : Tid → String
  | .main => "main" | .reader => "reader" | .janitor => "janitor" | .hasher i => s!"hasher{i+1}"

def excJson : Exc → Json
  | .cb d => jobj [("kind", "cb"), ("done", jnat d)]
  | .item k => jobj [("kind", "item"), ("piece", jnat k)]
  | .read => jobj [("kind", "read")]
  | .startRefused t => jobj [("kind", "startRefused"), ("thread", jstr (tidStr t))]
  | .assertion => jobj [("kind", "assertion")]
  | .index => jobj [("kind", "index")]

def resultJson : Option Result → Json
  | none => Json.null
  | some (.returned c) => jobj [("returned", jnats c)]
  | some (.raised e) => jobj [("raised", excJson e)]

def runningThreads (cfg : Cfg) (s : State) : List String :=
  (if s.rpc.running then ["reader"] else []) ++
  ((List.range cfg.N).filterMap fun i => if hasherRunning s i then some s!"hasher{i+1}" else none) ++
  (if s.jan.running then ["janitor"] else [])

/-- op `c03.replay`: replay a logged label sequence in the model.
    trace entries: [thread, op, decision, |pq|, |hq|, fin] (the last three may be null). -/
def replay (j : Json) : Except String Json := do
  let cfg ← parseCfg (← j.getObjVal? "cfg")
  let trace ← getArr j "trace"
  let mut s := init cfg
  let mut idx := 0
  let mut aliveAtReturn : Option (List String) := none
  for e in trace do
    let a ← e.getArr?
    if a.size < 3 then throw "trace entry too short"
    let tidS ← a[0]!.getStr?
    let op ← a[1]!.getStr?
    let dec ← a[2]!.getStr?
    let tid ← parseTid tidS
    let expected := opName s tid
    if expected != op then
      return jobj [("ok", jbool false), ("at", jnat idx), ("why", jstr "op-mismatch"),
                   ("modelOp", jstr expected), ("implOp", jstr op), ("thread", jstr tidS)]
    match step cfg s { tid := tid, timeout := dec == "timeout" } with
    | none =>
      return jobj [("ok", jbool false), ("at", jnat idx), ("why", jstr "not-enabled-in-model"),
                   ("thread", jstr tidS), ("implOp", jstr op), ("decision", jstr dec)]
    | some s' =>
      s := s'
      -- compare the state summary when the shim logged one
      if a.size ≥ 6 then
        match a[3]!.getNat?, a[4]!.getNat?, a[5]!.getBool? with
        | .ok pq, .ok hq, .ok fin =>
          if pq != s.pq.length || hq != s.hq.length || fin != s.fin then
            return jobj [("ok", jbool false), ("at", jnat idx), ("why", jstr "state-mismatch"),
                         ("model", jobj [("pq", jnat s.pq.length), ("hq", jnat s.hq.length), ("fin", jbool s.fin)]),
                         ("impl", jobj [("pq", jnat pq), ("hq", jnat hq), ("fin", jbool fin)]),
                         ("thread", jstr tidS), ("implOp", jstr op)]
        | _, _, _ => pure ()
      if terminal s && aliveAtReturn.isNone then
        aliveAtReturn := some (runningThreads cfg s)
    idx := idx + 1
  return jobj [("ok", jbool true), ("terminal", jbool (terminal s)),
               ("result", resultJson (result? s)),
               ("aliveAtReturn", match aliveAtReturn with | some l => jarr (l.map jstr) | none => Json.null),
               ("running", jarr ((runningThreads cfg s).map jstr)),
               ("stop", jbool s.stop), ("seen", jnats s.seen), ("collected", jnats s.collected),
               ("pushed", jnat ((s.seen.length) + (s.hq.filterMap id).length + (s.pq.filterMap id).length +
                  (s.hs.filter fun h => match h with | .holding _ => true | _ => false).length))]

end Driver.C03
