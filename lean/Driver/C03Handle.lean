import Driver.C03Explore
open Lean
namespace Driver.C03

def handle (op : String) (j : Json) : Except String Json :=
  match op with
  | "c03.replay" => replay j
  | "c03.explore" => exploreOp j
  | _ => throw s!"unknown op {op}"

end Driver.C03
