import Driver.Util
import Driver.PyJson
import Torf.Model.ReadStream
import Torf.Spec.RoundTrip
import Torf.Model.Depth
import Torf.Model.Clock
import Torf.Model.History
open Lean Torf Torf.Bencode Torf.Codec Torf.ReadStream Torf.Depth
namespace Driver.C05

def errName : Err → String
  | .value => "value" | .metainfo => "metainfo" | .bdecode => "bdecode" | .read => "read"
  | .magnet => "magnet"

def jexc (f : α → Json) : Except Err α → Json
  | .ok a => jobj [("ok", f a)]
  | .error e => jobj [("err", jstr (errName e))]

def bvalJson (v : BVal) : Json := pyToJson (raw v)
def jhex (b : Bytes) : Json := jstr (hexOf b)

-- `utf8Keys` (every dict key valid UTF-8, at every level) is `Torf.ReadStream.utf8Keys` in
-- `Torf/Spec/RoundTrip.lean`, the hypothesis of `C05_enc_dec` / `C05_dump_read`

/-- the process clock at the document's creation date, as measured by the harness in the worker's
    time zone: `local` = `datetime.fromtimestamp(i)` as [wall seconds, fold] (null = it raises),
    `stamp` = `int(that.timestamp())` (null = it raises) -/
def mkClock (c : Json) : Except String (Clock.Clock Clock.Naive) := do
  let l := c.getObjValD "local"
  let loc : Option Clock.Naive ← if l.isNull then pure none else do
    let a ← l.getArr?
    if h : a.size = 2 then
      let w ← (a[0]).getInt?
      let f ← (a[1]).getInt?
      pure (some (w, f != 0))
    else throw "clock.local must be [wall, fold]"
  let st := c.getObjValD "stamp"
  let stamp : Option Int ← if st.isNull then pure none else some <$> (do parseInt (← st.getStr?))
  return { «local» := fun _ => loc, stamp := fun _ => stamp }

def mkEnv (j : Json) : Except String Env := do
  let vok ← getBool j "vok"
  let ck := j.getObjValD "clock"
  if !ck.isNull then
    -- setter and encoder as the explicit pair (Torf.Model.Clock)
    return Clock.envOf (← mkClock ck) (fun _ => vok)
  let cd := j.getObjValD "cd"
  let d : Option PyVal ← if cd.isNull then pure none else some <$> pyOfJson cd
  return { fromTs := fun _ => d, validate := fun _ => vok }

/-- is the measured clock lawful at the document's creation date (`Clock.lawfulAt`) -/
def lawfulFlag (j : Json) : Except String Json := do
  let ck := j.getObjValD "clock"
  if ck.isNull then return Json.null
  let i := ck.getObjValD "i"
  if i.isNull then return Json.null
  return jbool ((← mkClock ck).lawfulAt (← parseInt (← i.getStr?)))

/-- op `c05.parse` : {x} ↦ model = flatbencode.decode(x) (value or null), strict = accepted by
    the conforming parser -/
def parseOp (j : Json) : Except String Json := do
  let x ← getHex j "x"
  let r := parsePy x
  return jobj [("model", jopt bvalJson r),
               ("strict", jbool (parseStrict pyMaxDigits x).isSome),
               ("reser", jopt (fun v => jhex (ser v)) r)]

/-- hypotheses of C05_dump_read evaluated on the strict parse of `x` -/
def hypOf (env : Env) (x : Bytes) : Bool × List (String × Json) :=
  match parseStrict env.lim x with
  | some (.dict enc) =>
    let keysOk := utf8Keys (.dict enc)
    let info := lookup kInfo enc
    let privOk := match info with
      | some (.dict ikvs) => match lookup kPrivate ikvs with
        | some (.int 0) => true | some (.int 1) => true | some _ => false | none => true
      | _ => true
    let piecesOk := match info with
      | some (.dict ikvs) => match lookup kPieces ikvs with
        | some (.bytes _) => true | some _ => false | none => true
      | _ => true
    let dateOk := match lookup kCreationDate enc with
      | some (.int i) => (match env.fromTs i with | some (.datetime (some t)) => t == i | _ => false)
      | some _ => false
      | none => true
    (keysOk && privOk && piecesOk && dateOk,
     [("canon", jbool true), ("utf8keys", jbool keysOk), ("privateOk", jbool privOk),
      ("piecesOk", jbool piecesOk), ("dateOk", jbool dateOk)])
  | _ => (false, [("canon", jbool false)])

/-- op `c05.roundtrip` : {x, validate, vok, cd} ↦ read_stream(x, validate) and, on success,
    dump(validate) / the bytes fed to SHA-1 / a second read of the dump -/
def roundtrip (j : Json) : Except String Json := do
  let x ← getHex j "x"
  let validate ← getBool j "validate"
  let env ← mkEnv j
  let (hyp, flags) := hypOf env x
  let r := read env x validate
  let fields : List (String × Json) :=
    match r with
    | .error e => [("read", jobj [("err", jstr (errName e))])]
    | .ok md =>
      let d := dump env md validate
      let second : Json := match d with
        | .ok y => (match read env y validate with
          | .ok md' => jobj [("ok", pyToJson (.dict md'))]
          | .error e => jobj [("err", jstr (errName e))])
        | .error _ => Json.null
      [("read", jobj [("ok", pyToJson (.dict md))]),
       ("dump", jexc jhex d),
       ("infoBytes", jexc jhex (infoBytes env md)),
       ("second", second)]
  return jobj (fields ++ [("hyp", jbool hyp), ("flags", jobj flags), ("spec", jhex x),
                          ("lawful", ← lawfulFlag j)])

/-- op `c05.codec` : {x} ↦ decode_dict / encode_dict round trip on the parsed value -/
def codec (j : Json) : Except String Json := do
  let x ← getHex j "x"
  match parsePy x with
  | some v =>
    let d := decodeValue v
    let e := encodeValue d
    return jobj [("decoded", pyToJson d), ("encoded", jexc bvalJson e),
                 ("same", jbool (match e with | .ok v' => beq v' v | _ => false)),
                 ("hyp", jbool (canon v && utf8Keys v))]
  | none => return jobj [("decoded", Json.null)]


/-- frame costs measured by the harness on the code under test -/
def getCost (j : Json) : Except String Cost := do
  let c ← j.getObjVal? "cost"
  return { dv := ← getNat c "dv", dl := ← getNat c "dl", dd := ← getNat c "dd", abc := ← getNat c "abc",
           ev0 := ← getNat c "ev0", ev := ← getNat c "ev", el := ← getNat c "el", ed := ← getNat c "ed",
           es := ← getNat c "es", edt := ← getNat c "edt", ebool := ← getNat c "ebool",
           gen := ← getNat c "gen", genx := ← getNat c "genx", enc0 := ← getNat c "enc0",
           rd := ← getNat c "rd", dp := ← getNat c "dp", dps := ← getNat c "dps", ih := ← getNat c "ih",
           rdf := ← getNat c "rdf", wrf := ← getNat c "wrf" }

/-- op `c05.depth` : {x, validate, vok, cd, cost, B, sl, se} ↦ the budget-limited models
    (`Torf.Model.Depth`): frames needed by the reader / the writer / the info hash, and what
    `read_stream`, `dump`, `infohash`, `read(path)`, `write(path)` do with `B` frames left;
    `dumpSlack` = `dump` with `B + sl + se` frames (what `C05_depth_dump_read` promises),
    `rel` = does the measured cost satisfy `Rel C sl se` -/
def depthOp (j : Json) : Except String Json := do
  let x ← getHex j "x"
  let validate ← getBool j "validate"
  let env ← mkEnv j
  let C ← getCost j
  let B ← getNat j "B"
  let sl ← getNat j "sl"
  let se ← getNat j "se"
  let (hyp, flags) := hypOf env x
  let rneed : Json := match parse env.lim x with
    | some (.dict enc) => jnat (readNeed C enc)
    | _ => Json.null
  let r := readB C B env x validate
  let fields : List (String × Json) :=
    match r with
    | .error e => [("read", jobj [("err", jstr (errName e))])]
    | .ok md =>
      [("read", jobj [("ok", Json.null)]),
       ("dumpNeed", jnat (dumpNeed C md)), ("infoNeed", jnat (infoNeed C md)),
       ("dump", jexc jhex (dumpB C B env md validate)),
       ("dumpSlack", jexc jhex (dumpB C (B + sl + se) env md validate)),
       ("infoBytes", jexc jhex (infoBytesB C B env md))]
  let ffields : List (String × Json) :=
    match readFileB C B env x validate with
    | .error e => [("readFile", jobj [("err", jstr (errName e))])]
    | .ok md => [("readFile", jobj [("ok", Json.null)]),
                 ("writeFile", jexc jhex (writeFileB C B env md validate))]
  return jobj (fields ++ ffields ++
    [("readNeed", rneed), ("rel", jbool (relOk C sl se)), ("hyp", jbool hyp), ("flags", jobj flags)])

/-- hypotheses of `C05_read_dump` / `C05_history_roundtrip` on a metainfo value, evaluated -/
def stageHyp (env : Env) (md : List (PyVal × PyVal)) : Bool × List (String × Json) :=
  let t := ensureInfo md
  let wfOk := wf (.dict t)
  let info := PyVal.lookupStr "info" t
  let infoOk := match info with | some (.dict _) => true | _ => false
  let piecesOk := match info with
    | some (.dict ikvs) => (match PyVal.lookupStr "pieces" ikvs with
      | some m => (match encodeValue m with | .ok (.bytes _) => true | _ => false)
      | none => true)
    | _ => true
  let privOk := match info with
    | some (.dict ikvs) => (match PyVal.lookupStr "private" ikvs with
      | some m => (match encodeValue m with | .ok (.int 0) => true | .ok (.int 1) => true | _ => false)
      | none => true)
    | _ => true
  let dateOk := match PyVal.lookupStr "creation date" t with
    | some m => (match encodeValue m with
      | .ok (.int i) => (match env.fromTs i with | some (.datetime (some j)) => j == i | _ => false)
      | _ => false)
    | none => true
  (wfOk && infoOk && piecesOk && privOk && dateOk,
   [("wf", jbool wfOk), ("infoDict", jbool infoOk), ("piecesOk", jbool piecesOk),
    ("privateOk", jbool privOk), ("dateOk", jbool dateOk)])

/-- op `c05.stage` : {md, vok, cd | clock} ↦ the exports of an object whose metainfo is `md`, as
    functions of that value alone (`Torf.Model.History.exportOf`): dump(validate=True/False), the
    bytes the info hash is the SHA-1 of, and the round trip of the validated dump (second read,
    its dump, its info bytes) -/
def stageOp (j : Json) : Except String Json := do
  let mdv ← pyOfJson (← j.getObjVal? "md")
  let env ← mkEnv j
  match mdv with
  | .dict md =>
    let (hyp, flags) := stageHyp env md
    let H : Bytes → Bytes := id
    let d := History.exportOf env H (.dump true) md
    let dnv := History.exportOf env H (.dump false) md
    let ib := infoBytes env md
    let second : List (String × Json) := match d with
      | .ok y => (match read env y true with
        | .ok md' => [("second", jobj [("ok", Json.null)]),
                      ("secondDump", jexc jhex (dump env md' true)),
                      ("secondInfoBytes", jexc jhex (infoBytes env md'))]
        | .error e => [("second", jobj [("err", jstr (errName e))])])
      | .error _ => []
    return jobj ([("dump", jexc jhex d), ("dumpNV", jexc jhex dnv), ("infoBytes", jexc jhex ib),
                  ("hyp", jbool hyp), ("flags", jobj flags)] ++ second)
  | _ => throw "md must be a dict"

def handle (op : String) (j : Json) : Except String Json :=
  match op with
  | "c05.parse" => parseOp j
  | "c05.roundtrip" => roundtrip j
  | "c05.codec" => codec j
  | "c05.depth" => depthOp j
  | "c05.stage" => stageOp j
  | _ => throw s!"unknown op {op}"

end Driver.C05
