import Driver.Util
open Lean
namespace Driver.C05

/-- ops of property C05: `c05.<name>` -/
def handle (op : String) (_j : Json) : Except String Json :=
  throw s!"unknown op {op}"

end Driver.C05
