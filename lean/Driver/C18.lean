import Driver.Util
import Torf.Spec.Reuse
open Lean Torf Torf.Reuse
namespace Driver.C18

def getStrs (j : Json) (k : String) : Except String (List String) :=
  (·.toList) <$> j.getObjValAs? (Array String) k

def parseFile (j : Json) : Except String FileEnt := do
  return ⟨← getStrs j "path", ← getNat j "size"⟩

def parseCand (j : Json) : Except String Cand := do
  return ⟨← getStr j "name", ← getBool j "single", ← (← getArr j "files").mapM parseFile,
          ← getNat j "pl", ← getStrs j "hashes"⟩

def parseLocal (j : Json) : Except String LocalPiece :=
  match j with
  | Json.str "missing" => pure .missing
  | Json.str "sizeError" => pure .sizeError
  | Json.str "readError" => pure .readError
  | Json.str h => pure (.hash h)
  | _ => throw "bad local piece"

def parseItem (j : Json) : Except String Item := do
  let kind ← getStr j "kind"
  match kind with
  | "pathError" => return .pathError
  | "unreadable" => return .file .unreadable fun _ => .missing
  | "undecodable" => return .file .undecodable fun _ => .missing
  | "invalid" => return .file .invalid fun _ => .missing
  | "torrent" =>
    let c ← parseCand (← j.getObjVal? "cand")
    let loc ← (← getArr j "loc").mapM parseLocal
    return .file (.torrent c) fun i => loc.getD i .missing
  | _ => throw s!"unknown item kind {kind}"

def errJson : Err → Json
  | .read => jstr "read"
  | .bdecode => jstr "bdecode"
  | .metainfo => jstr "metainfo"
  | .verifyFileSize => jstr "verifyFileSize"
  | .assertion => jstr "internal:AssertionError"
  | .internal s => jstr s!"internal:{s}"

def resJson : Res → Json
  | .ok b => jobj [("ok", jbool b)]
  | .raised e => jobj [("raised", errJson e)]

def matchJson : Option Bool → Json
  | none => Json.null
  | some b => jbool b

def callJson (c : Call) : Json :=
  jarr [jnat c.item, jnat c.done, jnat c.total, matchJson c.isMatch, jopt errJson c.exc]

def fileJson (f : FileEnt) : Json := jarr [jarr (f.path.map jstr), jnat f.size]

def torJson (t : Tor) : Json :=
  jobj [("pl", jnat t.pieceLength), ("pieces", jopt (fun hs => jarr (hs.map jstr)) t.pieces),
        ("files", jarr (t.files.map fileJson)), ("name", jstr t.name)]

def plain (s : String) : Bool := s != "" && s != "." && s != ".." && !s.contains '/'

/-- hypothesis of the theorems / of model = spec: well-formed layouts on both sides (non-empty
    files, pairwise distinct joined paths, multi-file entries have at least one component) -/
def wfLayout (name : String) (single : Bool) (files : List FileEnt) : Bool :=
  files.all (fun f => f.size != 0) && !files.isEmpty &&
  (files.map (joined name)).eraseDups.length == files.length &&
  (if single then files.length == 1 && files.all (fun f => f.path.isEmpty)
   else files.all (fun f => !f.path.isEmpty && f.path.all (· != "")))

def itemInfo (t : Tor) (it : Item) : Json :=
  match it with
  | .file (.torrent c) loc =>
    jobj [("acceptable", jbool (acceptable t c loc)), ("faithful", jbool (faithful t c loc)),
          ("wf", jbool (wfLayout c.name c.single c.files)),
          ("samples", jnats (specSamples c)),
          ("fileMatch", match isFileMatch t c with | .ok b => jbool b | .error _ => Json.null)]
  | _ => jobj [("acceptable", jbool false), ("faithful", jbool false), ("wf", jbool true)]

/-- op `c18.reuse` : {t, items, cb : null | [[item, isMatch]…] (calls that cancel), elapsed}
    ↦ model (result, torrent afterwards, callback trace); per item the spec's verdicts
    (acceptable, faithful); mustFind (premise of completeness); hyp -/
def reuseOp (j : Json) : Except String Json := do
  let tj ← j.getObjVal? "t"
  let pieces : Option (List Digest) := (getStrs tj "pieces").toOption
  let t : Tor := ⟨← getStr tj "name", ← getBool tj "single", ← (← getArr tj "files").mapM parseFile,
                  ← getNat tj "pl", pieces, ← getNat tj "plMin", ← getNat tj "plMax"⟩
  let items ← (← getArr j "items").mapM parseItem
  let elapsed ← getBool j "elapsed"
  let cbj ← j.getObjVal? "cb"
  let cb : Callback ← match cbj with
    | Json.null => pure none
    | _ => do
      let stops ← (← getArr j "cb").mapM fun s => do
        let a ← s.getArr?
        let it ← (a[0]!).getNat?
        let m : Option Bool := match a[1]! with
          | Json.bool b => some b
          | _ => none
        pure (it, m)
      pure (some fun c => stops.contains (c.item, c.isMatch))
  let r := reuse t items cb elapsed
  let hyp := wfLayout t.name t.single t.files &&
    items.all fun it => match it with
      | .file (.torrent c) _ => wfLayout c.name c.single c.files
      | _ => true
  return jobj [("model", jobj [("res", resJson r.1), ("after", torJson r.2.1),
                               ("calls", jarr (r.2.2.map callJson))]),
               ("items", jarr (items.map (itemInfo t))),
               ("mustFind", jbool (mustFind t cb.isSome items)),
               ("total", jnat (total items)),
               ("hyp", jbool hyp)]

def handle (op : String) (j : Json) : Except String Json :=
  match op with
  | "c18.reuse" => reuseOp j
  | _ => throw s!"unknown op {op}"

end Driver.C18
