import Driver.Util
import Torf.Spec.Reuse
import Torf.Model.ReuseSearch
import Torf.Model.ReuseHistory
open Lean Torf Torf.Reuse
namespace Driver.C18

def getStrs (j : Json) (k : String) : Except String (List String) :=
  (·.toList) <$> j.getObjValAs? (Array String) k

def parseFile (j : Json) : Except String FileEnt := do
  return ⟨← getStrs j "path", ← getNat j "size"⟩

def parseCand (j : Json) : Except String Cand := do
  return ⟨← getStr j "name", ← getBool j "single", ← (← getArr j "files").mapM parseFile,
          ← getNat j "pl", ← getStrs j "hashes", (getBool j "bytesPath").toOption.getD false⟩

def parseLocal (j : Json) : Except String LocalPiece :=
  match j with
  | Json.str "missing" => pure .missing
  | Json.str "sizeError" => pure .sizeError
  | Json.str "readError" => pure .readError
  | Json.str h => pure (.hash h)
  | _ => throw "bad local piece"

def parseItem (j : Json) : Except String Item := do
  let kind ← getStr j "kind"
  match kind with
  | "pathError" => return .pathError
  | "unreadable" => return .file .unreadable fun _ => .missing
  | "undecodable" => return .file .undecodable fun _ => .missing
  | "invalid" => return .file .invalid fun _ => .missing
  | "torrent" =>
    let c ← parseCand (← j.getObjVal? "cand")
    let loc ← (← getArr j "loc").mapM parseLocal
    return .file (.torrent c) fun i => loc.getD i .missing
  | _ => throw s!"unknown item kind {kind}"

def errJson : Err → Json
  | .read => jstr "read"
  | .bdecode => jstr "bdecode"
  | .metainfo => jstr "metainfo"
  | .verifyFileSize => jstr "verifyFileSize"
  | .assertion => jstr "internal:AssertionError"
  | .internal s => jstr s!"internal:{s}"

def resJson : Res → Json
  | .ok b => jobj [("ok", jbool b)]
  | .raised e => jobj [("raised", errJson e)]

def matchJson : Option Bool → Json
  | none => Json.null
  | some b => jbool b

def callJson (c : Call) : Json :=
  jarr [jnat c.item, jnat c.done, jnat c.total, matchJson c.isMatch, jopt errJson c.exc]

def fileJson (f : FileEnt) : Json := jarr [jarr (f.path.map jstr), jnat f.size]

def torJson (t : Tor) : Json :=
  jobj [("pl", jnat t.pieceLength), ("pieces", jopt (fun hs => jarr (hs.map jstr)) t.pieces),
        ("files", jarr (t.files.map fileJson)), ("name", jstr t.name)]

def plain (s : String) : Bool := s != "" && s != "." && s != ".." && !s.contains '/'

/-- hypothesis of the theorems / of model = spec: well-formed layouts on both sides (a non-empty
    single file; zero-length entries only in multi-file lists; pairwise distinct joined paths,
    multi-file entries have at least one component) -/
def wfLayout (name : String) (single : Bool) (files : List FileEnt) : Bool :=
  (!single || files.all (fun f => f.size != 0)) && !files.isEmpty &&
  (files.map (joined name)).eraseDups.length == files.length &&
  (if single then files.length == 1 && files.all (fun f => f.path.isEmpty)
   else files.all (fun f => !f.path.isEmpty && f.path.all (· != "")))

def itemInfo (t : Tor) (it : Item) : Json :=
  match it with
  | .file (.torrent c) loc =>
    jobj [("acceptable", jbool (acceptable t c loc)), ("faithful", jbool (faithful t c loc)),
          ("wf", jbool (wfLayout c.name c.single c.files && wfCand t c)),
          ("samples", jnats (specSamples c)),
          ("fileMatch", match isFileMatch t c with | .ok b => jbool b | .error _ => Json.null)]
  | _ => jobj [("acceptable", jbool false), ("faithful", jbool false), ("wf", jbool true)]

/-- op `c18.reuse` : {t, items, cb : null | [[item, isMatch]…] (calls that cancel), elapsed}
    ↦ model (result, torrent afterwards, callback trace); per item the spec's verdicts
    (acceptable, faithful); mustFind (premise of completeness); hyp -/
def reuseOp (j : Json) : Except String Json := do
  let tj ← j.getObjVal? "t"
  let pieces : Option (List Digest) := (getStrs tj "pieces").toOption
  let t : Tor := ⟨← getStr tj "name", ← getBool tj "single", ← (← getArr tj "files").mapM parseFile,
                  ← getNat tj "pl", pieces, ← getNat tj "plMin", ← getNat tj "plMax"⟩
  let items ← (← getArr j "items").mapM parseItem
  let elapsed ← getBool j "elapsed"
  let cbj ← j.getObjVal? "cb"
  let cb : Callback ← match cbj with
    | Json.null => pure none
    | _ => do
      let stops ← (← getArr j "cb").mapM fun s => do
        let a ← s.getArr?
        let it ← (a[0]!).getNat?
        let m : Option Bool := match a[1]! with
          | Json.bool b => some b
          | _ => none
        pure (it, m)
      pure (some fun c => stops.contains (c.item, c.isMatch))
  let r := reuse t items cb elapsed
  let hyp := wfLayout t.name t.single t.files && wfTor t &&
    items.all fun it => match it with
      | .file (.torrent c) _ => wfCand t c && (wfLayout c.name c.single c.files || !fileIdentity t c)
      | _ => true
  return jobj [("model", jobj [("res", resJson r.1), ("after", torJson r.2.1),
                               ("calls", jarr (r.2.2.map callJson))]),
               ("items", jarr (items.map (itemInfo t))),
               ("mustFind", jbool (mustFind t cb.isSome items)),
               ("total", jnat (total items)),
               ("hyp", jbool hyp)]

/-! ### search over an abstract file system -/

def parseNode (j : Json) : Except String Node := do
  let k ← getStr j "k"
  match k with
  | "f" => return .file (← getNat j "size") (← getBool j "r") (← getNat j "c")
  | "d" =>
    let es ← (← getArr j "e").mapM fun e => do
      let a ← e.getArr?
      let n ← (a[0]!).getStr?
      let i ← (a[1]!).getNat?
      pure (n, i)
    return .dir (← getBool j "r") (← getBool j "x") es
  | "l" => return .link (Torf.Paths.parse (← getStr j "t"))
  | _ => throw s!"unknown node kind {k}"

/-- well-formed inode table: the root is a directory; entries have plain, pairwise distinct names
    and point into the table -/
def wfFS (fs : FS) : Bool :=
  (match fs[0]? with | some (Node.dir ..) => true | _ => false) &&
  fs.all fun (n : Node) => match n with
    | .dir _ _ es => es.all (fun e => plain e.1 && decide (e.2 < fs.length)) &&
        (es.map (·.1)).eraseDups.length == es.length
    | .link t => !(t.comps.isEmpty) && (t.abs || t.comps.headD "" != "")
    | _ => true

def foundPath : Found → Option String
  | .tfile p _ => some (Torf.Paths.strOf p)
  | _ => none

def foundJson (w : World) : Found → Json
  | .pathError p => jobj [("kind", jstr "pathError"), ("path", Json.null), ("errpath", jstr (Torf.Paths.strOf p))]
  | .tfile p ok =>
    let (cid, readable) : Nat × Bool := match resolve w p with
      | .ok (.file ino) => (match w.fs[ino]? with
        | some (.file _ r c) => (c, r)
        | _ => (0, false))
      | _ => (0, false)
    jobj [("kind", jstr "file"), ("path", jstr (Torf.Paths.strOf p)), ("statOk", jbool ok),
          ("cid", jnat cid), ("readable", jbool readable)]
  | .overflow => jobj [("kind", jstr "overflow"), ("path", Json.null)]

def pathCallJson (paths : Array (Option String)) (c : Call) : Json :=
  jarr [jopt jstr (paths.getD c.item none), jnat c.done, jnat c.total, matchJson c.isMatch, jopt errJson c.exc]

def parseTor (tj : Json) : Except String Tor := do
  let pieces : Option (List Digest) := (getStrs tj "pieces").toOption
  return ⟨← getStr tj "name", ← getBool tj "single", ← (← getArr tj "files").mapM parseFile,
          ← getNat tj "pl", pieces, ← getNat tj "plMin", ← getNat tj "plMax"⟩

/-- one `reuse(paths)` call of the object `t` in the world described by `j`; also returns the
    torrent afterwards (for histories) -/
def reusePathsCore (t : Tor) (j : Json) : Except String (Json × Tor) := do
  let fs ← (← getArr j "fs").mapM parseNode
  let contents := (← (← getArr j "contents").mapM parseItem).toArray
  let content : Nat → ReadOutcome × (Nat → LocalPiece) := fun i =>
    match contents.getD i .pathError with
    | .file r loc => (r, loc)
    | .pathError => (.unreadable, fun _ => .missing)
  let w0 : World := ⟨fs, [], ← getNat j "maxSize", content⟩
  let cwdStack ← match resolve w0 (Torf.Paths.parse (← getStr j "cwd")) with
    | .ok (.dir st) => pure st
    | _ => throw "cwd does not resolve to a directory of the table"
  let w : World := { w0 with cwd := cwdStack }
  let paths := (← getStrs j "paths").map Torf.Paths.parse
  let fuel ← getNat j "fuel"
  let elapsed ← getBool j "elapsed"
  let found := searchFound w fuel paths
  let overflow := found.contains .overflow
  let shown := found.filter (· != .overflow)
  let items := searchItems w fuel paths
  let ipaths := (shown.map foundPath).toArray
  let cbj ← j.getObjVal? "cb"
  let cb : Callback ← match cbj with
    | Json.null => pure none
    | _ => do
      let stops ← (← getArr j "cb").mapM fun s => do
        let a ← s.getArr?
        let p : Option String := (a[0]!).getStr?.toOption
        let m : Option Bool := match a[1]! with
          | Json.bool b => some b
          | _ => none
        pure (p, m)
      pure (some fun c => stops.contains (ipaths.getD c.item none, c.isMatch))
  let r := reusePaths t w fuel paths cb elapsed
  -- history independence (C18_history_independent), evaluated: the same call on the object
  -- without hashes; and what a decider that trusts the carried hashes would answer
  -- (an object without hashes is its own `forget`, up to the piece length, and the shortcut never fires)
  let rf := if t.pieces.isNone then r else reusePaths (forget t 0) w fuel paths cb elapsed
  let rm := if overflow || t.pieces.isNone then r else reuseWith isContentMatchMemo t items cb elapsed
  let hyp := wfFS fs && !overflow && wfLayout t.name t.single t.files && wfTor t &&
    items.all fun it => match it with
      | .file (.torrent c) _ => wfCand t c && (wfLayout c.name c.single c.files || !fileIdentity t c)
      | _ => true
  return (jobj [("model", jobj [("res", resJson r.1), ("after", torJson r.2.1),
                               ("calls", jarr (r.2.2.map (pathCallJson ipaths)))]),
               ("found", jarr (shown.map (foundJson w))),
               ("items", jarr (items.map (itemInfo t))),
               ("mustFind", jbool (mustFind t cb.isSome items)),
               ("total", jnat (total items)),
               ("overflow", jbool overflow),
               ("freshSame", jbool (rf.1 == r.1 && rf.2.2 == r.2.2 &&
                                     (r.1 != .ok true || (torJson rf.2.1).compress == (torJson r.2.1).compress))),
               ("memoRes", resJson rm.1),
               ("hyp", jbool hyp)], r.2.1)

/-- op `c18.reusePaths` : {t, fs : inode table, cwd, paths : spellings, contents : item per content id,
    cb : null | [[path | null, isMatch]…] (calls that cancel), elapsed, fuel, maxSize}
    ↦ what the model's search yields (spellings), the model's result / torrent / callback trace,
    the spec's verdicts per yielded item, mustFind, hyp -/
def reusePathsOp (j : Json) : Except String Json := do
  let t ← parseTor (← j.getObjVal? "t")
  return (← reusePathsCore t j).1

/-- op `c18.history` : {t : the object as made, ops : [{k: generate, hashes} | {k: setPieces, pieces | null}
    | {k: setPl, pl} | {k: repath} | {k: reuse, …world as for c18.reusePaths…}]}
    ↦ per operation the torrent afterwards and, for a reuse, the reply of `c18.reusePaths` -/
def historyOp (j : Json) : Except String Json := do
  let t0 ← parseTor (← j.getObjVal? "t")
  let ops ← getArr j "ops"
  let mut t := t0
  let mut out : Array Json := #[]
  for o in ops do
    let k ← getStr o "k"
    match k with
    | "generate" =>
      t := (stepWith isContentMatch t0 t (.generate (← getStrs o "hashes"))).1
      out := out.push (jobj [("after", torJson t)])
    | "setPieces" =>
      t := (stepWith isContentMatch t0 t (.setPieces (getStrs o "pieces").toOption)).1
      out := out.push (jobj [("after", torJson t)])
    | "setPl" =>
      t := (stepWith isContentMatch t0 t (.setPieceLength (← getNat o "pl"))).1
      out := out.push (jobj [("after", torJson t)])
    | "repath" =>
      t := (stepWith isContentMatch t0 t .repath).1
      out := out.push (jobj [("after", torJson t)])
    | "reuse" =>
      let (rep, t') ← reusePathsCore t o
      t := t'
      out := out.push (jobj [("after", torJson t), ("reuse", rep)])
    | _ => throw s!"unknown history op {k}"
  return jobj [("steps", Json.arr out)]

def handle (op : String) (j : Json) : Except String Json :=
  match op with
  | "c18.reuse" => reuseOp j
  | "c18.reusePaths" => reusePathsOp j
  | "c18.history" => historyOp j
  | _ => throw s!"unknown op {op}"

end Driver.C18
