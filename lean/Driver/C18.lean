import Driver.Util
open Lean
namespace Driver.C18

/-- ops of property C18: `c18.<name>` -/
def handle (op : String) (_j : Json) : Except String Json :=
  throw s!"unknown op {op}"

end Driver.C18
