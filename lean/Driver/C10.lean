import Driver.Util
open Lean
namespace Driver.C10

/-- ops of property C10: `c10.<name>` -/
def handle (op : String) (_j : Json) : Except String Json :=
  throw s!"unknown op {op}"

end Driver.C10
