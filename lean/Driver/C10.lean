import Driver.Util
import Torf.Spec.Missing
open Lean Torf Torf.Missing
namespace Driver.C10

/-- disk states per file: "ok" | "missing" | Nat (actual size differing from the recorded one).
    Content of a present file = the first `actual` elements of an (infinite) per-file element
    sequence `file * 2^40 + offset`. -/
def mkDisk (sizes : List Nat) (states : List Json) : Except String (List (Option (List Nat))) :=
  (sizes.zip states).zipIdx.mapM fun ((sz, st), i) =>
    match st with
    | .str "ok" => pure (some ((List.range sz).map fun k => i * elemBase + k))
    | .str "missing" => pure none
    | .num n => pure (some ((List.range n.mantissa.toNat).map fun k => i * elemBase + k))
    | _ => throw "bad disk state"

def kindStr : ErrKind → String | .read => "read" | .size => "size"

def itemJson (it : Item Nat) : Json :=
  jobj [("data", jopt pieceJson it.data),
        ("excs", jarr (it.excs.map fun (k, e) => jarr [jnat k, jstr (kindStr e)]))]

/-- op `c10.items` : {L, sizes, disk} ↦ model items, whether they meet the strict / lenient
    spec, hyp (no bad empty entry), d10a (bad empty entry at a piece boundary) -/
def items (j : Json) : Except String Json := do
  let L ← getNat j "L"
  let sizes ← getNats j "sizes"
  let states ← getArr j "disk"
  let disk ← mkDisk sizes states
  let model := iterItems L sizes disk
  let want := specData L sizes disk
  return jobj [
    ("model", match model with
      | none => Json.null
      | some its => jarr (its.map itemJson)),
    ("strict", jbool (match model with | none => false | some its => MeetsSpec L sizes disk its)),
    ("lenient", jbool (match model with | none => false | some its => MeetsSpecLenient L sizes disk its)),
    ("specData", jarr (want.map (jopt pieceJson))),
    ("bad", jarr ((badFiles sizes disk).map fun (k, e) => jarr [jnat k, jstr (kindStr e)])),
    ("mayBlank", jarr ((List.range want.length).map fun i => jbool (mayBlank L sizes disk i))),
    ("hyp", jbool (L > 0 && NoBadEmpty sizes disk)),
    ("d10a", jbool (BadEmptyAtBoundary L sizes disk))]

def handle (op : String) (j : Json) : Except String Json :=
  match op with
  | "c10.items" => items j
  | _ => throw s!"unknown op {op}"

end Driver.C10
