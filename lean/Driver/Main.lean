/-
  Line-protocol driver: one JSON request per line on stdin, one JSON reply per line on stdout.
  Request: {"id": n, "op": "cNN.<entry point>", …}.  Reply: {"id": n, …handler output…} or
  {"id": n, "err": "…"}.  Ops are dispatched on their `cNN.` prefix to `Driver/CNN.lean`.
-/
import Driver.Util
import Driver.PyJson
import Driver.C01
import Driver.C02
import Driver.C03Handle
import Driver.C04
import Driver.C05
import Driver.C06
import Driver.C07
import Driver.C08
import Driver.C09
import Driver.C10
import Driver.C11
import Driver.C12
import Driver.C13
import Driver.C14
import Driver.C15
import Driver.C16
import Driver.C17
import Driver.C18
import Driver.C19
import Driver.C20
open Lean Driver

def dispatch (op : String) (j : Json) : Except String Json :=
  if op == "ping" then pure (jobj [("pong", jbool true)]) else
    match (op.take 3).toString with
    | "c01" => C01.handle op j
    | "c02" => C02.handle op j
    | "c03" => C03.handle op j
    | "c04" => C04.handle op j
    | "c05" => C05.handle op j
    | "c06" => C06.handle op j
    | "c07" => C07.handle op j
    | "c08" => C08.handle op j
    | "c09" => C09.handle op j
    | "c10" => C10.handle op j
    | "c11" => C11.handle op j
    | "c12" => C12.handle op j
    | "c13" => C13.handle op j
    | "c14" => C14.handle op j
    | "c15" => C15.handle op j
    | "c16" => C16.handle op j
    | "c17" => C17.handle op j
    | "c18" => C18.handle op j
    | "c19" => C19.handle op j
    | "c20" => C20.handle op j
    | _ => throw s!"unknown op {op}"

partial def loop (hin : IO.FS.Stream) (hout : IO.FS.Stream) : IO Unit := do
  let line ← hin.getLine
  if line.isEmpty then return ()
  let reply : Json :=
    match Json.parse line with
    | .error e => jobj [("err", jstr s!"parse: {e}")]
    | .ok j =>
      let id := j.getObjValD "id"
      match getStr j "op" with
      | .error e => jobj [("id", id), ("err", jstr e)]
      | .ok op =>
        match dispatch op j with
        | .ok r => r.setObjVal! "id" id
        | .error e => jobj [("id", id), ("err", jstr e)]
  hout.putStrLn reply.compress
  loop hin hout

def main : IO Unit := do
  let hin ← IO.getStdin
  let hout ← IO.getStdout
  loop hin hout
  hout.flush
