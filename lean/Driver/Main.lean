/-
  Line-protocol driver: one JSON request per line on stdin, one JSON reply per line on stdout.
  Request: {"id": n, "op": "<entry point>", …}.  Reply: {"id": n, …handler output…} or
  {"id": n, "err": "…"}.
-/
import Driver.Util
import Driver.C01
open Lean Driver

def dispatch (op : String) (j : Json) : Except String Json :=
  match op with
  | "ping" => pure (jobj [("pong", jbool true)])
  | "c01.iter" => C01.iter j
  | "c01.collect" => C01.collect j
  | _ => throw s!"unknown op {op}"

partial def loop (hin : IO.FS.Stream) (hout : IO.FS.Stream) : IO Unit := do
  let line ← hin.getLine
  if line.isEmpty then return ()
  let reply : Json :=
    match Json.parse line with
    | .error e => jobj [("err", jstr s!"parse: {e}")]
    | .ok j =>
      let id := j.getObjValD "id"
      match getStr j "op" with
      | .error e => jobj [("id", id), ("err", jstr e)]
      | .ok op =>
        match dispatch op j with
        | .ok r => r.setObjVal! "id" id
        | .error e => jobj [("id", id), ("err", jstr e)]
  hout.putStrLn reply.compress
  loop hin hout

def main : IO Unit := do
  let hin ← IO.getStdin
  let hout ← IO.getStdout
  loop hin hout
  hout.flush
