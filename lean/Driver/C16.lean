import Driver.Util
open Lean
namespace Driver.C16

/-- ops of property C16: `c16.<name>` -/
def handle (op : String) (_j : Json) : Except String Json :=
  throw s!"unknown op {op}"

end Driver.C16
