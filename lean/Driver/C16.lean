import Driver.Util
import Torf.Spec.Lists
import Torf.Model.ListValues
open Lean Torf Torf.Lists
namespace Driver.C16

/-! JSON codec (Python side: harness/props/c16.py)

  op   = {"on":"tr"|"ws"|"hs"|"tier", "op":name, …}   ("tier" additionally has "ti")
  every value ("u", "us", "v", "vs") is a Python value as far as the code can tell (`PyV`): a JSON
  string = a str (also a URL object / str subclass), a JSON array = anything that is iterated (list,
  tuple, generator, set in iteration order, dict keys, URLs object, Trackers object …) with its
  items in iteration order, nested to any depth; the setters additionally take null (None) and
  {"other":1} (neither None, str nor iterable).  The operation runs through `Torf.Lists.stepV`
  (= `step` of its lowering, `C16_value_type_irrelevant`).
  mi   = {"announce":s|null, "announce-list":[[…]]|null, "url-list":[…]|null, "httpseeds":[…]|null}
  rb   = null | {"tr":[[…]], "ws":[…], "hs":[…]}
-/

def strs (j : Json) : Except String (List String) := do
  let a ← j.getArr?
  a.toList.mapM (·.getStr?)

def optInt (j : Json) (k : String) : Except String (Option Int) :=
  let v := j.getObjValD k
  if v.isNull then pure none else some <$> v.getInt?

def tierVal (j : Json) : Except String TierVal :=
  match j with
  | .str s => pure (.str s)
  | _ => .list <$> strs j

def tierVals (j : Json) : Except String (List TierVal) := do
  let a ← j.getArr?
  a.toList.mapM tierVal

def trackersVal (j : Json) : Except String TrackersVal :=
  match j with
  | .null => pure .none
  | .str s => pure (.str s)
  | .arr _ => .list <$> tierVals j
  | _ => pure .other

def seedVal (j : Json) : Except String SeedVal :=
  match j with
  | .null => pure .none
  | .str s => pure (.str s)
  | .arr _ => .list <$> strs j
  | _ => pure .other

partial def pyv (j : Json) : Except String PyV :=
  match j with
  | .str s => pure (.str s)
  | .arr a => .seq <$> a.toList.mapM pyv
  | _ => throw "value: expected a string or an array"

def uop (name : String) (j : Json) : Except String UVOp := do
  match name with
  | "insert" => return .insert (← getInt j "i") (← pyv (j.getObjValD "u"))
  | "append" => return .append (← pyv (j.getObjValD "u"))
  | "extend" => return .extend (← pyv (j.getObjValD "us"))
  | "iadd" => return .iadd (← pyv (j.getObjValD "us"))
  | "delete" => return .plain (.delete (← getInt j "i"))
  | "delslice" => return .plain (.delSlice (← optInt j "a") (← optInt j "b"))
  | "clear" => return .plain .clear
  | "remove" => return .plain (.remove (← getStr j "u"))
  | "pop" => return .plain (.pop (← optInt j "i"))
  | "replace" => return .replace (← pyv (j.getObjValD "us"))
  | "setitem" => return .setItem (← getInt j "i") (← pyv (j.getObjValD "u"))
  | "setslice" => return .setSlice (← optInt j "a") (← optInt j "b") (← optInt j "st") (← pyv (j.getObjValD "us"))
  | "reverse" => return .plain .reverse
  | _ => throw s!"unknown list op {name}"

def top (name : String) (j : Json) : Except String TVOp := do
  match name with
  | "set" =>
    match j.getObjValD "v" with
    | .null => return .plain (.set .none)
    | .obj _ => return .plain (.set .other)
    | v => return .set (← pyv v)
  | "insert" => return .insert (← getInt j "i") (← pyv (j.getObjValD "v"))
  | "append" => return .append (← pyv (j.getObjValD "v"))
  | "extend" => return .extend (← pyv (j.getObjValD "vs"))
  | "iadd" => return .iadd (← pyv (j.getObjValD "vs"))
  | "delete" => return .plain (.delete (← getInt j "i"))
  | "delslice" => return .plain (.delSlice (← optInt j "a") (← optInt j "b"))
  | "clear" => return .plain .clear
  | "remove" => return .plain (.remove (← strs (j.getObjValD "us")))
  | "pop" => return .plain (.pop (← optInt j "i"))
  | "replace" => return .replace (← pyv (j.getObjValD "vs"))
  | "setitem" => return .setItem (← getInt j "i") (← pyv (j.getObjValD "v"))
  | "setslice" => return .setSlice (← optInt j "a") (← optInt j "b") (← pyv (j.getObjValD "vs"))
  | "reverse" => return .plain .reverse
  | _ => throw s!"unknown trackers op {name}"

def sop (name : String) (j : Json) : Except String SVOp := do
  match name with
  | "set" =>
    match j.getObjValD "v" with
    | .null => return .plain (.set .none)
    | .obj _ => return .plain (.set .other)
    | v => return .set (← pyv v)
  | _ => return .edit (← uop name j)

def opOf (j : Json) : Except String VOp := do
  let on ← getStr j "on"
  let name ← getStr j "op"
  match on with
  | "tr" => return .trackers (← top name j)
  | "tier" => return .trackers (.tier (← getInt j "ti") (← uop name j))
  | "ws" => return .webseeds (← sop name j)
  | "hs" => return .httpseeds (← sop name j)
  | _ => throw s!"unknown target {on}"

def optStrs (j : Json) : Except String (Option (List String)) :=
  if j.isNull then pure none else some <$> strs j

def optTiers (j : Json) : Except String (Option Tiers) :=
  if j.isNull then pure none else do
    let a ← j.getArr?
    some <$> a.toList.mapM strs

def miOf (j : Json) : Except String MI := do
  if j.isNull then return MI.init
  let ann := j.getObjValD "announce"
  let a ← if ann.isNull then pure none else some <$> ann.getStr?
  let al ← optTiers (j.getObjValD "announce-list")
  let ul ← optStrs (j.getObjValD "url-list")
  let hs ← optStrs (j.getObjValD "httpseeds")
  return { announce := a, announceList := al, urlList := ul, httpseeds := hs }

def rbOf (j : Json) : Except String (Option ReadBack) := do
  if j.isNull then return none
  let t ← optTiers (j.getObjValD "tr")
  return some ⟨t.getD [], ← strs (j.getObjValD "ws"), ← strs (j.getObjValD "hs")⟩

def jstrs (xs : List String) : Json := jarr (xs.map jstr)
def jtiers (T : Tiers) : Json := jarr (T.map jstrs)

def miJson (s : MI) : Json :=
  jobj [("announce", jopt jstr s.announce), ("announce-list", jopt jtiers s.announceList),
        ("url-list", jopt jstrs s.urlList), ("httpseeds", jopt jstrs s.httpseeds)]

def rbJson : Option ReadBack → Json
  | none => Json.null
  | some rb => jobj [("tr", jtiers rb.trackers), ("ws", jstrs rb.webseeds), ("hs", jstrs rb.httpseeds)]

def outJson : Outcome → Json
  | .ok => "ok"
  | .error .url => "url"
  | .error .value => "value"
  | .error .index => "index"

def table (j : Json) : Except String (List (String × Bool)) := do
  let a ← getArr j "urls"
  a.mapM fun e => do
    let p ← e.getArr?
    match p.toList with
    | [s, b] => return (← s.getStr?, ← b.getBool?)
    | _ => throw "urls: expected [string, bool]"

def lookupUrl (tbl : List (String × Bool)) (s : String) : Bool := (tbl.lookup s).getD false

/-- op `c16.run`: {urls, init, ops, obs?} ↦ per step: model state, outcome, read-back,
    `specM` = Spec.holds on the model's result, `specI` = Spec.holds on the observed
    implementation result (if given), `hyp` = hypothesis of `C16_inv_reachable_partial` for the
    prefix ending here (start state satisfies the spec ∧ no slice assignment on the tiers container
    — open finding D16b — so far; there is no assumption on `is_url`) -/
def runOp (j : Json) : Except String Json := do
  let tbl ← table j
  let isUrl := lookupUrl tbl
  let init ← miOf (j.getObjValD "init")
  let opsJ ← getArr j "ops"
  let ops ← opsJ.mapM opOf
  let obsJ := (getArr j "obs").toOption.getD []
  let blanks := jobj (tbl.map fun (s, _) => (s, jbool (isBlank s)))
  let initOk := Spec.holds isUrl init (readBack isUrl init)
  let rec go (s : MI) (ops : List VOp) (obs : List Json) (clean : Bool) (acc : List Json) :
      Except String (List Json) :=
    match ops with
    | [] => pure acc.reverse
    | op :: rest => do
      let (s', out) := stepV isUrl s op
      let clean' := clean && !(lowerOp op).affected
      let rb := readBack isUrl s'
      let specI ← match obs with
        | [] => pure Json.null
        | o :: _ => do
          let mi ← miOf (o.getObjValD "mi")
          let orb ← rbOf (o.getObjValD "rb")
          pure (jbool (Spec.holds isUrl mi orb))
      let r := jobj [("mi", miJson s'), ("out", outJson out), ("rb", rbJson rb),
                     ("specM", jbool (Spec.holds isUrl s' rb)), ("specI", specI),
                     ("hyp", jbool (initOk && clean'))]
      go s' rest obs.tail clean' (r :: acc)
  let steps ← go init ops obsJ true []
  return jobj [("steps", jarr steps), ("initOk", jbool initOk),
               ("initRb", rbJson (readBack isUrl init)), ("blank", blanks)]

def handle (op : String) (j : Json) : Except String Json :=
  match op with
  | "c16.run" => runOp j
  | _ => throw s!"unknown op {op}"

end Driver.C16
