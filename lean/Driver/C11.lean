import Driver.Util
open Lean
namespace Driver.C11

/-- ops of property C11: `c11.<name>` -/
def handle (op : String) (_j : Json) : Except String Json :=
  throw s!"unknown op {op}"

end Driver.C11
