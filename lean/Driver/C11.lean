import Driver.Util
import Torf.Model.Geometry
import Torf.Spec.Geometry
import Torf.Model.Stream
import Torf.Model.GeometryFs
open Lean Torf
namespace Driver.C11
open Torf.Geometry (Err Res)

def errJson : Err → Json
  | .value => jstr "value"
  | .internal t => jstr s!"internal:{t}"

def resJson (f : α → Json) : Res α → Json
  | .ok a => jobj [("ok", f a)]
  | .error e => jobj [("err", errJson e)]

def pairJson (p : Int × Int) : Json := jints [p.1, p.2]

def noEmpty (sizes : List Nat) : Bool := sizes.all (· > 0)

def getOptStr (j : Json) (k : String) : Option String := (j.getObjValAs? String k).toOption

def returnedJson : Geometry.Returned → Json
  | .torrentFile j => jobj [("kind", "torrentFile"), ("j", jnat j)]
  | .joined b j => jobj [("kind", "joined"), ("base", jstr b), ("j", jnat j)]
  | .contentPath p => jobj [("kind", "contentPath"), ("p", jstr p)]

/-- stored hashes of a layout: `H` = identity on pieces (injective, like SHA-1 is assumed to
    be); `nstored` of them are present, entry `bad` (if any) is wrong -/
def storedOf (L : Nat) (files : List (List Nat)) (nstored : Nat) (bad : Option Nat) : List (List Nat) :=
  ((chunks L files.flatten).take nstored).zipIdx.map fun (p, k) => if some k == bad then [] else p

def answer (out : Json × Json × Bool) : Json :=
  jobj [("model", out.1), ("spec", out.2.1), ("hyp", jbool out.2.2)]

/-- one query against a layout -/
def query (L : Nat) (sizes : List Nat) (stored : List (List Nat)) (q : Json) : Except String Json := do
  let m ← getStr q "m"
  let files := mkFiles sizes
  let n := sizes.length
  let ne := noEmpty sizes
  let hL := decide (L > 0)
  match m with
  | "max_piece_index" =>
    return answer (jint (Geometry.maxPieceIndex sizes L), jint (GeomSpec.maxPieceIndex sizes L), hL)
  | "file_position" =>
    let j ← getNat q "j"
    return answer (resJson jnat (Geometry.getFilePosition sizes j), resJson jnat (GeomSpec.filePosition sizes j), hL)
  | "file_at_position" =>
    let p ← getInt q "p"
    return answer (resJson jnat (Geometry.getFileAtPosition sizes p), resJson jnat (GeomSpec.fileAtPosition sizes p), hL)
  | "byte_range" =>
    let a ← getInt q "a"
    let b ← getInt q "b"
    return answer (resJson jnats (Geometry.getFilesAtByteRange sizes a b),
                   resJson jnats (.ok (GeomSpec.filesAtByteRange sizes a b)), hL && ne && decide (a ≤ b))
  | "byte_range_of_file" =>
    let j ← getNat q "j"
    return answer (resJson pairJson (Geometry.getByteRangeOfFile sizes j), resJson pairJson (GeomSpec.byteRangeOfFile sizes j), hL)
  | "files_at_piece" =>
    let i ← getInt q "i"
    return answer (resJson jnats (Geometry.getFilesAtPieceIndex sizes L i), resJson jnats (GeomSpec.filesAtPieceIndex sizes L i), hL && ne)
  | "piece_indexes" =>
    let j ← getNat q "j"
    let ex ← getBool q "excl"
    let hyp := hL && (if ex then ne else decide (j ≥ n) || decide (GeomSpec.size sizes j > 0))
    return answer (resJson jints (Geometry.getPieceIndexesOfFile sizes L j ex), resJson jints (GeomSpec.pieceIndexesOfFile sizes L j ex), hyp)
  | "abs" =>
    let j ← getNat q "j"
    let rels ← getInts q "rels"
    let hyp := hL && (decide (j ≥ n) || decide (GeomSpec.size sizes j > 0))
    return answer (resJson jints (Geometry.getAbsolutePieceIndexes sizes L j rels), resJson jints (GeomSpec.absolutePieceIndexes sizes L j rels), hyp)
  | "rel" =>
    let j ← getNat q "j"
    let rels ← getInts q "rels"
    let sz := GeomSpec.size sizes j
    let p := GeomSpec.pos sizes j
    let hyp := hL && decide (j < n) && decide (sz > 0) && decide ((p % L + sz - 1) / L = (sz - 1) / L)
    return answer (resJson jints (.ok (Geometry.getRelativePieceIndexes L sz rels)), resJson jints (GeomSpec.relativePieceIndexes sizes L j rels), hyp)
  | "get_piece" =>
    let i ← getInt q "i"
    let hp ← getBool q "hasPath"
    let spec : Res (List Nat) := if hp then GeomSpec.piece files L i else
      (match GeomSpec.piece files L i with | .ok _ => .error .value | .error e => .error e)
    return answer (resJson pieceJson (Geometry.getPiece files L hp i), resJson pieceJson spec, hL && ne)
  | "verify" =>
    let i ← getInt q "i"
    let hp ← getBool q "hasPath"
    let spec : Res Bool := if hp then GeomSpec.verifyPiece id stored files L i else .error .value
    return answer (resJson jbool (Geometry.verifyPiece id stored files L hp i), resJson jbool spec, hL && ne)
  | "returned" =>
    let j ← getNat q "j"
    let single ← getBool q "single"
    let cp := Geometry.contentPath (getOptStr q "arg") (getOptStr q "cls") (getOptStr q "tpath")
    let r := returnedJson (Geometry.returned single cp j)
    return answer (r, r, true)
  | _ => throw s!"unknown method {m}"

/-- op `c11.layout` : {L, sizes, nstored, bad?, queries:[…]} ↦ {res:[{model, spec, hyp}…]} -/
def layout (j : Json) : Except String Json := do
  let L ← getNat j "L"
  let sizes ← getNats j "sizes"
  let qs ← getArr j "queries"
  let nstored := (getOptNat j "nstored").getD 0
  let stored := storedOf L (mkFiles sizes) nstored (getOptNat j "bad")
  let res ← qs.mapM (query L sizes stored)
  return jobj [("res", jarr res), ("npieces", jnat (nPieces L sizes.sum)),
               ("iter", jarr ((Stream.iterPieces L (mkFiles sizes)).map pieceJson))]

/-! ### reading through a file system (content-path spellings) -/

open Torf.Reuse (FS Node)

def parseNode (j : Json) : Except String Node := do
  let k ← getStr j "k"
  match k with
  | "f" => return .file (← getNat j "size") (← getBool j "r") (← getNat j "c")
  | "d" =>
    let es ← (← getArr j "e").mapM fun e => do
      let a ← e.getArr?
      let n ← (a[0]!).getStr?
      let i ← (a[1]!).getNat?
      pure (n, i)
    return .dir (← getBool j "r") (← getBool j "x") es
  | "l" => return .link (Torf.Paths.parse (← getStr j "t"))
  | _ => throw s!"unknown node kind {k}"

def plainName (s : String) : Bool := s != "" && s != "." && s != ".." && !s.contains '/'

/-- well-formed inode table (root is a directory; plain, pairwise distinct entry names pointing into
    the table; non-empty link targets) whose regular files have the size of their content -/
def wfDisk (fs : Torf.Reuse.FS) (cidSizes : Array Nat) : Bool :=
  (match fs[0]? with | some (Node.dir ..) => true | _ => false) &&
  fs.all fun (n : Node) => match n with
    | .dir _ _ es => es.all (fun e => plainName e.1 && decide (e.2 < fs.length)) &&
        (es.map (·.1)).eraseDups.length == es.length
    | .link t => !(t.comps.isEmpty) && (t.abs || t.comps.headD "" != "")
    | .file sz _ cid => cidSizes[cid]? == some sz

def optJson (f : α → Json) : Option α → Json
  | some a => f a
  | none => Json.null

/-- does the model's own spelling (pathlib form) lead where the untouched spelling leads -/
def sameLook : Res (List Nat) → Res (List Nat) → Bool
  | .ok a, .ok b => a == b
  | .error a, .error b => a == b
  | _, _ => false

/-- op `c11.fs` : {L, sizes, names : listed names per file (below the torrent's name), single, fs :
    inode table, cidSizes : size per content id, storedCids : content ids whose concatenation the stored
    hashes were made of, nstored, bad?, runs : [{cwd, cp, queries}]}
    ↦ per run: the spelling handed out / opened per file, what is found there, model / spec / hyp per
    query, sequential pieces (when everything is found) -/
def fsOp (j : Json) : Except String Json := do
  let L ← getNat j "L"
  let sizes ← getNats j "sizes"
  let single ← getBool j "single"
  let names ← (← getArr j "names").mapM fun x => do
    let a ← x.getArr?
    a.toList.mapM (·.getStr?)
  let fs ← (← getArr j "fs").mapM parseNode
  let cidSizes := (← getNats j "cidSizes").toArray
  let cidBytes := (mkFiles cidSizes.toList).toArray
  let bytes : Nat → List Nat := fun cid => cidBytes.getD cid []
  let storedCids ← getNats j "storedCids"
  let nstored := (getOptNat j "nstored").getD 0
  let stored := storedOf L (storedCids.map bytes) nstored (getOptNat j "bad")
  let n := sizes.length
  let hL := decide (L > 0)
  let ne := noEmpty sizes
  let wf := wfDisk fs cidSizes && names.all (·.all plainName) && (single || names.all (!·.isEmpty)) &&
    decide (names.length = n)
  let d0 : Geometry.Disk Nat := ⟨fs, [], bytes⟩
  let runs ← (← getArr j "runs").mapM fun r => do
    let cwdStack ← match Reuse.resolve d0.world (Torf.Paths.parse (← getStr r "cwd")) with
      | .ok (.dir st) => pure st
      | _ => throw "cwd does not resolve to a directory of the table"
    let d : Geometry.Disk Nat := { d0 with cwd := cwdStack }
    let cp := Torf.Paths.parse (← getStr r "cp")
    let pathOf := Geometry.pathOfFile single cp names
    let look := Geometry.lookFs d pathOf sizes
    -- specification side: the untouched spelling  content path / listed names
    let os : List (Res (List Nat)) := (List.range n).map fun k =>
      Geometry.osFile d single cp (names.getD k [])
    let lookAgree := (List.range n).all fun k => sameLook (Geometry.openRead d (pathOf k)) (os.getD k (.error .value))
    let seenOk : Option (List (List Nat)) := os.mapM fun x => match x with
      | .ok b => some b
      | .error _ => none
    let allSeen : Option (List (List Nat)) := match seenOk with
      | some fl => if fl.map List.length == sizes then some fl else none
      | none => none
    let noneSeen : Option Geometry.Err := match os with
      | .error e :: rest => if rest.all (fun x => match x with | .error e' => e' == e | .ok _ => false) then some e else none
      | _ => none
    -- would `os.path.normpath` of the opened spelling lead to the same files (evidence only)
    let lexSame := (List.range n).all fun k =>
      sameLook (Geometry.openRead d (Geometry.normPath (pathOf k))) (os.getD k (.error .value))
    let cpOk := cp.abs || cp.comps.headD "" != ""
    let hyp := hL && ne && wf && cpOk && (allSeen.isSome || noneSeen.isSome)
    let specPiece (i : Int) : Res (List Nat) := match allSeen, noneSeen with
      | some fl, _ => GeomSpec.piece fl L i
      | none, some e => if GeomSpec.validPiece sizes L i then .error e else .error .value
      | none, none => Geometry.getPieceFs d single cp names sizes L i
    let qs ← (← getArr r "queries").mapM fun q => do
      let m ← getStr q "m"
      match m with
      | "get_piece" =>
        let i ← getInt q "i"
        return answer (resJson pieceJson (Geometry.getPieceFs d single cp names sizes L i),
                       resJson pieceJson (specPiece i), hyp)
      | "piece_hash" =>
        let i ← getInt q "i"
        return answer (resJson (optJson pieceJson) (Geometry.getPieceHashFs id d single cp names sizes L i),
                       resJson (optJson pieceJson) (Geometry.hashOfRead id (specPiece i)), hyp)
      | "verify" =>
        let i ← getInt q "i"
        let spec : Res (Option Bool) := match allSeen with
          | some fl => (GeomSpec.verifyPiece id stored fl L i).map some
          | none => Geometry.verifyOfHash stored i (Geometry.hashOfRead id (specPiece i))
        return answer (resJson (optJson jbool) (Geometry.verifyPieceFs id stored d single cp names sizes L i),
                       resJson (optJson jbool) spec, hyp)
      | _ => query L sizes stored q
    let lookJson (x : Res (List Nat)) : Json := resJson pieceJson x
    return jobj [("paths", jarr ((List.range n).map fun k => jstr (Torf.Paths.strOf (pathOf k)))),
                 ("look", jarr ((List.range n).map fun k => lookJson (look k))),
                 ("os", jarr (os.map lookJson)),
                 ("allSeen", jbool allSeen.isSome), ("noneSeen", jbool noneSeen.isSome),
                 ("lookAgree", jbool lookAgree), ("lexSame", jbool lexSame), ("hyp", jbool hyp),
                 ("res", jarr qs),
                 ("iter", match allSeen with
                   | some fl => jarr ((Stream.iterPieces L fl).map pieceJson)
                   | none => Json.null)]
  return jobj [("runs", jarr runs)]

def handle (op : String) (j : Json) : Except String Json :=
  match op with
  | "c11.layout" => layout j
  | "c11.fs" => fsOp j
  | _ => throw s!"unknown op {op}"

end Driver.C11
