import Driver.Util
import Torf.Model.Geometry
import Torf.Spec.Geometry
import Torf.Model.Stream
open Lean Torf
namespace Driver.C11
open Torf.Geometry (Err Res)

def errJson : Err → Json
  | .value => jstr "value"
  | .internal t => jstr s!"internal:{t}"

def resJson (f : α → Json) : Res α → Json
  | .ok a => jobj [("ok", f a)]
  | .error e => jobj [("err", errJson e)]

def pairJson (p : Int × Int) : Json := jints [p.1, p.2]

def noEmpty (sizes : List Nat) : Bool := sizes.all (· > 0)

def getOptStr (j : Json) (k : String) : Option String := (j.getObjValAs? String k).toOption

def returnedJson : Geometry.Returned → Json
  | .torrentFile j => jobj [("kind", "torrentFile"), ("j", jnat j)]
  | .joined b j => jobj [("kind", "joined"), ("base", jstr b), ("j", jnat j)]
  | .contentPath p => jobj [("kind", "contentPath"), ("p", jstr p)]

/-- stored hashes of a layout: `H` = identity on pieces (injective, like SHA-1 is assumed to
    be); `nstored` of them are present, entry `bad` (if any) is wrong -/
def storedOf (L : Nat) (files : List (List Nat)) (nstored : Nat) (bad : Option Nat) : List (List Nat) :=
  ((chunks L files.flatten).take nstored).zipIdx.map fun (p, k) => if some k == bad then [] else p

def answer (out : Json × Json × Bool) : Json :=
  jobj [("model", out.1), ("spec", out.2.1), ("hyp", jbool out.2.2)]

/-- one query against a layout -/
def query (L : Nat) (sizes : List Nat) (stored : List (List Nat)) (q : Json) : Except String Json := do
  let m ← getStr q "m"
  let files := mkFiles sizes
  let n := sizes.length
  let ne := noEmpty sizes
  let hL := decide (L > 0)
  match m with
  | "max_piece_index" =>
    return answer (jint (Geometry.maxPieceIndex sizes L), jint (GeomSpec.maxPieceIndex sizes L), hL)
  | "file_position" =>
    let j ← getNat q "j"
    return answer (resJson jnat (Geometry.getFilePosition sizes j), resJson jnat (GeomSpec.filePosition sizes j), hL)
  | "file_at_position" =>
    let p ← getInt q "p"
    return answer (resJson jnat (Geometry.getFileAtPosition sizes p), resJson jnat (GeomSpec.fileAtPosition sizes p), hL)
  | "byte_range" =>
    let a ← getInt q "a"
    let b ← getInt q "b"
    return answer (resJson jnats (Geometry.getFilesAtByteRange sizes a b),
                   resJson jnats (.ok (GeomSpec.filesAtByteRange sizes a b)), hL && ne && decide (a ≤ b))
  | "byte_range_of_file" =>
    let j ← getNat q "j"
    return answer (resJson pairJson (Geometry.getByteRangeOfFile sizes j), resJson pairJson (GeomSpec.byteRangeOfFile sizes j), hL)
  | "files_at_piece" =>
    let i ← getInt q "i"
    return answer (resJson jnats (Geometry.getFilesAtPieceIndex sizes L i), resJson jnats (GeomSpec.filesAtPieceIndex sizes L i), hL && ne)
  | "piece_indexes" =>
    let j ← getNat q "j"
    let ex ← getBool q "excl"
    let hyp := hL && (if ex then ne else decide (j ≥ n) || decide (GeomSpec.size sizes j > 0))
    return answer (resJson jints (Geometry.getPieceIndexesOfFile sizes L j ex), resJson jints (GeomSpec.pieceIndexesOfFile sizes L j ex), hyp)
  | "abs" =>
    let j ← getNat q "j"
    let rels ← getInts q "rels"
    let hyp := hL && (decide (j ≥ n) || decide (GeomSpec.size sizes j > 0))
    return answer (resJson jints (Geometry.getAbsolutePieceIndexes sizes L j rels), resJson jints (GeomSpec.absolutePieceIndexes sizes L j rels), hyp)
  | "rel" =>
    let j ← getNat q "j"
    let rels ← getInts q "rels"
    let sz := GeomSpec.size sizes j
    let p := GeomSpec.pos sizes j
    let hyp := hL && decide (j < n) && decide (sz > 0) && decide ((p % L + sz - 1) / L = (sz - 1) / L)
    return answer (resJson jints (.ok (Geometry.getRelativePieceIndexes L sz rels)), resJson jints (GeomSpec.relativePieceIndexes sizes L j rels), hyp)
  | "get_piece" =>
    let i ← getInt q "i"
    let hp ← getBool q "hasPath"
    let spec : Res (List Nat) := if hp then GeomSpec.piece files L i else
      (match GeomSpec.piece files L i with | .ok _ => .error .value | .error e => .error e)
    return answer (resJson pieceJson (Geometry.getPiece files L hp i), resJson pieceJson spec, hL && ne)
  | "verify" =>
    let i ← getInt q "i"
    let hp ← getBool q "hasPath"
    let spec : Res Bool := if hp then GeomSpec.verifyPiece id stored files L i else .error .value
    return answer (resJson jbool (Geometry.verifyPiece id stored files L hp i), resJson jbool spec, hL && ne)
  | "returned" =>
    let j ← getNat q "j"
    let single ← getBool q "single"
    let cp := Geometry.contentPath (getOptStr q "arg") (getOptStr q "cls") (getOptStr q "tpath")
    let r := returnedJson (Geometry.returned single cp j)
    return answer (r, r, true)
  | _ => throw s!"unknown method {m}"

/-- op `c11.layout` : {L, sizes, nstored, bad?, queries:[…]} ↦ {res:[{model, spec, hyp}…]} -/
def layout (j : Json) : Except String Json := do
  let L ← getNat j "L"
  let sizes ← getNats j "sizes"
  let qs ← getArr j "queries"
  let nstored := (getOptNat j "nstored").getD 0
  let stored := storedOf L (mkFiles sizes) nstored (getOptNat j "bad")
  let res ← qs.mapM (query L sizes stored)
  return jobj [("res", jarr res), ("npieces", jnat (nPieces L sizes.sum)),
               ("iter", jarr ((Stream.iterPieces L (mkFiles sizes)).map pieceJson))]

def handle (op : String) (j : Json) : Except String Json :=
  match op with
  | "c11.layout" => layout j
  | _ => throw s!"unknown op {op}"

end Driver.C11
