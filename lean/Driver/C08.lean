import Driver.Util
import Driver.PyJson
import Torf.Model.Untrusted
import Torf.Model.QueryString
import Torf.Model.PyStrip
import Torf.Model.PyInt
import Torf.Model.UrlAttrs
import Torf.Model.KeyVocabulary
open Lean Torf Torf.Bencode Torf.Untrusted
namespace Driver.C08

def errStr : Err → String
  | .bdecode => "bdecode" | .metainfo => "metainfo" | .read => "read" | .magnet => "magnet"
  | .url => "url" | .value => "value" | .internal t => "internal:" ++ t

def kindOf : Except Err α → String
  | .ok _ => "ok"
  | .error e => errStr e

/-- table of (utf-8 bytes, is well-formed URL) supplied by the harness; unknown strings count as
    not well-formed -/
def getUrlOk (j : Json) : Except String (Export.Bytes → Bool) := do
  let tbl ← (← getArr j "urls").mapM fun e => do
    let a ← e.getArr?
    if h : a.size = 2 then
      let k ← unhex (← a[0].getStr?)
      let v ← a[1].getBool?
      pure (k, v)
    else throw "urls entry must be a pair"
  pure fun b => (tbl.lookup b).getD false

/-- `cd`: null (no integer creation date) | {"ok": pyval} | {"raise": "overflow"|"os"|"value"} -/
def getFromTs (j : Json) : Except String (Int → TsResult) := do
  let cd := j.getObjValD "cd"
  if cd.isNull then pure fun _ => .valueerror else
    match cd.getObjVal? "ok" with
    | .ok v => let d ← pyOfJson v; pure fun _ => .ok d
    | .error _ =>
      match (← getStr cd "raise") with
      | "overflow" => pure fun _ => .overflow
      | "os" => pure fun _ => .oserror
      | "value" => pure fun _ => .valueerror
      | s => throw s!"unknown raise {s}"

def mkEnv (j : Json) : Except String Env := do
  return { memLimit := (← getNat j "mem"), decFuel := (← getNat j "decFuel"),
           encFuel := (← getNat j "encFuel"), fromTs := (← getFromTs j), urlOk := (← getUrlOk j),
           maxSize := (getOptNat j "maxSize").getD 10000000 }

def documentedRead : List String := ["ok", "bdecode", "metainfo", "read"]
def documentedReturned : List String := ["ok", "metainfo"]

/-- `read_stream` / `read` of the model by entry point -/
def readHow (env : Env) (how : String) (x : Bytes) (validate : Bool) : Except Err Items :=
  match how with
  | "bytes" => read env x validate
  | "stream" => readStreamObj env (.data x) validate
  | "stream-oserror" => readStreamObj env .raisesOS validate
  | "file" => readFile env (.opened (.data x)) validate
  | "file-oserror" => readFile env (.opened .raisesOS) validate
  | _ => readFile env .openFails validate

/-- the outcomes `C08_unknown_key_irrelevant` speaks about: kind of the read and of validate() of the returned
    torrent; third: kind of infohash (the bytes that are hashed hold every key of `info`, so a value that cannot
    be encoded under an unknown key of `info` changes it: independent of unknown *top-level* keys only) -/
def knownView (env : Env) (how : String) (x : Bytes) (validate : Bool) : List String :=
  match readHow env how x validate with
  | .error e => [errStr e]
  | .ok t => ["ok", kindOf (validateT env t), kindOf (infohashT env t)]

/-- op `c08.keys`: the vocabulary of the model (`Model/KeyVocabulary.lean`) -/
def keysOp (_ : Json) : Except String Json :=
  return jobj [("top", jarr (Validate.topKeys.map jstr)), ("info", jarr (Validate.infoKeys.map jstr)),
               ("file", jarr (Validate.fileKeys.map jstr))]

/-- op `c08.read`: {x, validate, how, mem, decFuel, encFuel, encFuelNV, cd, urls} ↦ the model's
    outcome of read_stream / read and, for a returned torrent, of validate(), dump() and
    dump(validate=False); the documented sets (spec); the hypotheses of the theorems -/
def readOp (j : Json) : Except String Json := do
  let x ← getHex j "x"
  let validate ← getBool j "validate"
  let how := (j.getObjValAs? String "how").toOption.getD "bytes"
  let env ← mkEnv j
  let envNV : Env := { env with encFuel := (getOptNat j "encFuelNV").getD env.encFuel }
  let r : Except Err Items := readHow env how x validate
  -- `xw`: the same input without one key that is outside the model's vocabulary: the model must not tell them apart
  let without : List (String × Json) ←
    match j.getObjVal? "xw" with
    | .error _ => pure []
    | .ok _ => do
      let xw ← getHex j "xw"
      let a := knownView env how x validate
      let b := knownView env how xw validate
      pure [("without", jarr (b.map jstr)), ("keyAgree", jbool (a.take 2 == b.take 2)),
            ("infohashAgree", jbool (a == b))]
  let p := parseU env x
  let hypMem := match p with | .error .memory => false | _ => true
  let hypLen := how != "bytes" || x.length ≤ env.maxSize
  let steps := parseSteps env.lim (if how == "bytes" then x else x.take env.maxSize)
  let base : List (String × Json) :=
    [("read", jstr (kindOf r)), ("steps", jnat steps), ("len", jnat x.length),
     ("parse", jstr (match p with | .ok _ => "ok" | .error e => raiseName e)),
     ("nodes", match p with | .ok v => jnat (nodes v) | .error _ => Json.null)]
  let (more, hypT) : List (String × Json) × List (String × Json) :=
    match r with
    | .error _ => ([], [])
    | .ok t =>
      let v := validateT env t
      let d := dumpT env t true
      let dn := dumpT envNV t false
      let unf := Validate.dumpNoValidate t
      let ih := infohashT env t
      let encNeed := 3 + encFramesKvs (Validate.ensureInfo t)
      ([("validate", jstr (kindOf v)), ("dump", jstr (kindOf d)), ("dumpnv", jstr (kindOf dn)),
        ("infohash", jstr (kindOf ih)), ("encNeed", jnat encNeed)],
       [("files", jbool (Validate.filesNotMapping t)),
        ("encFuel", jbool (encNeed ≤ env.encFuel)), ("encFuelNV", jbool (encNeed ≤ envNV.encFuel)),
        -- a ValueError of the encoder and a RecursionError compete: which comes first depends on
        -- the traversal order, which the frame model does not track
        -- since 19d011f both a ValueError and a RecursionError of the encoder end as MetainfoError,
        -- so their order cannot be observed any more
        ("encOrder", jbool (true || (match unf with | .ok _ => true | .error _ => false)))])
  return jobj (without ++
              [("model", jobj (base ++ more)),
               ("spec", jobj [("read", jarr (documentedRead.map jstr)),
                              ("returned", jarr (documentedReturned.map jstr))]),
               ("hyp", jbool (hypMem && hypLen)),
               ("hyps", jobj ([("mem", jbool hypMem), ("len", jbool hypLen)] ++ hypT)),
               ("hypName", jstr "len<=MAX ∧ no length prefix in (memLimit, ssizeMax] is reached")])

/-! ### magnets -/

def getStrList (j : Json) : Except String (List String) := do
  (← j.getArr?).toList.mapM fun e => e.getStr?

/-- the oracle values for one URI: {urlparse: null | [scheme, query], qs: [[key, [values…]]…],
    urls: [[string, bool]…], ints: [[string, "<decimal>" | null]…]} -/
def mkOracle (j : Json) : Except String MagnetOracle := do
  let up := j.getObjValD "urlparse"
  let upv : Option (String × String) ←
    if up.isNull then pure none else do
      let a ← getStrList up
      match a with
      | [s, q] => pure (some (s, q))
      | _ => throw "urlparse must be [scheme, query]"
  let qs ← (← getArr j "qs").mapM fun e => do
    let a ← e.getArr?
    if h : a.size = 2 then pure ((← a[0].getStr?), (← getStrList a[1])) else throw "qs entry"
  let urls ← (← getArr j "urls").mapM fun e => do
    let a ← e.getArr?
    if h : a.size = 2 then pure ((← a[0].getStr?), (← a[1].getBool?)) else throw "urls entry"
  let ints ← (← getArr j "ints").mapM fun e => do
    let a ← e.getArr?
    if h : a.size = 2 then
      let v : Option Int ← if a[1].isNull then pure none else some <$> parseInt (← a[1].getStr?)
      pure ((← a[0].getStr?), v)
    else throw "ints entry"
  -- `int()`: the Lean model on ASCII strings, the harness's table elsewhere
  return { urlparse := fun _ => upv, parseQs := fun _ => qs,
           isUrl := fun s => (urls.lookup s).getD false,
           intOf := intOfM 4300 (fun s => (ints.lookup s).getD none),
           split := fun s => (s.splitOn " ").filter (· != "") }

/-- table of (string with '%', `unquote(string)`) supplied by the harness; strings without '%' never
    reach it (`Untrusted.unquote`), unknown strings stay as they are -/
def getPct (j : Json) : Except String (String → String) := do
  match j.getObjVal? "pct" with
  | .error _ => pure id
  | .ok a =>
    let tbl ← (← a.getArr?).toList.mapM fun e => do
      let p ← e.getArr?
      if h : p.size = 2 then pure ((← p[0].getStr?), (← p[1].getStr?)) else throw "pct entry"
    pure fun s => (tbl.lookup s).getD s

/-- op `c08.magnet`: {uri, urlparse, qs, urls, ints, pct} ↦ kind and the stored info hash.  The
    model is `fromStringQ` with the modelled `parse_qs` (options as the code passes them); the
    harness's `parse_qs` result `qs` is only compared with the model's (`qsAgree`). -/
def magnetOp (j : Json) : Except String Json := do
  let uri ← getStr j "uri"
  let o ← mkOracle j
  let pct ← getPct j
  let r := fromStringQ o pct {} uri
  let rOracle := fromString o uri
  let (qsAgree, nf) : Bool × Nat :=
    match o.urlparse uri with
    | none => (true, 0)
    | some (_, query) => (parseQs pct query == o.parseQs query, numFields query.toList)
  let qsOk := (o.parseQs "").all fun kv => !kv.2.isEmpty
  -- `uri.strip()`: the model's result against the harness's (absent = not compared), and its step count
  -- the model of int() against the harness's int() on every ASCII string of the table
  let intAgree ← (← getArr j "ints").allM fun e => do
    let a ← e.getArr?
    if h : a.size = 2 then
      let k ← a[0].getStr?
      let v : Option Int ← if a[1].isNull then pure none else some <$> parseInt (← a[1].getStr?)
      pure (!isAsciiStr k.toList || pyIntAscii 4300 k.toList == v)
    else throw "ints entry"
  -- lazily validated attribute: would a read of `.port` after the scheme test raise? (the unchanged code does not read it)
  let portRaises := (j.getObjValAs? Bool "portRaises").toOption.getD false
  let oS : MagnetOracle := { o with urlparse := fun _ => o.urlparse uri }
  let portRead := fromStringA oS pct (fun a => a == .port && portRaises) [.hostname, .port] uri
  let strippedM := String.ofList (pyStrip uri.toList)
  let stripAgree := match j.getObjValAs? String "stripped" with
    | .ok s => s == strippedM
    | .error _ => true
  return jobj [("portReadKind", jstr (kindOf portRead)), ("intAgree", jbool intAgree), ("stripAgree", jbool stripAgree), ("stripSteps", jnat (stripSteps uri.toList)),
               ("model", jobj [("kind", jstr (kindOf r)),
                               ("infohash", match r with | .ok m => jstr m.infohash | .error _ => Json.null),
                               ("xl", match r with
                                      | .ok m => (match m.xl with | some n => jstr (toString n) | none => Json.null)
                                      | .error _ => Json.null)]),
               ("modelOracleQs", jstr (kindOf rOracle)),
               ("qsAgree", jbool qsAgree), ("numFields", jnat nf),
               ("spec", jarr (["ok", "magnet", "url"].map jstr)),
               ("hyp", jbool true), ("hypOracle", jbool qsOk),
               ("hypName", jstr "none (C08_magnet_documented); for the oracle variant: parse_qs yields no empty value list")]

/-- op `c08.qs`: {query, pct, maxNumFields?, strict?} ↦ the modelled `parse_qs` under explicit
    options: the pairs or "ValueError" -/
def qsOp (j : Json) : Except String Json := do
  let query ← getStr j "query"
  let pct ← getPct j
  let opts : QsOpts := { maxNumFields := getOptNat j "maxNumFields",
                         strictParsing := (j.getObjValAs? Bool "strict").toOption.getD false }
  return match parseQsE pct opts query with
    | .error r => jobj [("raise", jstr (raiseName r)), ("numFields", jnat (numFields query.toList))]
    | .ok q => jobj [("qs", jarr (q.map fun kv => jarr [jstr kv.1, jarr (kv.2.map jstr)])),
                     ("numFields", jnat (numFields query.toList))]

/-- op `c08.xt`: {v} ↦ does the xt setter accept the string (regex model) -/
def xtOp (j : Json) : Except String Json := do
  let v ← getStr j "v"
  return jobj [("model", match setXt v with | .ok ih => jstr ih | .error _ => Json.null)]

/-- op `c08.isspace`: {} ↦ every Unicode scalar value the model takes for white space (`isPySpace`) -/
def isspaceOp (_ : Json) : Except String Json :=
  return jobj [("space", jnats ((List.range 0x110000).filter fun n =>
    (n < 0xd800 || n > 0xdfff) && isPySpace (Char.ofNat n)))]

def handle (op : String) (j : Json) : Except String Json :=
  match op with
  | "c08.read" => readOp j
  | "c08.magnet" => magnetOp j
  | "c08.xt" => xtOp j
  | "c08.qs" => qsOp j
  | "c08.isspace" => isspaceOp j
  | "c08.keys" => keysOp j
  | _ => throw s!"unknown op {op}"

end Driver.C08
