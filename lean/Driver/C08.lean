import Driver.Util
open Lean
namespace Driver.C08

/-- ops of property C08: `c08.<name>` -/
def handle (op : String) (_j : Json) : Except String Json :=
  throw s!"unknown op {op}"

end Driver.C08
