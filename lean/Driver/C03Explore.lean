/-
  Explicit-state exploration of the pipeline transition system for small configurations.
  Supports the validation of the theorem statements (and of the model against the shim traces);
  it is bounded model checking, never a stand-in for the theorems.
-/
import Driver.C03
import Torf.Spec.Pipeline
import Std.Data.HashSet
open Lean Torf.Pipeline
namespace Driver.C03

structure ExploreResult where
  states : Nat := 0
  transitions : Nat := 0
  terminals : Nat := 0
  bad : Option (String × State) := none

partial def explore (cfg : Cfg) (passive : Bool) (limit : Nat) : ExploreResult := Id.run do
  let labels := allLabels cfg
  let mut seen : Std.HashSet State := {}
  let mut frontier : Array State := #[init cfg]
  seen := seen.insert (init cfg)
  let mut res : ExploreResult := {}
  while !frontier.isEmpty && res.bad.isNone && res.states < limit do
    let mut next : Array State := #[]
    for s in frontier do
      res := { res with states := res.states + 1 }
      if !Conserved s then res := { res with bad := some ("conservation", s) }
      if !noInternalError s then res := { res with bad := some ("internal-error", s) }
      if terminal s then
        res := { res with terminals := res.terminals + 1 }
        if cfg.refuse.isEmpty && !allThreadsDone s then
          res := { res with bad := some ("threads-alive-at-return", s) }
        if noFaults cfg && passive then
          match result? s with
          | some r => if !outcomeOk cfg r then res := { res with bad := some ("outcome", s) }
          | none => pure ()
      else
        if cfg.refuse.isEmpty && !canProgress cfg s then
          res := { res with bad := some ("deadlock", s) }
      for l in labels do
        match step cfg s l with
        | none => pure ()
        | some s' =>
          res := { res with transitions := res.transitions + 1 }
          if !seen.contains s' then
            seen := seen.insert s'
            next := next.push s'
    frontier := next
  return res

def exploreOp (j : Json) : Except String Json := do
  let cfg ← parseCfg (← j.getObjVal? "cfg")
  let passive ← getBool j "passive"
  let limit := (getOptNat j "limit").getD 2000000
  let r := explore cfg passive limit
  return jobj [("states", jnat r.states), ("transitions", jnat r.transitions), ("terminals", jnat r.terminals),
               ("bad", match r.bad with
                 | none => Json.null
                 | some (why, s) => jobj [("why", jstr why), ("state", jstr (toString (repr s)))])]

end Driver.C03
