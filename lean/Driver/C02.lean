import Driver.Util
open Lean
namespace Driver.C02

/-- ops of property C02: `c02.<name>` -/
def handle (op : String) (_j : Json) : Except String Json :=
  throw s!"unknown op {op}"

end Driver.C02
