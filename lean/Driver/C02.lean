import Driver.Util
import Torf.Spec.Verify
import Torf.Spec.VerifyFs
import Torf.Model.VerifyCall
import Torf.Model.VerifySpelling
open Lean Torf Torf.Missing Torf.Verify Torf.VerifyFs Torf.VerifyCall
namespace Driver.C02

def flipMark : Nat := 549755813888   -- 2^39: element (file, off) whose byte was changed

/-- disk state per file: "ok" | "missing" | n (actual size); `flips` = [[file, offset], …] -/
def mkDisk (sizes : List Nat) (states : List Json) (flips : List (Nat × Nat)) :
    Except String (List (Option (List Nat))) :=
  (sizes.zip states).zipIdx.mapM fun ((sz, st), i) => do
    let n ← match st with
      | .str "ok" => pure (some sz)
      | .str "missing" => pure none
      | .num n => pure (some n.mantissa.toNat)
      | _ => throw "bad disk state"
    return n.map fun n => (List.range n).map fun k =>
      if flips.contains (i, k) then i * elemBase + flipMark + k else i * elemBase + k

def errJson : VErr → Json
  | .read f => jobj [("kind", "read"), ("file", jnat f)]
  | .size f => jobj [("kind", "size"), ("file", jnat f)]
  | .content p fs => jobj [("kind", "content"), ("piece", jnat p), ("files", jnats fs)]
  | .isDir => jobj [("kind", "isDir")]
  | .notDir => jobj [("kind", "notDir")]
  | .internal => jobj [("kind", "internal")]

def resJson : VResult → Json
  | .ok b => jobj [("ok", jbool b)]
  | .error e => jobj [("error", errJson e)]

def callJson (c : CbCall (List Nat)) : Json :=
  jobj [("done", jnat c.done), ("piece", jnat c.piece), ("hash", jopt pieceJson c.hash),
        ("exc", jopt errJson c.exc)]

/-- op `c02.verify`: {L, sizes, disk, flips, single, pathIsDir}; the stored hashes are those of
    the undamaged content; H is injective (the piece itself). -/
def verify (j : Json) : Except String Json := do
  let L ← getNat j "L"
  let sizes ← getNats j "sizes"
  let states ← getArr j "disk"
  let flipsJ ← getArr j "flips"
  let flips ← flipsJ.mapM fun f => do
    let a ← f.getArr?
    if h : a.size = 2 then return ((← a[0].getNat?), (← a[1].getNat?)) else throw "flip must be a pair"
  let single ← getBool j "single"
  let pathIsDir ← getBool j "pathIsDir"
  let disk ← mkDisk sizes states flips
  let orig := mkFiles sizes
  let stored : List (List Nat) := chunks L orig.flatten
  let H : List Nat → List Nat := id
  let (r0, _) := verifySeq H L sizes disk stored false single pathIsDir
  let (r1, calls) := verifySeq H L sizes disk stored true single pathIsDir
  return jobj [
    ("nocb", resJson r0), ("cb", resJson r1), ("calls", jarr (calls.map callJson)),
    ("specOk", jbool (SpecOk H L sizes disk stored)),
    ("bad", jarr ((badFiles sizes disk).map fun (k, e) => jarr [jnat k, jstr (match e with | .read => "read" | .size => "size")])),
    ("mismatches", jnats (mismatches H L sizes disk stored)),
    ("overlapping", jarr ((List.range stored.length).map fun i => jnats (overlapping L sizes i))),
    ("pieces", jnat stored.length),
    ("mayBlank", jarr ((List.range stored.length).map fun i => jbool (mayBlank L sizes disk i))),
    ("hyp", jbool (L > 0 && NoBadEmpty sizes disk)),
    ("d10a", jbool (BadEmptyAtBoundary L sizes disk))]

/-! ### the full alphabet of path states (Model/VerifyFs.lean) -/

def fileContent (i n : Nat) (flips : List (Nat × Nat)) : List Nat :=
  (List.range n).map fun k =>
    if flips.contains (i, k) then i * elemBase + flipMark + k else i * elemBase + k

/-- state per file: "ok" | "missing" | n | {"k":"file","size":n} | {"k":"gone","errno":e} |
    {"k":"noopen","stat":n,"errno":e} | {"k":"readerr","size":n,"off":o,"errno":e} -/
def mkFs (sizes : List Nat) (states : List Json) (flips : List (Nat × Nat)) :
    Except String (List (FState Nat)) :=
  (sizes.zip states).zipIdx.mapM fun ((sz, st), i) => do
    match st with
    | .str "ok" => pure (.file (fileContent i sz flips))
    | .str "missing" => pure (.gone ENOENT)
    | .num n => pure (.file (fileContent i n.mantissa.toNat flips))
    | st =>
      let k ← getStr st "k"
      match k with
      | "file" => pure (.file (fileContent i ((getOptNat st "size").getD sz) flips))
      | "gone" => pure (.gone (← getNat st "errno"))
      | "noopen" => pure (.noOpen (← getNat st "stat") (← getNat st "errno"))
      | "readerr" =>
        pure (.readErr (fileContent i ((getOptNat st "size").getD sz) flips) (← getNat st "off")
          (← getNat st "errno"))
      | _ => throw s!"bad path state {k}"

def kindStr : ErrKind → String
  | .read => "read"
  | .size => "size"

/-- everything the harness wants to know about `verify` on the description `fd` -/
def fsReply (L : Nat) (sizes : List Nat) (fd : List (FState Nat)) (single pathIsDir : Bool) : Json :=
  let orig := mkFiles sizes
  let stored : List (List Nat) := chunks L orig.flatten
  let H : List Nat → List Nat := id
  let (r0, _) := verifyFs H L sizes fd stored false single pathIsDir
  let (r1, calls) := verifyFs H L sizes fd stored true single pathIsDir
  let md := mainDisk sizes fd
  let run := iterItemsFs L sizes fd
  let errnos : List Json := match run with
    | none => []
    | some r => r.items.zipIdx.flatMap fun (it, i) =>
        it.excs.filterMap fun e => (excErrno fd it e).map fun n => jarr [jnat i, jnat e.1, jnat n]
  let fault : Json := match run with
    | some ⟨_, some (f, e)⟩ => jarr [jnat f, jnat e]
    | _ => Json.null
  jobj [
    ("nocb", resJson r0), ("cb", resJson r1), ("calls", jarr (calls.map callJson)),
    ("errnos", jarr errnos), ("fault", fault),
    ("specOk", jbool (SpecOkFs H L sizes fd stored)),
    ("owed", jarr ((owedFiles sizes fd).map fun (k, o) =>
      match o with
      | .read e => jarr [jnat k, jstr "read", jnats (owedErrnos (stateAt fd k) ++ [e])]
      | .size => jarr [jnat k, jstr "size", jnats []])),
    ("must", jarr ((badFiles sizes (statDisk fd)).map fun (k, e) => jarr [jnat k, jstr (kindStr e)])),
    ("bad", jarr ((badFiles sizes md).map fun (k, e) => jarr [jnat k, jstr (kindStr e)])),
    ("mismatches", jnats (mismatches H L sizes md stored)),
    ("overlapping", jarr ((List.range stored.length).map fun i => jnats (overlapping L sizes i))),
    ("pieces", jnat stored.length),
    ("mayBlank", jarr ((List.range stored.length).map fun i => jbool (mayBlank L sizes md i))),
    ("hyp", jbool (L > 0 && NoBadEmpty sizes md)),
    ("noReadErr", jbool (NoReadErr fd)), ("noSilent", jbool (NoSilent sizes fd)),
    ("d10a", jbool (BadEmptyAtBoundary L sizes md))]

/-- the whole call with its history and gate ↦ "nocbG", "cbG", "callsG" -/
def callReply (j : Json) (L : Nat) (sizes : List Nat) (fd : List (FState Nat))
    (single pathIsDir : Bool) : Except String Json := do
  let stored : List (List Nat) := chunks L (mkFiles sizes).flatten
  let H : List Nat → List Nat := id
  let tpath : Option String := (getStr j "tpath").toOption
  let interval := (getInt j "interval").toOption.getD 0
  let clock := (getInts j "clock").toOption.getD []
  let (r0, _) := verifyCall H L sizes fd stored false single pathIsDir tpath interval clock
  let (r1, calls) := verifyCall H L sizes fd stored true single pathIsDir tpath interval clock
  return jobj [("nocbG", resJson r0), ("cbG", resJson r1), ("callsG", jarr (calls.map callJson))]

def getFlips (j : Json) : Except String (List (Nat × Nat)) := do
  let flipsJ ← getArr j "flips"
  flipsJ.mapM fun f => do
    let a ← f.getArr?
    if h : a.size = 2 then return ((← a[0].getNat?), (← a[1].getNat?)) else throw "flip must be a pair"

/-- op `c02.verifyfs`: as `c02.verify` over the full alphabet -/
def verifyfs (j : Json) : Except String Json := do
  let L ← getNat j "L"
  let sizes ← getNats j "sizes"
  let fd ← mkFs sizes (← getArr j "disk") (← getFlips j)
  return fsReply L sizes fd (← getBool j "single") (← getBool j "pathIsDir")

/-- op `c02.verifycall`: the reply of `c02.verifyfs` plus the whole call with its history and
    gate: {…, tpath: null | string, interval: int, clock: [int, …]} ↦ "nocbG", "cbG", "callsG" -/
def verifycall (j : Json) : Except String Json := do
  let L ← getNat j "L"
  let sizes ← getNats j "sizes"
  let fd ← mkFs sizes (← getArr j "disk") (← getFlips j)
  let single ← getBool j "single"
  let pathIsDir ← getBool j "pathIsDir"
  return (fsReply L sizes fd single pathIsDir).mergeObj (← callReply j L sizes fd single pathIsDir)

/-- op `c02.verifyenv`: {…, cap, free}: the call with `free` descriptors left.  The reply is the
    one of `c02.verifycall` on the description as the call experiences it (`effective`: files whose
    `open()` hit the limit are unopenable files, errno EMFILE), "emfile" lists them, and
    "envConsistent" says that `verifyEnv` on the given description is `verifyFs` on that one. -/
def verifyenv (j : Json) : Except String Json := do
  let L ← getNat j "L"
  let sizes ← getNats j "sizes"
  let fd ← mkFs sizes (← getArr j "disk") (← getFlips j)
  let single ← getBool j "single"
  let pathIsDir ← getBool j "pathIsDir"
  let cap ← getNat j "cap"
  let free ← getNat j "free"
  let tpath : Option String := (getStr j "tpath").toOption
  let eff := VerifyEnv.effective single tpath cap free L sizes fd
  let stored : List (List Nat) := chunks L (mkFiles sizes).flatten
  let H : List Nat → List Nat := id
  let same := [false, true].all fun cb =>
    let a := VerifyEnv.verifyEnv H L sizes fd stored cb single pathIsDir tpath 0 [] cap free
    let b := verifyFs H L sizes eff stored cb single pathIsDir
    a.1 == b.1 && a.2 == b.2
  let emfile := (List.range sizes.length).filter fun k =>
    match stateAt eff k, stateAt fd k with
    | .noOpen _ e, .file _ => e == VerifyEnv.EMFILE
    | .noOpen _ e, .readErr .. => e == VerifyEnv.EMFILE
    | .noOpen _ e, .noOpen _ e0 => e == VerifyEnv.EMFILE && e0 != VerifyEnv.EMFILE
    | .gone e, .gone e0 => e == VerifyEnv.EMFILE && e0 != VerifyEnv.EMFILE
    | .gone e, .noOpen _ e0 => e == VerifyEnv.EMFILE && e0 != VerifyEnv.EMFILE
    | _, _ => false
  return ((fsReply L sizes eff single pathIsDir).mergeObj (← callReply j L sizes eff single pathIsDir)).mergeObj
    (jobj [("emfile", jnats emfile), ("envConsistent", jbool same),
           ("headroom", jbool (cap + 1 ≤ free))])

/-- op `c02.verifyspelled`: the content path is a spelling in a world.
    {L, sizes, single, fs: [node…] (as `c18.reusePaths`: {"k":"f","size","r","c"} | {"k":"d","r","x","e":[[name, ino]…]}
    | {"k":"l","t": target}), cwd: "/…", path: spelling, names: [[component…]…] (listed names below
    the top directory), contents: [[file index, size, [flipped offsets…]]…] (bytes of content id c),
    dirSize, tpath?, interval?, clock?} -/
def verifyspelled (j : Json) : Except String Json := do
  let L ← getNat j "L"
  let sizes ← getNats j "sizes"
  let single ← getBool j "single"
  let fs ← (← getArr j "fs").mapM fun nj => do
    let k ← getStr nj "k"
    match k with
    | "f" => return Reuse.Node.file (← getNat nj "size") (← getBool nj "r") (← getNat nj "c")
    | "d" =>
      let es ← (← getArr nj "e").mapM fun e => do
        let a ← e.getArr?
        pure ((← (a[0]!).getStr?), (← (a[1]!).getNat?))
      return Reuse.Node.dir (← getBool nj "r") (← getBool nj "x") es
    | "l" => return Reuse.Node.link (Torf.Paths.parse (← getStr nj "t"))
    | _ => throw s!"unknown node kind {k}"
  let contents ← (← getArr j "contents").mapM fun cj => do
    let a ← cj.getArr?
    let i ← (a[0]!).getNat?
    let n ← (a[1]!).getNat?
    let fl ← (← (a[2]!).getArr?).toList.mapM fun x => x.getNat?
    pure (fileContent i n (fl.map fun o => (i, o)))
  let carr := contents.toArray
  let w0 : Reuse.World := ⟨fs, [], 0, fun _ => (.undecodable, fun _ => .missing)⟩
  let cwdStack ← match Reuse.resolve w0 (Torf.Paths.parse (← getStr j "cwd")) with
    | .ok (.dir st) => pure st
    | _ => throw "cwd does not resolve to a directory of the table"
  let env : VerifySpelling.Env Nat := ⟨{ w0 with cwd := cwdStack }, fun c => carr.getD c [], ← getNat j "dirSize"⟩
  let p := Torf.Paths.parse (← getStr j "path")
  let names ← (← getArr j "names").mapM fun nj => do
    (← nj.getArr?).toList.mapM fun x => x.getStr?
  let fd := VerifySpelling.fdOf env single p names
  let pathIsDir := Reuse.isdir env.w p
  let locStr : String := match Reuse.resolve env.w p with
    | .ok (.dir st) => s!"dir {st}"
    | .ok (.file i) => s!"file {i}"
    | .error e => s!"error {VerifySpelling.errnoOf e}"
  return ((fsReply L sizes fd single pathIsDir).mergeObj (← callReply j L sizes fd single pathIsDir)).mergeObj
    (jobj [("pathIsDir", jbool pathIsDir), ("resolvesTo", jstr locStr)])

def handle (op : String) (j : Json) : Except String Json :=
  match op with
  | "c02.verify" => verify j
  | "c02.verifyfs" => verifyfs j
  | "c02.verifycall" => verifycall j
  | "c02.verifyenv" => verifyenv j
  | "c02.verifyspelled" => verifyspelled j
  | _ => throw s!"unknown op {op}"

end Driver.C02
