import Driver.Util
import Torf.Spec.Verify
open Lean Torf Torf.Missing Torf.Verify
namespace Driver.C02

def flipMark : Nat := 549755813888   -- 2^39: element (file, off) whose byte was changed

/-- disk state per file: "ok" | "missing" | n (actual size); `flips` = [[file, offset], …] -/
def mkDisk (sizes : List Nat) (states : List Json) (flips : List (Nat × Nat)) :
    Except String (List (Option (List Nat))) :=
  (sizes.zip states).zipIdx.mapM fun ((sz, st), i) => do
    let n ← match st with
      | .str "ok" => pure (some sz)
      | .str "missing" => pure none
      | .num n => pure (some n.mantissa.toNat)
      | _ => throw "bad disk state"
    return n.map fun n => (List.range n).map fun k =>
      if flips.contains (i, k) then i * elemBase + flipMark + k else i * elemBase + k

def errJson : VErr → Json
  | .read f => jobj [("kind", "read"), ("file", jnat f)]
  | .size f => jobj [("kind", "size"), ("file", jnat f)]
  | .content p fs => jobj [("kind", "content"), ("piece", jnat p), ("files", jnats fs)]
  | .isDir => jobj [("kind", "isDir")]
  | .notDir => jobj [("kind", "notDir")]
  | .internal => jobj [("kind", "internal")]

def resJson : VResult → Json
  | .ok b => jobj [("ok", jbool b)]
  | .error e => jobj [("error", errJson e)]

def callJson (c : CbCall (List Nat)) : Json :=
  jobj [("done", jnat c.done), ("piece", jnat c.piece), ("hash", jopt pieceJson c.hash),
        ("exc", jopt errJson c.exc)]

/-- op `c02.verify`: {L, sizes, disk, flips, single, pathIsDir}; the stored hashes are those of
    the undamaged content; H is injective (the piece itself). -/
def verify (j : Json) : Except String Json := do
  let L ← getNat j "L"
  let sizes ← getNats j "sizes"
  let states ← getArr j "disk"
  let flipsJ ← getArr j "flips"
  let flips ← flipsJ.mapM fun f => do
    let a ← f.getArr?
    if h : a.size = 2 then return ((← a[0].getNat?), (← a[1].getNat?)) else throw "flip must be a pair"
  let single ← getBool j "single"
  let pathIsDir ← getBool j "pathIsDir"
  let disk ← mkDisk sizes states flips
  let orig := mkFiles sizes
  let stored : List (List Nat) := chunks L orig.flatten
  let H : List Nat → List Nat := id
  let (r0, _) := verifySeq H L sizes disk stored false single pathIsDir
  let (r1, calls) := verifySeq H L sizes disk stored true single pathIsDir
  return jobj [
    ("nocb", resJson r0), ("cb", resJson r1), ("calls", jarr (calls.map callJson)),
    ("specOk", jbool (SpecOk H L sizes disk stored)),
    ("bad", jarr ((badFiles sizes disk).map fun (k, e) => jarr [jnat k, jstr (match e with | .read => "read" | .size => "size")])),
    ("mismatches", jnats (mismatches H L sizes disk stored)),
    ("overlapping", jarr ((List.range stored.length).map fun i => jnats (overlapping L sizes i))),
    ("pieces", jnat stored.length),
    ("mayBlank", jarr ((List.range stored.length).map fun i => jbool (mayBlank L sizes disk i))),
    ("hyp", jbool (L > 0 && NoBadEmpty sizes disk)),
    ("d10a", jbool (BadEmptyAtBoundary L sizes disk))]

def handle (op : String) (j : Json) : Except String Json :=
  match op with
  | "c02.verify" => verify j
  | _ => throw s!"unknown op {op}"

end Driver.C02
