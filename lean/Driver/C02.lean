import Driver.Util
import Torf.Spec.Verify
import Torf.Spec.VerifyFs
import Torf.Model.VerifyCall
open Lean Torf Torf.Missing Torf.Verify Torf.VerifyFs Torf.VerifyCall
namespace Driver.C02

def flipMark : Nat := 549755813888   -- 2^39: element (file, off) whose byte was changed

/-- disk state per file: "ok" | "missing" | n (actual size); `flips` = [[file, offset], …] -/
def mkDisk (sizes : List Nat) (states : List Json) (flips : List (Nat × Nat)) :
    Except String (List (Option (List Nat))) :=
  (sizes.zip states).zipIdx.mapM fun ((sz, st), i) => do
    let n ← match st with
      | .str "ok" => pure (some sz)
      | .str "missing" => pure none
      | .num n => pure (some n.mantissa.toNat)
      | _ => throw "bad disk state"
    return n.map fun n => (List.range n).map fun k =>
      if flips.contains (i, k) then i * elemBase + flipMark + k else i * elemBase + k

def errJson : VErr → Json
  | .read f => jobj [("kind", "read"), ("file", jnat f)]
  | .size f => jobj [("kind", "size"), ("file", jnat f)]
  | .content p fs => jobj [("kind", "content"), ("piece", jnat p), ("files", jnats fs)]
  | .isDir => jobj [("kind", "isDir")]
  | .notDir => jobj [("kind", "notDir")]
  | .internal => jobj [("kind", "internal")]

def resJson : VResult → Json
  | .ok b => jobj [("ok", jbool b)]
  | .error e => jobj [("error", errJson e)]

def callJson (c : CbCall (List Nat)) : Json :=
  jobj [("done", jnat c.done), ("piece", jnat c.piece), ("hash", jopt pieceJson c.hash),
        ("exc", jopt errJson c.exc)]

/-- op `c02.verify`: {L, sizes, disk, flips, single, pathIsDir}; the stored hashes are those of
    the undamaged content; H is injective (the piece itself). -/
def verify (j : Json) : Except String Json := do
  let L ← getNat j "L"
  let sizes ← getNats j "sizes"
  let states ← getArr j "disk"
  let flipsJ ← getArr j "flips"
  let flips ← flipsJ.mapM fun f => do
    let a ← f.getArr?
    if h : a.size = 2 then return ((← a[0].getNat?), (← a[1].getNat?)) else throw "flip must be a pair"
  let single ← getBool j "single"
  let pathIsDir ← getBool j "pathIsDir"
  let disk ← mkDisk sizes states flips
  let orig := mkFiles sizes
  let stored : List (List Nat) := chunks L orig.flatten
  let H : List Nat → List Nat := id
  let (r0, _) := verifySeq H L sizes disk stored false single pathIsDir
  let (r1, calls) := verifySeq H L sizes disk stored true single pathIsDir
  return jobj [
    ("nocb", resJson r0), ("cb", resJson r1), ("calls", jarr (calls.map callJson)),
    ("specOk", jbool (SpecOk H L sizes disk stored)),
    ("bad", jarr ((badFiles sizes disk).map fun (k, e) => jarr [jnat k, jstr (match e with | .read => "read" | .size => "size")])),
    ("mismatches", jnats (mismatches H L sizes disk stored)),
    ("overlapping", jarr ((List.range stored.length).map fun i => jnats (overlapping L sizes i))),
    ("pieces", jnat stored.length),
    ("mayBlank", jarr ((List.range stored.length).map fun i => jbool (mayBlank L sizes disk i))),
    ("hyp", jbool (L > 0 && NoBadEmpty sizes disk)),
    ("d10a", jbool (BadEmptyAtBoundary L sizes disk))]

/-! ### the full alphabet of path states (Model/VerifyFs.lean) -/

def fileContent (i n : Nat) (flips : List (Nat × Nat)) : List Nat :=
  (List.range n).map fun k =>
    if flips.contains (i, k) then i * elemBase + flipMark + k else i * elemBase + k

/-- state per file: "ok" | "missing" | n | {"k":"file","size":n} | {"k":"gone","errno":e} |
    {"k":"noopen","stat":n,"errno":e} | {"k":"readerr","size":n,"off":o,"errno":e} -/
def mkFs (sizes : List Nat) (states : List Json) (flips : List (Nat × Nat)) :
    Except String (List (FState Nat)) :=
  (sizes.zip states).zipIdx.mapM fun ((sz, st), i) => do
    match st with
    | .str "ok" => pure (.file (fileContent i sz flips))
    | .str "missing" => pure (.gone ENOENT)
    | .num n => pure (.file (fileContent i n.mantissa.toNat flips))
    | st =>
      let k ← getStr st "k"
      match k with
      | "file" => pure (.file (fileContent i ((getOptNat st "size").getD sz) flips))
      | "gone" => pure (.gone (← getNat st "errno"))
      | "noopen" => pure (.noOpen (← getNat st "stat") (← getNat st "errno"))
      | "readerr" =>
        pure (.readErr (fileContent i ((getOptNat st "size").getD sz) flips) (← getNat st "off")
          (← getNat st "errno"))
      | _ => throw s!"bad path state {k}"

def kindStr : ErrKind → String
  | .read => "read"
  | .size => "size"

/-- op `c02.verifyfs`: as `c02.verify` over the full alphabet -/
def verifyfs (j : Json) : Except String Json := do
  let L ← getNat j "L"
  let sizes ← getNats j "sizes"
  let states ← getArr j "disk"
  let flipsJ ← getArr j "flips"
  let flips ← flipsJ.mapM fun f => do
    let a ← f.getArr?
    if h : a.size = 2 then return ((← a[0].getNat?), (← a[1].getNat?)) else throw "flip must be a pair"
  let single ← getBool j "single"
  let pathIsDir ← getBool j "pathIsDir"
  let fd ← mkFs sizes states flips
  let orig := mkFiles sizes
  let stored : List (List Nat) := chunks L orig.flatten
  let H : List Nat → List Nat := id
  let (r0, _) := verifyFs H L sizes fd stored false single pathIsDir
  let (r1, calls) := verifyFs H L sizes fd stored true single pathIsDir
  let md := mainDisk sizes fd
  let run := iterItemsFs L sizes fd
  let errnos : List Json := match run with
    | none => []
    | some r => r.items.zipIdx.flatMap fun (it, i) =>
        it.excs.filterMap fun e => (excErrno fd it e).map fun n => jarr [jnat i, jnat e.1, jnat n]
  let fault : Json := match run with
    | some ⟨_, some (f, e)⟩ => jarr [jnat f, jnat e]
    | _ => Json.null
  return jobj [
    ("nocb", resJson r0), ("cb", resJson r1), ("calls", jarr (calls.map callJson)),
    ("errnos", jarr errnos), ("fault", fault),
    ("specOk", jbool (SpecOkFs H L sizes fd stored)),
    ("owed", jarr ((owedFiles sizes fd).map fun (k, o) =>
      match o with
      | .read e => jarr [jnat k, jstr "read", jnats (owedErrnos (stateAt fd k) ++ [e])]
      | .size => jarr [jnat k, jstr "size", jnats []])),
    ("must", jarr ((badFiles sizes (statDisk fd)).map fun (k, e) => jarr [jnat k, jstr (kindStr e)])),
    ("bad", jarr ((badFiles sizes md).map fun (k, e) => jarr [jnat k, jstr (kindStr e)])),
    ("mismatches", jnats (mismatches H L sizes md stored)),
    ("overlapping", jarr ((List.range stored.length).map fun i => jnats (overlapping L sizes i))),
    ("pieces", jnat stored.length),
    ("mayBlank", jarr ((List.range stored.length).map fun i => jbool (mayBlank L sizes md i))),
    ("hyp", jbool (L > 0 && NoBadEmpty sizes md)),
    ("noReadErr", jbool (NoReadErr fd)), ("noSilent", jbool (NoSilent sizes fd)),
    ("d10a", jbool (BadEmptyAtBoundary L sizes md))]

/-- op `c02.verifycall`: the reply of `c02.verifyfs` plus the whole call with its history and
    gate: {…, tpath: null | string, interval: int, clock: [int, …]} ↦ "nocbG", "cbG", "callsG" -/
def verifycall (j : Json) : Except String Json := do
  let base ← verifyfs j
  let L ← getNat j "L"
  let sizes ← getNats j "sizes"
  let states ← getArr j "disk"
  let flipsJ ← getArr j "flips"
  let flips ← flipsJ.mapM fun f => do
    let a ← f.getArr?
    if h : a.size = 2 then return ((← a[0].getNat?), (← a[1].getNat?)) else throw "flip must be a pair"
  let single ← getBool j "single"
  let pathIsDir ← getBool j "pathIsDir"
  let fd ← mkFs sizes states flips
  let stored : List (List Nat) := chunks L (mkFiles sizes).flatten
  let H : List Nat → List Nat := id
  let tpath : Option String := (getStr j "tpath").toOption
  let interval ← getInt j "interval"
  let clock ← getInts j "clock"
  let (r0, _) := verifyCall H L sizes fd stored false single pathIsDir tpath interval clock
  let (r1, calls) := verifyCall H L sizes fd stored true single pathIsDir tpath interval clock
  return base.mergeObj (jobj [
    ("nocbG", resJson r0), ("cbG", resJson r1), ("callsG", jarr (calls.map callJson))])

def handle (op : String) (j : Json) : Except String Json :=
  match op with
  | "c02.verify" => verify j
  | "c02.verifyfs" => verifyfs j
  | "c02.verifycall" => verifycall j
  | _ => throw s!"unknown op {op}"

end Driver.C02
