import Driver.Util
open Lean
namespace Driver.C20

/-- ops of property C20: `c20.<name>` -/
def handle (op : String) (_j : Json) : Except String Json :=
  throw s!"unknown op {op}"

end Driver.C20
