import Driver.Util
import Torf.Spec.FileSize
open Lean Torf Torf.FileSize
namespace Driver.C20

def errJson : Err → Json
  | .read => jarr [jstr "read"]
  | .size a e => jarr [jstr "verifyFileSize", jnat a, jnat e]
  | .isDir => jarr [jstr "verifyIsDir"]
  | .metainfo => jarr [jstr "metainfo"]
  | .path => jarr [jstr "path"]

def resJson : Res → Json
  | .ok b => jobj [("ok", jbool b)]
  | .raised e => jobj [("raised", errJson e)]

def callJson (c : Call) : Json :=
  jarr [jnat c.idx, jnat c.done, jnat c.total, jopt errJson c.exc]

def outJson (r : Res × List Call) : Json :=
  jobj [("res", resJson r.1), ("calls", jarr (r.2.map callJson))]

def getStrs (j : Json) (k : String) : Except String (List String) :=
  (·.toList) <$> j.getObjValAs? (Array String) k

def parseListed (j : Json) : Except String Listed := do
  return ⟨← getStrs j "path", ← getNat j "size"⟩

def parseEntry (j : Json) : Except String (List String × Entry) := do
  let p ← getStrs j "path"
  let kind ← getStr j "kind"
  let n := (getOptNat j "n").getD 0
  match kind with
  | "missing" => return (p, .missing)
  | "file" => return (p, .file n)
  | "dir" => return (p, .dir n)
  | _ => throw s!"unknown entry kind {kind}"

def mkFS (es : List (List String × Entry)) : FS := fun p =>
  match es.find? (fun e => e.1 == p) with
  | some e => e.2
  | none => .missing

/-- plain path components: the string algebra of pathlib is not modelled, so names with a
    separator, `.`/`..` or the empty string are outside the hypothesis -/
def plain (s : String) : Bool := s != "" && s != "." && s != ".." && !s.contains '/'

/-- op `c20.verify` : {name, single, length | files, pl, piecesBytes, fs, cb : null | [done…]}
    ↦ model, spec (both: result + callback trace), hyp = WF ∧ plain components,
    allGood, presentExact (for the cross-check with the real `verify`) -/
def verify (j : Json) : Except String Json := do
  let name ← getStr j "name"
  let single ← getBool j "single"
  let mode ← if single then (Mode.single <$> getNat j "length")
             else (Mode.multi <$> ((← getArr j "files").mapM parseListed))
  let t : Torrent := ⟨name, mode, ← getNat j "pl", ← getNat j "piecesBytes"⟩
  let fs := mkFS (← (← getArr j "fs").mapM parseEntry)
  let cbj ← j.getObjVal? "cb"
  let cb : Callback ← match cbj with
    | Json.null => pure none
    | _ => do
      let stops ← getNats j "cb"
      pure (some fun c => stops.contains c.done)
  let model := verifyFilesize t fs cb
  let sp := spec t fs cb
  let hyp := decide (WF t) && plain name && t.listed.all (fun f => f.path.all plain)
  return jobj [("model", outJson model), ("spec", outJson sp), ("modelEqSpec", jbool (model == sp)),
               ("hyp", jbool hyp), ("valid", jbool (validateCore t)),
               ("allGood", jbool (allGood t fs)),
               ("errs", jarr (t.listed.map fun f => jopt errJson (errOf fs f))),
               ("singleAtDir", jbool (singleAtDir t fs)),
               ("presentExact", jbool (allPresentExact t fs))]

def handle (op : String) (j : Json) : Except String Json :=
  match op with
  | "c20.verify" => verify j
  | _ => throw s!"unknown op {op}"

end Driver.C20
