import Driver.Util
import Torf.Spec.FileSize
import Torf.Spec.FileSizeHistory
import Torf.Model.FileSizePath
import Torf.Model.FileSizeEnv
open Lean Torf Torf.FileSize
namespace Driver.C20

def errJson : Err → Json
  | .read => jarr [jstr "read"]
  | .size a e => jarr [jstr "verifyFileSize", jnat a, jnat e]
  | .isDir => jarr [jstr "verifyIsDir"]
  | .metainfo => jarr [jstr "metainfo"]
  | .path => jarr [jstr "path"]

def resJson : Res → Json
  | .ok b => jobj [("ok", jbool b)]
  | .raised e => jobj [("raised", errJson e)]

def callJson (c : Call) : Json :=
  jarr [jnat c.idx, jnat c.done, jnat c.total, jopt errJson c.exc]

def outJson (r : Res × List Call) : Json :=
  jobj [("res", resJson r.1), ("calls", jarr (r.2.map callJson))]

def getStrs (j : Json) (k : String) : Except String (List String) :=
  (·.toList) <$> j.getObjValAs? (Array String) k

def parseListed (j : Json) : Except String Listed := do
  return ⟨← getStrs j "path", ← getNat j "size"⟩

def parseEntry (j : Json) : Except String (List String × Entry) := do
  let p ← getStrs j "path"
  let kind ← getStr j "kind"
  let n := (getOptNat j "n").getD 0
  match kind with
  | "missing" => return (p, .missing)
  | "file" => return (p, .file n)
  | "dir" => return (p, .dir n)
  | _ => throw s!"unknown entry kind {kind}"

def mkFS (es : List (List String × Entry)) : FS := fun p =>
  match es.find? (fun e => e.1 == p) with
  | some e => e.2
  | none => .missing

/-- plain path components: the string algebra of pathlib is not modelled, so names with a
    separator, `.`/`..` or the empty string are outside the hypothesis -/
def plain (s : String) : Bool := s != "" && s != "." && s != ".." && !s.contains '/'

/-- op `c20.verify` : {name, single, length | files, pl, piecesBytes, fs, cb : null | [done…]}
    ↦ model, spec (both: result + callback trace), hyp = WF ∧ plain components,
    allGood, presentExact (for the cross-check with the real `verify`) -/
def verify (j : Json) : Except String Json := do
  let name ← getStr j "name"
  let single ← getBool j "single"
  let mode ← if single then (Mode.single <$> getNat j "length")
             else (Mode.multi <$> ((← getArr j "files").mapM parseListed))
  let t : Torrent := ⟨name, mode, ← getNat j "pl", ← getNat j "piecesBytes"⟩
  let fs := mkFS (← (← getArr j "fs").mapM parseEntry)
  let cbj ← j.getObjVal? "cb"
  let cb : Callback ← match cbj with
    | Json.null => pure none
    | _ => do
      let stops ← getNats j "cb"
      pure (some fun c => stops.contains c.done)
  let model := verifyFilesize t fs cb
  let sp := spec t fs cb
  let hyp := decide (WF t) && plain name && t.listed.all (fun f => f.path.all plain)
  return jobj [("model", outJson model), ("spec", outJson sp), ("modelEqSpec", jbool (model == sp)),
               ("hyp", jbool hyp), ("valid", jbool (validateCore t)),
               ("allGood", jbool (allGood t fs)),
               ("errs", jarr (t.listed.map fun f => jopt errJson (errOf fs f))),
               ("singleAtDir", jbool (singleAtDir t fs)),
               ("presentExact", jbool (allPresentExact t fs))]

/-! ### histories (Torf.Model.FileSizeHistory) -/

def parseMeta (j : Json) : Except String Torrent := do
  let name ← getStr j "name"
  let single ← getBool j "single"
  let mode ← if single then (Mode.single <$> getNat j "length")
             else (Mode.multi <$> ((← getArr j "files").mapM parseListed))
  return ⟨name, mode, ← getNat j "pl", ← getNat j "piecesBytes"⟩

def parseCb (j : Json) : Except String Callback := do
  let cbj ← j.getObjVal? "cb"
  match cbj with
  | Json.null => pure none
  | _ => do
    let stops ← getNats j "cb"
    pure (some fun c => stops.contains c.done)

def parseOp (j : Json) : Except String Op := do
  let k ← getStr j "k"
  let o ← getNat j "o"
  match k with
  | "edit" => return .edit o (← parseMeta (← j.getObjVal? "meta"))
  | "setter" => return .setter o (← parseMeta (← j.getObjVal? "meta"))
  | "copy" => return .copy o
  | "lookup" => return .lookup o (← getStrs j "p")
  | "lookupAll" => return .lookupAll o
  | "props" => return .props o
  | "check" =>
    let fs := mkFS (← (← getArr j "fs").mapM parseEntry)
    return .check o fs (← parseCb j) (← getBool j "raises")
  | _ => throw s!"unknown history op {k}"

def sizeJson : Except Err Nat → Json
  | .ok n => jobj [("ok", jnat n)]
  | .error e => jobj [("err", errJson e)]

def outcomeJson : Outcome → Json
  | .res r => resJson r
  | .callbackRaised => jobj [("cbraised", jbool true)]

def listedJson (f : Listed) : Json := jarr [jarr (f.path.map jstr), jnat f.size]

def obsJson : Obs → Json
  | .nothing => Json.null
  | .size r => sizeJson r
  | .sizes l => jarr (l.map sizeJson)
  | .props sz pc fl => jobj [("size", jnat sz), ("pieces", jnat pc), ("files", jarr (fl.map listedJson))]
  | .check out calls => jobj [("res", outcomeJson out), ("calls", jarr (calls.map callJson))]

/-- plain components, and in a multi-file torrent no entry with an empty component list (such an
    entry would be the torrent's top directory itself) -/
def plainMeta (t : Torrent) : Bool :=
  plain t.name && t.listed.all (fun f => f.path.all plain) &&
    (t.isSingle || t.listed.all (fun f => !f.path.isEmpty))

/-- op `c20.history` : {objs : [meta…], ops : [op…]} ↦ per operation: what the code-shaped model
    shows (`step false`), what the specification prescribes for the metainfo and disk of that
    moment (`specObs`), what the memoising variant shows (`step true`; for the generator's
    statistics only), hyp = `opHyp` ∧ plain components, and for checks the per-file errors -/
def history (j : Json) : Except String Json := do
  let metas0 ← (← getArr j "objs").mapM parseMeta
  let ops ← (← getArr j "ops").mapM parseOp
  let mut objsF : List Obj := metas0.map fun t => ⟨t, []⟩
  let mut objsT : List Obj := objsF
  let mut metas := metas0
  let mut out : Array Json := #[]
  for op in ops do
    let rF := step false objsF op
    let rT := step true objsT op
    let cur := metas[op.target]?
    let sp : Obs := match cur with
      | none => .nothing
      | some t => specObs t op
    let hyp : Bool := match cur with
      | none => false
      | some t => decide (opHyp t op) && plainMeta t
    let aux : List (String × Json) := match cur, op with
      | some t, .check _ fs _ _ =>
        [("errs", jarr (t.listed.map fun f => jopt errJson (errOf fs f))),
         ("singleAtDir", jbool (singleAtDir t fs)), ("valid", jbool (validateCore t)),
         ("presentExact", jbool (allPresentExact t fs))]
      | _, _ => []
    let mj := obsJson rF.2
    let sj := obsJson sp
    let tj := obsJson rT.2
    out := out.push (jobj ([("model", mj), ("spec", sj), ("modelEqSpec", jbool (mj == sj)),
                            ("memoDiffers", jbool (tj != mj)), ("hyp", jbool hyp)] ++ aux))
    objsF := rF.1
    objsT := rT.1
    metas := metaStep metas op
  return jobj [("steps", Json.arr out)]

/-! ### spelled content paths (Torf.Model.FileSizePath) -/

def parseInode (j : Json) : Except String Reuse.Node := do
  let k ← getStr j "k"
  match k with
  | "f" => return .file (← getNat j "size") true 0
  | "d" =>
    let es ← (← getArr j "e").mapM fun e => do
      let a ← e.getArr?
      let n ← (a[0]!).getStr?
      let i ← (a[1]!).getNat?
      pure (n, i)
    return .dir true true es
  | "l" => return .link (Torf.Paths.parse (← getStr j "t"))
  | _ => throw s!"unknown node kind {k}"

/-- well-formed inode table: the root is a directory; entries have plain, pairwise distinct names
    and point into the table; link targets are not empty -/
def wfInodes (fs : Reuse.FS) : Bool :=
  (match fs[0]? with | some (Reuse.Node.dir ..) => true | _ => false) &&
  fs.all fun (n : Reuse.Node) => match n with
    | .dir _ _ es => es.all (fun e => plain e.1 && decide (e.2 < fs.length)) &&
        (es.map (·.1)).eraseDups.length == es.length
    | .link t => !(t.comps.isEmpty) && (t.abs || t.comps.headD "" != "")
    | _ => true

def isLoop : Except Reuse.OsErr Reuse.Loc → Bool
  | .error .loop => true
  | _ => false

/-- op `c20.spelling` : {nodes, cwd : "/abs/physical/path", dirTotals : [[ino, total]…], path : text,
    meta, cb, measured : [{path, kind, n}…]}
    ↦ model = `verifyFilesizeAt false` in the world of the inode table;
      spec  = `spec` on the tree at the location the OS resolves `path` to (`treeAt`, full link
              budget; the all-missing tree when `path` does not resolve);
      specMeasured = `spec` on what the harness measured through the OS with the spelling;
      variant = `verifyFilesizeAt true` (normpath first; statistics only);
      hyp = WF ∧ plain components ∧ well-formed table ∧ no ELOOP in any lookup ∧ (`path` resolves,
            or neither it nor its tidied form does);
      paths = the reported file-system path of every listed file -/
def spelling (j : Json) : Except String Json := do
  let fs ← (← getArr j "nodes").mapM parseInode
  let w0 : Reuse.World := ⟨fs, [], 0, fun _ => (.undecodable, fun _ => .missing)⟩
  let cwdP := Torf.Paths.parse (← getStr j "cwd")
  let cwd ← match Reuse.resolve w0 cwdP with
    | .ok (.dir st) => pure st
    | _ => throw "cwd does not resolve to a directory"
  let w : Reuse.World := { w0 with cwd := cwd }
  let totals ← (← getArr j "dirTotals").mapM fun e => do
    let a ← e.getArr?
    pure ((← (a[0]!).getNat?), (← (a[1]!).getNat?))
  let dt : Nat → Nat := fun i => (totals.lookup i).getD 0
  let p := Torf.Paths.parse (← getStr j "path")
  let t ← parseMeta (← j.getObjVal? "meta")
  let cb ← parseCb j
  let measured := mkFS (← (← getArr j "measured").mapM parseEntry)
  let model := verifyFilesizeAt false w dt t p cb
  let variant := verifyFilesizeAt true w dt t p cb
  let res := Reuse.resolve w p
  let tidy := Reuse.resolve w (fsPath p [])
  let tree : FS := match res with
    | .ok loc => treeAt fs dt Reuse.maxLinks loc
    | .error _ => fun _ => .missing
  let sp := spec t tree cb
  let spm := spec t measured cb
  let noLoop := !isLoop res && t.listed.all fun f =>
    !isLoop (Reuse.resolve w (fsPath p f.path)) &&
      (match res with
        | .ok (.dir st) => !isLoop (Reuse.walk fs Reuse.maxLinks st f.path)
        | _ => true)
  let resolves := match res, tidy with
    | .ok _, _ => true
    | .error _, .error _ => true
    | _, _ => false
  let hyp := decide (WF t) && plainMeta t && wfInodes fs && noLoop && resolves
  let kind := match res with
    | .ok (.dir _) => "dir"
    | .ok (.file _) => "file"
    | .error _ => "error"
  return jobj [("model", outJson model), ("spec", outJson sp), ("specMeasured", outJson spm),
               ("variant", outJson variant), ("modelEqSpec", jbool (model == sp)),
               ("specEqMeasured", jbool (sp == spm)), ("variantDiffers", jbool (variant != model)),
               ("hyp", jbool hyp), ("resolves", jstr kind),
               ("errs", jarr (t.listed.map fun f => jopt errJson (errOf tree f))),
               ("singleAtDir", jbool (singleAtDir t tree)), ("valid", jbool (validateCore t)),
               ("presentExact", jbool (allPresentExact t tree)),
               ("paths", jarr (t.listed.map fun f => jstr (Torf.Paths.strOf (reportedPath p f))))]

/-! ### worlds and typed lengths (Torf.Model.FileSizeEnv) -/

/-- {"t": "int" | "bool" | "float" | "frac" | "nonfinite" | "other", "v": integer} -/
def parseNum (j : Json) : Except String PyNum := do
  let t ← getStr j "t"
  let v := (getInt j "v").toOption.getD 0
  match t with
  | "int" => return .int v
  | "bool" => return .bool (v != 0)
  | "float" => return .floatWhole v
  | "frac" => return .floatFrac
  | "nonfinite" => return .floatNonFinite
  | "other" => return .other
  | _ => throw s!"unknown number kind {t}"

def parseNListed (j : Json) : Except String NListed := do
  return ⟨← getStrs j "path", ← parseNum (← j.getObjVal? "len")⟩

def parseNMeta (j : Json) : Except String NTorrent := do
  let name ← getStr j "name"
  let single ← getBool j "single"
  let mode ← if single then (NMode.single <$> parseNum (← j.getObjVal? "length"))
             else (NMode.multi <$> ((← getArr j "files").mapM parseNListed))
  return ⟨name, mode, ← getNat j "pl", ← getNat j "piecesBytes"⟩

def parseOpen (j : Json) : Except String (List String × OpenAnswer) := do
  let p ← getStrs j "path"
  match (getStr j "open").toOption.getD "opens" with
  | "opens" => return (p, .opens)
  | "fails" => return (p, .fails)
  | "blocks" => return (p, .blocks)
  | o => throw s!"unknown open answer {o}"

def outGJson (r : OutG × List Call) : Json :=
  let res := match r.1 with
    | .res x => resJson x
    | .internal => jobj [("raised", jarr [jstr "internal"])]
    | .hangs => jobj [("raised", jarr [jstr "hang"])]
  jobj [("res", res), ("calls", jarr (r.2.map callJson))]

/-- op `c20.env` : {name, single, length | files (lengths as typed numbers), pl, piecesBytes,
      fs : [{path, kind, n, open}…], cb}
    ↦ model = `verifyFilesizeG code` in the world (stat answers + open answers);
      spec  = `spec` on the erased torrent and the stat answers behind the type gate (what
              `C20_env_refines` prescribes);
      probe / intfmt = the two excluded variants (statistics only);
      hyp = WF (erased) ∧ plain components -/
def env (j : Json) : Except String Json := do
  let nt ← parseNMeta j
  let ents ← getArr j "fs"
  let st := mkFS (← ents.mapM parseEntry)
  let os ← ents.mapM parseOpen
  let opens : List String → OpenAnswer := fun p =>
    match os.find? (fun e => e.1 == p) with
    | some e => e.2
    | none => .opens
  let w : World := ⟨st, opens⟩
  let cb ← parseCb j
  let t := nt.erase
  let model := verifyFilesizeG code nt w cb
  let sp : OutG × List Call :=
    if nt.lengthsValid then lift (spec t st cb) else (.res (.raised .metainfo), [])
  let vp := verifyFilesizeG ⟨true, false⟩ nt w cb
  let vf := verifyFilesizeG ⟨false, true⟩ nt w cb
  let hyp := decide (WF t) && plain nt.name && t.listed.all (fun f => f.path.all plain)
  return jobj [("model", outGJson model), ("spec", outGJson sp), ("modelEqSpec", jbool (model == sp)),
               ("probeDiffers", jbool (vp != model)), ("intfmtDiffers", jbool (vf != model)),
               ("hyp", jbool hyp), ("valid", jbool (validateN nt)),
               ("allGood", jbool (allGood t st)),
               ("errs", jarr (t.listed.map fun f => jopt errJson (errOf st f))),
               ("singleAtDir", jbool (singleAtDir t st)),
               ("presentExact", jbool (allPresentExact t st))]

def handle (op : String) (j : Json) : Except String Json :=
  match op with
  | "c20.verify" => verify j
  | "c20.history" => history j
  | "c20.spelling" => spelling j
  | "c20.env" => env j
  | _ => throw s!"unknown op {op}"

end Driver.C20
