import Driver.Util
import Torf.Spec.MagnetHash
open Lean Torf Torf.Magnet
namespace Driver.C14

def cpsOfJson (j : Json) : Except String Str := do
  let a ← j.getArr?
  a.toList.mapM fun x => do let n ← x.getNat?; pure (Char.ofNat n)
def getCps (j : Json) (k : String) : Except String Str := do cpsOfJson (← j.getObjVal? k)
def getOptCps (j : Json) (k : String) : Except String (Option Str) := do
  match j.getObjVal? k with
  | .ok Json.null => pure none
  | .ok v => some <$> cpsOfJson v
  | .error _ => pure none
def getCpsList (j : Json) (k : String) : Except String (List Str) := do
  (← getArr j k).mapM cpsOfJson
def jcps (s : Str) : Json := jnats (s.map Char.toNat)
def jerr : Option MErr → Json
  | none => Json.null
  | some .magnet => "magnet"
  | some .url => "url"
  | some .metainfo => "metainfo"
  | some (.internal t) => jstr ("internal:" ++ t)
def jexc (f : α → Json) : Except MErr α → Json
  | .ok a => jobj [("ok", f a)]
  | .error e => jobj [("err", jerr (some e))]

def stepOf (entry : String) (v : Str) : Except String HashOp :=
  match entry with
  | "xt" | "ctor" => pure (.xt v)
  | "infohash" => pure (.infohash v)
  | _ => throw s!"bad entry {entry}"

/-- `c14.hash`: one assignment from a prior state. -/
def hash (j : Json) : Except String Json := do
  let v ← getCps j "v"
  let prior ← getOptCps j "prior"
  let entry ← getStr j "entry"
  let op ← stepOf entry v
  let r := stepHash prior op
  let accept := if entry == "infohash" then infohashAccepts v else xtAccepts v
  let stored := if entry == "infohash" then v else xtStored v
  let specState := if accept then some stored else prior
  let b16 : Json := match r.1, r.2 with
    | none, some s => jexc jcps (infohashAsBase16 s)
    | _, _ => Json.null
  let specB16 : Json := if accept then jcps (hexLower40 (hashVal stored)) else Json.null
  return jobj [("model", jobj [("err", jerr r.1), ("state", jopt jcps r.2), ("base16", b16)]),
               ("spec", jobj [("accept", jbool accept), ("state", jopt jcps specState), ("base16", specB16)]),
               ("hyp", jbool true)]

/-- `c14.history`: a history of assignments. -/
def history (j : Json) : Except String Json := do
  let prior ← getOptCps j "prior"
  let ops ← (← getArr j "ops").mapM fun o => do
    let e ← getStr o "entry"
    let v ← getCps o "v"
    stepOf e v
  let r := runHash prior ops
  return jobj [("model", jobj [("errs", jarr (r.1.map jerr)), ("state", jopt jcps r.2)]),
               ("hyp", jbool true)]

def jobs : UseObs → Json
  | .assigned e => jobj [("err", jerr e)]
  | .converted r w => jobj [("base16", jexc jcps r), ("withInfo", jbool w)]
  | .fetched e r k => jobj [("fetchErr", jerr e), ("result", jbool r), ("consulted", jnat k)]
  | .unset => jobj [("unset", jbool true)]

def servedOf (s : Json) : Except String Served := do
  let k ← getStr s "kind"
  match k with
  | "connError" => pure Served.connError
  | "unreadable" => pure Served.unreadable
  | "torrent" => do pure (Served.torrent (← getCps s "infohash") (← getBool s "nonEmpty"))
  | _ => throw "served kind"

/-- `c14.use`: a history of assignments, conversions and downloads on one object
    (`entry` = xt | infohash | torrent | getinfo {validate, served}): model (`runUse`) and
    specification (`specUse`); `priorInfo` = infohash of metadata the object already holds. -/
def use (j : Json) : Except String Json := do
  let prior ← getOptCps j "prior"
  let priorInfo ← getOptCps j "priorInfo"
  let ops ← (← getArr j "ops").mapM fun o => do
    let e ← getStr o "entry"
    if e == "torrent" then pure UseOp.convert
    else if e == "getinfo" then do
      let served ← (← getArr o "served").mapM servedOf
      pure (UseOp.fetch (← getBool o "validate") served)
    else do
      let v ← getCps o "v"
      pure (UseOp.assign (← stepOf e v))
  let st : MState := { hash := prior, info := priorInfo }
  let m := runUse st ops
  let s := specUse st ops
  let hyp := useValidated ops && decide (StateOk st)
  let jst (x : MState) : Json := jobj [("hash", jopt jcps x.hash), ("info", jopt jcps x.info)]
  return jobj [("model", jobj [("obs", jarr (m.1.map jobs)), ("state", jopt jcps m.2.hash), ("full", jst m.2)]),
               ("spec", jobj [("obs", jarr (s.1.map jobs)), ("state", jopt jcps s.2.hash), ("full", jst s.2)]),
               ("hyp", jbool hyp)]

/-- `c14.xl`: value = null | {"int": i} | {"raise": true} -/
def xl (j : Json) : Except String Json := do
  let prior : Option Int := (j.getObjValAs? Int "prior").toOption
  let value ← j.getObjVal? "value"
  let v : Option IntResult ← match value with
    | Json.null => pure none
    | o => match o.getObjValAs? Int "int" with
      | .ok i => pure (some (some i))
      | .error _ => pure (some none)
  let r := setXl prior v
  let accept : Bool := match v with | none => true | some none => false | some (some i) => decide (1 ≤ i)
  return jobj [("model", jobj [("err", jerr r.1), ("state", jopt jint r.2)]),
               ("spec", jobj [("accept", jbool accept)]), ("hyp", jbool true)]

/-- `c14.urls`: list setter (tr/ws) and single setter (xs/as_) with `is_url` given per item -/
def urls (j : Json) : Except String Json := do
  let prior ← getCpsList j "prior"
  let vs ← getCpsList j "vs"
  let valid ← getCpsList j "valid"
  let isUrl : Str → Bool := fun s => valid.contains s
  let r := setUrls isUrl prior vs
  let single : Json := match vs with
    | [v] => let r1 := setUrl isUrl prior.head? (some v)
             jobj [("err", jerr r1.1), ("state", jopt jcps r1.2)]
    | _ => Json.null
  return jobj [("model", jobj [("err", jerr r.1), ("state", jarr (r.2.map jcps)), ("single", single)]),
               ("spec", jobj [("accept", jbool (vs.all (urlAccepts isUrl))),
                              ("state", jarr ((keepFirst (vs.map plusForSpace)).map jcps))]), ("hyp", jbool true)]

/-- `c14.getinfo` -/
def getinfo (j : Json) : Except String Json := do
  let ih ← getCps j "ih"
  let xs ← getOptCps j "xs"
  let as_ ← getOptCps j "as_"
  let ws ← getCpsList j "ws"
  let tr ← (← getArr j "tr").mapM fun t => do
    let a ← t.getArr?
    match a.toList with
    | [s, n] => do pure ((← cpsOfJson s), (← cpsOfJson n))
    | _ => throw "tr: pairs expected"
  let validate ← getBool j "validate"
  let served ← (← getArr j "served").mapM servedOf
  let urls := torrentUrls ih { xs := xs, as_ := as_, ws := ws, tr := tr }
  let res := getInfo validate ih served 0
  let jres : Json := match res with
    | .raised e k => jobj [("kind", "raised"), ("err", jerr (some e)), ("consulted", jnat k)]
    | .adopted h k => jobj [("kind", "adopted"), ("infohash", jcps h), ("consulted", jnat k)]
    | .nothing k => jobj [("kind", "nothing"), ("consulted", jnat k)]
  let ownVal := hashVal ih
  let enc := jcps (hashBytesEnc ownVal)
  return jobj [("model", jobj [("urls", jexc (fun us => jarr (us.map jcps)) urls), ("result", jres)]),
               ("spec", jobj [("hashEnc", enc),
                              ("matches", jarr (served.map fun s => match s with
                                | .torrent h _ => jbool (LowerHex40 h && hashVal h == ownVal)
                                | _ => Json.null))]),
               ("hyp", jbool (validHash ih))]

/-- `c14.torrent`: `Magnet.torrent()` as a function of the magnet's fields and the adopted info
    section (values are opaque JSON); `adoptedHash` = what the adopted info hashes to (null = it does
    not validate), `ownValidates` = oracle for the info section made of dn/xl alone. -/
def torrent (j : Json) : Except String Json := do
  let ih ← getCps j "ih"
  let dn ← getOptCps j "dn"
  let xl : Option Int := (j.getObjValAs? Int "xl").toOption
  let tr ← getCpsList j "tr"
  let ws ← getCpsList j "ws"
  let adopted : Option (Info Json) ← match j.getObjVal? "adopted" with
    | .ok Json.null => pure none
    | .error _ => pure none
    | .ok v => do
      let a ← v.getArr?
      let ps ← a.toList.mapM fun p => do
        match (← p.getArr?).toList with
        | [k, x] => do pure ((← cpsOfJson k), x)
        | _ => throw "adopted: pairs expected"
      pure (some ps)
  let adoptedHash ← getOptCps j "adoptedHash"
  let ofStr : Str → Json := fun s => jarr [jstr "s", jcps s]
  let ofInt : Int → Json := fun n => jarr [jstr "i", jint n]
  let f : Fields := { dn := dn, xl := xl, tr := tr, ws := ws }
  let hashOf : Info Json → Option Str := fun i =>
    match adopted with
    | some a => if i == a then adoptedHash else none
    | none => none
  let jout (t : TorrentOut Json) : Json :=
    jobj [("info", jarr (t.info.map fun p => jarr [jcps p.1, p.2])), ("ownHash", jopt jcps t.ownHash),
          ("trackers", jarr (t.trackers.map jcps)), ("webseeds", jarr (t.webseeds.map jcps)),
          ("infohash", jexc jcps (torrentInfohash hashOf t))]
  let m := torrentOf ofStr ofInt ih f adopted
  let hyp := validHash ih && (match xl with | some n => decide (1 ≤ n) | none => true)
  return jobj [("model", jexc jout m), ("spec", jout (specTorrent ofStr ofInt ih f adopted)), ("hyp", jbool hyp)]

def trOf (j : Json) : Except String (List (Str × Str)) := do
  (← getArr j "tr").mapM fun t => do
    let a ← t.getArr?
    match a.toList with
    | [s, n] => do pure ((← cpsOfJson s), (← cpsOfJson n))
    | _ => throw "tr: pairs expected"

def sourcesOf (j : Json) : Except String Sources := do
  pure { xs := (← getOptCps j "xs"), as_ := (← getOptCps j "as_"), ws := (← getCpsList j "ws"), tr := (← trOf j) }

def actOf (j : Json) : Except String Act := do
  let k ← getStr j "k"
  match k with
  | "xt" | "infohash" => do pure (Act.hash (← stepOf k (← getCps j "v")))
  | "xs" => do pure (Act.setXs (← getOptCps j "v"))
  | "as_" => do pure (Act.setAs (← getOptCps j "v"))
  | "ws" => do pure (Act.setWs (← getCpsList j "v"))
  | "tr" => do pure (Act.setTr (← trOf j))
  | "urlRejected" => pure Act.urlRejected
  | _ => throw s!"act kind {k}"

def visitOf (j : Json) : Except String Visit := do
  pure { during := (← (← getArr j "during").mapM actOf), inCb := (← (← getArr j "inCb").mapM actOf) }

/-- the world of one call: `[[url prefix, served], …]`, first matching prefix wins, nothing matches ⇒ the
    download fails (404) -/
def worldOf (j : Json) : Except String (Str → Served) := do
  let entries ← (← getArr j "world").mapM fun e => do
    match (← e.getArr?).toList with
    | [k, s] => do pure ((← cpsOfJson k), (← servedOf s))
    | _ => throw "world: pairs expected"
  pure fun u => match entries.find? (fun p => p.1.isPrefixOf u) with
    | some p => p.2
    | none => Served.connError

def jsources (s : Sources) : Json :=
  jobj [("xs", jopt jcps s.xs), ("as_", jopt jcps s.as_), ("ws", jarr (s.ws.map jcps)),
        ("tr", jarr (s.tr.map fun t => jarr [jcps t.1, jcps t.2]))]

def jrun (r : Run) : Json :=
  jobj [("err", jerr r.err), ("hash", jopt jcps r.st.m.hash), ("info", jopt jcps r.st.m.info),
        ("src", jsources r.st.src), ("requested", jarr (r.requested.map jcps)), ("cbs", jarr (r.cbs.map jcps)),
        ("thr", jarr (r.thr.map fun l => jarr (l.map jerr))), ("torrent", jobs (convertM r.st.m)),
        ("ok", jbool (decide (GOk r.st)))]

/-- `c14.running`: `get_info()` calls on one object with operations by the callback / another thread at
    given source positions: code-shaped model (`codeSem`) and specification (`specSem`).
    `hyp` = the object holds a valid hash (`C14_getinfo_running_spec`: model = spec);
    `hypAdopt` = … its metadata denotes it and every call validates (`C14_adopt_current_hash_calls`:
    every `ok` of the model is true). -/
def running (j : Json) : Except String Json := do
  let ih ← getOptCps j "ih"
  let info ← getOptCps j "info"
  let src ← sourcesOf j
  let calls ← (← getArr j "calls").mapM fun c => do
    pure ({ validate := (← getBool c "validate"), hasCb := (← getBool c "hasCb"), world := (← worldOf c),
            visits := (← (← getArr c "visits").mapM visitOf) } : Call)
  let st : GState := { m := { hash := ih, info := info }, src := src }
  let m := runCalls codeSem st calls
  let s := runCalls specSem st calls
  return jobj [("model", jarr (m.1.map jrun)), ("spec", jarr (s.1.map jrun)),
               ("hyp", jbool (decide (HashOk st))),
               ("hypAdopt", jbool (decide (GOk st) && callsValidated calls))]

def handle (op : String) (j : Json) : Except String Json :=
  match op with
  | "c14.hash" => hash j
  | "c14.history" => history j
  | "c14.use" => use j
  | "c14.xl" => xl j
  | "c14.urls" => urls j
  | "c14.getinfo" => getinfo j
  | "c14.torrent" => torrent j
  | "c14.running" => running j
  | _ => throw s!"unknown op {op}"

end Driver.C14
