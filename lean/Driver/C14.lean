import Driver.Util
open Lean
namespace Driver.C14

/-- ops of property C14: `c14.<name>` -/
def handle (op : String) (_j : Json) : Except String Json :=
  throw s!"unknown op {op}"

end Driver.C14
