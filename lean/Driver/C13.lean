import Driver.Util
open Lean
namespace Driver.C13

/-- ops of property C13: `c13.<name>` -/
def handle (op : String) (_j : Json) : Except String Json :=
  throw s!"unknown op {op}"

end Driver.C13
