import Driver.Util
import Driver.C14
import Torf.Spec.MagnetTorrent
import Std.Data.HashSet
open Lean Torf Torf.Magnet
namespace Driver.C13
open Driver.C14 (cpsOfJson getCps getOptCps getCpsList jcps jerr jexc)

def magnetOfJson (j : Json) : Except String MagnetObj := do
  let x ← (← getArr j "x").mapM fun p => do
    match (← p.getArr?).toList with
    | [k, v] => do pure ((← cpsOfJson k), (← cpsOfJson v))
    | _ => throw "x: pairs expected"
  pure { infohash := ← getCps j "infohash", dn := ← getOptCps j "dn",
         xl := (j.getObjValAs? Nat "xl").toOption, tr := ← getCpsList j "tr",
         xs := ← getOptCps j "xs", as_ := ← getOptCps j "as_", ws := ← getCpsList j "ws",
         kt := ← getCpsList j "kt", x := x }

def jmagnet (m : MagnetObj) : Json :=
  jobj [("infohash", jcps m.infohash), ("dn", jopt jcps m.dn), ("xl", jopt jnat m.xl),
        ("tr", jarr (m.tr.map jcps)), ("xs", jopt jcps m.xs), ("as_", jopt jcps m.as_),
        ("ws", jarr (m.ws.map jcps)), ("kt", jarr (m.kt.map jcps)),
        ("x", jarr (m.x.map fun p => jarr [jcps p.1, jcps p.2]))]

def jparse : ParseResult → Json
  | .ok m => jobj [("ok", jmagnet m)]
  | .err e => jobj [("err", jerr (some e))]
  | .notModelled => jobj [("notModelled", jbool true)]

def oracles (j : Json) : Except String ((Str → Bool) × (Str → IntResult)) := do
  let valid ← getCpsList j "valid"
  let ints ← match j.getObjVal? "ints" with
    | .ok v => (← v.getArr?).toList.mapM fun p => do
        match (← p.getArr?).toList with
        | [k, v] => do
          let r : IntResult := (v.getInt?).toOption
          pure ((← cpsOfJson k), r)
        | _ => throw "ints: pairs expected"
    | .error _ => pure []
  -- a hash set: magnets with > 1000 URLs ask the oracle thousands of times
  let vset : Std.HashSet Str := Std.HashSet.ofList valid
  pure (fun s => vset.contains s, fun s => (ints.lookup s).getD none)

/-- `c13.quote`: quote_plus and the way back -/
def quote (j : Json) : Except String Json := do
  let s ← getCps j "s"
  let q := quotePlus s
  return jobj [("model", jobj [("quoted", jcps q), ("back", jopt jcps (unquotePlus q))]),
               ("specEq", jbool (unquotePlus q == some s)), ("hyp", jbool true)]

/-- `c13.unquote`: unquote_plus on an arbitrary string (null = invalid UTF-8, not modelled) -/
def unquote (j : Json) : Except String Json := do
  let s ← getCps j "s"
  return jobj [("model", jopt jcps (unquotePlus s)), ("hyp", jbool (unquotePlus s).isSome)]

/-- `c13.render`: str(m) of a magnet object given field by field -/
def renderOp (j : Json) : Except String Json := do
  let m ← magnetOfJson (← j.getObjVal? "m")
  let (isUrl, _) ← oracles j
  return jobj [("model", jcps (render m)), ("hyp", jbool (WF isUrl m)),
               ("constructible", jbool (constructible isUrl m))]

/-- `c13.pairs`: what `parse_qs` sees (so that the harness can ask the real `is_url` / `int`) -/
def pairsOp (j : Json) : Except String Json := do
  let uri ← getCps j "uri"
  match urlparseMagnet (pyStrip uri) with
  | none => return jobj [("model", Json.null)]
  | some (scheme, q) =>
    return jobj [("model", jobj [("scheme", jcps scheme),
      ("pairs", jopt (fun ps => jarr (ps.map fun p => jarr [jcps p.1, jcps p.2])) (parseQsl q))])]

/-- `c13.parse`: from_string -/
def parseOp (j : Json) : Except String Json := do
  let uri ← getCps j "uri"
  let (isUrl, intO) ← oracles j
  let r := fromString isUrl intO uri
  return jobj [("model", jparse r), ("hyp", jbool (r != .notModelled))]

/-- `c13.roundtrip`: render then parse; spec = the object itself -/
def roundtrip (j : Json) : Except String Json := do
  let m ← magnetOfJson (← j.getObjVal? "m")
  let (isUrl, intO) ← oracles j
  let s := render m
  let r := fromString isUrl intO s
  return jobj [("model", jobj [("uri", jcps s), ("parsed", jparse r)]),
               ("specEq", jbool (r == .ok m)), ("hyp", jbool (WF isUrl m)),
               ("constructible", jbool (constructible isUrl m)), ("fields", jnat (fieldCount m))]

def viewOfJson (j : Json) : Except String TorrentView := do
  pure { infohash := ← getCps j "infohash", name := ← getOptCps j "name",
         size := (j.getObjValAs? Nat "size").toOption, trackers := ← getCpsList j "trackers",
         webseeds := ← getCpsList j "webseeds" }

def jview (t : TorrentView) : Json :=
  jobj [("infohash", jcps t.infohash), ("name", jopt jcps t.name), ("size", jopt jnat t.size),
        ("trackers", jarr (t.trackers.map jcps)), ("webseeds", jarr (t.webseeds.map jcps))]

/-- `c13.torrent`: torrent → magnet → string → magnet → torrent -/
def torrentOp (j : Json) : Except String Json := do
  let t ← viewOfJson (← j.getObjVal? "t")
  let (isUrl, intO) ← oracles j
  let res : Json := match magnetOfTorrent isUrl t with
    | .error e => jobj [("err", jerr (some e))]
    | .ok m =>
      match fromString isUrl intO (render m) with
      | .ok m' => (match torrentOfMagnet m' with
        | .ok t' => jobj [("ok", jview t'), ("uri", jcps (render m))]
        | .error e => jobj [("err", jerr (some e))])
      | .err e => jobj [("err", jerr (some e)), ("uri", jcps (render m))]
      | .notModelled => jobj [("notModelled", jbool true)]
  return jobj [("model", res), ("hyp", jbool (TorrentOk isUrl t))]

def metaOfJson (j : Json) : Except String TorrentMeta := do
  let al ← match j.getObjVal? "announceList" with
    | .ok Json.null => pure none
    | .ok v => do
      let tiers ← (← v.getArr?).toList.mapM fun tier => do (← tier.getArr?).toList.mapM cpsOfJson
      pure (some tiers)
    | .error _ => pure none
  let ul ← j.getObjVal? "urlList"
  let kind ← ul.getObjValAs? String "kind"
  let urlList ← match kind with
    | "absent" => pure SeedField.absent
    | "str" => do pure (SeedField.str (← getCps ul "v"))
    | "list" => do pure (SeedField.list (← getCpsList ul "v"))
    | _ => throw "urlList.kind"
  pure { infohash := ← getCps j "infohash", name := ← getOptCps j "name",
         size := (j.getObjValAs? Nat "size").toOption, announce := ← getOptCps j "announce",
         announceList := al, urlList := urlList }

def jexcept (f : α → Json) : Except MErr α → Json
  | .ok a => jobj [("ok", f a)]
  | .error e => jobj [("err", jerr (some e))]

/-- `c13.torrentmeta`: a torrent given by its raw tracker / webseed metainfo fields: what the getters
    show (`view`), `magnet()` → str → `from_string` → `torrent()`; spec = the view itself, and the
    flat tracker list / webseeds the getters must show -/
def torrentMetaOp (j : Json) : Except String Json := do
  let t ← metaOfJson (← j.getObjVal? "t")
  let (isUrl, intO) ← oracles j
  let view := viewOfMeta isUrl t
  let res : Json := match magnetOfMeta isUrl t with
    | .error e => jobj [("err", jerr (some e))]
    | .ok m =>
      match fromString isUrl intO (render m) with
      | .ok m' => (match torrentOfMagnet m' with
        | .ok t' => jobj [("ok", jview t'), ("uri", jcps (render m))]
        | .error e => jobj [("err", jerr (some e))])
      | .err e => jobj [("err", jerr (some e)), ("uri", jcps (render m))]
      | .notModelled => jobj [("notModelled", jbool true)]
  let specEq : Bool := match view with
    | .ok v => v.trackers == flatTrackersSpec t && v.webseeds == webseedsSpec t
    | .error _ => true
  return jobj [("model", res), ("view", jexcept jview view),
               ("specTrackers", jarr ((flatTrackersSpec t).map jcps)),
               ("specWebseeds", jarr ((webseedsSpec t).map jcps)), ("specEq", jbool specEq),
               ("hyp", jbool (MetaBaseOk t && (match view with | .ok _ => true | .error _ => false)))]

def handle (op : String) (j : Json) : Except String Json :=
  match op with
  | "c13.quote" => quote j
  | "c13.unquote" => unquote j
  | "c13.render" => renderOp j
  | "c13.pairs" => pairsOp j
  | "c13.parse" => parseOp j
  | "c13.roundtrip" => roundtrip j
  | "c13.torrent" => torrentOp j
  | "c13.torrentmeta" => torrentMetaOp j
  | _ => throw s!"unknown op {op}"

end Driver.C13
