import Driver.Util
import Driver.PyJson
import Torf.Model.Validate
import Torf.Spec.Sound
open Lean Torf Torf.Export Torf.Validate
namespace Driver.C07

def errStr : ErrKind → String
  | .metainfo => "metainfo"
  | .write => "write"
  | .value => "value"
  | .internal t => "internal:" ++ t

def resUnit : Except ErrKind Unit → Json
  | .ok _ => jobj [("ok", jbool true)]
  | .error e => jobj [("err", jstr (errStr e))]

def resBytes : Except ErrKind Bytes → Json
  | .ok b => jobj [("ok", jstr (hexOf b))]
  | .error e => jobj [("err", jstr (errStr e))]

def resBool : Except ErrKind Bool → Json
  | .ok b => jobj [("ok", jbool b)]
  | .error e => jobj [("err", jstr (errStr e))]

/-- table of (utf-8 bytes, is well-formed URL) supplied by the harness; unknown strings count as
    not well-formed -/
def getUrlOk (j : Json) : Except String (Bytes → Bool) := do
  let tbl ← (← getArr j "urls").mapM fun e => do
    let a ← e.getArr?
    if h : a.size = 2 then
      let k ← unhex (← a[0].getStr?)
      let v ← a[1].getBool?
      pure (k, v)
    else throw "urls entry must be a pair"
  pure fun b => (tbl.lookup b).getD false

def errnoOf (name : String) (n : Nat) : Errno :=
  match name with
  | "ENOENT" => .ENOENT | "ENOTDIR" => .ENOTDIR | "EBADF" => .EBADF | "ELOOP" => .ELOOP
  | "ENAMETOOLONG" => .ENAMETOOLONG | "EACCES" => .EACCES | "EIO" => .EIO
  | "EOVERFLOW" => .EOVERFLOW | "ESTALE" => .ESTALE
  | _ => .other n

/-- one answer of `os.stat`: ["file", size] | ["dir", size] | ["other", size] |
    ["err", "ENAME…", errno] | ["bad"] (ValueError: embedded null byte) -/
def getStat (e : Json) : Except String Stat := do
  let a ← e.getArr?
  match a.toList with
  | [k, n] =>
    match (← k.getStr?) with
    | "file" => pure (.file (← n.getNat?))
    | "dir" => pure (.dir (← n.getNat?))
    | "other" => pure (.other (← n.getNat?))
    | t => throw s!"unknown stat kind {t}"
  | [k, name, n] =>
    if (← k.getStr?) == "err" then pure (.err (errnoOf (← name.getStr?) (← n.getNat?)))
    else throw "stat answer with three fields must be an error"
  | [k] => if (← k.getStr?) == "bad" then pure .badPath else throw "unknown stat answer"
  | _ => throw "malformed stat answer"

/-- {"root": stat, "files": [stat, …]} — what the OS answers for `Torrent.path` and for the joined
    path of each listed file (by index; an index beyond the list counts as ENOENT) -/
def getFs (j : Json) : Except String FsOracle := do
  let f := j.getObjValD "fs"
  if f.isNull then pure noPath else
    let files ← (← getArr f "files").mapM getStat
    let root ← getStat (← f.getObjVal? "root")
    pure { hasPath := true, root := root, fileStat := fun i => files.getD i (.err .ENOENT) }

def getItems (j : Json) : Except String Items := do
  match (← getPy j "md") with
  | .dict kvs => pure kvs
  | _ => throw "md must be a dict"

/-- sum of the magnitudes of all numbers in a value (`int`s incl. `bool`s and truncated finite
    `float`s, keys included); used by Driver.C17's correspondence hypothesis.  (It was part of the
    model while finding D07j was open; C07 has no bound on numbers any more.) -/
partial def sumAbs : PyVal → Nat
  | .int i => i.natAbs
  | .bool b => if b then 1 else 0
  | .float (.fin t _ _) => t.natAbs
  | .list l | .tuple l => (l.map sumAbs).foldl (· + ·) 0
  | .dict kvs => (kvs.map fun (k, v) => sumAbs k + sumAbs v).foldl (· + ·) 0
  | _ => 0

/-- nesting depth of a value -/
partial def depth : PyVal → Nat
  | .list l | .tuple l => 1 + (l.map depth).foldl max 0
  | .dict kvs => 1 + (kvs.map fun (k, v) => max (depth k) (depth v)).foldl max 0
  | _ => 0

def soundParts (urlOk : Bytes → Bool) (bs : Bytes) : Json :=
  match Sound.parse bs with
  | none => jobj [("sound", jbool false), ("parsed", jbool false)]
  | some v =>
    let info := (Sound.infoOf v).getD []
    let top := match v with | .dict t => t | _ => []
    jobj [("sound", jbool (Sound.Sound urlOk bs)), ("parsed", jbool true),
          ("info", jbool (Sound.infoOf v).isSome), ("name", jbool (Sound.nameOk info)),
          ("pieceLength", jbool (Sound.pieceLength? info).isSome),
          ("pieces", jbool (Sound.piecesLen? info).isSome),
          ("size", jbool (Sound.size? info).isSome),
          ("count", jbool (Sound.countOk info)),
          ("announce", jbool (Sound.announceOk urlOk top))]

/-- op `c07.eval`: {md, urls, fs?, implDump?} ↦ model results of every export, the executable
    specification on the model's and on the implementation's bytes, and the hypotheses -/
def eval (j : Json) : Except String Json := do
  let md ← getItems j
  let urlOk ← getUrlOk j
  let fs ← getFs j
  let v := validate urlOk fs md
  let d := dump urlOk fs md
  let dn := dumpNoValidate md
  let ib := infoBytes urlOk fs md
  let mg := magnet urlOk fs md
  let rd := isReady urlOk fs md
  let modelSound : Json := match d with
    | .ok bs => soundParts urlOk bs
    | .error _ => Json.null
  let implSound : Json := match j.getObjValAs? String "implDump" with
    | .ok h => match unhex h with
      | .ok bs => soundParts urlOk bs
      | .error _ => Json.null
    | .error _ => Json.null
  let filesIsDict := match PyVal.lookupStr "info" md with
    | some (.dict info) => (match PyVal.lookupStr "files" info with | some (.dict _) => true | _ => false)
    | _ => false
  return jobj [("validate", resUnit v), ("dump", resBytes d), ("dumpNoValidate", resBytes dn),
               ("info", resBytes ib), ("magnet", resUnit (mg.map fun _ => ())), ("ready", resBool rd),
               ("modelSound", modelSound), ("implSound", implSound),
               ("hyp", jbool (depth (.dict md) ≤ 100)),
               ("wf", jbool (Codec.wf (.dict md))),
               ("hypMagnet", jbool (magnetTailOk urlOk md)),
               ("filesIsDict", jbool filesIsDict),
               ("hypThm", jbool (outsideD07f fs md)),
               -- C07_fs_failure_invisible: the same results in the world with every failure blurred to ENOENT
               ("blurSame", jbool ((resUnit (validate urlOk fs.blur md)).compress == (resUnit v).compress &&
                                   (resBytes (dump urlOk fs.blur md)).compress == (resBytes d).compress))]

/-- op `c07.sound`: {bytes, urls} ↦ the executable specification on arbitrary bytes -/
def sound (j : Json) : Except String Json := do
  let urlOk ← getUrlOk j
  let bs ← getHex j "bytes"
  return jobj [("spec", soundParts urlOk bs)]

def handle (op : String) (j : Json) : Except String Json :=
  match op with
  | "c07.eval" => eval j
  | "c07.sound" => sound j
  | _ => throw s!"unknown op {op}"

end Driver.C07
