import Driver.Util
open Lean
namespace Driver.C07

/-- ops of property C07: `c07.<name>` -/
def handle (op : String) (_j : Json) : Except String Json :=
  throw s!"unknown op {op}"

end Driver.C07
