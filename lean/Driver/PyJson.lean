/-
  JSON codec for `PyVal` (tagged encoding, see harness/impl/pyval.py for the Python side):
    {"t":"n"} | {"t":"B","v":bool} | {"t":"i","v":"<decimal>"} |
    {"t":"f","k":"nan"|"pinf"|"ninf"} | {"t":"f","k":"fin","trunc":"<decimal>","integral":bool,"neg":bool} |
    {"t":"s","v":string} | {"t":"b","v":"<hex>"} | {"t":"l","v":[…]} | {"t":"u","v":[…]} |
    {"t":"d","v":[[k,v],…]} | {"t":"D","ts":"<decimal>"|null} | {"t":"o","tag":string}
-/
import Driver.Util
import Torf.Base.PyVal
open Lean Torf
namespace Driver

def hexDigit (c : Char) : Option Nat :=
  if '0' ≤ c ∧ c ≤ '9' then some (c.toNat - '0'.toNat)
  else if 'a' ≤ c ∧ c ≤ 'f' then some (c.toNat - 'a'.toNat + 10)
  else if 'A' ≤ c ∧ c ≤ 'F' then some (c.toNat - 'A'.toNat + 10)
  else none

def unhex (s : String) : Except String (List UInt8) :=
  let rec go : List Char → List UInt8 → Except String (List UInt8)
    | [], acc => pure acc.reverse
    | [_], _ => throw "odd hex length"
    | a :: b :: rest, acc =>
      match hexDigit a, hexDigit b with
      | some x, some y => go rest (UInt8.ofNat (x * 16 + y) :: acc)
      | _, _ => throw "bad hex digit"
  go s.toList []

def hexOf (bs : List UInt8) : String :=
  let d (n : Nat) : Char := if n < 10 then Char.ofNat (48 + n) else Char.ofNat (87 + n)
  String.ofList (bs.foldr (fun b acc => d (b.toNat / 16) :: d (b.toNat % 16) :: acc) [])

def parseInt (s : String) : Except String Int :=
  match s.toInt? with
  | some i => pure i
  | none => throw s!"bad integer {s}"

partial def pyOfJson (j : Json) : Except String PyVal := do
  let t ← getStr j "t"
  match t with
  | "n" => pure .none
  | "B" => return .bool (← getBool j "v")
  | "i" => return .int (← parseInt (← getStr j "v"))
  | "f" =>
    match (← getStr j "k") with
    | "nan" => pure (.float .nan)
    | "pinf" => pure (.float .pinf)
    | "ninf" => pure (.float .ninf)
    | _ => return .float (.fin (← parseInt (← getStr j "trunc")) (← getBool j "integral") (← getBool j "neg"))
  | "s" => return .str (← getStr j "v")
  | "b" => return .bytes (← unhex (← getStr j "v"))
  | "l" => return .list (← (← getArr j "v").mapM pyOfJson)
  | "u" => return .tuple (← (← getArr j "v").mapM pyOfJson)
  | "d" =>
    let kvs ← (← getArr j "v").mapM fun kv => do
      let a ← kv.getArr?
      if h : a.size = 2 then
        return ((← pyOfJson a[0]), (← pyOfJson a[1]))
      else throw "dict entry must be a pair"
    return .dict kvs
  | "D" =>
    let ts := j.getObjValD "ts"
    if ts.isNull then pure (.datetime none) else
      return .datetime (some (← parseInt (← ts.getStr?)))
  | "o" => return .other (← getStr j "tag")
  | _ => throw s!"unknown PyVal tag {t}"

partial def pyToJson : PyVal → Json
  | .none => jobj [("t", "n")]
  | .bool b => jobj [("t", "B"), ("v", jbool b)]
  | .int i => jobj [("t", "i"), ("v", jstr (toString i))]
  | .float .nan => jobj [("t", "f"), ("k", "nan")]
  | .float .pinf => jobj [("t", "f"), ("k", "pinf")]
  | .float .ninf => jobj [("t", "f"), ("k", "ninf")]
  | .float (.fin tr ig ng) => jobj [("t", "f"), ("k", "fin"), ("trunc", jstr (toString tr)),
                                     ("integral", jbool ig), ("neg", jbool ng)]
  | .str s => jobj [("t", "s"), ("v", jstr s)]
  | .bytes b => jobj [("t", "b"), ("v", jstr (hexOf b))]
  | .list l => jobj [("t", "l"), ("v", jarr (l.map pyToJson))]
  | .tuple l => jobj [("t", "u"), ("v", jarr (l.map pyToJson))]
  | .dict kvs => jobj [("t", "d"), ("v", jarr (kvs.map fun (k, v) => jarr [pyToJson k, pyToJson v]))]
  | .datetime none => jobj [("t", "D"), ("ts", Json.null)]
  | .datetime (some ts) => jobj [("t", "D"), ("ts", jstr (toString ts))]
  | .other tag => jobj [("t", "o"), ("tag", jstr tag)]

def getPy (j : Json) (k : String) : Except String PyVal := do
  pyOfJson (← j.getObjVal? k)

def getHex (j : Json) (k : String) : Except String (List UInt8) := do
  unhex (← getStr j k)

end Driver
