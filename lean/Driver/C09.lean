import Driver.Util
open Lean
namespace Driver.C09

/-- ops of property C09: `c09.<name>` -/
def handle (op : String) (_j : Json) : Except String Json :=
  throw s!"unknown op {op}"

end Driver.C09
