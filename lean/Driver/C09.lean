import Driver.Util
import Torf.Spec.Attrs
open Lean Torf Torf.Attrs
namespace Driver.C09

/-! ops of property C09: `c09.run` (a history of attribute operations), `c09.calc` -/

def getPath (j : Json) : Except String Path := do
  let a ← j.getArr?
  a.toList.mapM fun x => x.getStr?

def getOptPath (j : Json) (k : String) : Except String (Option Path) :=
  match j.getObjVal? k with
  | .ok Json.null => pure none
  | .ok v => some <$> getPath v
  | .error _ => pure none

def getPaths (j : Json) (k : String) : Except String (List Path) := do
  let a ← getArr j k
  a.mapM getPath

def getFile (j : Json) : Except String (Path × Nat) := do
  let a ← j.getArr?
  match a.toList with
  | [p, n] => do
    let p ← getPath p
    let n ← n.getNat?
    pure (p, n)
  | _ => throw "file: [path, size] expected"

def getFiles (j : Json) (k : String) : Except String (List (Path × Nat)) := do
  let a ← getArr j k
  a.mapM getFile

def getOptInt (j : Json) (k : String) : Except String (Option Int) :=
  match j.getObjVal? k with
  | .ok Json.null => pure none
  | .ok v => some <$> v.getInt?
  | .error _ => pure none

def getOptStr (j : Json) (k : String) : Except String (Option String) :=
  match j.getObjVal? k with
  | .ok Json.null => pure none
  | .ok v => some <$> v.getStr?
  | .error _ => pure none

def getGlob (j : Json) : Except String Glob := do
  let a ← j.getArr?
  match a.toList with
  | [k, s] => do
    let k ← k.getStr?
    let s ← s.getStr?
    if k == "suffix" then pure (.suffix s) else if k == "infix" then pure (.infix s)
    else throw s!"glob kind {k}"
  | _ => throw "glob: [kind, s] expected"

def getRx (j : Json) : Except String Rx := do
  let a ← j.getArr?
  match a.toList with
  | [k, s] => do
    let k ← k.getStr?
    let s ← s.getStr?
    match k with
    | "lit" => pure (.lit s)
    | "suffix" => pure (.suffix s)
    | "suffixCI" => pure (.suffixCI s)
    | "pre" => pure (.pre s)
    | "suffixClass" => pure (.suffixClass s)
    | "invalid" => pure (.invalid s)
    | _ => throw s!"regex kind {k}"
  | _ => throw "regex: [kind, s] expected"

def getOptNat (j : Json) (k : String) : Except String (Option Nat) :=
  match j.getObjVal? k with
  | .ok Json.null => pure none
  | .ok v => some <$> v.getNat?
  | .error _ => pure none

/-- one operation on a filter list: {"o": name, "a","b","i", "vs": [item…], "v": item} -/
def getLOp {α : Type} (item : Json → Except String α) (j : Json) : Except String (LOp α) := do
  let o ← getStr j "o"
  let items : Except String (List α) := do
    let a ← getArr j "vs"
    a.mapM item
  let one : Except String α := do
    let v ← j.getObjVal? "v"
    item v
  match o with
  | "setSlice" => do pure (.setSlice (← getNat j "a") (← getOptNat j "b") (← items))
  | "setIndex" => do
    let i ← (← j.getObjVal? "i").getInt?
    pure (.setIndex i (← one))
  | "append" => .append <$> one
  | "extend" => .extend <$> items
  | "del" => .del <$> getNat j "i"
  | "clear" => pure .clear
  | "insert" => do
    let i ← (← j.getObjVal? "i").getInt?
    pure (.insert i (← one))
  | "pop" => do
    let i ← (← j.getObjVal? "i").getInt?
    pure (.pop i)
  | "remove" => .remove <$> one
  | "delSlice" => do pure (.delSlice (← getNat j "a") (← getOptNat j "b"))
  | "reverse" => pure .reverse
  | "assignSelf" => pure .assignSelf
  | "iaddAttr" => .iaddAttr <$> items
  | _ => throw s!"unknown filter list operation {o}"

def getOp (j : Json) : Except String Op := do
  let k ← getStr j "k"
  match k with
  | "setPath" => .setPath <$> getOptPath j "p"
  | "setFiles" => .setFiles <$> getFiles j "fs"
  | "filesDel" => .filesDel <$> getNat j "i"
  | "filesAppend" => do let f ← j.getObjVal? "f"; .filesAppend <$> getFile f
  | "filesClear" => pure .filesClear
  | "setFilepaths" => .setFilepaths <$> getPaths j "ps"
  | "fpDel" => .fpDel <$> getNat j "i"
  | "fpAppend" => do let p ← j.getObjVal? "p"; .fpAppend <$> getPath p
  | "fpClear" => pure .fpClear
  | "flist" => do
    let kind ← getStr j "kind"
    let inc ← getBool j "inc"
    if kind == "glob" then pure (.glob inc (← getLOp getGlob j))
    else if kind == "rx" then pure (.rx inc (← getLOp getRx j))
    else throw s!"filter list kind {kind}"
  | "setName" => .setName <$> getOptStr j "n"
  | "setPieceSize" => .setPieceSize <$> getOptInt j "v"
  | "setMin" => .setMin <$> getOptInt j "v"
  | "setMax" => .setMax <$> getOptInt j "v"
  | "generate" => pure .generate
  | "setComment" => .setComment <$> getOptStr j "c"
  | _ => throw s!"unknown attribute op {k}"

/-- one clause of an overriding `calculate_piece_size`:
    {"lo": n, "hi": n | null, "value": int} or {"lo": n, "hi": n | null, "raise": "ExceptionName"} -/
def getRule (j : Json) : Except String CalcRule := do
  let lo ← getNat j "lo"
  let hi ← getOptNat j "hi"
  match j.getObjVal? "raise" with
  | .ok v => do pure { lo := lo, hi := hi, out := .raise (← v.getStr?) }
  | .error _ => do
    let x ← (← j.getObjVal? "value").getInt?
    pure { lo := lo, hi := hi, out := .value x }

def getEnv (j : Json) : Except String Env := do
  let e ← j.getObjVal? "env"
  let files ← getFiles e "files"
  let dirs ← getPaths e "dirs"
  let rules ← match e.getObjVal? "rules" with
    | .ok (Json.arr a) => a.toList.mapM getRule
    | _ => pure []
  pure { files := files, dirs := dirs, rules := rules }

def jpath (p : Path) : Json := jarr (p.map jstr)

def errName : Err → String
  | .pieceSize => "PieceSizeError"
  | .path => "PathError"
  | .commonPath => "CommonPathError"
  | .read => "ReadError"
  | .regex => "re.error"
  | .index => "IndexError"
  | .value => "ValueError"
  | .runtime => "RuntimeError"
  | .calcRaised n => n
  | .calcRejected => "PieceSizeError"
  | .internal w => "internal:" ++ w

def resJson : Res → Json
  | .ok => jstr "ok"
  | .err k => jstr (errName k)

def globJson : Glob → Json
  | .suffix s => jarr [jstr "suffix", jstr s]
  | .infix s => jarr [jstr "infix", jstr s]

def rxJson : Rx → Json
  | .lit s => jarr [jstr "lit", jstr s]
  | .suffix s => jarr [jstr "suffix", jstr s]
  | .suffixCI s => jarr [jstr "suffixCI", jstr s]
  | .pre s => jarr [jstr "pre", jstr s]
  | .suffixClass s => jarr [jstr "suffixClass", jstr s]
  | .invalid s => jarr [jstr "invalid", jstr s]

/-- the projection of a state that is compared with the real `Torrent` -/
def stateJson (env : Env) (s : St) : Json :=
  jobj [("name", jopt jstr s.name),
        ("mode", jnat (mode s)),
        ("length", match s.content with | .single n => jnat n | _ => Json.null),
        ("files", match s.content with
                  | .multi fs => jarr (fs.map fun f => jarr [jpath f.path, jnat f.size])
                  | _ => Json.null),
        ("path", jopt jpath s.path),
        ("pl", jopt jnat s.pl),
        ("pieces", jopt (fun g => jnat g.count) s.pieces),
        ("pmin", jnat s.pmin), ("pmax", jnat s.pmax),
        ("exGlobs", jarr (s.exGlobs.map globJson)), ("inGlobs", jarr (s.inGlobs.map globJson)),
        ("exRegexs", jarr (s.exRegexs.map rxJson)), ("inRegexs", jarr (s.inRegexs.map rxJson)),
        ("size", jnat (size s)), ("numPieces", jnat (numPieces s)),
        ("listed", jarr ((filesOf s).map fun f => jarr [jpath f.1, jnat f.2])),
        ("filepaths", jarr ((filepathsOf s).map jpath)),
        ("ready", jbool (isReady env s)),
        ("comment", jopt jstr s.comment)]

/-- op `c09.run` : {env, ops} ↦ per step: projected model state, outcome, `hyp` (all operations so
    far satisfy `OpOk` = hypothesis `AllOk` of `C09_inv_history` on this prefix), `hypC` (the prefix
    satisfies the weaker `AllOkC` of `C09_inv_history_corrected`; `AllOk → AllOkC` is
    `C09_allOk_corrected`, so it is only evaluated once `hyp` is lost), `inv` (the executable
    specification `Inv` on the model state), `fok` (`FiltersOk`: the filter lists are duplicate-free
    and the regex lists hold only valid patterns — `C09_filters_ok_history`, no hypothesis) -/
def runOps (j : Json) : Except String Json := do
  let env ← getEnv j
  let ops ← (← getArr j "ops").mapM getOp
  -- `hyp`: AllOk (every step `StepOk`: `OpOk` and no failure inside the recalculation);
  -- `hypW`: AllOpOk (failures allowed: `InvW` is claimed, `C09_weak_history`); `full`: the tracker
  -- `runFull` of `C09_inv_tracked_history` (`Inv` is claimed under `hypW ∧ full`);
  -- `invS`: claimed without any hypothesis (`C09_stamp_history`); `fault`: this step failed inside
  -- the recalculation of the piece length
  let (_, _, _, _, _, out) := ops.foldl (init := (Attrs.init, true, true, true, 0, ([] : List Json)))
    fun (acc : St × Bool × Bool × Bool × Nat × List Json) op =>
      let (s, hyp, hypW, full, k, out) := acc
      let hyp' := hyp && decide (StepOk env s op)
      let hypW' := hypW && decide (OpOk s op)
      let full' := fullAfter env s full op
      let hypC := hyp' || decide (AllOkC env Attrs.init (ops.take (k + 1)))
      let (s', r) := apply env s op
      (s', hyp', hypW', full', k + 1,
       jobj [("state", stateJson env s'), ("res", resJson r), ("hyp", jbool hyp'),
             ("hypC", jbool hypC), ("hypW", jbool hypW'), ("full", jbool full'),
             ("fault", jbool r.faulted),
             ("opOk", jbool (decide (OpOk s op))),
             ("inv", jbool (decide (Inv s'))), ("invW", jbool (decide (InvW s'))),
             ("invS", jbool (decide (InvS s'))), ("fok", jbool (decide (FiltersOk s')))] :: out)
  return jobj [("steps", jarr out.reverse), ("init", stateJson env Attrs.init),
               ("initInv", jbool (decide (Inv Attrs.init)))]

/-- one step of a two-object history: {"k": "copy", "on": 0|1} (`other = this.copy()`), or an
    attribute operation with "on": 0|1 (default 0) -/
def getOp2 (j : Json) : Except String Op2 := do
  let on := match j.getObjVal? "on" with
    | .ok v => (v.getNat?.toOption.getD 0) == 1
    | .error _ => false
  let k ← getStr j "k"
  if k == "copy" then pure (.copy on) else .on on <$> getOp j

/-- op `c09.run2` : {env, ops} ↦ per step the projected states of BOTH objects, the outcome, `hyp`
    (the prefix satisfies `AllOk2`: hypothesis of `C09_inv2_history`), `inv0`/`inv1` (`Inv` on the
    two model states), `fok` (`FiltersOk` on both: `C09_filters_ok2_history`, no hypothesis) -/
def runOps2 (j : Json) : Except String Json := do
  let env ← getEnv j
  let ops ← (← getArr j "ops").mapM getOp2
  -- `hypM`: like `hyp`, but a copy may carry hashes (the model is exact there too; only `Inv`, whose
  -- stamp clause needs the object's own content path, is not claimed): domain of the M-vs-I comparison
  let copyM (s : St) : Bool := match s.pl with | none => true | some pl => defaultMin ≤ pl && pl ≤ defaultMax
  let okM (w : St2) : Op2 → Bool
    | .copy false => copyM w.a
    | .copy true => copyM w.b
    | .on false o => decide (OpOk w.a o)      -- a failure inside the recalculation is modelled exactly
    | .on true o => decide (OpOk w.b o)
  let (_, _, _, out) := ops.foldl (init := (Attrs.init2, true, true, ([] : List Json)))
    fun (acc : St2 × Bool × Bool × List Json) op =>
      let (w, hyp, hypM, out) := acc
      let hyp' := hyp && decide (OpOk2 env w op)
      let hypM' := hypM && okM w op
      let (w', r) := apply2 env w op
      (w', hyp', hypM',
       jobj [("state0", stateJson env w'.a), ("state1", stateJson env w'.b), ("res", resJson r),
             ("hyp", jbool hyp'), ("hypM", jbool hypM'), ("inv0", jbool (decide (Inv w'.a))),
             ("inv1", jbool (decide (Inv w'.b))), ("fault", jbool r.faulted),
             ("fok", jbool (decide (FiltersOk w'.a) && decide (FiltersOk w'.b)))] :: out)
  return jobj [("steps", jarr out.reverse), ("init", stateJson env Attrs.init)]

/-- op `c09.calc` : {size, min, max} ↦ `calculate_piece_size(size, min, max)` on integers -/
def calcOp (j : Json) : Except String Json := do
  let size ← getNat j "size"
  let mn ← getNat j "min"
  let mx ← getNat j "max"
  let r := calcPieceSize size mn mx
  let raw := rawPieceSize size
  -- executable spec: power of two or a bound; within bounds; multiple of 16 KiB
  let isPow2 := (List.range 64).any fun e => 2 ^ e == r
  let spec := (isPow2 || r == mn || r == mx) &&
              (!(mn ≤ mx) || (mn ≤ r && r ≤ mx)) &&
              (!(mn ≤ mx && mn % 16384 == 0 && mx % 16384 == 0 && 0 < mn) || (r % 16384 == 0 && 0 < r))
  return jobj [("model", jnat r), ("raw", jnat raw), ("maxPieces", jnat (maxPieces size)),
               ("spec", jbool spec), ("hyp", jbool (0 < size))]

def handle (op : String) (j : Json) : Except String Json :=
  match op with
  | "c09.run" => runOps j
  | "c09.run2" => runOps2 j
  | "c09.calc" => calcOp j
  | _ => throw s!"unknown op {op}"

end Driver.C09
