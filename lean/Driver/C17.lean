import Driver.Util
import Driver.PyJson
import Driver.C07
import Torf.Model.Write
open Lean Torf Torf.Export Torf.Validate Torf.Write
namespace Driver.C17

def nodeJson : Node → Json
  | .absent => jobj [("k", "absent")]
  | .file c => jobj [("k", "file"), ("content", jstr (hexOf c))]
  | .dir => jobj [("k", "dir")]

def getNode (j : Json) : Except String Node := do
  match (← getStr j "k") with
  | "absent" => pure .absent
  | "dir" => pure .dir
  | "file" => return .file (← getHex j "content")
  | k => throw s!"unknown node kind {k}"

/-- the content producer: `dump(validate=…)` of the C07 model on the given metainfo -/
def producer (j : Json) : Except String (Except ErrKind Bytes) := do
  let md ← C07.getItems j
  let urlOk ← C07.getUrlOk j
  let validate := (j.getObjValAs? Bool "validate").toOption.getD true
  pure (if validate then dump urlOk noPath md else dumpNoValidate md)

/-- op `c17.write`: {md, urls, validate?, overwrite, node, parentOk} -/
def write (j : Json) : Except String Json := do
  let d ← producer j
  let ov ← getBool j "overwrite"
  let node ← getNode (← j.getObjVal? "node")
  let parentOk ← getBool j "parentOk"
  let t : Target := { node := node, parentOk := parentOk }
  let (r, t', log) := Write.write d ov none t
  -- executable specification (what C17 demands), independent of the model's control flow
  let refused := !ov && t.exists_
  let specOk : Bool :=
    match r with
    | .error _ => t' == t
    | .ok _ => (match d with | .ok c => t'.node == .file c | .error _ => false) && !refused
  return jobj [("result", C07.resUnit r), ("node", nodeJson t'.node), ("specOk", jbool specOk),
               ("dump", C07.resBytes d), ("log", jarr (log.map fun e => jstr (reprStr e))),
               ("hyp", jbool (C07.sumAbs (.dict (← C07.getItems j)) < 2 ^ 53 && C07.depth (.dict (← C07.getItems j)) ≤ 100))]

/-- op `c17.stream`: {md, urls, validate?, seekable, content, pos, writeFails} -/
def stream (j : Json) : Except String Json := do
  let d ← producer j
  let s : Stream := { seekable := (← getBool j "seekable"), content := (← getHex j "content"),
                      pos := (← getNat j "pos"), writeFails := (← getBool j "writeFails") }
  let (r, s') := Write.writeStream d s
  let specOk : Bool :=
    match d, r with
    | .error e, .error e' => e == e' && s' == s
    | .ok c, .ok _ => if s.seekable then s'.content == c else s'.content == s.content ++ c
    | .ok _, .error e => e == .write && s.writeFails
    | _, _ => false
  return jobj [("result", C07.resUnit r), ("content", jstr (hexOf s'.content)), ("pos", jnat s'.pos),
               ("specOk", jbool specOk), ("dump", C07.resBytes d),
               ("hyp", jbool (C07.sumAbs (.dict (← C07.getItems j)) < 2 ^ 53 && C07.depth (.dict (← C07.getItems j)) ≤ 100))]

def handle (op : String) (j : Json) : Except String Json :=
  match op with
  | "c17.write" => write j
  | "c17.stream" => stream j
  | _ => throw s!"unknown op {op}"

end Driver.C17
