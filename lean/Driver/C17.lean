import Driver.Util
open Lean
namespace Driver.C17

/-- ops of property C17: `c17.<name>` -/
def handle (op : String) (_j : Json) : Except String Json :=
  throw s!"unknown op {op}"

end Driver.C17
