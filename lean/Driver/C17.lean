import Driver.Util
import Driver.PyJson
import Driver.C07
import Torf.Spec.Write
open Lean Torf Torf.Export Torf.Validate Torf.Write
namespace Driver.C17

def nodeJson : Node → Json
  | .absent => jobj [("k", "absent")]
  | .file c => jobj [("k", "file"), ("content", jstr (hexOf c))]
  | .dir => jobj [("k", "dir")]
  | .other => jobj [("k", "other")]

def getNode (j : Json) : Except String Node := do
  match (← getStr j "k") with
  | "absent" => pure .absent
  | "dir" => pure .dir
  | "other" => pure .other
  | "file" => return .file (← getHex j "content")
  | k => throw s!"unknown node kind {k}"

def optNat (j : Json) (k : String) : Option Nat := (j.getObjValAs? Nat k).toOption
def optBool (j : Json) (k : String) (dflt : Bool) : Bool := (j.getObjValAs? Bool k).toOption.getD dflt

/-- {existsAns, openErr?, quota?, closeErr?} -/
def getEnv (j : Json) : Except String Env := do
  pure { existsAns := (← getBool j "existsAns"), openErr := optBool j "openErr" false,
         quota := optNat j "quota", closeErr := optBool j "closeErr" false }

/-- {content, pos, seekable?, append?, readOnly?, text?, calls?, faultAt?, quota?, short?} -/
def getStream (j : Json) : Except String Stream := do
  pure { content := (← getHex j "content"), pos := (← getNat j "pos"),
         seekable := optBool j "seekable" true, append := optBool j "append" false,
         readOnly := optBool j "readOnly" false, text := optBool j "text" false,
         calls := (optNat j "calls").getD 0, faultAt := optNat j "faultAt", quota := optNat j "quota",
         short := optBool j "short" false }

def errOfStr (s : String) : ErrKind :=
  if s == "metainfo" then .metainfo
  else if s == "write" then .write
  else if s == "value" then .value
  else if s.startsWith "internal:" then .internal (s.drop 9).toString
  else .internal s

/-- an observed result: {"ok": …} | {"err": kind} -/
def getResUnit (j : Json) : Except String (Except ErrKind Unit) :=
  match j.getObjValAs? String "err" with
  | .ok e => pure (.error (errOfStr e))
  | .error _ => pure (.ok ())

def getResBytes (j : Json) : Except String (Except ErrKind Bytes) := do
  match j.getObjValAs? String "err" with
  | .ok e => pure (.error (errOfStr e))
  | .error _ => return .ok (← getHex j "ok")

/-- the content producer: `dump(validate=…)` of the C07 model on the given metainfo -/
def producer (j : Json) : Except String (Except ErrKind Bytes) := do
  let md ← C07.getItems j
  let urlOk ← C07.getUrlOk j
  let validate := (j.getObjValAs? Bool "validate").toOption.getD true
  pure (if validate then dump urlOk noPath md else dumpNoValidate md)

def hypOf (j : Json) : Except String Bool := do
  let md ← C07.getItems j
  pure (C07.sumAbs (.dict md) < 2 ^ 53 && C07.depth (.dict md) ≤ 100)

/-- op `c17.write`: {md, urls, validate?, overwrite, node, env} — the model, judged by `fileSpec` -/
def write (j : Json) : Except String Json := do
  let d ← producer j
  let ov ← getBool j "overwrite"
  let t : Target := { node := (← getNode (← j.getObjVal? "node")), env := (← getEnv (← j.getObjVal? "env")) }
  let (r, t', log) := Write.write d ov t
  return jobj [("result", C07.resUnit r), ("node", nodeJson t'.node), ("specOk", jbool (fileSpec d ov t r t')),
               ("dump", C07.resBytes d), ("log", jarr (log.map fun e => jstr (reprStr e))),
               ("hyp", jbool (← hypOf j))]

/-- op `c17.stream`: {md, urls, validate?, stream} — the model, judged by `streamSpec` -/
def stream (j : Json) : Except String Json := do
  let d ← producer j
  let s ← getStream (← j.getObjVal? "stream")
  let (r, s') := Write.writeStream d s
  -- the hypothesis of C17_stream_meets_spec_partial (false = raw stream that takes only part: D17a)
  let partialHyp : Bool := !s.short || (match d with | .ok c => c.length ≤ s.accepts c.length | .error _ => true)
  return jobj [("result", C07.resUnit r), ("content", jstr (hexOf s'.content)), ("pos", jnat s'.pos),
               ("calls", jnat s'.calls), ("specOk", jbool (streamSpec d s r s')), ("dump", C07.resBytes d),
               ("partialHyp", jbool partialHyp),
               ("hyp", jbool (← hypOf j))]

/-- op `c17.judge.write`: the *implementation's* outcome against `fileSpec`;
    {dump (observed), overwrite, node, env, result (observed), nodeAfter (observed)} -/
def judgeWrite (j : Json) : Except String Json := do
  let d ← getResBytes (← j.getObjVal? "dump")
  let ov ← getBool j "overwrite"
  let t : Target := { node := (← getNode (← j.getObjVal? "node")), env := (← getEnv (← j.getObjVal? "env")) }
  let r ← getResUnit (← j.getObjVal? "result")
  let t' : Target := { node := (← getNode (← j.getObjVal? "nodeAfter")), env := t.env }
  return jobj [("accepted", jbool (fileSpec d ov t r t'))]

/-- op `c17.judge.stream`: {dump, stream, result, contentAfter, posAfter?, callsAfter?} -/
def judgeStream (j : Json) : Except String Json := do
  let d ← getResBytes (← j.getObjVal? "dump")
  let s ← getStream (← j.getObjVal? "stream")
  let r ← getResUnit (← j.getObjVal? "result")
  let s' : Stream := { s with content := (← getHex j "contentAfter"), pos := (optNat j "posAfter").getD s.pos,
                              calls := (optNat j "callsAfter").getD s.calls }
  return jobj [("accepted", jbool (streamSpec d s r s'))]

def handle (op : String) (j : Json) : Except String Json :=
  match op with
  | "c17.write" => write j
  | "c17.stream" => stream j
  | "c17.judge.write" => judgeWrite j
  | "c17.judge.stream" => judgeStream j
  | _ => throw s!"unknown op {op}"

end Driver.C17
