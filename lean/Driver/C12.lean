import Driver.Util
import Driver.C03
import Torf.Model.Callbacks
open Lean Torf.Callbacks
namespace Driver.C12

/-- op `c12.calls`: {verify, interval, total, evs: [[piece, kind, nexc, now], …]} (interval and
    now in eighths of a second, integers) ↦ the calls of the user callback -/
def callsOp (j : Json) : Except String Json := do
  let verify ← getBool j "verify"
  let interval ← getInt j "interval"
  let total ← getNat j "total"
  let evs ← (← getArr j "evs").mapM fun x => do
    let a ← x.getArr?
    if h : a.size = 4 then
      return ({ piece := (← a[0].getNat?), kind := (← C03.parseKind (← a[1].getStr?)),
                nexc := (← a[2].getNat?), now := (← a[3].getInt?) } : Ev)
    else throw "event must have 4 fields"
  let cs := calls verify interval total evs
  return jobj [("calls", jarr (cs.map fun c => jarr [jnat c.done, jnat c.piece, jopt jnat c.exc])),
               ("forced", jarr ((forcedErrorCalls evs).map fun c => jarr [jnat c.done, jnat c.piece, jopt jnat c.exc]))]

def handle (op : String) (j : Json) : Except String Json :=
  match op with
  | "c12.calls" => callsOp j
  | _ => throw s!"unknown op {op}"

end Driver.C12
