import Driver.Util
open Lean
namespace Driver.C12

/-- ops of property C12: `c12.<name>` -/
def handle (op : String) (_j : Json) : Except String Json :=
  throw s!"unknown op {op}"

end Driver.C12
