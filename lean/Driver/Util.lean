/-
  JSON helpers for the line-protocol driver.  Only the driver imports Lean.Data.Json; the
  models stay on core `Init`.
-/
import Lean.Data.Json
open Lean
namespace Driver

def getNat (j : Json) (k : String) : Except String Nat := j.getObjValAs? Nat k
def getInt (j : Json) (k : String) : Except String Int := j.getObjValAs? Int k
def getStr (j : Json) (k : String) : Except String String := j.getObjValAs? String k
def getBool (j : Json) (k : String) : Except String Bool := j.getObjValAs? Bool k
def getNats (j : Json) (k : String) : Except String (List Nat) :=
  (·.toList) <$> j.getObjValAs? (Array Nat) k
def getInts (j : Json) (k : String) : Except String (List Int) :=
  (·.toList) <$> j.getObjValAs? (Array Int) k
def getArr (j : Json) (k : String) : Except String (List Json) := do
  let v ← j.getObjVal? k
  (·.toList) <$> v.getArr?
def getOptNat (j : Json) (k : String) : Option Nat := (j.getObjValAs? Nat k).toOption

def jarr (xs : List Json) : Json := Json.arr xs.toArray
def jnat (n : Nat) : Json := Json.num (JsonNumber.fromNat n)
def jint (n : Int) : Json := Json.num (JsonNumber.fromInt n)
def jnats (xs : List Nat) : Json := jarr (xs.map jnat)
def jints (xs : List Int) : Json := jarr (xs.map jint)
def jstr (s : String) : Json := Json.str s
def jbool (b : Bool) : Json := Json.bool b
def jobj (kvs : List (String × Json)) : Json := Json.mkObj kvs
def jopt (f : α → Json) : Option α → Json
  | none => Json.null
  | some a => f a

/-- stream elements are encoded as `file * 2^40 + offset`; a piece is sent as its maximal runs
    `[file, offset, length]` of consecutive elements -/
def elemBase : Nat := 1099511627776

def runs (xs : List Nat) : List (Nat × Nat) :=   -- (start, len), maximal consecutive runs
  let r := xs.foldl (fun (acc : List (Nat × Nat)) x =>
    match acc with
    | (s, n) :: t => if x = s + n then (s, n + 1) :: t else (x, 1) :: (s, n) :: t
    | [] => [(x, 1)]) []
  r.reverse

def pieceJson (p : List Nat) : Json :=
  jarr ((runs p).map fun (s, n) => jnats [s / elemBase, s % elemBase, n])

def mkFiles (sizes : List Nat) : List (List Nat) :=
  sizes.zipIdx.map fun (sz, i) => (List.range sz).map fun k => i * elemBase + k

end Driver
