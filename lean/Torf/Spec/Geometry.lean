/-
  Torf.Spec.Geometry — what property C11 demands: the arithmetic definition of every answer on
  the concatenated stream.  File `j` occupies the bytes `[pos j, pos j + size j)` of the stream,
  piece `i` the bytes `[i·L, (i+1)·L)`; an empty file occupies nothing.
-/
import Torf.Base.Chunks
import Torf.Model.Geometry
namespace Torf.GeomSpec
open Torf.Geometry (Err Res)

/-- stream position of the first byte of file `j` -/
def pos (sizes : List Nat) (j : Nat) : Nat := (sizes.take j).sum
def size (sizes : List Nat) (j : Nat) : Nat := sizes.getD j 0
def total (sizes : List Nat) : Nat := sizes.sum

/-- file `j` has at least one byte whose stream index lies in `[a, b]` -/
def fileInRange (sizes : List Nat) (a b : Int) (j : Nat) : Bool :=
  decide (0 < size sizes j) && decide (a ≤ (pos sizes j : Int) + (size sizes j : Int) - 1) &&
    decide ((pos sizes j : Int) ≤ b)

/-- file `j` has at least one byte in piece `i` -/
def fileInPiece (sizes : List Nat) (L : Nat) (i : Int) (j : Nat) : Bool :=
  fileInRange sizes (i * (L : Int)) ((i + 1) * (L : Int) - 1) j

/-- piece `i` exists -/
def validPiece (sizes : List Nat) (L : Nat) (i : Int) : Bool :=
  decide (0 ≤ i) && decide (i * (L : Int) < (total sizes : Int))

def allFiles (sizes : List Nat) : List Nat := List.range sizes.length

def maxPieceIndex (sizes : List Nat) (L : Nat) : Int := (nPieces L (total sizes) : Int) - 1

def filePosition (sizes : List Nat) (j : Nat) : Res Nat :=
  if j < sizes.length then .ok (pos sizes j) else .error .value

/-- the file that owns stream byte `p` -/
def fileAtPosition (sizes : List Nat) (p : Int) : Res Nat :=
  match (allFiles sizes).find? (fun j => decide ((pos sizes j : Int) ≤ p) &&
      decide (p < (pos sizes j : Int) + (size sizes j : Int))) with
  | some j => .ok j
  | none => .error .value

/-- files with a byte in `[a, b]` (precondition of the method: `a ≤ b`) -/
def filesAtByteRange (sizes : List Nat) (a b : Int) : List Nat :=
  (allFiles sizes).filter (fileInRange sizes a b)

def byteRangeOfFile (sizes : List Nat) (j : Nat) : Res (Int × Int) :=
  if j < sizes.length then .ok ((pos sizes j : Int), (pos sizes j : Int) + (size sizes j : Int) - 1)
  else .error .value

def filesAtPieceIndex (sizes : List Nat) (L : Nat) (i : Int) : Res (List Nat) :=
  if validPiece sizes L i then .ok ((allFiles sizes).filter (fileInPiece sizes L i))
  else .error .value

/-- piece `i` holds bytes of file `j`, and (exclusive) of no other file -/
def pieceOfFile (sizes : List Nat) (L : Nat) (j : Nat) (exclusive : Bool) (i : Nat) : Bool :=
  fileInPiece sizes L i j &&
    (!exclusive || (allFiles sizes).all (fun k => k == j || !fileInPiece sizes L i k))

def pieceIndexesOfFile (sizes : List Nat) (L : Nat) (j : Nat) (exclusive : Bool) : Res (List Int) :=
  if j < sizes.length then
    .ok (((List.range (nPieces L (total sizes))).filter (pieceOfFile sizes L j exclusive)).map Int.ofNat)
  else .error .value

/-- relative index `r` of a file that spans `cnt` pieces: negative counts from the end, then the
    index is clamped into `[0, cnt - 1]` -/
def clamp (cnt : Int) (r : Int) : Int :=
  max 0 (min (cnt - 1) (if r < 0 then cnt + r else r))

/-- first piece and number of pieces of a non-empty file -/
def firstPiece (sizes : List Nat) (L : Nat) (j : Nat) : Int := (pos sizes j : Int) / (L : Int)
def pieceCount (sizes : List Nat) (L : Nat) (j : Nat) : Int :=
  ((pos sizes j : Int) + (size sizes j : Int) - 1) / (L : Int) - (pos sizes j : Int) / (L : Int) + 1

def relativePieceIndexes (sizes : List Nat) (L : Nat) (j : Nat) (rels : List Int) : Res (List Int) :=
  if j < sizes.length then
    if size sizes j = 0 then .ok []
    else .ok (Geometry.sortDedup (rels.map (clamp (pieceCount sizes L j))))
  else .error .value

def absolutePieceIndexes (sizes : List Nat) (L : Nat) (j : Nat) (rels : List Int) : Res (List Int) :=
  if j < sizes.length then
    if size sizes j = 0 then .ok []
    else .ok (Geometry.sortDedup (rels.map fun r => firstPiece sizes L j + clamp (pieceCount sizes L j) r))
  else .error .value

/-- piece `i` = bytes `[i·L, (i+1)·L)` of the concatenated stream -/
def piece (files : List (List α)) (L : Nat) (i : Int) : Res (List α) :=
  if validPiece (files.map List.length) L i then
    .ok ((files.flatten.drop (i.toNat * L)).take L)
  else .error .value

def pieceHash (H : List α → δ) (files : List (List α)) (L : Nat) (i : Int) : Res δ :=
  match piece files L i with
  | .ok p => .ok (H p)
  | .error e => .error e

/-- the hash check of piece `i` against the stored hash `stored[i]` -/
def verifyPiece [BEq δ] (H : List α → δ) (stored : List δ) (files : List (List α)) (L : Nat)
    (i : Int) : Res Bool :=
  match piece files L i, stored[i.toNat]? with
  | .ok p, some h => .ok (h == H p)
  | _, _ => .error .value

end Torf.GeomSpec
