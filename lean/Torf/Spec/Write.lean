/-
  Torf.Spec.Write — what C17 demands of one export, as a decidable predicate on the outcome.

  `fileSpec d ov t r t'`   : `write(filepath, overwrite=ov)` in the world `t`, the content producer
                             returned `d`; is "result `r`, world afterwards `t'`" acceptable?
  `streamSpec d s r s'`    : the same for `write_stream(stream)`.

  The predicates do not mention how the export is implemented (no effect log, no call order), so
  the harness evaluates them on what the *implementation* did (driver ops `c17.judge.*`) as well as
  on what the model does.  `Properties/C17.lean` proves that the model always meets them and what
  they imply in readable form.

  What is demanded (and no more; see notes/C17.md "Interpretive choices"):
  * refused overwrite            → WriteError, path unchanged
  * validation/conversion fails  → that error, path unchanged (nothing created)
  * target unwritable            → WriteError; path unchanged if `open` fails; if the operating
    system fails *during* the final write (the complete content existed, `open` succeeded) the
    path is unchanged or holds an initial segment of the new content — in particular a file that
    existed is never removed and never holds anything that is neither old nor (part of the) new
  * success                      → the path holds exactly the dumped bytes
  * an export does not fail without a cause (bad metainfo, refused overwrite, a failing OS call)
-/
import Torf.Model.Write
namespace Torf.Write
open Torf Torf.Export

/-- equality of export results (`Except` has no `DecidableEq`) -/
def resEq : Except ErrKind Unit → Except ErrKind Unit → Bool
  | .ok _, .ok _ => true
  | .error a, .error b => a == b
  | _, _ => false

/-- the operating system fails the export after `open` succeeded -/
def Env.failsAfterOpen (e : Env) (n : Nat) : Bool := e.accepts n < n || e.closeErr

def fileSpec (d : Except ErrKind Bytes) (ov : Bool) (t : Target) (r : Except ErrKind Unit) (t' : Target) : Bool :=
  t'.env == t.env &&
  if !ov && t.env.existsAns then
    -- writing without the overwrite flag never modifies an existing file and raises the write error
    resEq r (.error .write) && t'.node == t.node
  else
    match d, r with
    -- validation or conversion failed: that error; no file created, an existing one unchanged
    | .error e, r => resEq r (.error e) && t'.node == t.node
    -- success: exactly the dumped bytes
    -- (something that is neither a file nor a directory may have been replaced by the new file, or,
    -- a device, have swallowed the bytes)
    | .ok c, .ok _ => t'.node == .file c || (t.node == .other && t'.node == .other)
    -- the content was complete but the target is unwritable
    | .ok c, .error e =>
      e == .write &&
      (t.openFails || t.env.failsAfterOpen c.length) &&           -- not without a cause
      (t'.node == t.node ||                                          -- no trace, or
        (!t.openFails && t.env.failsAfterOpen c.length &&          -- the OS failed during the final
          match t'.node with                                        -- write: part of the new content
          | .file b => t.node.regular && b.isPrefixOf c
          | _ => false))

/-- the stream object has a fault the export could run into -/
def Stream.mayFail (s : Stream) (n : Nat) : Bool :=
  s.readOnly || s.text || s.accepts n < n ||
  match s.faultAt with
  | some k => s.calls ≤ k
  | none => false

def streamSpec (d : Except ErrKind Bytes) (s : Stream) (r : Except ErrKind Unit) (s' : Stream) : Bool :=
  match d, r with
  -- nothing was produced: that error, and the stream object was not touched at all
  | .error e, r => resEq r (.error e) && s'.content == s.content && s'.pos == s.pos && s'.calls == s.calls
  -- a successful write leaves exactly the dumped bytes (a non-seekable stream: appended)
  | .ok c, .ok _ => s'.content == (if s.seekable then c else s.content ++ c)
  -- the complete new content was produced first: the stream may have been touched; the failure
  -- is reported as WriteError (TypeError for a text-mode stream) and has a cause
  | .ok c, .error e => (e == .write || (s.text && e == .internal "TypeError")) && s.mayFail c.length

end Torf.Write
