/-
  Torf.Spec.Verify — what C02 demands of `verify`.
-/
import Torf.Model.Verify
import Torf.Spec.Missing
namespace Torf.Verify
open Torf Torf.Missing

/-- file `k` has at least one byte in piece `i` -/
def overlaps (L : Nat) (sizes : List Nat) (k i : Nat) : Bool :=
  decide (0 < sizeOf sizes k) && decide (pos sizes k < (i + 1) * L) &&
    decide (i * L < pos sizes k + sizeOf sizes k)

def overlapping (L : Nat) (sizes : List Nat) (i : Nat) : List Nat :=
  (List.range sizes.length).filter fun k => overlaps L sizes k i

/-- every listed file exists with exactly the recorded size -/
def AllGood (sizes : List Nat) (disk : List (Option (List α))) : Bool :=
  (List.range sizes.length).all fun k => (fileError sizes disk k).isNone

/-- the concatenated content that is on disk (meaningful when `AllGood`) -/
def diskStream (sizes : List Nat) (disk : List (Option (List α))) : List α :=
  ((List.range sizes.length).map fun k => (disk.getD k none).getD []).flatten

/-- the right-hand side of C02's iff -/
def SpecOk [DecidableEq δ] (H : List α → δ) (L : Nat) (sizes : List Nat)
    (disk : List (Option (List α))) (stored : List δ) : Bool :=
  AllGood sizes disk && ((chunks L (diskStream sizes disk)).map H == stored)

/-- pieces that carry data (no byte of a bad file) whose digest differs from the stored one -/
def mismatches [DecidableEq δ] (H : List α → δ) (L : Nat) (sizes : List Nat)
    (disk : List (Option (List α))) (stored : List δ) : List Nat :=
  ((specData L sizes disk).zipIdx.filterMap fun (d, i) =>
    match d with
    | none => none
    | some bytes => if some (H bytes) = stored[i]? then none else some i)

end Torf.Verify
