/-
  Torf.Spec.FileSizeHistory — what C20 demands inside a history: every size lookup and every
  size check is judged by the *specification* (Torf.Spec.FileSize) evaluated on the metainfo the
  object has at that moment and on the disk as it is at that moment.  Nothing that happened
  before (earlier lookups, checks, cancelled or failed runs, other objects) enters.
-/
import Torf.Model.FileSizeHistory
import Torf.Spec.FileSize
namespace Torf.FileSize

/-- The specification of `partial_size(p)`: the sum of the recorded lengths of all entries whose
    path (torrent name first) starts with the components `p`; an unknown path is an error.
    A single-file torrent knows exactly one path: its name. -/
def partialSizeSpec (t : Torrent) (p : List String) : Except Err Nat :=
  match t.mode with
  | .single n => if p = [t.name] then .ok n else .error .path
  | .multi files =>
    let below := files.filter fun f => startsWith (t.name :: f.path) p
    if below.isEmpty then .error .path else .ok (below.map (·.size)).sum

/-- `p` is a path of the torrent: its name (single-file), or a prefix of the path of some entry
    (multi-file; name first) — a listed file, a directory above one, the name, the empty path
    when at least one entry is listed -/
def Known (t : Torrent) (p : List String) : Prop :=
  match t.mode with
  | .single _ => p = [t.name]
  | .multi files => ∃ f ∈ files, startsWith (t.name :: f.path) p = true

instance (t : Torrent) (p : List String) : Decidable (Known t p) := by
  unfold Known; split <;> exact inferInstance

/-- no listed path is a directory prefix of another listed path (a name cannot be a file and a
    directory at once) -/
def PrefixFree (t : Torrent) : Prop :=
  ∀ f ∈ t.listed, ∀ g ∈ t.listed, startsWith g.path f.path = true → g.path = f.path

instance (t : Torrent) : Decidable (PrefixFree t) := by unfold PrefixFree; exact inferInstance

/-- what the operation must show, by the specification, on an object whose metainfo is `t` -/
def specObs (t : Torrent) : Op → Obs
  | .edit .. | .setter .. | .copy .. => .nothing
  | .lookup _ p => .size (partialSizeSpec t p)
  | .lookupAll _ => .sizes (t.listed.map fun f => .ok f.size)
  | .props _ => .props (t.listed.map (·.size)).sum (nPieces t.pieceLength (t.listed.map (·.size)).sum) t.listed
  | .check _ fs cb raises =>
    let r := spec t fs cb
    .check (outcome cb raises r) r.2

def runSpec : List Torrent → List Op → List Obs
  | _, [] => []
  | metas, op :: ops =>
    (match metas[op.target]? with
      | none => Obs.nothing
      | some t => specObs t op) :: runSpec (metaStep metas op) ops

/-- the hypothesis under which an operation is judged: the metainfo *at that moment* is a
    well-formed layout (checks, lookups of listed files), and prefix-free for lookups of
    arbitrary paths -/
def opHyp (t : Torrent) : Op → Prop
  | .lookup .. => WF t ∧ PrefixFree t
  | .lookupAll .. | .check .. => WF t
  | _ => True

instance (t : Torrent) (op : Op) : Decidable (opHyp t op) := by
  cases op <;> unfold opHyp <;> exact inferInstance

/-- every operation of the history meets its hypothesis at the moment it runs -/
def HistHyp : List Torrent → List Op → Prop
  | _, [] => True
  | metas, op :: ops =>
    (∀ t, metas[op.target]? = some t → opHyp t op) ∧ HistHyp (metaStep metas op) ops

end Torf.FileSize
