/-
  Torf.Spec.VerifyFs — what C02 demands of `verify` for every state of a listed path.

  "Verification succeeds iff every listed file exists there with exactly the recorded size and
  its bytes hash to the recorded pieces … failures surface only as the library's documented
  errors."  For a path that is not a readable regular file of the recorded size the documented
  error is fixed by the state (`owed`): a wrong size that stat already shows is a
  VerifyFileSizeError; everything else — whatever the errno of the OSError — is a ReadError that
  carries that errno.
-/
import Torf.Model.VerifyFs
import Torf.Spec.Verify
namespace Torf.VerifyFs
open Torf Torf.Missing Torf.Verify

inductive Owed where
  | read (errno : Nat)        -- ReadError(errno) naming the file
  | size                      -- VerifyFileSizeError naming the file
deriving Repr, DecidableEq

/-- the documented error owed for a listed file of recorded size `size` whose path is in state
    `s` (`none`: nothing is wrong with the file itself) -/
def owed (size : Nat) : FState α → Option Owed
  | .file c => if c.length = size then none else some .size
  | .gone e => some (.read e)
  | .noOpen n e => if n = size then some (.read e) else some .size
  | .readErr c off e =>
    if c.length = size then (if off ≤ c.length then some (.read e) else none) else some .size

def owedAt (sizes : List Nat) (fd : List (FState α)) (k : Nat) : Option Owed :=
  owed (sizeOf sizes k) (stateAt fd k)

/-- every listed file is a readable regular file of exactly the recorded size -/
def AllGoodFs (sizes : List Nat) (fd : List (FState α)) : Bool :=
  (List.range sizes.length).all fun k => (owedAt sizes fd k).isNone

/-- the concatenated content on disk (meaningful when `AllGoodFs`) -/
def fsStream (sizes : List Nat) (fd : List (FState α)) : List α :=
  ((List.range sizes.length).map fun k => contentOf (stateAt fd k)).flatten

/-- the right-hand side of C02's iff over the full alphabet -/
def SpecOkFs [DecidableEq δ] (H : List α → δ) (L : Nat) (sizes : List Nat)
    (fd : List (FState α)) (stored : List δ) : Bool :=
  AllGoodFs sizes fd && ((chunks L (fsStream sizes fd)).map H == stored)

/-- the error value that reports `o` for file `k` -/
def owedErr (k : Nat) : Owed → VErr
  | .read _ => .read k
  | .size => .size k

/-- the files that owe an error, in file order -/
def owedFiles (sizes : List Nat) (fd : List (FState α)) : List (Nat × Owed) :=
  (List.range sizes.length).filterMap fun k => (owedAt sizes fd k).map fun o => (k, o)

/-- the disk as the two-state model sees it through the probes of the main loop: a path that
    cannot be opened is "not there", a path whose stat size is wrong is a file of that size -/
def mainView [Inhabited α] (size : Nat) : FState α → Option (List α)
  | .noOpen n _ => if n = size then none else some (List.replicate n default)
  | s => statView s

def mainDisk [Inhabited α] (sizes : List Nat) (fd : List (FState α)) : List (Option (List α)) :=
  fd.zipIdx.map fun (s, k) => mainView (sizeOf sizes k) s

/-- no listed path holds a file with an unreadable byte -/
def NoReadErr (fd : List (FState α)) : Bool :=
  fd.all fun s => match s with | .readErr _ _ _ => false | _ => true

/-- no listed path has the recorded size but cannot be opened (such a file, when it lies wholly
    inside the last piece of another damaged file, is skipped without being probed by `open`) -/
def NoSilent (sizes : List Nat) (fd : List (FState α)) : Bool :=
  fd.zipIdx.all fun (s, k) => match s with | .noOpen n _ => n != sizeOf sizes k | _ => true

/-- errnos a ReadError for a file in state `s` may carry: the one `open`/`read` raised, or
    ENOENT when the path cannot be stat'ed -/
def owedErrnos (s : FState α) : List Nat :=
  (match s with
    | .gone e => [e]
    | .noOpen _ e => [e]
    | .readErr _ _ e => [e]
    | .file _ => []) ++ (if (statSize s).isNone then [ENOENT] else [])

end Torf.VerifyFs
