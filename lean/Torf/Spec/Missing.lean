/-
  Torf.Spec.Missing — what C10 demands of the items yielded by `iter_pieces` on a damaged disk.

  The expected stream is the concatenation of the listed files where every byte of a bad file
  is unknown (`none`).  Item `i` must carry exactly the bytes of chunk `i` if that chunk contains
  no unknown byte, and no data otherwise; every bad file is reported exactly once with its kind
  of error, and only by items without data.
-/
import Torf.Model.Missing
namespace Torf.Missing
open Torf

/-- bytes of file `k` as the verifier may rely on them -/
def expFile (sizes : List Nat) (disk : List (Option (List α))) (k : Nat) : List (Option α) :=
  match fileError sizes disk k with
  | none => ((disk.getD k none).getD []).map some
  | some _ => List.replicate (sizeOf sizes k) none

def expStream (sizes : List Nat) (disk : List (Option (List α))) : List (Option α) :=
  ((List.range sizes.length).map (expFile sizes disk)).flatten

/-- data an item must carry for a chunk of the expected stream -/
def chunkData (c : List (Option α)) : Option (List α) :=
  if c.all Option.isSome then some (c.filterMap id) else none

def specData (L : Nat) (sizes : List Nat) (disk : List (Option (List α))) : List (Option (List α)) :=
  (chunks L (expStream sizes disk)).map chunkData

/-- the bad files with their error kinds, in file order -/
def badFiles (sizes : List Nat) (disk : List (Option (List α))) : List (Nat × ErrKind) :=
  (List.range sizes.length).filterMap fun k => (fileError sizes disk k).map fun e => (k, e)

def reported (items : List (Item α)) : List (Nat × ErrKind) := (items.map (·.excs)).flatten

def errLe (a b : Nat × ErrKind) : Bool :=
  a.1 < b.1 || (a.1 == b.1 && (match a.2, b.2 with | .read, _ => true | .size, .size => true | _, _ => false))

/-- a zero-length bad entry at stream offset `x` may (but need not) blank the piece holding the
    byte before or after it (the statement does not define "overlap" for an empty file) -/
def mayBlank (L : Nat) (sizes : List Nat) (disk : List (Option (List α))) (i : Nat) : Bool :=
  (List.range sizes.length).any fun k =>
    (fileError sizes disk k).isSome && sizeOf sizes k == 0 &&
      decide (i * L ≤ pos sizes k) && decide (pos sizes k ≤ (i + 1) * L)

/-- strict specification (used by the theorem; no zero-length bad entry) -/
def MeetsSpec [DecidableEq α] (L : Nat) (sizes : List Nat) (disk : List (Option (List α)))
    (items : List (Item α)) : Bool :=
  items.map (·.data) == specData L sizes disk &&
  items.all (fun it => it.data.isNone || it.excs.isEmpty) &&
  (reported items).mergeSort errLe == badFiles sizes disk

/-- lenient specification (used outside the theorem's hypothesis) -/
def MeetsSpecLenient [DecidableEq α] (L : Nat) (sizes : List Nat) (disk : List (Option (List α)))
    (items : List (Item α)) : Bool :=
  let want := specData L sizes disk
  items.length == want.length &&
  (List.range want.length).all (fun i =>
    let got := (items.map (·.data)).getD i none
    let w := want.getD i none
    got == w || (got.isNone && mayBlank L sizes disk i)) &&
  items.all (fun it => it.data.isNone || it.excs.isEmpty) &&
  (reported items).mergeSort errLe == badFiles sizes disk

/-- hypothesis of the C10 theorems: no bad file is a zero-length entry -/
def NoBadEmpty (sizes : List Nat) (disk : List (Option (List α))) : Bool :=
  (List.range sizes.length).all fun k => (fileError sizes disk k).isNone || sizeOf sizes k != 0

/-- the defect class D10a: a bad zero-length entry at a piece boundary -/
def BadEmptyAtBoundary (L : Nat) (sizes : List Nat) (disk : List (Option (List α))) : Bool :=
  (List.range sizes.length).any fun k =>
    (fileError sizes disk k).isSome && sizeOf sizes k == 0 && pos sizes k % L == 0

end Torf.Missing
