/-
  Torf.Spec.Span — where a conforming (strict) bencode parser finds the value of a top-level
  dictionary key: the parser walks the entries of the outer dictionary in file order, after the
  leading `d`; every entry is `<len>:<key>` followed by the value's encoding.
-/
import Torf.Model.Bencode
namespace Torf.Bencode

/-- offset and length of the encoded value of key `k` among the entries `kvs`, the first entry
    starting at offset `off` -/
def valueSpan (k : Bytes) : List (Bytes × BVal) → Nat → Option (Nat × Nat)
  | [], _ => none
  | (k', v) :: t, off =>
    if k' = k then some (off + (serBytes k').length, (ser v).length)
    else valueSpan k t (off + (serBytes k').length + (ser v).length)

/-- (offset, length) of the value of top-level key `k` in the document `bs`, as located by the
    strict parser; `none` if `bs` is not canonical bencoding of a dictionary with that key -/
def spanOf (lim : Nat) (k : Bytes) (bs : Bytes) : Option (Nat × Nat) :=
  match parseStrict lim bs with
  | some (.dict kvs) => valueSpan k kvs 1
  | _ => none

end Torf.Bencode
