/-
  Torf.Spec.Reuse — what property C18 demands, as executable definitions that do not follow the
  code's control flow.
-/
import Torf.Model.Reuse
namespace Torf.Reuse

/-- first, middle and last piece of a file occupying bytes `pos … pos+size-1` of a stream cut
    into pieces of `pl` bytes (`size > 0`): pieces `a … b`, middle `a + (b-a+1)/2` -/
def firstMiddleLast (pl pos size : Nat) : List Nat :=
  if size = 0 then [] else
  let a := pos / pl
  let b := (pos + size - 1) / pl
  [a, a + (b - a + 1) / 2, b]

/-- the sampled pieces of a candidate: first/middle/last of every file of its own layout -/
def specSamplesFrom (pl : Nat) : List FileEnt → Nat → List Nat
  | [], _ => []
  | f :: rest, pos => firstMiddleLast pl pos f.size ++ specSamplesFrom pl rest (pos + f.size)

def specSamples (c : Cand) : List Nat := specSamplesFrom c.pieceLength c.files 0

/-- name/size identity of a layout: relative paths (joined with the separator) with sizes -/
def pathSizes (name : String) (files : List FileEnt) : List (String × Nat) :=
  files.map fun f => (joined name f, f.size)

/-- local content agrees with the candidate's stored hash at piece `i` -/
def pieceMatches (c : Cand) (loc : Nat → LocalPiece) (i : Nat) : Bool :=
  match c.hashes[i]? with
  | some d => loc i == .hash d
  | none => false

/-- **The identity check of C18**: every path component is text, same name, same *kind*
    (single-file / multi-file), same set of relative paths with sizes, piece length within the
    torrent's bounds. -/
def fileIdentity (t : Tor) (c : Cand) : Bool :=
  !c.bytesPath && t.name == c.name && t.single == c.single &&
  (pathSizes t.name t.files).isPerm (pathSizes c.name c.files) &&
  decide (t.plMin ≤ c.pieceLength) && decide (c.pieceLength ≤ t.plMax)

/-- **The acceptance condition of C18**: the identity check, and local content matching the
    candidate's hashes in the first, middle and last piece of every file. -/
def acceptable (t : Tor) (c : Cand) (loc : Nat → LocalPiece) : Bool :=
  fileIdentity t c && (specSamples c).all (pieceMatches c loc)

/-- what the torrent must look like after accepting `c`: the candidate's piece length, hashes
    and file order; everything else as before -/
def after (t : Tor) (c : Cand) : Tor :=
  { t with pieces := some c.hashes, pieceLength := c.pieceLength, files := c.files }

/-- layout-level part of `validate()` -/
def validCore (pl : Nat) (files : List FileEnt) (hashes : List Digest) : Bool :=
  decide (0 < pl) && pl % 16384 == 0 && !hashes.isEmpty &&
    hashes.length == ((files.map (·.size)).sum + pl - 1) / pl

/-- a candidate that was made from exactly the local content with the same file entries -/
def faithful (t : Tor) (c : Cand) (loc : Nat → LocalPiece) : Bool :=
  acceptable t c loc && t.files.isPerm c.files &&
  (List.range c.hashes.length).all (pieceMatches c loc)

/-- an item that neither raises (given whether a callback is there) nor is accepted -/
def Item.isError : Item → Bool
  | .pathError => true
  | .file (.torrent _) _ => false
  | .file _ _ => true

/-- the premise of completeness: a faithful candidate at some position, and (without callback)
    no error item before it. `raisesContent` marks candidates whose content check raises (a local
    file of the wrong size / unreadable), which ends the search with that error in any case. -/
def firstFaithful (t : Tor) : List Item → Option Nat
  | [] => none
  | it :: rest =>
    match it with
    | .file (.torrent c) loc => if faithful t c loc then some 0 else (firstFaithful t rest).map (· + 1)
    | _ => (firstFaithful t rest).map (· + 1)

/-- the content check of this candidate would raise: a sampled… (over-approximated: any) piece
    of its geometry hits a local file of the wrong size or an unreadable one -/
def locRaises (c : Cand) (loc : Nat → LocalPiece) : Bool :=
  (List.range c.hashes.length).any fun i => loc i == .sizeError || loc i == .readError

/-- the layout of one kind of torrent as `validate()` lets it through and nothing odd in it: a
    single-file torrent is one non-empty entry without components, a multi-file torrent a
    non-empty list of entries that each have at least one component -/
def wfKind (single : Bool) (files : List FileEnt) : Bool :=
  if single then
    match files with
    | [f] => f.path.isEmpty && f.size != 0
    | _ => false
  else !files.isEmpty && files.all fun f => !f.path.isEmpty

/-- the torrent `reuse()` is called on was made from its path -/
def wfTor (t : Tor) : Bool := wfKind t.single t.files

/-- a candidate without oddities: every path component is text; the layout fits its kind; piece
    length and number of digests fit the layout (`validate()`); and the *spelling* of paths is
    unambiguous between the torrent's and the candidate's entries — two entries with the same
    joined path have the same components (fails for a component that contains the separator) -/
def wfCand (t : Tor) (c : Cand) : Bool :=
  !c.bytesPath && wfKind c.single c.files &&
  decide (0 < c.pieceLength) &&
  c.hashes.length == ((c.files.map (·.size)).sum + c.pieceLength - 1) / c.pieceLength &&
  t.files.all fun f => c.files.all fun g => joined c.name g != joined c.name f || g.path == f.path

/-- an item that must not end the search with an exception: an unreadable / undecodable /
    invalid torrent file or a bad path only when there is a callback to report it to; **every
    readable, valid torrent file** — one that fails the identity check is skipped without a look
    at the content; one that passes it may end the search only when the local content itself
    cannot be read as described (a local file of another size, an unreadable local file) -/
def harmless (t : Tor) (cbPresent : Bool) : Item → Bool
  | .pathError => cbPresent
  | .file (.torrent c) loc => !(fileIdentity t c && locRaises c loc)
  | .file _ _ => cbPresent

/-- premise of completeness: a faithful candidate somewhere, only harmless items before it -/
def mustFind (t : Tor) (cbPresent : Bool) : List Item → Bool
  | [] => false
  | it :: rest =>
    (match it with
     | .file (.torrent c) loc => faithful t c loc
     | _ => false) || (harmless t cbPresent it && mustFind t cbPresent rest)

end Torf.Reuse
