/-
  Torf.Spec.FileSize — what property C20 demands of the file-size check, as an executable
  definition that does not look at the code's control flow.
-/
import Torf.Model.FileSize
namespace Torf.FileSize

/-- well-formed layout (DESIGN §6.1): pairwise distinct paths, no empty component -/
def WF (t : Torrent) : Prop :=
  (t.listed.map (·.path)).Nodup ∧ ∀ f ∈ t.listed, "" ∉ f.path

instance (t : Torrent) : Decidable (WF t) := by unfold WF; exact inferInstance

/-- What is wrong with a listed file, by definition: nothing found → read error; something of
    another size → size error (actual, expected); otherwise nothing. "Size" of what is found is
    `real_size`: the size of a regular file, or — torf's choice — the total of a directory. -/
def errOf (fs : FS) (f : Listed) : Option Err :=
  match fs f.path with
  | .missing => some .read
  | .file n => if n = f.size then none else some (.size n f.size)
  | .dir n => if n = f.size then none else some (.size n f.size)

/-- A listed file is *good* when the size check has nothing to report for it. -/
def good (fs : FS) (f : Listed) : Bool := (errOf fs f).isNone

/-- single-file torrent pointed at a directory -/
def singleAtDir (t : Torrent) (fs : FS) : Bool := t.isSingle && isDirEntry (fs [])

/-- "every listed file exists under the path with exactly the recorded size" -/
def allGood (t : Torrent) (fs : FS) : Bool := !singleAtDir t fs && t.listed.all (good fs)

/-- the callback calls of a run that is never cancelled: one per listed file, in order -/
def fullCallsFrom (fs : FS) (total : Nat) : Nat → List Listed → List Call
  | _, [] => []
  | i, f :: rest => ⟨i, i + 1, total, errOf fs f⟩ :: fullCallsFrom fs total (i + 1) rest

def fullCalls (t : Torrent) (fs : FS) : List Call :=
  if singleAtDir t fs then [⟨0, 1, 1, some .isDir⟩] else fullCallsFrom fs t.listed.length 0 t.listed

/-- the prefix of a list up to and including the first element that satisfies `p` -/
def takeThrough (p : α → Bool) : List α → List α
  | [] => []
  | x :: xs => if p x then [x] else x :: takeThrough p xs

/-- first error in listing order -/
def firstErr (fs : FS) : List Listed → Option Err
  | [] => none
  | f :: rest => match errOf fs f with
    | some e => some e
    | none => firstErr fs rest

/-- The specification of `verify_filesize`. -/
def spec (t : Torrent) (fs : FS) (cb : Callback) : Res × List Call :=
  if !validateCore t then (.raised .metainfo, []) else
  match cb with
  | none =>
    if singleAtDir t fs then (.raised .isDir, []) else
    match firstErr fs t.listed with
    | some e => (.raised e, [])
    | none => (.ok true, [])
  | some f =>
    let calls := takeThrough f (fullCalls t fs)
    (.ok (allGood t fs && !calls.any f), calls)

/-! ### the success condition of full verification (C02's specification)

`verify(path)` succeeds iff every listed file is present as a *regular file* with exactly the
recorded size (`AllGood`) and the recomputed piece hashes equal the stored ones.  C02's own
model is built separately; C20 only needs this success condition. -/

def presentExact (fs : FS) (f : Listed) : Bool := fs f.path == .file f.size

def allPresentExact (t : Torrent) (fs : FS) : Bool := t.listed.all (presentExact fs)

/-- `fullVerify … = ok true` per C02's specification; `hashesMatch` = "SHA-1 of every piece of
    the concatenated content equals the stored digest". -/
def fullVerifyOk (t : Torrent) (fs : FS) (hashesMatch : Bool) : Bool :=
  validateCore t && allPresentExact t fs && hashesMatch

end Torf.FileSize
