/-
  Torf.Spec.CreateNames — what "names are opaque" means for C15, as executable definitions.

  A file or directory name is a list of characters that no layer between the caller and the
  operating system may interpret: `~`, `~user`, `$HOME`, `${X}`, `%s`, `{0}`, `*`, `?`, `[a]`,
  `!x`, `-x`, `#`, a leading or trailing space, a backslash, a colon are names like any other.
  The specification `Spec.created` reads exactly four things from a name:
    * whether it starts with `.`                      (hidden below the top level),
    * how it compares with its siblings               (stored order),
    * what the pattern oracles say about `name/rel`   (only if patterns are set),
    * the name itself, copied into the result.
  `opaqueB` says that a renaming `ρ` of all names of a tree respects the first three; then the
  created torrent of the renamed tree is the renamed created torrent (`created_rename`,
  `C15_names_opaque`): nothing else about the characters of a name can matter.
-/
import Torf.Spec.Create
namespace Torf.Create.Spec
open Torf.Paths Torf.Create

def renameEnt (ρ : String → String) (f : FileEnt) : FileEnt := ⟨f.rel.map ρ, f.size⟩

def renameTree (ρ : String → String) (t : Tree) : Tree := ⟨ρ t.name, t.files.map (renameEnt ρ)⟩

def renameCreated (ρ : String → String) : Created → Created
  | .empty => .empty
  | .single n s => .single (ρ n) s
  | .multi n fs => .multi (ρ n) (fs.map fun e => (e.1.map ρ, e.2))

/-- the names that occur below the root of a tree -/
def namesBelow (t : Tree) : List String := t.files.flatMap (·.rel)

/-- the renaming `ρ` (with settings `st'` and oracles `o'` for the renamed tree) respects what the
    specification reads from names: hidden-ness of every file, the order of the component lists of
    any two files that are not hidden, and the pattern verdicts -/
def opaqueB (o o' : Oracles) (st st' : Settings) (ρ : String → String) (t : Tree) : Bool :=
  t.files.all (fun f => isHidden (f.rel.map ρ) == isHidden f.rel) &&
  t.files.all (fun f => t.files.all fun g => isHidden f.rel || isHidden g.rel ||
    (decide (f.rel.map ρ ≤ g.rel.map ρ) == decide (f.rel ≤ g.rel))) &&
  t.files.all (fun f =>
    excluded o' st' (patPath (ρ t.name) (renameEnt ρ f)) == excluded o st (patPath t.name f) &&
    included o' st' (patPath (ρ t.name) (renameEnt ρ f)) == included o st (patPath t.name f))

end Torf.Create.Spec
