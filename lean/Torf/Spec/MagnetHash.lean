/-
  Specification side of C14: what the property demands, independent of regular expressions
  and of base64.
-/
import Torf.Model.MagnetHash
namespace Torf.Magnet

/-- exactly 40 hexadecimal characters, any letter case -/
def Hex40 (s : Str) : Bool := decide (s.length = 40) && s.all isHexAscii
/-- exactly 32 base32 characters (A–Z, 2–7), any letter case -/
def B32x32 (s : Str) : Bool := decide (s.length = 32) && s.all isB32Ascii
def validHash (s : Str) : Bool := Hex40 s || B32x32 s

/-- the value starts with `urn:btih:` in any (ASCII) letter case -/
def hasUrn (v : Str) : Bool := (v.take 9).map asciiLower == urnPrefix
/-- the exact topic (`xt` setter, constructor) accepts a valid hash, optionally prefixed -/
def xtAccepts (v : Str) : Bool := validHash v || (hasUrn v && validHash (v.drop 9))
/-- … and the value it stores is the hash without the prefix -/
def xtStored (v : Str) : Str := if validHash v then v else v.drop 9
/-- the info hash setter accepts … (no prefix there) -/
def infohashAccepts (v : Str) : Bool := validHash v

/-- no character that `re.IGNORECASE` folds onto an ASCII letter (U+0130, U+0131, U+017F, U+212A) -/
def NoFold (v : Str) : Bool := v.all fun c => !isFold c

def hexValD (c : Char) : Nat := (hexVal c).getD 0
def b32ValD (c : Char) : Nat := (b32Val (asciiUpper c)).getD 0

/-- the 160-bit number a valid hash denotes (the 20 hash bytes, big endian) -/
def hashVal (s : Str) : Nat :=
  if s.length = 40 then ofDigits 16 (s.map hexValD) else ofDigits 32 (s.map b32ValD)

def hexDigitLower (d : Nat) : Char := Char.ofNat (if d < 10 then 48 + d else 87 + d)

/-- the 40-digit lower-case hexadecimal form of a 160-bit number -/
def hexLower40 (n : Nat) : Str := (toDigits 16 40 n).map hexDigitLower

/-- 40 lower-case hexadecimal digits: the form of `Torrent.infohash` -/
def LowerHex40 (s : Str) : Bool := decide (s.length = 40) && s.all fun c => isDigit c || inR 97 102 c

/-- expected `%XX`-encoding of the 20 hash bytes in the tracker request -/
def hashBytesEnc (n : Nat) : Str := (toDigits 256 20 n).flatMap quoteByte

end Torf.Magnet
