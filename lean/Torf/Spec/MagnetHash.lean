/-
  Specification side of C14: what the property demands, independent of regular expressions
  and of base64.
-/
import Torf.Model.MagnetHash
namespace Torf.Magnet

/-- exactly 40 hexadecimal characters, any letter case -/
def Hex40 (s : Str) : Bool := decide (s.length = 40) && s.all isHexAscii
/-- exactly 32 base32 characters (A–Z, 2–7), any letter case -/
def B32x32 (s : Str) : Bool := decide (s.length = 32) && s.all isB32Ascii
def validHash (s : Str) : Bool := Hex40 s || B32x32 s

/-- the value starts with `urn:btih:` in any (ASCII) letter case -/
def hasUrn (v : Str) : Bool := (v.take 9).map asciiLower == urnPrefix
/-- the exact topic (`xt` setter, constructor) accepts a valid hash, optionally prefixed -/
def xtAccepts (v : Str) : Bool := validHash v || (hasUrn v && validHash (v.drop 9))
/-- … and the value it stores is the hash without the prefix -/
def xtStored (v : Str) : Str := if validHash v then v else v.drop 9
/-- the info hash setter accepts … (no prefix there) -/
def infohashAccepts (v : Str) : Bool := validHash v

/-- a URL is accepted iff `is_url` accepts it as given *and* with its spaces replaced by '+' (the
    form that is stored) -/
def urlAccepts (isUrl : Str → Bool) (v : Str) : Bool := isUrl v && isUrl (plusForSpace v)

/-- what a URL list holds after an accepted assignment: the items with ' ' → '+', every item at its
    first occurrence only -/
def keepFirst : List Str → List Str
  | [] => []
  | u :: us => u :: (keepFirst us).filter (· ≠ u)

def hexValD (c : Char) : Nat := (hexVal c).getD 0
def b32ValD (c : Char) : Nat := (b32Val (asciiUpper c)).getD 0

/-- the 160-bit number a valid hash denotes (the 20 hash bytes, big endian) -/
def hashVal (s : Str) : Nat :=
  if s.length = 40 then ofDigits 16 (s.map hexValD) else ofDigits 32 (s.map b32ValD)

def hexDigitLower (d : Nat) : Char := Char.ofNat (if d < 10 then 48 + d else 87 + d)

/-- the 40-digit lower-case hexadecimal form of a 160-bit number -/
def hexLower40 (n : Nat) : Str := (toDigits 16 40 n).map hexDigitLower

/-- 40 lower-case hexadecimal digits: the form of `Torrent.infohash` -/
def LowerHex40 (s : Str) : Bool := decide (s.length = 40) && s.all fun c => isDigit c || inR 97 102 c

/-- an assignment judged on its own: the value stored if it is accepted -/
def specAssign : HashOp → Option Str
  | .xt v => if xtAccepts v then some (xtStored v) else none
  | .infohash v => if infohashAccepts v then some v else none

/-- `get_info()` with validation on a magnet whose hash has the 40-digit form `own`, which does
    (`held`) or does not yet hold metadata: sources in order; a failed download or unreadable
    data is skipped; a readable torrent with another infohash ⇒ MetainfoError; a readable torrent
    with the same infohash is adopted (if its info section is non-empty); the search ends as soon as
    the magnet holds metadata.  Result: (error, holds metadata afterwards, sources consulted). -/
def specFetch (own : Str) : Bool → List Served → Nat → Option MErr × Bool × Nat
  | held, [], k => (none, held, k)
  | held, .connError :: rest, k => if held then (none, true, k + 1) else specFetch own held rest (k + 1)
  | held, .unreadable :: rest, k => if held then (none, true, k + 1) else specFetch own held rest (k + 1)
  | held, .torrent h ne :: rest, k =>
    if h ≠ own then (some .metainfo, held, k + 1)
    else if ne || held then (none, true, k + 1) else specFetch own held rest (k + 1)

/-- What the property demands of a history of assignments, conversions and (validating) metadata
    downloads on one object: every assignment is judged on its own (accepted iff valid, else the
    magnet error and no change); every `torrent()` shows the 40-digit form of the number denoted by
    the value accepted *last* — not of any value the object held when it was converted or when it
    downloaded metadata before; metadata is adopted only from a torrent that denotes the hash held
    at that moment and is forgotten when another hash string is assigned (interpretive choice: the
    code also forgets it when the same number is assigned in another notation; the specification
    follows the code there — the harness accepts both). -/
def specUse (st : MState) : List UseOp → List UseObs × MState
  | [] => ([], st)
  | .assign op :: ops =>
    match specAssign op with
    | some s =>
      let rs := specUse { hash := some s, info := if st.hash = some s then st.info else none } ops
      (.assigned none :: rs.1, rs.2)
    | none => let rs := specUse st ops; (.assigned (some .magnet) :: rs.1, rs.2)
  | .convert :: ops =>
    let rs := specUse st ops
    ((match st.hash with
      | some s => .converted (.ok (hexLower40 (hashVal s))) st.info.isSome
      | none => .unset) :: rs.1, rs.2)
  | .fetch _ served :: ops =>
    match st.hash with
    | none => let rs := specUse st ops; (.unset :: rs.1, rs.2)
    | some s =>
      let own := hexLower40 (hashVal s)
      let r := specFetch own st.info.isSome served 0
      let rs := specUse { st with info := if r.2.1 then some own else none } ops
      (.fetched r.1 r.2.1 r.2.2 :: rs.1, rs.2)

/-- hypothesis of `C14_convert_history`: every `get_info()` of the history validates (with
    `validate=False` the caller asks for the comparison to be skipped) -/
def useValidated : List UseOp → Bool
  | [] => true
  | .fetch v _ :: ops => v && useValidated ops
  | _ :: ops => useValidated ops

/-- invariant of an object in such a history: the hash is valid and adopted metadata denotes it -/
def StateOk (st : MState) : Prop :=
  (∀ s, st.hash = some s → validHash s = true) ∧
  (∀ a, st.info = some a → ∃ s, st.hash = some s ∧ a = hexLower40 (hashVal s))

instance (st : MState) : Decidable (StateOk st) := by
  unfold StateOk
  cases st with
  | mk hash info =>
    cases hash with
    | none =>
      cases info with
      | none => exact isTrue ⟨by simp, by simp⟩
      | some a => exact isFalse (by simp)
    | some s =>
      cases info with
      | none => exact decidable_of_iff (validHash s = true) (by simp)
      | some a =>
        exact decidable_of_iff (validHash s = true ∧ a = hexLower40 (hashVal s)) (by simp)

/-- expected `%XX`-encoding of the 20 hash bytes in the tracker request -/
def hashBytesEnc (n : Nat) : Str := (toDigits 256 20 n).flatMap quoteByte

/-- What `torrent()` must return (the property, and the method's documentation): with adopted
    metadata the info section is **exactly** the adopted one — nothing of `dn` / `xl` survives —
    and no fallback hash is needed; without, name and size come from `dn` / `xl` and the hash is
    given explicitly as the 40-digit form of the magnet's hash.  Trackers and webseeds always are
    the magnet's. -/
def specTorrent {V : Type} (ofStr : Str → V) (ofInt : Int → V) (ih : Str) (f : Fields)
    (adopted : Option (Info V)) : TorrentOut V :=
  { info := match adopted with
      | some a => a
      | none => (match f.dn with | some d => [(kName, ofStr d)] | none => [])
                ++ (match f.xl with | some n => [(kLength, ofInt n)] | none => []),
    ownHash := match adopted with
      | some _ => none
      | none => some (hexLower40 (hashVal ih)),
    trackers := f.tr, webseeds := f.ws }

/-- What a history of `torrent()` calls, caller's edits of the results and changes of the magnet's
    fields must show: every `torrent()` is the specified torrent for the fields held **then** and the
    metadata adopted by `get_info()` — whatever the caller did to earlier results. -/
def specRunT {V : Type} (ofStr : Str → V) (ofInt : Int → V) (ih : Str) (fields : Fields)
    (adopted : Option (Info V)) : List (TOp V) → List (Except MErr (TorrentOut V))
  | [] => []
  | .torrent :: ops =>
    torrentOf ofStr ofInt ih fields adopted :: specRunT ofStr ofInt ih fields adopted ops
  | .edit _ _ :: ops => specRunT ofStr ofInt ih fields adopted ops
  | .setFields f :: ops => specRunT ofStr ofInt ih f adopted ops

/-! ### `get_info()` while the magnet is being changed (by its callback, by another thread) -/

/-- an assignment as the property sees it: judged on its own; accepted ⇒ the value is stored, and
    metadata of the previous hash is forgotten (when another string is stored: the code's rule, see
    `specUse`); rejected ⇒ the magnet error and nothing changes -/
def specAssignM (m : MState) (op : HashOp) : Option MErr × MState :=
  match specAssign op with
  | some s => (none, { hash := some s, info := if m.hash = some s then m.info else none })
  | none => (some .magnet, m)

/-- a readable torrent with infohash `h` has arrived: with validation it is adopted **iff `h` is the
    40-digit form of the number denoted by the hash the magnet holds now** — whatever it held when the
    call started or when the request was sent —, otherwise MetainfoError and nothing changes; without
    validation the caller asked for the comparison to be skipped -/
def specArrived (validate : Bool) (m : MState) (h : Str) (ne : Bool) : Except MErr MState :=
  match m.hash with
  | none => if validate then .error (.internal "AttributeError") else .ok { m with info := if ne then some h else m.info }
  | some s =>
    if validate && h ≠ hexLower40 (hashVal s) then .error .metainfo
    else .ok { m with info := if ne then some h else m.info }

def specSem : Sem := { assign := specAssignM, arrived := specArrived }

/-- the object holds a valid hash -/
def HashOk (st : GState) : Prop := ∃ s, st.m.hash = some s ∧ validHash s = true

/-- … and the metadata it holds, if any, denotes that hash (what `StateOk` says, for an object that
    exists) -/
def GOk (st : GState) : Prop :=
  ∃ s, st.m.hash = some s ∧ validHash s = true ∧ ∀ a, st.m.info = some a → a = hexLower40 (hashVal s)

instance (st : GState) : Decidable (GOk st) := by
  unfold GOk
  cases h : st.m.hash with
  | none => exact isFalse (by simp)
  | some s =>
    cases hi : st.m.info with
    | none => exact decidable_of_iff (validHash s = true) (by simp)
    | some a => exact decidable_of_iff (validHash s = true ∧ a = hexLower40 (hashVal s)) (by simp)

instance (st : GState) : Decidable (HashOk st) := by
  unfold HashOk
  cases h : st.m.hash with
  | none => exact isFalse (by simp)
  | some s => exact decidable_of_iff (validHash s = true) (by simp)

def callsValidated (cs : List Call) : Bool := cs.all (·.validate)

end Torf.Magnet
