/-
  Specification side of C13: which magnet objects the round-trip claim is made for, and what a
  round trip must preserve.
-/
import Torf.Model.MagnetUri
import Torf.Spec.MagnetHash
namespace Torf.Magnet

/-- a URL as a constructed magnet holds it: non-empty, valid for `utils.is_url`, spaces already
    replaced by '+' (every URL a setter accepts is stored like this: `C13_stored_urls_ok`) -/
def urlOk (isUrl : Str → Bool) (u : Str) : Bool := isUrl u && !u.isEmpty && !u.contains ' '

/-- a keyword the property speaks about: non-empty (D13c) and without whitespace -/
def keywordOk (k : Str) : Bool := !k.isEmpty && k.all fun c => !isPySpace c

/-- The magnet objects the constructor can produce, minus the open findings:
    D13a (`as_` present), D13b (extension parameters present), D13c (empty `dn`, empty keyword);
    `xl` below CPython's 4300-digit str/int conversion limit. -/
def WF (isUrl : Str → Bool) (m : MagnetObj) : Bool :=
  validHash m.infohash
  && (match m.dn with | some d => !d.isEmpty && !d.contains '\n' | none => true)
  && (match m.xl with | some n => decide (1 ≤ n) && decide (decLen n n ≤ 4300) | none => true)
  && m.tr.all (urlOk isUrl) && decide m.tr.Nodup
  && (match m.xs with | some u => urlOk isUrl u | none => true)
  && m.as_.isNone
  && m.ws.all (urlOk isUrl) && decide m.ws.Nodup
  && m.kt.all keywordOk
  && m.x.isEmpty

/-- The same without the exclusions: what the constructor can produce (used by the driver to
    tell "constructible but excluded by a finding" from "not constructible"). -/
def constructible (isUrl : Str → Bool) (m : MagnetObj) : Bool :=
  (infohashRe m.infohash).isSome
  && (match m.dn with | some d => !d.contains '\n' | none => true)
  && (match m.xl with | some n => decide (1 ≤ n) | none => true)
  && m.tr.all (urlOk isUrl) && decide m.tr.Nodup
  && (match m.xs with | some u => urlOk isUrl u | none => true)
  && (match m.as_ with | some u => urlOk isUrl u | none => true)
  && m.ws.all (urlOk isUrl) && decide m.ws.Nodup

/-- torrents the torrent → magnet → torrent claim is made for -/
def TorrentOk (isUrl : Str → Bool) (t : TorrentView) : Bool :=
  LowerHex40 t.infohash
  && (match t.name with | some d => !d.isEmpty && !d.contains '\n' | none => false)
  && (match t.size with | some n => decide (1 ≤ n) && decide (decLen n n ≤ 4300) | none => false)
  && t.trackers.all (urlOk isUrl) && decide t.trackers.Nodup
  && t.webseeds.all (urlOk isUrl) && decide t.webseeds.Nodup

/-- the field values the object holds at every `str(m)` of a history: all edits so far applied,
    renderings ignored -/
def statesAtStr (m : MagnetObj) : List MOp → List MagnetObj
  | [] => []
  | .set g :: ops => statesAtStr (g m) ops
  | .listEdit g :: ops => statesAtStr (g m) ops
  | .plainEdit g :: ops => statesAtStr (g m) ops
  | .str :: ops => m :: statesAtStr m ops

/-- the number of `key=value` fields of the rendered link of a well-formed magnet: `xt`, one for each
    of `dn` / `xl` / `xs` that is set, one for all keywords together, one per tracker, one per
    webseed — unbounded: the constructor accepts URL lists of any length -/
def fieldCount (m : MagnetObj) : Nat :=
  1 + (if m.dn.isSome then 1 else 0) + (if m.xl.isSome then 1 else 0) + (if m.xs.isSome then 1 else 0)
  + (if m.kt.isEmpty then 0 else 1) + m.tr.length + m.ws.length

/-- `n` distinct URLs (for every validity predicate that accepts everything): 'a', 'aa', 'aaa', … -/
def manyUrls (n : Nat) : List Str := (List.range n).map fun i => List.replicate (i + 1) 'a'

/-- a well-formed magnet with `n` trackers (`n + 1` fields) -/
def bigMagnet (n : Nat) : MagnetObj := { infohash := List.replicate 40 'a', tr := manyUrls n }

end Torf.Magnet
