/-
  Torf.Spec.Sound — what C07 demands of exported bytes, as an executable predicate.

  `parse` is the *strict* bencode parser (canonical integers and lengths, dictionary keys strictly
  ascending, nothing after the value).  `soundVal` is the structural demand of the property:

    an info dictionary with a name, a positive piece length that is a multiple of 16 KiB, a
    non-empty piece string of exactly 20·ceil(size / piece length) bytes, exactly one of a
    single-file length or a file list whose entries have non-negative integer lengths and
    string path components, and only well-formed announce URLs.

  `urlOk` (is this UTF-8 byte string a well-formed URL) is a parameter.
-/
import Torf.Model.Export
namespace Torf.Sound
open Torf Torf.Export

/-- strict parse of a complete byte string: the conforming bencode parser of C05
    (`Bencode.parseStrict`, characterised by `C05_strict_iff`: it accepts exactly the canonical
    encodings — minimal numerals, dictionary keys strictly ascending, nothing after the value —
    within CPython's 4300-digit limit for numerals) -/
def parse (bs : Bytes) : Option BVal := Bencode.parseStrict Bencode.pyMaxDigits bs

/-! ### the structural demand -/

def lookupB (k : String) (kvs : List (Bytes × BVal)) : Option BVal := kvs.lookup (utf8 k)

def isBytesB : BVal → Bool | .bytes _ => true | _ => false

def ceilDiv (a b : Nat) : Nat := (a + b - 1) / b

/-- the info dictionary -/
def infoOf : BVal → Option (List (Bytes × BVal))
  | .dict top => match lookupB "info" top with | some (.dict info) => some info | _ => none
  | _ => none

def nameOk (info : List (Bytes × BVal)) : Bool :=
  match lookupB "name" info with | some (.bytes _) => true | _ => false

/-- a positive piece length that is a multiple of 16 KiB -/
def pieceLength? (info : List (Bytes × BVal)) : Option Nat :=
  match lookupB "piece length" info with
  | some (.int p) => if 0 < p ∧ p % 16384 = 0 then some p.toNat else none
  | _ => none

/-- a non-empty piece string; its length -/
def piecesLen? (info : List (Bytes × BVal)) : Option Nat :=
  match lookupB "pieces" info with
  | some (.bytes b) => if b.isEmpty then none else some b.length
  | _ => none

/-- every path component is a string (an empty string / empty dictionary has no component at
    all, like the empty list: `validate` lets any empty iterable through) -/
def pathOk : BVal → Bool
  | .list comps => comps.all isBytesB
  | .bytes [] => true
  | .dict [] => true
  | _ => false

/-- a file entry: non-negative integer length, string path components -/
def fileLen? : BVal → Option Nat
  | .dict e =>
    match lookupB "length" e, lookupB "path" e with
    | some (.int n), some p => if 0 ≤ n ∧ pathOk p then some n.toNat else none
    | _, _ => none
  | _ => none

def sumFiles : List BVal → Option Nat
  | [] => some 0
  | f :: r => do let a ← fileLen? f; let b ← sumFiles r; pure (a + b)

/-- exactly one of `length` / `files`; the content size -/
def size? (info : List (Bytes × BVal)) : Option Nat :=
  match lookupB "length" info, lookupB "files" info with
  | some (.int n), none => if 0 ≤ n then some n.toNat else none
  | none, some (.list fs) => sumFiles fs
  | _, _ => none

def urlB (urlOk : Bytes → Bool) : BVal → Bool | .bytes u => urlOk u | _ => false
/-- a tier holds only well-formed URLs (an empty string / empty dictionary holds no URL at all:
    `validate` lets any empty iterable through, and the property only speaks about the URLs) -/
def tierB (urlOk : Bytes → Bool) : BVal → Bool
  | .list us => us.all (urlB urlOk)
  | .bytes [] => true
  | .dict [] => true
  | _ => false

def announceOk (urlOk : Bytes → Bool) (top : List (Bytes × BVal)) : Bool :=
  (match lookupB "announce" top with | none => true | some u => urlB urlOk u) &&
  (match lookupB "announce-list" top with
   | none => true
   | some (.list tiers) => tiers.all (tierB urlOk)
   | some (.bytes []) => true
   | some (.dict []) => true
   | some _ => false)

def countOk (info : List (Bytes × BVal)) : Bool :=
  match pieceLength? info, piecesLen? info, size? info with
  | some p, some n, some sz => n == 20 * ceilDiv sz p
  | _, _, _ => false

def soundVal (urlOk : Bytes → Bool) (v : BVal) : Bool :=
  match v, infoOf v with
  | .dict top, some info => nameOk info && countOk info && announceOk urlOk top
  | _, _ => false

/-- C07's demand on exported bytes -/
def Sound (urlOk : Bytes → Bool) (bs : Bytes) : Bool :=
  match parse bs with
  | some v => soundVal urlOk v
  | none => false

end Torf.Sound
