/-
  Torf.Spec.Pipeline — what C03/C04 demand of the pipeline transition system, as executable
  (decidable) predicates on states, so the driver can evaluate them and the theorems can be
  stated about them.
-/
import Torf.Model.Pipeline
namespace Torf.Pipeline

/-- items currently held by hashers (taken from the piece queue, result not yet delivered) -/
def held (s : State) : List Nat :=
  s.hs.filterMap fun h => match h with | .holding k => some k | _ => none

/-- every item the reader has pushed is in exactly one place: collected by main, in the hash
    queue, in a hasher's hands, or in the piece queue -/
def inFlight (s : State) : List Nat :=
  s.seen ++ s.hq.filterMap id ++ held s ++ s.pq.filterMap id

/-- number of items the reader has pushed so far, when its program counter tells -/
def Conserved (s : State) : Bool :=
  (inFlight s).mergeSort (fun a b => a ≤ b) == List.range (inFlight s).length

/-- the janitor's position inside a polling round is not part of the core state -/
def coreJan : JPc → JPc
  | .prune _ => .waiting
  | .spin _ => .spin []
  | j => j

def core (s : State) : State := { s with jan := coreJan s.jan }

/-- a step is a progress step iff it changes the core state -/
def isProgress (s s' : State) : Bool := decide (core s ≠ core s')

def allLabels (cfg : Cfg) : List Label :=
  [⟨.main, false⟩, ⟨.reader, false⟩, ⟨.janitor, false⟩, ⟨.janitor, true⟩] ++
  (List.range cfg.N).flatMap fun i => [⟨.hasher i, false⟩, ⟨.hasher i, true⟩]

/-- the janitor, scheduled alone, reaches a progress step after at most `fuel` idle steps of its
    current polling round -/
def janitorReachesProgress (cfg : Cfg) (s : State) : Nat → Bool
  | 0 => false
  | fuel + 1 =>
    match step cfg s ⟨.janitor, false⟩ with
    | none => false
    | some s' => isProgress s s' || janitorReachesProgress cfg s' fuel

/-- some thread can take a progress step (for the janitor: after finishing the idle steps of its
    current polling round, at most N + 1 of them) -/
def canProgress (cfg : Cfg) (s : State) : Bool :=
  ((allLabels cfg).any fun l => match step cfg s l with
    | some s' => isProgress s s'
    | none => false) || janitorReachesProgress cfg s (cfg.N + 2)

def noInternalError (s : State) : Bool :=
  match s.main with
  | .finished (.raised .assertion) => false
  | .finished (.raised .index) => false
  | .joinReaderChk (some .assertion) => false
  | _ => true

/-- piece indexes whose digest the collector stores (data and mismatching pieces) -/
def hashedItems (cfg : Cfg) : List Nat :=
  (List.range cfg.items.length).filter fun k =>
    let kind := cfg.items.getD k .nodata
    kind == .data || kind == .mismatch

def badItems (cfg : Cfg) : List Nat :=
  (List.range cfg.items.length).filter fun k => isRaising cfg (cfg.items.getD k .nodata)

/-- outcome of a fault-free run with a passive callback = the sequential reference:
    no raising item ⇒ every digest collected (any arrival order); otherwise the exception of one
    of the raising items -/
def outcomeOk (cfg : Cfg) (r : Result) : Bool :=
  match r with
  | .returned c => (badItems cfg).isEmpty && (c.mergeSort (fun a b => a ≤ b) == hashedItems cfg)
  | .raised (.item k) => (badItems cfg).contains k
  | .raised _ => false

def noFaults (cfg : Cfg) : Bool := cfg.readFault.isNone && cfg.refuse.isEmpty

def wf (cfg : Cfg) : Bool := decide (1 ≤ cfg.N) && decide (1 ≤ cfg.cap)

end Torf.Pipeline
