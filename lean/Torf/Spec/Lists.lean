/-
  Specification of property C16: what must hold between the four metainfo fields and the three
  lists read back through `Torrent.trackers / webseeds / httpseeds` after ANY edit history.

  `holds isUrl s rb` is a predicate on observables only (the metainfo fields `s` and the read-back
  lists `rb`, `none` = a getter raised); it never mentions how the state was produced, so the
  driver evaluates it both on the model's result and on what the real code produced.
-/
import Torf.Model.Lists
namespace Torf.Lists.Spec
open Torf.Lists

/-- first URL of the first tier -/
def firstUrl (T : Tiers) : Option String :=
  match T with
  | [] => none
  | t :: _ => t.head?

def holdsRb (isUrl : String → Bool) (s : MI) (rb : ReadBack) : Bool :=
  let flat := rb.trackers.flatten
  -- announce is the first URL of the first tier, absent when there is none
  decide (s.announce = firstUrl rb.trackers)
  -- announce-list equals the tiers when there is more than one URL in total, absent otherwise
  && decide (s.announceList = if flat.length > 1 then some rb.trackers else none)
  -- the seed lists mirror url-list / httpseeds (absent when empty)
  && decide (s.urlList = if rb.webseeds = [] then none else some rb.webseeds)
  && decide (s.httpseeds = if rb.httpseeds = [] then none else some rb.httpseeds)
  -- no URL is stored twice (within all tiers; within each seed list)
  && decide flat.Nodup && decide rb.webseeds.Nodup && decide rb.httpseeds.Nodup
  -- no tier is empty
  && rb.trackers.all (fun t => !t.isEmpty)
  -- every stored URL is well-formed
  && (flat ++ rb.webseeds ++ rb.httpseeds).all isUrl

/-- read-back never fails, and the relation holds -/
def holds (isUrl : String → Bool) (s : MI) : Option ReadBack → Bool
  | none => false
  | some rb => holdsRb isUrl s rb

end Torf.Lists.Spec
