/-
  Torf.Spec.VerifySchedule — vocabulary of the composition theorem `C02_any_schedule`: how the
  reader's items of a verification run look to the pipeline, which digest the collector holds for a
  piece, which pieces make a run without callback raise, and with which documented error.
-/
import Torf.Model.Verify
import Torf.Model.Pipeline
namespace Torf.C02
open Torf Torf.Missing Torf.Verify Torf.Pipeline

variable {α δ : Type} [DecidableEq δ]

/-- what the reader's item number `i` is to the pipeline -/
def kindOf (H : List α → δ) (stored : List δ) (ii : Item α × Nat) : ItemKind :=
  if !ii.1.excs.isEmpty then .exc else
  match ii.1.data with
  | none => .nodata
  | some d => if stored[ii.2]? = some (H d) then .data else .mismatch

/-- the digest the collector holds for piece `k` -/
def digestAt (H : List α → δ) (items : List (Item α)) (k : Nat) : Option δ :=
  match items[k]? with
  | some it => if it.excs.isEmpty then it.data.map H else none
  | none => none

/-- piece `k` makes `verify()` without a callback raise -/
def isBad (H : List α → δ) (stored : List δ) (items : List (Item α)) (k : Nat) : Bool :=
  match items[k]? with
  | some it => kindOf H stored (it, k) == .exc || kindOf H stored (it, k) == .mismatch
  | none => false

/-- the documented error that belongs to bad piece `k` -/
def itemErr (L : Nat) (sizes : List Nat) (items : List (Item α)) (k : Nat) : Option VErr :=
  match items[k]? with
  | some it =>
    if !it.excs.isEmpty then it.excs.head?.map excOf else some (.content k (corruptFiles L sizes k))
  | none => none

end Torf.C02
