/-
  Specification side of C13 for torrents with a foreign tracker layout: which metainfo the
  torrent → magnet → torrent claim is made for and what the `trackers` getter must show.
-/
import Torf.Spec.MagnetUri
import Torf.Model.MagnetTorrent
namespace Torf.Magnet

/-- the three computed attributes of an exportable torrent C13 speaks about (the same clauses as in
    `TorrentOk`): 40 lower-case hex digits, a non-empty name without newline (D13d), 1 ≤ size below
    CPython's int→str limit.  Nothing is demanded of `announce` / `announce-list` / `url-list`. -/
def MetaBaseOk (t : TorrentMeta) : Bool :=
  LowerHex40 t.infohash
  && (match t.name with | some d => !d.isEmpty && !d.contains '\n' | none => false)
  && (match t.size with | some n => decide (1 ≤ n) && decide (decLen n n ≤ 4300) | none => false)

/-- the URLs of the two tracker fields in the order the `trackers` getter meets them: `announce`
    first unless that very string occurs somewhere in `announce-list`, then the tiers in order -/
def rawTrackerUrls (t : TorrentMeta) : List Str :=
  let al := (t.announceList.getD []).flatten
  match t.announce with
  | some a => if a ∈ al then al else a :: al
  | none => al

/-- the URLs of `url-list` as `URLs(...)` meets them -/
def rawWebseedUrls (t : TorrentMeta) : List Str :=
  match t.urlList with
  | .absent => []
  | .str s => if s.all isPySpace then [] else [s]
  | .list us => us

/-- What `Torrent.trackers` must show (flat) for any metainfo whose URLs are acceptable: every URL
    with ' ' → '+', in the order above, each at its first occurrence only. -/
def flatTrackersSpec (t : TorrentMeta) : List Str := keepFirst ((rawTrackerUrls t).map plusForSpace)

def webseedsSpec (t : TorrentMeta) : List Str := keepFirst ((rawWebseedUrls t).map plusForSpace)

end Torf.Magnet
