/-
  Torf.Spec.RoundTrip — the hypotheses of the C05 round trip, as predicates on the decoded
  (canonical) document.
-/
import Torf.Model.ReadStream
namespace Torf.ReadStream
open Torf Torf.Bencode Torf.Codec

mutual
/-- every dictionary key, at every level, is valid UTF-8 -/
def utf8Keys : BVal → Bool
  | .int _ => true
  | .bytes _ => true
  | .list l => utf8KeysList l
  | .dict kvs => utf8KeysKvs kvs
def utf8KeysList : List BVal → Bool
  | [] => true
  | v :: t => utf8Keys v && utf8KeysList t
def utf8KeysKvs : List (Bytes × BVal) → Bool
  | [] => true
  | (k, v) :: t => (utf8Dec k).isSome && utf8Keys v && utf8KeysKvs t
end

/-- `info.pieces`, if present, is a byte string -/
def PiecesOk (enc : List (Bytes × BVal)) : Prop :=
  ∀ ikvs p, lookup kInfo enc = some (.dict ikvs) → lookup kPieces ikvs = some p → ∃ b, p = .bytes b

/-- `info.private`, if present, is the integer 0 or 1 -/
def PrivateOk (enc : List (Bytes × BVal)) : Prop :=
  ∀ ikvs pv, lookup kInfo enc = some (.dict ikvs) → lookup kPrivate ikvs = some pv →
    pv = .int 0 ∨ pv = .int 1

/-- `creation date`, if present, is an integer that `datetime.fromtimestamp` accepts and
    `int(datetime.timestamp())` gives back (representable date) -/
def DateOk (env : Env) (enc : List (Bytes × BVal)) : Prop :=
  ∀ cd, lookup kCreationDate enc = some cd →
    ∃ i, cd = .int i ∧ env.fromTs i = some (.datetime (some i))

end Torf.ReadStream
