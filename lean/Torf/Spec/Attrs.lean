/-
  Torf.Spec.Attrs — what property C09 demands of every state of a `Torrent` that is reachable
  through its attributes: an executable (decidable) state invariant, and the hypothesis on single
  operations under which the current code maintains it.
-/
import Torf.Model.Attrs
namespace Torf.Attrs

/-- a positive multiple of 16 KiB -/
def Mult16 (n : Nat) : Prop := 0 < n ∧ n % 16384 = 0
instance (n : Nat) : Decidable (Mult16 n) := by unfold Mult16; infer_instance

/-- the piece length, if any, is a multiple of 16 KiB within the configured bounds -/
def PlOk (s : St) : Prop :=
  match s.pl with
  | none => True
  | some pl => Mult16 pl ∧ s.pmin ≤ pl ∧ pl ≤ s.pmax
instance (s : St) : Decidable (PlOk s) := by unfold PlOk; split <;> infer_instance

/-- content of positive size has a piece length -/
def PlPresent (s : St) : Prop := 0 < size s → s.pl.isSome = true
instance (s : St) : Decidable (PlPresent s) := by unfold PlPresent; infer_instance

/-- mode matches the file list: `singlefile`/`multifile` only with listed content of positive
    size (so `mode = None ↔ files = []`, see `C09_mode_files`) -/
def ContentOk : Content → Prop
  | .none => True
  | .single n => 0 < n
  | .multi fs => fs.any (fun f => decide (0 < f.size)) = true
instance (c : Content) : Decidable (ContentOk c) := by unfold ContentOk; split <;> infer_instance

/-- the stamp `g` recorded at hashing time describes the *current* content path, layout and
    piece length, and the stored number of digests is `ceil(size / piece length)` -/
def Current (s : St) (g : Ghost) : Prop :=
  s.path = some g.path ∧ g.layout = layout s.content ∧ s.pl = some g.pl ∧
  g.count = nPieces g.pl (size s) ∧ 0 < size s
instance (s : St) (g : Ghost) : Decidable (Current s g) := by unfold Current; infer_instance

/-- piece hashes never outlive what they were computed for -/
def StampOk (s : St) : Prop :=
  match s.pieces with
  | none => True
  | some g => Current s g
instance (s : St) : Decidable (StampOk s) := by unfold StampOk; split <;> infer_instance

/-- **The C09 state invariant.** (`size = Σ sizes of the listed files` holds by construction of
    the `size`/`files` getters in every state: `C09_size_sum`.) -/
def Inv (s : St) : Prop :=
  s.pmin ≤ s.pmax ∧ Mult16 s.pmin ∧ Mult16 s.pmax ∧ PlOk s ∧ PlPresent s ∧
  ContentOk s.content ∧ StampOk s
instance (s : St) : Decidable (Inv s) := by unfold Inv; infer_instance

/-- **What holds after every operation — completed or failed half-way — with no hypothesis at
    all** (`C09_stamp_step`): the mode matches the file list, and piece hashes, if present, are the
    ones computed for the current content path, file list and piece length. -/
def InvS (s : St) : Prop := ContentOk s.content ∧ StampOk s
instance (s : St) : Decidable (InvS s) := by unfold InvS; infer_instance

/-- `Inv` without the clause "content of positive size has a piece length": what an operation
    leaves behind when the recalculation of the piece length fails after the file list was
    already replaced (`C09_weak_step`). -/
def InvW (s : St) : Prop :=
  s.pmin ≤ s.pmax ∧ Mult16 s.pmin ∧ Mult16 s.pmax ∧ PlOk s ∧ ContentOk s.content ∧ StampOk s
instance (s : St) : Decidable (InvW s) := by unfold InvW; infer_instance

/-- What an assignment must leave in a filter list (specification of `ML.readd`): the assigned
    items in order, every item once — later duplicates are dropped. -/
def dedupFirst {α : Type} [DecidableEq α] : List α → List α
  | [] => []
  | x :: xs => x :: (dedupFirst xs).filter (fun y => decide (y ≠ x))

/-- **The filter lists hold patterns, each once**: no list holds an item twice, and the regex
    lists hold only compiled (valid) regular expressions.  (What D09d violated: `[None]`.) -/
def FiltersOk (s : St) : Prop :=
  s.exGlobs.Nodup ∧ s.inGlobs.Nodup ∧ s.exRegexs.Nodup ∧ s.inRegexs.Nodup ∧
  s.exRegexs.all Rx.valid = true ∧ s.inRegexs.all Rx.valid = true
instance (s : St) : Decidable (FiltersOk s) := by unfold FiltersOk; infer_instance

/-- Hypothesis on one operation in its pre-state: the operation does not assign a bound across
    the other bound (open finding D09b).  `None` assigns the class default (for the minimum that
    is the smallest legal value, which can never lie above a legal maximum: no clause). -/
def OpOk (s : St) : Op → Prop
  | .setMin (some x) => divisible x = true → x ≤ (s.pmax : Int)
  | .setMax (some x) => divisible x = true → (s.pmin : Int) ≤ x
  | .setMax none => s.pmin ≤ defaultMax
  | _ => True
instance (s : St) (op : Op) : Decidable (OpOk s op) := by
  unfold OpOk; split <;> infer_instance

/-- Hypothesis on one step for the **full** invariant: `OpOk`, and the operation did not fail
    inside the recalculation of the piece length (the class's `calculate_piece_size` raised, or
    returned a value the `piece_size` setter rejects).  A step that does fail there keeps `InvW`
    (`C09_weak_step`) and the next successful content / piece-size assignment restores `Inv`
    (`C09_inv_recovers`). -/
def StepOk (env : Env) (s : St) (op : Op) : Prop := OpOk s op ∧ (apply env s op).2.faulted = false
instance (env : Env) (s : St) (op : Op) : Decidable (StepOk env s op) := by
  unfold StepOk; infer_instance

/-- every operation of a history satisfies `StepOk` in the state it is applied to -/
def AllOk (env : Env) : St → List Op → Prop
  | _, [] => True
  | s, op :: ops => StepOk env s op ∧ AllOk env (apply env s op).1 ops

def AllOk.dec (env : Env) : (s : St) → (ops : List Op) → Decidable (AllOk env s ops)
  | _, [] => isTrue True.intro
  | s, op :: ops =>
    have := AllOk.dec env (apply env s op).1 ops
    inferInstanceAs (Decidable (StepOk env s op ∧ AllOk env (apply env s op).1 ops))
instance (env : Env) (s : St) (ops : List Op) : Decidable (AllOk env s ops) := AllOk.dec env s ops

/-- every operation of a history satisfies `OpOk` — failures of the recalculation are allowed
    (hypothesis of the histories with failing steps: `C09_weak_history`, `C09_inv_tracked`) -/
def AllOpOk (env : Env) : St → List Op → Prop
  | _, [] => True
  | s, op :: ops => OpOk s op ∧ AllOpOk env (apply env s op).1 ops

def AllOpOk.dec (env : Env) : (s : St) → (ops : List Op) → Decidable (AllOpOk env s ops)
  | _, [] => isTrue True.intro
  | s, op :: ops =>
    have := AllOpOk.dec env (apply env s op).1 ops
    inferInstanceAs (Decidable (OpOk s op ∧ AllOpOk env (apply env s op).1 ops))
instance (env : Env) (s : St) (ops : List Op) : Decidable (AllOpOk env s ops) := AllOpOk.dec env s ops

/-- the assignments that, when they complete, end with a piece length for the content they leave:
    a content assignment (its last step is the recalculation) or a `piece_size` assignment -/
def restores : Op → Bool
  | .setPath (some _) => true
  | .setFiles _ => true
  | .filesAppend _ => true
  | .filesClear => true
  | .setFilepaths _ => true
  | .fpAppend _ => true
  | .fpClear => true
  | .setPieceSize _ => true
  | _ => false

/-- does the full invariant hold after the step, given whether it held before (`full`): lost by a
    step that fails inside the recalculation, regained by a restoring assignment that completes -/
def fullAfter (env : Env) (s : St) (full : Bool) (op : Op) : Bool :=
  if (apply env s op).2.faulted then false
  else full || (restores op && decide ((apply env s op).2 = .ok))

/-- … at the end of a history -/
def runFull (env : Env) : St → Bool → List Op → Bool
  | _, full, [] => full
  | s, full, op :: ops => runFull env (apply env s op).1 (fullAfter env s full op) ops

/-- a value the bound setters accept (`None` or a positive multiple of 16 KiB) -/
def legalBound : Option Int → Bool
  | none => true
  | some x => divisible x

/-- `op'` assigns an accepted value to the same bound as `op` -/
def sameBound : Op → Op → Bool
  | .setMin _, .setMin v' => legalBound v'
  | .setMax _, .setMax v' => legalBound v'
  | _, _ => false

/-- Weaker hypothesis on a history (narrows D09b): every operation satisfies `OpOk`, except that
    a bound assignment may do anything — cross the other bound, raise — if the *next* operation
    assigns the same bound a legal value that does not cross the other bound (judged in the state
    before both; neither changes the other bound). -/
def AllOkC (env : Env) : St → List Op → Prop
  | _, [] => True
  | s, [op] => StepOk env s op
  | s, op :: op' :: ops =>
    (StepOk env s op ∧ AllOkC env (apply env s op).1 (op' :: ops)) ∨
    (sameBound op op' = true ∧ OpOk s op' ∧ AllOkC env (apply env (apply env s op).1 op').1 ops)

def AllOkC.dec (env : Env) : (s : St) → (ops : List Op) → Decidable (AllOkC env s ops)
  | _, [] => isTrue True.intro
  | s, [op] => inferInstanceAs (Decidable (StepOk env s op))
  | s, op :: op' :: ops =>
    have := AllOkC.dec env (apply env s op).1 (op' :: ops)
    have := AllOkC.dec env (apply env (apply env s op).1 op').1 ops
    inferInstanceAs (Decidable ((StepOk env s op ∧ AllOkC env (apply env s op).1 (op' :: ops)) ∨
      (sameBound op op' = true ∧ OpOk s op' ∧ AllOkC env (apply env (apply env s op).1 op').1 ops)))
instance (env : Env) (s : St) (ops : List Op) : Decidable (AllOkC env s ops) := AllOkC.dec env s ops

/-- Hypothesis on `other = this.copy()` (observation formerly listed as D09f): the copy gets the class-default
    piece size bounds, so the copied piece length must lie within them; and — for the invariant
    `Inv`, whose stamp clause ties hashes to the object's own content path — the source carries
    no hashes (a copy of a hashed torrent is a *detached* object: hashes without a content path,
    like a torrent read from a file; it is judged by `C09_copy_carries` and the discard theorems). -/
def CopyOk (s : St) : Prop :=
  s.pieces = none ∧ (match s.pl with | none => True | some pl => defaultMin ≤ pl ∧ pl ≤ defaultMax)
instance (s : St) : Decidable (CopyOk s) := by unfold CopyOk; split <;> infer_instance

def OpOk2 (env : Env) (w : St2) : Op2 → Prop
  | .on false op => StepOk env w.a op
  | .on true op => StepOk env w.b op
  | .copy false => CopyOk w.a
  | .copy true => CopyOk w.b
instance (env : Env) (w : St2) (op : Op2) : Decidable (OpOk2 env w op) := by
  unfold OpOk2; split <;> infer_instance

def AllOk2 (env : Env) : St2 → List Op2 → Prop
  | _, [] => True
  | w, op :: ops => OpOk2 env w op ∧ AllOk2 env (apply2 env w op).1 ops

def AllOk2.dec (env : Env) : (w : St2) → (ops : List Op2) → Decidable (AllOk2 env w ops)
  | _, [] => isTrue True.intro
  | w, op :: ops =>
    have := AllOk2.dec env (apply2 env w op).1 ops
    inferInstanceAs (Decidable (OpOk2 env w op ∧ AllOk2 env (apply2 env w op).1 ops))
instance (env : Env) (w : St2) (ops : List Op2) : Decidable (AllOk2 env w ops) := AllOk2.dec env w ops

end Torf.Attrs
