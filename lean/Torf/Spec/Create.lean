/-
  Torf.Spec.Create — what C15 demands, as an executable definition.

  The created torrent is a function of the tree (name, relative paths, sizes) and the settings
  (patterns) only: no working directory, no spelling, no listing order, no file system outside
  the tree occurs in `Spec.created`.

    keep f  ⇔  f is not hidden below the top level  ∧  f is not empty
               ∧ ¬ (f matches an exclude pattern ∧ f matches no include pattern)
  where patterns are matched against `name/rel/path` — globs on the case-folded path and
  case-folded pattern, regular expressions on the path as it is.  The kept files are stored in
  the order of their component lists (pathlib's order).

  `hypB` is the decidable hypothesis under which the model is proved to meet this specification.
  Since /repo 42ec9ba and 1742c6d every conjunct is plain well-formedness of the pair
  (environment, tree): the tree has real names, the spelled path leads to something called like the
  tree, what the walk listed exists, the walk listed the tree.  The conjuncts that excluded recorded
  defects are gone: `probeOK` (D15a, d89a92e), the spelling restriction of `spellOK` (D15b, D15d:
  `..`, `sub/..`, `../..`) and `prefixOK` (D15c: all files in one subdirectory).
-/
import Torf.Model.Create
namespace Torf.Create.Spec
open Torf.Paths Torf.Create

/-- the path string patterns are documented to see: torrent name, then the relative path -/
def patPath (name : String) (f : FileEnt) : String := joinSlash (name :: f.rel)

def excluded (o : Oracles) (st : Settings) (p : String) : Bool :=
  st.exRegexs.any (fun r => o.rex r p) || st.exGlobs.any (fun g => o.glob (o.cf p) (o.cf g))

def included (o : Oracles) (st : Settings) (p : String) : Bool :=
  st.inRegexs.any (fun r => o.rex r p) || st.inGlobs.any (fun g => o.glob (o.cf p) (o.cf g))

def keep (o : Oracles) (st : Settings) (name : String) (f : FileEnt) : Bool :=
  !isHidden f.rel && f.size != 0 &&
    !(excluded o st (patPath name f) && !included o st (patPath name f))

def kept (o : Oracles) (st : Settings) (t : Tree) : List FileEnt :=
  sortBy (fun a b => decide (a.rel ≤ b.rel)) (t.files.filter (keep o st t.name))

def created (o : Oracles) (st : Settings) (t : Tree) : Created :=
  let k := kept o st t
  if k.isEmpty then .empty
  else if k.length == 1 && k.head?.map (·.rel) == some [] then
    .single t.name ((k.head?.map (·.size)).getD 0)        -- the tree is one file
  else .multi t.name (k.map fun f => (f.rel, f.size))

/-! ### the hypothesis of the refinement theorem (all conjuncts are `Bool`) -/

/-- well-formed tree: a real name, real component names, distinct paths, and a tree that is a
    single file (relative path `[]`) has nothing else -/
def cleanTree (t : Tree) : Bool :=
  isClean t.name && t.files.all (fun f => f.rel.all isClean) &&
    decide ((t.files.map (·.rel)).Nodup) &&
    (!t.files.any (·.rel.isEmpty) || t.files.length == 1)

/-- a tree that is a single file is addressed by a spelling whose last component is a name:
    no file system resolves a path *through* a file (`f.bin/x/..` → `ENOTDIR`), but on
    component lists such a spelling would "lead" to the file -/
def fileSpellOK (env : Env) (t : Tree) : Bool :=
  !t.files.any (·.rel.isEmpty) || isClean (name (pathlibNorm env.spelling).comps)

/-- the spelled path, made absolute the way `_set_files` does, ends in the tree's name -/
def nameOK (env : Env) (t : Tree) : Bool :=
  (abspath env.cwd (pathlibNorm env.spelling)).getLast? == some t.name

/-- the listed paths exist: `_set_files` asks `os.path.exists(f)` for the path `list_files` has
    just produced by walking the spelled directory (`spelling/rel`, resolved by the OS against the
    cwd if the spelling is relative).  True by construction on a file system that does not change
    between the walk and the test, wherever the cwd is and however the path is spelled
    (`C15_listedExist_of_addresses`). -/
def listedExist (env : Env) (t : Tree) : Bool :=
  t.files.all fun f => env.pathExists (listedPath (pathlibNorm env.spelling) f)

def hypB (env : Env) (t : Tree) : Bool :=
  cleanTree t && fileSpellOK env t && nameOK env t && listedExist env t &&
    env.order.isPerm t.files

end Torf.Create.Spec
