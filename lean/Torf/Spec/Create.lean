/-
  Torf.Spec.Create — what C15 demands, as an executable definition.

  The created torrent is a function of the tree (name, relative paths, sizes) and the settings
  (patterns) only: no working directory, no spelling, no listing order, no file system outside
  the tree occurs in `Spec.created`.

    keep f  ⇔  f is not hidden below the top level  ∧  f is not empty
               ∧ ¬ (f matches an exclude pattern ∧ f matches no include pattern)
  where patterns are matched against `name/rel/path` — globs on the case-folded path and
  case-folded pattern, regular expressions on the path as it is.  The kept files are stored in
  the order of their component lists (pathlib's order).

  `hypB` is the decidable hypothesis under which the model is proved to meet this specification;
  each conjunct that is not plain well-formedness excludes one recorded defect class
  (D15b/D15d `spellOK`/`nameOK`, D15c `prefixOK`).  The former conjunct `probeOK` (D15a: the cwd
  had to be the tree's parent directory, or the tree had to have no empty file and no same-named
  empty file below the cwd) is gone since /repo d89a92e; `listedExist` — what `os.walk` listed
  exists for `os.path.exists` — is consistency of the file system, not a restriction on the
  cwd, the spelling or the tree.
-/
import Torf.Model.Create
namespace Torf.Create.Spec
open Torf.Paths Torf.Create

/-- the path string patterns are documented to see: torrent name, then the relative path -/
def patPath (name : String) (f : FileEnt) : String := joinSlash (name :: f.rel)

def excluded (o : Oracles) (st : Settings) (p : String) : Bool :=
  st.exRegexs.any (fun r => o.rex r p) || st.exGlobs.any (fun g => o.glob (o.cf p) (o.cf g))

def included (o : Oracles) (st : Settings) (p : String) : Bool :=
  st.inRegexs.any (fun r => o.rex r p) || st.inGlobs.any (fun g => o.glob (o.cf p) (o.cf g))

def keep (o : Oracles) (st : Settings) (name : String) (f : FileEnt) : Bool :=
  !isHidden f.rel && f.size != 0 &&
    !(excluded o st (patPath name f) && !included o st (patPath name f))

def kept (o : Oracles) (st : Settings) (t : Tree) : List FileEnt :=
  sortBy (fun a b => decide (a.rel ≤ b.rel)) (t.files.filter (keep o st t.name))

def created (o : Oracles) (st : Settings) (t : Tree) : Created :=
  let k := kept o st t
  if k.isEmpty then .empty
  else if k.length == 1 && k.head?.map (·.rel) == some [] then
    .single t.name ((k.head?.map (·.size)).getD 0)        -- the tree is one file
  else .multi t.name (k.map fun f => (f.rel, f.size))

/-! ### the hypothesis of the refinement theorem (all conjuncts are `Bool`) -/

/-- well-formed tree: a real name, real component names, distinct paths, and a tree that is a
    single file (relative path `[]`) has nothing else -/
def cleanTree (t : Tree) : Bool :=
  isClean t.name && t.files.all (fun f => f.rel.all isClean) &&
    decide ((t.files.map (·.rel)).Nodup) &&
    (!t.files.any (·.rel.isEmpty) || t.files.length == 1)

/-- spellings covered: absolute ones, `.` (in any of its pathlib-equal forms `./`, `.//.` …) and
    relative ones whose `normpath` still ends in a real name (`T`, `./T`, `T/`, `../P/T`,
    `x/../T`, `T/sub/..`).  Not covered: relative spellings that `normpath` to `..`, `../..`, …
    (D15b, D15d) or to `.` without being `.` (`sub/..`, D15d).  For a tree that is a single
    file the last spelled component is that file's name (`file/..` does not exist). -/
def spellOK (env : Env) (t : Tree) : Bool :=
  let B := pathlibNorm env.spelling
  (B.abs || B.comps.isEmpty ||
     ((normpath false B.comps).getLast?.any fun c => c != "..")) &&
  (!t.files.any (·.rel.isEmpty) || isClean (name B.comps))

/-- the spelled path, made absolute the way `_set_files` does, ends in the tree's name -/
def nameOK (env : Env) (t : Tree) : Bool :=
  (abspath env.cwd (pathlibNorm env.spelling)).getLast? == some t.name

/-- the listed paths exist: `_set_files` asks `os.path.exists(f)` for the path `list_files` has
    just produced by walking the spelled directory (`spelling/rel`, resolved by the OS against the
    cwd if the spelling is relative).  True by construction on a file system that does not change
    between the walk and the test, wherever the cwd is and however the path is spelled
    (`C15_listedExist_of_addresses`). -/
def listedExist (env : Env) (t : Tree) : Bool :=
  t.files.all fun f => env.pathExists (listedPath (pathlibNorm env.spelling) f)

def noPatterns (st : Settings) : Bool :=
  st.exGlobs.isEmpty && st.exRegexs.isEmpty && st.inGlobs.isEmpty && st.inRegexs.isEmpty

/-- the files `filter_files` is handed since d89a92e: the non-empty ones -/
def nonEmpty (t : Tree) : List FileEnt := t.files.filter fun f => f.size != 0

/-- `filter_files` takes `commonpath` of the files it is handed — the *non-empty* listed files —
    for the torrent's directory; that is right when two of them differ in their first component
    (or the tree is a single file).  If they all share a first component (D15c) the patterns see
    a distorted path and the hidden test starts below the shared directories — harmless only
    without patterns and when some non-empty file is not hidden. -/
def prefixOKOn (st : Settings) (ne : List FileEnt) : Bool :=
  ne.isEmpty ||
  ne.any (fun f => ne.any fun g => f.rel.head? != g.rel.head?) ||
  ne.any (·.rel.isEmpty) ||
  (noPatterns st && ne.any fun f => !isHidden f.rel)

def prefixOK (st : Settings) (t : Tree) : Bool := prefixOKOn st (nonEmpty t)

def hypB (st : Settings) (env : Env) (t : Tree) : Bool :=
  cleanTree t && spellOK env t && nameOK env t && listedExist env t && prefixOK st t &&
    env.order.isPerm t.files

end Torf.Create.Spec
