/-
  Helper lemmas for C10 (part 3): the loop invariant of `iter_pieces` on a damaged disk and the
  step for a good file.
-/
import Torf.Lemmas.MissingGeom
namespace Torf.Missing
open Torf

/-- the bad files among the first `m` files, in file order -/
def badUpTo (sizes : List Nat) (disk : List (Option (List α))) (m : Nat) : List (Nat × ErrKind) :=
  (List.range m).filterMap fun k => (fileError sizes disk k).map fun e => (k, e)

theorem badUpTo_length (sizes : List Nat) (disk : List (Option (List α))) :
    badUpTo sizes disk sizes.length = badFiles sizes disk := rfl

theorem badUpTo_succ (sizes : List Nat) (disk : List (Option (List α))) (m : Nat) :
    badUpTo sizes disk (m + 1) =
      badUpTo sizes disk m ++ ((fileError sizes disk m).map fun e => (m, e)).toList := by
  unfold badUpTo
  rw [List.range_succ, List.filterMap_append]
  congr 1

/-- Invariant of the main loop, stated for the next file `m` that is processed by the loop
    (= not a by-catch file); `m = sizes.length` once no such file is left. -/
structure Core (L : Nat) (sizes : List Nat) (disk : List (Option (List α))) (m : Nat)
    (st : St α) : Prop where
  nofail : st.failed = false
  data : st.out.map (·.data) = (specData L sizes disk).take st.out.length
  clean : ∀ it ∈ st.out, it.data.isSome → it.excs = [] ∧ it.file = 0
  rep : reported st.out = badUpTo sizes disk m
  front : st.trailing.map some =
    ((expStream sizes disk).take (pos sizes m + st.skip)).drop (st.out.length * L)
  short : st.trailing.length < L
  le : st.out.length * L ≤ pos sizes m + st.skip ∨ m = sizes.length
  lt : pos sizes m + st.skip < st.out.length * L + L
  skiplt : st.skip < L
  skipc : 0 < st.skip → st.trailing = [] ∧ m < sizes.length ∧ st.skip < sizeOf sizes m ∧
    st.out.length * L = pos sizes m + st.skip ∧ (st.out.length - 1) ∈ st.seen ∧ 0 < st.out.length
  badpast : ∀ k, k < m → fileError sizes disk k ≠ none → pos sizes (k + 1) ≤ st.out.length * L
  seenlt : ∀ x ∈ st.seen, x < st.out.length

theorem core_init (L : Nat) (hL : 0 < L) (sizes : List Nat) (disk : List (Option (List α))) :
    Core L sizes disk 0 ({} : St α) where
  nofail := rfl
  data := by simp
  clean := by intro it h; cases h
  rep := by simp [reported, badUpTo]
  front := by simp [pos_zero]
  short := by simpa using hL
  le := by left; simp
  lt := by simp [pos_zero]; exact hL
  skiplt := hL
  skipc := by intro h; exact absurd h (Nat.lt_irrefl 0)
  badpast := by intro k hk; omega
  seenlt := by intro x hx; cases hx

theorem reported_append (a b : List (Item α)) : reported (a ++ b) = reported a ++ reported b := by
  simp [reported]

/-- explicit form of the step for a good file -/
theorem step_good_eq (L : Nat) (hL : 0 < L) (sizes : List Nat) (disk : List (Option (List α)))
    (st : St α) (m : Nat) (hf : st.failed = false) (hnb : st.bycatch.contains m = false)
    (hgood : fileError sizes disk m = none) :
    step L sizes disk st m =
      let X := st.trailing ++ ((disk.getD m none).getD []).drop st.skip
      { st with trailing := X.drop (X.length / L * L), skip := 0,
                out := st.out ++ (chunks L (X.take (X.length / L * L))).map dataItem } := by
  unfold step
  simp only [hf, hnb, hgood, Bool.false_eq_true, if_false]
  rw [Stream.iterFromHandle_eq_chunks L hL, Stream.consume_chunks L hL]
  simp

theorem step_good (L : Nat) (hL : 0 < L) (sizes : List Nat) (disk : List (Option (List α)))
    (st : St α) (m : Nat) (hm : m < sizes.length) (hnb : st.bycatch.contains m = false)
    (hgood : fileError sizes disk m = none) (hc : Core L sizes disk m st) :
    Core L sizes disk (m + 1) (step L sizes disk st m) ∧
      (step L sizes disk st m).bycatch = st.bycatch := by
  rw [step_good_eq L hL sizes disk st m hc.nofail hnb hgood]
  dsimp only
  obtain ⟨hexp, hclen⟩ := expFile_good sizes disk m hgood
  generalize hC : (disk.getD m none).getD [] = C at hexp hclen
  have hE := length_expStream sizes disk
  generalize hEdef : expStream sizes disk = E at hE
  have hq : st.out.length * L ≤ pos sizes m + st.skip := by
    rcases hc.le with h | h
    · exact h
    · omega
  have hskip : st.skip ≤ sizeOf sizes m := by
    by_cases h0 : 0 < st.skip
    · have := (hc.skipc h0).2.2.1; omega
    · omega
  have hps := pos_succ sizes m
  have hpT := pos_le_sum sizes (m + 1)
  -- the bytes now available
  have hX : (st.trailing ++ C.drop st.skip).map some =
      (E.take (pos sizes (m + 1))).drop (st.out.length * L) := by
    rw [slice_add E _ (pos sizes m + st.skip) _ hq (by omega) (by omega)]
    rw [List.map_append, hc.front, hEdef]
    congr 1
    have ht := take_pos_succ_expStream sizes disk m hm
    rw [hEdef] at ht
    rw [ht, List.drop_append]
    have hl : (E.take (pos sizes m)).length = pos sizes m := by
      rw [List.length_take]; omega
    rw [hl, List.drop_eq_nil_of_le (as := E.take (pos sizes m)) (by omega), List.nil_append, hexp,
      List.map_drop]
    congr 1; omega
  generalize hXdef : st.trailing ++ C.drop st.skip = X at hX
  have hXlen : X.length = pos sizes (m + 1) - st.out.length * L := by
    have := congrArg List.length hX
    simpa [List.length_take, Nat.min_eq_left (show pos sizes (m + 1) ≤ E.length by omega)]
      using this
  have hdm := Nat.div_add_mod X.length L
  have hml := Nat.mod_lt X.length hL
  rw [Nat.mul_comm] at hdm
  generalize hcdef : X.length / L = c at hdm
  have hnew : (chunks L (X.take (c * L))).length = c := by
    rw [length_chunks L hL, List.length_take, Nat.min_eq_left (by omega), nPieces_mul L hL]
  have hlen' : (st.out ++ (chunks L (X.take (c * L))).map dataItem).length
      = st.out.length + c := by
    rw [List.length_append, List.length_map, hnew]
  have hmul : (st.out.length + c) * L = st.out.length * L + c * L := Nat.add_mul _ _ _
  refine ⟨?_, rfl⟩
  constructor
  · exact hc.nofail
  · -- data
    show (st.out ++ (chunks L (X.take (c * L))).map dataItem).map (·.data) = _
    rw [hlen', List.map_append, hc.data, specData_take L hL, specData_take L hL, hEdef, hmul,
      List.take_add]
    rw [chunks_append_of_dvd L hL _ _ st.out.length
      (by rw [List.length_take]; omega), List.map_append]
    congr 1
    have e : (E.drop (st.out.length * L)).take (c * L) = (X.take (c * L)).map some := by
      rw [List.map_take, hX, List.drop_take, List.take_take]
      congr 1; omega
    rw [e, chunks_map L hL, List.map_map, List.map_map]
    apply List.map_congr_left
    intro p _
    simp [dataItem, chunkData_map_some]
  · -- clean
    intro it hit
    rcases List.mem_append.mp hit with h | h
    · exact hc.clean it h
    · obtain ⟨p, _, rfl⟩ := List.mem_map.mp h
      intro _; exact ⟨rfl, rfl⟩
  · -- rep
    show reported (st.out ++ _) = _
    rw [reported_append, hc.rep, badUpTo_succ, hgood]
    simp [reported, dataItem]
  · -- front
    show (X.drop (c * L)).map some = ((expStream sizes disk).take (pos sizes (m + 1))).drop _
    rw [hEdef, hlen', List.map_drop, hX, List.drop_drop, hmul]
  · show (X.drop (c * L)).length < L
    rw [List.length_drop]; omega
  · left
    show _ ≤ pos sizes (m + 1) + 0
    rw [hlen', hmul]; omega
  · show pos sizes (m + 1) + 0 < _
    rw [hlen', hmul]; omega
  · exact hL
  · intro h; exact absurd h (Nat.lt_irrefl 0)
  · intro k hk hbad
    rw [hlen', hmul]
    by_cases hkm : k = m
    · subst hkm; exact absurd hgood hbad
    · have := hc.badpast k (by omega) hbad
      omega
  · intro x hx
    rw [hlen']
    have := hc.seenlt x hx
    omega

end Torf.Missing
