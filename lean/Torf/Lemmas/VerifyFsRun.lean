/-
  Helper lemmas for C02 over the full alphabet of path states (part 2): when the extended loop is
  the classic one (no unreadable byte, no path of the recorded size that cannot be opened; or all
  files good), and what the first damaged file does to the run.
-/
import Torf.Lemmas.VerifyFs
namespace Torf.VerifyFs
open Torf Torf.Missing Torf.Verify

variable {α δ : Type} [Inhabited α] [DecidableEq δ]

/-! ### `step2` is `step` on a good file, or when the two disks agree -/

omit [Inhabited α] in
theorem step2_good_eq (L : Nat) (sizes : List Nat) (dM dB : List (Option (List α))) (st : St α)
    (j : Nat) (h : fileError sizes dM j = none) :
    step2 L sizes dM dB st j = step L sizes dM st j := by
  unfold step2 step; simp only [h]

omit [Inhabited α] in
theorem missingCall_congr (L : Nat) (sizes : List Nat) (d1 d2 : List (Option (List α)))
    (h : ∀ k, fileError sizes d1 k = fileError sizes d2 k) (seen by_ : List Nat) (j : Nat)
    (reason : ErrKind) :
    missingCall L sizes d1 seen by_ j reason = missingCall L sizes d2 seen by_ j reason := by
  have hb : ∀ l, bycatchExcs sizes d1 l = bycatchExcs sizes d2 l := by
    intro l; unfold bycatchExcs; congr 1; funext k; rw [h k]
  unfold missingCall; simp only [hb]

omit [Inhabited α] in
theorem step2_congr (L : Nat) (sizes : List Nat) (dM dB : List (Option (List α)))
    (h : ∀ k, fileError sizes dB k = fileError sizes dM k) (st : St α) (j : Nat) :
    step2 L sizes dM dB st j = step L sizes dM st j := by
  unfold step2 step
  simp only [missingCall_congr L sizes dB dM h]
  rfl

/-- the extended loop is the classic loop on `mainDisk` as long as no `read` fails and the
    by-catch probe is never misled -/
theorem fold_fs_step (L : Nat) (sizes : List Nat) (fd : List (FState α)) (js : List Nat)
    (s : StFs α) (hf : s.fault = none)
    (hfire : ∀ j ∈ js, ∀ st, fires sizes fd st j = none)
    (hstep : ∀ j ∈ js, ∀ st, step2 L sizes (mainDisk sizes fd) (statDisk fd) st j =
      step L sizes (mainDisk sizes fd) st j) :
    js.foldl (stepFs L sizes fd) s =
      { st := js.foldl (step L sizes (mainDisk sizes fd)) s.st, fault := none } := by
  induction js generalizing s with
  | nil => cases s; simp only at hf; subst hf; rfl
  | cons j js ih =>
    rw [List.foldl_cons, List.foldl_cons,
      stepFs_nofire L sizes fd s j hf (hfire j List.mem_cons_self s.st),
      hstep j List.mem_cons_self s.st]
    exact ih _ rfl (fun k hk => hfire k (List.mem_cons_of_mem _ hk))
      (fun k hk => hstep k (List.mem_cons_of_mem _ hk))

theorem iterItemsFs_of_fold (L : Nat) (sizes : List Nat) (fd : List (FState α))
    (h : (List.range sizes.length).foldl (stepFs L sizes fd) {} =
      { st := (List.range sizes.length).foldl (step L sizes (mainDisk sizes fd)) {},
        fault := none }) :
    iterItemsFs L sizes fd =
      (iterItems L sizes (mainDisk sizes fd)).map fun items => ⟨items, none⟩ := by
  unfold iterItemsFs iterItems
  simp only [h]
  split
  · rfl
  · simp only [Option.isSome_none, Bool.false_eq_true, if_false]
    split <;> rfl

theorem verifyFs_of_iter (H : List α → δ) (L : Nat) (sizes : List Nat) (fd : List (FState α))
    (stored : List δ) (hasCb single pathIsDir : Bool)
    (h : iterItemsFs L sizes fd =
      (iterItems L sizes (mainDisk sizes fd)).map fun items => ⟨items, none⟩) :
    verifyFs H L sizes fd stored hasCb single pathIsDir =
      verifySeq H L sizes (mainDisk sizes fd) stored hasCb single pathIsDir := by
  unfold verifyFs verifySeq
  rw [h]
  cases iterItems L sizes (mainDisk sizes fd) with
  | none => rfl
  | some items =>
    simp only [Option.map_some]
    split
    · rfl
    · split
      · rfl
      · generalize items.zipIdx.foldl (collectItem H L sizes stored hasCb) {} = acc
        obtain ⟨c, cl, r⟩ := acc
        cases r <;> rfl

/-! ### conservativity -/

omit [Inhabited α] in
theorem stateAt_mem (fd : List (FState α)) (k : Nat) :
    stateAt fd k = .gone ENOENT ∨ (stateAt fd k, k) ∈ fd.zipIdx := by
  unfold stateAt
  by_cases hk : k < fd.length
  · right
    rw [List.mem_zipIdx_iff_getElem?]
    simp [List.getD_eq_getElem?_getD, hk]
  · left
    simp [List.getD_eq_getElem?_getD, List.getElem?_eq_none (by omega : fd.length ≤ k)]

omit [Inhabited α] in
theorem fires_none_of_noReadErr (sizes : List Nat) (fd : List (FState α))
    (h : NoReadErr fd = true) (st : St α) (j : Nat) : fires sizes fd st j = none := by
  unfold fires
  split
  · rfl
  · split
    · unfold faultAt
      split
      · rename_i c off e hs
        rcases stateAt_mem fd j with hg | hm
        · rw [hg] at hs; cases hs
        · have hmem : stateAt fd j ∈ fd := by
            have := List.mem_zipIdx hm
            simpa using (List.mem_iff_getElem?.mpr ⟨j, by
              rw [List.mem_zipIdx_iff_getElem?] at hm; simpa using hm⟩)
          unfold NoReadErr at h
          have := List.all_eq_true.mp h _ hmem
          rw [hs] at this
          cases this
      · rfl
    · rfl

theorem fileError_eq_of_noSilent (sizes : List Nat) (fd : List (FState α))
    (h : NoSilent sizes fd = true) (k : Nat) :
    fileError sizes (statDisk fd) k = fileError sizes (mainDisk sizes fd) k := by
  unfold fileError
  rw [getD_statDisk, getD_mainDisk]
  cases hs : stateAt fd k with
  | file c => rfl
  | gone e => rfl
  | readErr c off e => rfl
  | noOpen n e =>
    rcases stateAt_mem fd k with hg | hm
    · rw [hg] at hs; cases hs
    · unfold NoSilent at h
      have := List.all_eq_true.mp h _ hm
      rw [hs] at this
      have hn : n ≠ sizeOf sizes k := by simpa using this
      simp [statView, mainView, hn]

/-- Without unreadable bytes and without unopenable paths of the recorded size, `verify` over the
    full alphabet is the classic model on the projected disk. -/
theorem verifyFs_eq_verifySeq (H : List α → δ) (L : Nat) (sizes : List Nat)
    (fd : List (FState α)) (stored : List δ) (hasCb single pathIsDir : Bool)
    (hr : NoReadErr fd = true) (hs : NoSilent sizes fd = true) :
    verifyFs H L sizes fd stored hasCb single pathIsDir =
      verifySeq H L sizes (mainDisk sizes fd) stored hasCb single pathIsDir := by
  apply verifyFs_of_iter
  apply iterItemsFs_of_fold
  exact fold_fs_step L sizes fd _ {} rfl
    (fun j _ st => fires_none_of_noReadErr sizes fd hr st j)
    (fun j _ st => step2_congr L sizes _ _ (fileError_eq_of_noSilent sizes fd hs) st j)

/-- the classic two-state disk as a description over the full alphabet -/
def ofClassic (disk : List (Option (List α))) : List (FState α) :=
  disk.map fun d => match d with
    | none => .gone ENOENT
    | some c => .file c

theorem mainDisk_ofClassic (sizes : List Nat) (disk : List (Option (List α))) :
    mainDisk sizes (ofClassic disk) = disk := by
  apply List.ext_getElem?
  intro k
  unfold mainDisk ofClassic
  simp only [List.getElem?_map, List.getElem?_zipIdx]
  cases disk[k]? with
  | none => rfl
  | some d => cases d <;> rfl

omit [Inhabited α] in
theorem noReadErr_ofClassic (disk : List (Option (List α))) : NoReadErr (ofClassic disk) = true := by
  unfold NoReadErr ofClassic
  rw [List.all_eq_true]
  intro s hs
  obtain ⟨d, _, rfl⟩ := List.mem_map.mp hs
  cases d <;> rfl

omit [Inhabited α] in
theorem noSilent_ofClassic (sizes : List Nat) (disk : List (Option (List α))) :
    NoSilent sizes (ofClassic disk) = true := by
  unfold NoSilent
  rw [List.all_eq_true]
  intro sk hsk
  obtain ⟨s, k⟩ := sk
  have hs : s ∈ ofClassic disk := by
    have := List.mem_zipIdx hsk
    exact List.mem_of_getElem? (by simpa using (List.mem_zipIdx_iff_getElem?.mp hsk))
  unfold ofClassic at hs
  obtain ⟨d, _, rfl⟩ := List.mem_map.mp hs
  cases d <;> rfl

/-! ### all files good -/

omit [Inhabited α] in
/-- nothing is owed for file `k`: it is a regular file of the recorded size, and reading it
    never fails -/
theorem good_of_owed_none (sizes : List Nat) (fd : List (FState α)) (k : Nat)
    (h : owedAt sizes fd k = none) :
    (∃ c, (stateAt fd k = .file c ∨ ∃ off e, stateAt fd k = .readErr c off e ∧ ¬ off ≤ c.length) ∧
      c.length = sizeOf sizes k) := by
  unfold owedAt owed at h
  split at h
  · rename_i c hs
    split at h
    · rename_i hc; exact ⟨c, Or.inl hs, hc⟩
    · cases h
  · cases h
  · split at h <;> cases h
  · rename_i c off e hs
    split at h
    · rename_i hc
      split at h
      · cases h
      · rename_i hoff; exact ⟨c, Or.inr ⟨off, e, hs, hoff⟩, hc⟩
    · cases h

theorem fileError_none_of_owed_none (sizes : List Nat) (fd : List (FState α)) (k : Nat)
    (h : owedAt sizes fd k = none) : fileError sizes (mainDisk sizes fd) k = none := by
  obtain ⟨c, hs, hc⟩ := good_of_owed_none sizes fd k h
  unfold fileError
  rw [getD_mainDisk]
  rcases hs with hs | ⟨off, e, hs, _⟩ <;> simp [hs, mainView, statView, hc]

omit [Inhabited α] in
theorem fires_none_of_owed_none (sizes : List Nat) (fd : List (FState α)) (k : Nat)
    (h : owedAt sizes fd k = none) (st : St α) : fires sizes fd st k = none := by
  obtain ⟨c, hs, hc⟩ := good_of_owed_none sizes fd k h
  unfold fires
  split
  · rfl
  · split
    · rcases hs with hs | ⟨off, e, hs, hoff⟩
      · rw [hs]; rfl
      · rw [hs]; unfold faultAt; simp only; split
        · rename_i hh; exact absurd hh.2 hoff
        · rfl
    · rfl

theorem allGood_of_allGoodFs (sizes : List Nat) (fd : List (FState α))
    (h : AllGoodFs sizes fd = true) : AllGood sizes (mainDisk sizes fd) = true := by
  unfold AllGoodFs at h
  unfold AllGood
  rw [List.all_eq_true] at h ⊢
  intro k hk
  have := h k hk
  rw [fileError_none_of_owed_none sizes fd k (by simpa using this)]
  rfl

theorem diskStream_of_allGoodFs (sizes : List Nat) (fd : List (FState α))
    (h : AllGoodFs sizes fd = true) : diskStream sizes (mainDisk sizes fd) = fsStream sizes fd := by
  unfold AllGoodFs at h
  rw [List.all_eq_true] at h
  unfold diskStream fsStream
  congr 1
  apply List.map_congr_left
  intro k hk
  exact contentOf_of_handle sizes fd k
    (fileError_none_of_owed_none sizes fd k (by simpa using h k hk))

theorem specOk_of_allGoodFs (H : List α → δ) (L : Nat) (sizes : List Nat) (fd : List (FState α))
    (stored : List δ) (h : AllGoodFs sizes fd = true) :
    SpecOk H L sizes (mainDisk sizes fd) stored = SpecOkFs H L sizes fd stored := by
  unfold SpecOk SpecOkFs
  rw [allGood_of_allGoodFs sizes fd h, diskStream_of_allGoodFs sizes fd h, h]

/-- all files good: `verify` over the full alphabet is the classic model -/
theorem verifyFs_of_allGoodFs (H : List α → δ) (L : Nat) (sizes : List Nat)
    (fd : List (FState α)) (stored : List δ) (hasCb single pathIsDir : Bool)
    (h : AllGoodFs sizes fd = true) :
    verifyFs H L sizes fd stored hasCb single pathIsDir =
      verifySeq H L sizes (mainDisk sizes fd) stored hasCb single pathIsDir := by
  have hall : ∀ j ∈ List.range sizes.length, owedAt sizes fd j = none := by
    unfold AllGoodFs at h
    rw [List.all_eq_true] at h
    intro j hj
    simpa using h j hj
  apply verifyFs_of_iter
  apply iterItemsFs_of_fold
  exact fold_fs_step L sizes fd _ {} rfl
    (fun j hj st => fires_none_of_owed_none sizes fd j (hall j hj) st)
    (fun j hj st => step2_good_eq L sizes _ _ st j
      (fileError_none_of_owed_none sizes fd j (hall j hj)))

end Torf.VerifyFs
