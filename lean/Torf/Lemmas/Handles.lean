/-
  Helper lemmas for the handle-table model (C19).
-/
import Torf.Model.Handles
import Torf.Lemmas.Stream
namespace Torf.Handles
open Torf

/-! ### the table primitives -/

theorem length_evict_le (cap : Nat) (t : Table) : (evict cap t).length ≤ cap := by
  induction t with
  | nil => simp [evict]
  | cons e t ih =>
    unfold evict
    by_cases h : cap < (e :: t).length
    · simp only [h, if_true]; exact ih
    · simp only [h, if_false]; omega

theorem length_getOpenFile_le (cap : Nat) (t : Table) (j : Nat) (h : t.length ≤ cap + 1) :
    (getOpenFile cap t j).length ≤ cap + 1 := by
  unfold getOpenFile
  by_cases hk : hasKey t j
  · simp only [hk, if_true]; exact h
  · simp only [hk]
    have := length_evict_le cap t
    simp only [Bool.false_eq_true, if_false, List.length_append, List.length_cons, List.length_nil]
    omega

@[simp] theorem length_seek (t : Table) (j o : Nat) : (seek t j o).length = t.length := by
  simp [seek]

@[simp] theorem length_read (files : List (List α)) (t : Table) (j n : Nat) :
    (read files t j n).2.1.length = t.length := by
  unfold read
  cases offsetOf t j <;> simp

theorem offsetOf_seek_self (t : Table) (j o o' : Nat) (h : offsetOf t j = some o') :
    offsetOf (seek t j o) j = some o := by
  induction t with
  | nil => simp [offsetOf] at h
  | cons e t ih =>
    simp only [seek, List.map_cons, offsetOf] at h ih ⊢
    by_cases he : e.1 = j
    · simp [he]
    · simp only [beq_iff_eq, he, if_false] at h ⊢
      simpa using ih h

theorem offsetOf_of_hasKey (t : Table) (j : Nat) (h : hasKey t j = true) :
    ∃ o, offsetOf t j = some o := by
  induction t with
  | nil => simp [hasKey] at h
  | cons e t ih =>
    by_cases he : e.1 == j
    · exact ⟨e.2, by simp [offsetOf, he]⟩
    · have : hasKey t j = true := by
        simp only [hasKey, List.any_cons, he, Bool.false_or] at h
        exact h
      obtain ⟨o, ho⟩ := ih this
      exact ⟨o, by simp [offsetOf, he, ho]⟩

theorem offsetOf_append_self (a : Table) (j o : Nat) : ∃ o', offsetOf (a ++ [(j, o)]) j = some o' := by
  induction a with
  | nil => exact ⟨o, by simp [offsetOf]⟩
  | cons e a ih =>
    by_cases he : e.1 == j
    · exact ⟨e.2, by simp [offsetOf, he]⟩
    · obtain ⟨o', ho⟩ := ih
      exact ⟨o', by simp [offsetOf, he, ho]⟩

/-- after `fh = self._get_open_file(path)` the handle is in the table … -/
theorem offsetOf_getOpenFile (cap : Nat) (t : Table) (j : Nat) :
    ∃ o, offsetOf (getOpenFile cap t j) j = some o := by
  unfold getOpenFile
  by_cases hk : hasKey t j
  · simp only [hk, if_true]; exact offsetOf_of_hasKey t j hk
  · simp only [hk, Bool.false_eq_true, if_false]; exact offsetOf_append_self _ j 0

/-- … and after `fh.seek(o)` its offset is `o`, whatever the table was before -/
theorem offsetOf_open_seek (cap : Nat) (t : Table) (j o : Nat) :
    offsetOf (seek (getOpenFile cap t j) j o) j = some o := by
  obtain ⟨o', ho⟩ := offsetOf_getOpenFile cap t j
  exact offsetOf_seek_self _ j o o' ho

theorem read_of_offset (files : List (List α)) (t : Table) (j n o : Nat)
    (h : offsetOf t j = some o) :
    read files t j n =
      (((files.getD j []).drop o).take n,
        seek t j (o + (((files.getD j []).drop o).take n).length), true) := by
  simp only [read, h]

/-- the two tables hold a handle of file `j` at the same offset -/
def Agree (j : Nat) (t t' : Table) : Prop :=
  ∃ o, offsetOf t j = some o ∧ offsetOf t' j = some o

theorem agree_open_seek (cap : Nat) (t t' : Table) (j o : Nat) :
    Agree j (seek (getOpenFile cap t j) j o) (seek (getOpenFile cap t' j) j o) :=
  ⟨o, offsetOf_open_seek cap t j o, offsetOf_open_seek cap t' j o⟩

theorem read_agree (files : List (List α)) (t t' : Table) (j n : Nat) (h : Agree j t t') :
    (read files t j n).1 = (read files t' j n).1 ∧ (read files t j n).2.2 = true ∧
      (read files t' j n).2.2 = true ∧ Agree j (read files t j n).2.1 (read files t' j n).2.1 := by
  obtain ⟨o, h1, h2⟩ := h
  rw [read_of_offset files t j n o h1, read_of_offset files t' j n o h2]
  exact ⟨rfl, rfl, rfl, _, offsetOf_seek_self t j _ o h1, offsetOf_seek_self t' j _ o h2⟩

/-! ### `iter_pieces`: the generator's own state evolves independently of the table -/

@[simp] theorem bad_emit (x : List α) (p : IterP α) : (emit x p).bad = p.bad := rfl
@[simp] theorem bad_outerItem (L : Nat) (x : List α) (p : IterP α) : (outerItem L x p).bad = p.bad := by
  unfold outerItem; split <;> rfl

theorem bad_prependLoop (L fuel : Nat) (pre : List α) (p : IterP α) :
    (prependLoop L fuel pre p).1.bad = p.bad := by
  induction fuel generalizing pre p with
  | zero => simp [prependLoop]
  | succ fuel ih =>
    unfold prependLoop
    split
    · rfl
    · simp only
      split
      · rw [ih]; simp
      · rfl

theorem readLoop_agree (files : List (List α)) (L j fuel : Nat) (p : IterP α) (t t' : Table)
    (h : Agree j t t') :
    (readLoop files L j fuel p t).1 = (readLoop files L j fuel p t').1 ∧
      (readLoop files L j fuel p t).1.bad = p.bad := by
  induction fuel generalizing p t t' with
  | zero => simp [readLoop]
  | succ fuel ih =>
    unfold readLoop
    by_cases hl : p.live
    · obtain ⟨hd, hok, hok', hag⟩ := read_agree files t t' j L h
      simp only [hl, Bool.not_true, Bool.false_eq_true, if_false, hok, hok', Bool.or_false]
      rw [← hd]
      by_cases he : (read files t j L).1.isEmpty
      · simp only [he, if_true]; simp
      · simp only [he, Bool.false_eq_true, if_false]
        have := ih (outerItem L (read files t j L).1 { p with bad := p.bad }) _ _ hag
        refine ⟨this.1, ?_⟩
        rw [this.2]; simp
    · simp [hl]

theorem length_readLoop (files : List (List α)) (L j fuel : Nat) (p : IterP α) (t : Table) :
    (readLoop files L j fuel p t).2.length = t.length := by
  induction fuel generalizing p t with
  | zero => simp [readLoop]
  | succ fuel ih =>
    unfold readLoop
    split
    · rfl
    · simp only
      split
      · simp
      · rw [ih]; simp

theorem afterPrepend_agree (files : List (List α)) (L j : Nat) (r : IterP α × List α) (t t' : Table)
    (h : Agree j t t') :
    (afterPrepend files L j r t).1 = (afterPrepend files L j r t').1 ∧
      (afterPrepend files L j r t).1.bad = r.1.bad := by
  unfold afterPrepend
  simp only
  by_cases hl : r.1.live
  · simp only [hl, Bool.not_true, Bool.false_eq_true, if_false]
    by_cases he : r.2.isEmpty
    · simp only [he, if_true]
      exact readLoop_agree files L j ((files.getD j []).length + 1) r.1 t t' h
    · simp only [he, Bool.false_eq_true, if_false]
      obtain ⟨hd, hok, hok', hag⟩ := read_agree files t t' j (L - r.2.length) h
      simp only [hok, hok', Bool.not_true, Bool.or_false]
      rw [← hd]
      have := readLoop_agree files L j ((files.getD j []).length + 1)
        (outerItem L (r.2 ++ (read files t j (L - r.2.length)).1) { r.1 with bad := r.1.bad }) _ _ hag
      refine ⟨this.1, ?_⟩
      rw [this.2]; simp
  · simp [hl]

theorem fromHandle_agree (files : List (List α)) (L j : Nat) (p : IterP α) (t t' : Table)
    (h : Agree j t t') :
    (fromHandle files L j p t).1 = (fromHandle files L j p t').1 ∧
      (fromHandle files L j p t).1.bad = p.bad := by
  unfold fromHandle
  have := afterPrepend_agree files L j
    (prependLoop L (p.carry.length + 1) p.carry { p with carry := [] }) t t' h
  exact ⟨this.1, by rw [this.2, bad_prependLoop]⟩

theorem length_afterPrepend (files : List (List α)) (L j : Nat) (r : IterP α × List α) (t : Table) :
    (afterPrepend files L j r t).2.length = t.length := by
  unfold afterPrepend
  simp only
  split
  · rfl
  · split
    · rw [length_readLoop]
    · rw [length_readLoop, length_read]

theorem length_fromHandle (files : List (List α)) (L j : Nat) (p : IterP α) (t : Table) :
    (fromHandle files L j p t).2.length = t.length := by
  unfold fromHandle; exact length_afterPrepend _ _ _ _ _

theorem fileStep_indep (files : List (List α)) (cap L j : Nat) (p : IterP α) (t t' : Table) :
    (fileStep true files cap L (p, t) j).1 = (fileStep true files cap L (p, t') j).1 ∧
      (fileStep true files cap L (p, t) j).1.bad = p.bad := by
  unfold fileStep
  by_cases hl : p.live
  · simp only [hl, Bool.not_true, Bool.false_eq_true, if_false, if_true]
    exact fromHandle_agree files L j p _ _ (agree_open_seek cap t t' j 0)
  · simp [hl]

theorem length_fileStep (fix : Bool) (files : List (List α)) (cap L j : Nat) (pt : IterP α × Table)
    (h : pt.2.length ≤ cap + 1) : (fileStep fix files cap L pt j).2.length ≤ cap + 1 := by
  unfold fileStep
  split
  · exact h
  · simp only
    rw [length_fromHandle]
    have := length_getOpenFile_le cap pt.2 j h
    split
    · simpa using this
    · exact this

theorem foldl_fileStep_indep (files : List (List α)) (cap L : Nat) (js : List Nat) (p : IterP α)
    (t t' : Table) :
    (js.foldl (fileStep true files cap L) (p, t)).1 = (js.foldl (fileStep true files cap L) (p, t')).1 ∧
      (js.foldl (fileStep true files cap L) (p, t)).1.bad = p.bad := by
  induction js generalizing p t t' with
  | nil => simp
  | cons j js ih =>
    simp only [List.foldl_cons]
    obtain ⟨h1, h2⟩ := fileStep_indep files cap L j p t t'
    have e1 : fileStep true files cap L (p, t) j =
        ((fileStep true files cap L (p, t) j).1, (fileStep true files cap L (p, t) j).2) := rfl
    have e2 : fileStep true files cap L (p, t') j =
        ((fileStep true files cap L (p, t) j).1, (fileStep true files cap L (p, t') j).2) := by
      rw [h1]
    rw [e1, e2]
    have := ih (fileStep true files cap L (p, t) j).1 (fileStep true files cap L (p, t) j).2
      (fileStep true files cap L (p, t') j).2
    exact ⟨this.1, by rw [this.2, h2]⟩

theorem length_foldl_fileStep (fix : Bool) (files : List (List α)) (cap L : Nat) (js : List Nat)
    (pt : IterP α × Table) (h : pt.2.length ≤ cap + 1) :
    (js.foldl (fileStep fix files cap L) pt).2.length ≤ cap + 1 := by
  induction js generalizing pt with
  | nil => simpa using h
  | cons j js ih =>
    simp only [List.foldl_cons]
    exact ih _ (length_fileStep fix files cap L j pt h)

theorem iterRun_indep (files : List (List α)) (cap L : Nat) (k : Option Nat) (t t' : Table) :
    (iterRun true files cap L k t).1 = (iterRun true files cap L k t').1 ∧
      (iterRun true files cap L k t).1.bad = false := by
  unfold iterRun
  obtain ⟨h1, h2⟩ := foldl_fileStep_indep files cap L (List.range files.length) (iterInit k) t t'
  simp only
  rw [← h1]
  generalize (List.range files.length).foldl (fileStep true files cap L) (iterInit k, t) = r at h1 h2 ⊢
  generalize (List.range files.length).foldl (fileStep true files cap L) (iterInit k, t') = r' at h1 ⊢
  have hb : r.1.bad = false := by rw [h2]; rfl
  split
  · exact ⟨rfl, by simpa using hb⟩
  · exact ⟨h1, hb⟩

theorem length_iterRun (fix : Bool) (files : List (List α)) (cap L : Nat) (k : Option Nat) (t : Table)
    (h : t.length ≤ cap + 1) : (iterRun fix files cap L k t).2.length ≤ cap + 1 := by
  unfold iterRun
  have := length_foldl_fileStep fix files cap L (List.range files.length) (iterInit k, t) h
  simp only
  split
  · exact this
  · exact this

/-! ### `get_piece` -/

theorem getPieceLoop_indep (files : List (List α)) (cap : Nat) (js : List Nat) (seekTo n : Nat)
    (piece : List α) (bad : Bool) (t t' : Table) :
    (getPieceLoop files cap js seekTo n piece bad t).1 =
        (getPieceLoop files cap js seekTo n piece bad t').1 ∧
      (getPieceLoop files cap js seekTo n piece bad t).1.2 = bad := by
  induction js generalizing seekTo n piece bad t t' with
  | nil => simp [getPieceLoop]
  | cons j js ih =>
    unfold getPieceLoop
    simp only
    obtain ⟨hd, hok, hok', _⟩ := read_agree files _ _ j n (agree_open_seek cap t t' j seekTo)
    rw [hok, hok', ← hd]
    simp only [Bool.not_true, Bool.or_false]
    exact ih _ _ _ _ _ _

theorem length_getPieceLoop (files : List (List α)) (cap : Nat) (js : List Nat) (seekTo n : Nat)
    (piece : List α) (bad : Bool) (t : Table) (h : t.length ≤ cap + 1) :
    (getPieceLoop files cap js seekTo n piece bad t).2.length ≤ cap + 1 := by
  induction js generalizing seekTo n piece bad t with
  | nil => simpa [getPieceLoop] using h
  | cons j js ih =>
    unfold getPieceLoop
    simp only
    apply ih
    simpa using length_getOpenFile_le cap t j h

theorem getPiece_indep (c : Cfg α δ) (i : Int) (t t' : Table) :
    (getPiece c i t).1 = (getPiece c i t').1 := by
  unfold getPiece
  simp only
  split
  · rfl
  · split
    · rfl
    · rename_i rel seekTo _
      obtain ⟨h1, h2⟩ := getPieceLoop_indep c.files c.cap rel seekTo c.L [] false t t'
      rw [← h1]
      simp only [h2, Bool.false_eq_true, if_false]
      split <;> rfl

theorem getPiece_no_closed (c : Cfg α δ) (hg : ∀ n, c.geom n ≠ .error .closedHandle)
    (i : Int) (t : Table) : (getPiece c i t).1 ≠ .error .closedHandle := by
  unfold getPiece
  simp only
  split
  · simp
  · split
    · rename_i e he
      intro h
      simp only [Except.error.injEq] at h
      exact hg i.toNat (by rw [he, h])
    · rename_i rel seekTo _
      obtain ⟨_, h2⟩ := getPieceLoop_indep c.files c.cap rel seekTo c.L [] false t t
      simp only [h2, Bool.false_eq_true, if_false]
      split <;> simp

theorem length_getPiece (c : Cfg α δ) (i : Int) (t : Table) (h : t.length ≤ c.cap + 1) :
    (getPiece c i t).2.length ≤ c.cap + 1 := by
  unfold getPiece
  simp only
  split
  · exact h
  · split
    · exact h
    · rename_i rel seekTo _
      have := length_getPieceLoop c.files c.cap rel seekTo c.L [] false t h
      split
      · exact this
      · split <;> exact this

/-! ### `close` -/

theorem closeAll_eq_nil (snap cur : Table) (h : ∀ x ∈ cur, ∃ e ∈ snap, e.1 = x.1) :
    closeAll snap cur = [] := by
  induction snap generalizing cur with
  | nil =>
    simp only [closeAll]
    apply List.eq_nil_iff_forall_not_mem.mpr
    intro x hx
    obtain ⟨e, he, _⟩ := h x hx
    simp at he
  | cons e s ih =>
    simp only [closeAll]
    apply ih
    intro x hx
    obtain ⟨hx1, hx2⟩ := List.mem_filter.mp hx
    obtain ⟨e', he', heq⟩ := h x hx1
    rcases List.mem_cons.mp he' with rfl | hs
    · simp [heq] at hx2
    · exact ⟨e', hs, heq⟩

theorem closeAll_self (t : Table) : closeAll t t = [] :=
  closeAll_eq_nil t t (fun x hx => ⟨x, hx, rfl⟩)

/-! ### whole operations and histories -/

theorem getPiece_pair (c : Cfg α δ) (i : Int) (t t' : Table) :
    ∃ x u u', getPiece c i t = (x, u) ∧ getPiece c i t' = (x, u') :=
  ⟨(getPiece c i t).1, (getPiece c i t).2, (getPiece c i t').2, rfl, by rw [getPiece_indep c i t t']⟩

theorem run_out_indep [BEq δ] (c : Cfg α δ) (hfix : c.fix = true) (op : Op) (t t' : Table) :
    (run c op t).out = (run c op t').out := by
  cases op with
  | iterFull => simp only [run, hfix]; rw [(iterRun_indep c.files c.cap c.L none t t').1]
  | iterAbandon k => simp only [run, hfix]; rw [(iterRun_indep c.files c.cap c.L (some k) t t').1]
  | getPiece i =>
    obtain ⟨x, u, u', h1, h2⟩ := getPiece_pair c i t t'
    simp only [run, h1, h2]; cases x <;> rfl
  | getPieceHash i =>
    obtain ⟨x, u, u', h1, h2⟩ := getPiece_pair c i t t'
    simp only [run, h1, h2]; cases x <;> rfl
  | verifyPiece i =>
    obtain ⟨x, u, u', h1, h2⟩ := getPiece_pair c i t t'
    simp only [run, h1, h2]
    cases pyIndex c.stored i with
    | none => rfl
    | some st => cases x <;> rfl
  | close => rfl
  | ctxExit => rfl

theorem run_bound [BEq δ] (c : Cfg α δ) (op : Op) (t : Table) (h : t.length ≤ c.cap + 1) :
    (run c op t).tbl.length ≤ c.cap + 1 := by
  have hg : ∀ i, (getPiece c i t).2.length ≤ c.cap + 1 := fun i => length_getPiece c i t h
  cases op with
  | iterFull => exact length_iterRun _ _ _ _ _ _ h
  | iterAbandon k => exact length_iterRun _ _ _ _ _ _ h
  | getPiece i =>
    have := hg i
    simp only [run]
    generalize getPiece c i t = r at this ⊢
    rcases r with ⟨x, u⟩
    cases x <;> exact this
  | getPieceHash i =>
    have := hg i
    simp only [run]
    generalize getPiece c i t = r at this ⊢
    rcases r with ⟨x, u⟩
    cases x <;> exact this
  | verifyPiece i =>
    have := hg i
    simp only [run]
    cases pyIndex c.stored i with
    | none => exact h
    | some st =>
      generalize getPiece c i t = r at this ⊢
      rcases r with ⟨x, u⟩
      cases x <;> exact this
  | close => simp [run, closeAll_self]
  | ctxExit => simp [run, closeAll_self]

theorem runAll_out [BEq δ] (c : Cfg α δ) (hfix : c.fix = true) (ops : List Op) (t : Table) :
    (runAll c ops t).map (·.1) = ops.map fun op => (run c op []).out := by
  induction ops generalizing t with
  | nil => rfl
  | cons op ops ih =>
    simp only [runAll, List.map_cons]
    rw [ih, run_out_indep c hfix op t []]

theorem runAll_bound [BEq δ] (c : Cfg α δ) (ops : List Op) (t : Table) (h : t.length ≤ c.cap + 1) :
    ∀ r ∈ runAll c ops t, r.2 ≤ c.cap + 1 := by
  induction ops generalizing t with
  | nil => intro r hr; simp [runAll] at hr
  | cons op ops ih =>
    intro r hr
    simp only [runAll, List.mem_cons] at hr
    have hb := run_bound c op t h
    rcases hr with rfl | hr
    · exact hb
    · exact ih _ hb r hr

/-! ### histories with replaced stored hashes; damaged disks -/

theorem runAllS_out [BEq δ] (c : Cfg α δ) (hfix : c.fix = true) (ss : List (Step δ)) (t : Table) :
    (runAllS c ss t).map (·.1) = freshAllS c ss := by
  induction ss generalizing c t with
  | nil => rfl
  | cons s ss ih =>
    cases s with
    | op o =>
      simp only [runAllS, freshAllS, List.map_cons]
      rw [ih c hfix, run_out_indep c hfix o t []]
    | setStored hs =>
      simp only [runAllS, freshAllS, List.map_cons]
      rw [ih { c with stored := hs } hfix]

theorem runAllS_bound [BEq δ] (c : Cfg α δ) (ss : List (Step δ)) (t : Table)
    (h : t.length ≤ c.cap + 1) : ∀ r ∈ runAllS c ss t, r.2 ≤ c.cap + 1 := by
  induction ss generalizing c t with
  | nil => intro r hr; simp [runAllS] at hr
  | cons s ss ih =>
    intro r hr
    cases s with
    | op o =>
      simp only [runAllS, List.mem_cons] at hr
      have hb := run_bound c o t h
      rcases hr with rfl | hr
      · exact hb
      · exact ih c _ hb r hr
    | setStored hs =>
      simp only [runAllS, List.mem_cons] at hr
      rcases hr with rfl | hr
      · exact h
      · exact ih { c with stored := hs } t h r hr

/-- with a record per call the answer is `Missing.iterItems`, whatever record the object holds,
    and the object's record is left alone -/
theorem iterDamaged_perCall (L : Nat) (sizes : List Nat) (disk : List (Option (List α))) (m : MRec) :
    iterDamaged true L sizes disk m = (Missing.iterItems L sizes disk, m) := rfl

end Torf.Handles
