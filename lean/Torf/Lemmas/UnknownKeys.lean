/-
  Keys the model of `Torrent.validate()` does not know (property C08, round 6).

  `Validate.validate` looks at a metainfo only through lookups of a fixed vocabulary of keys:
  `topKeys` in the metainfo, `infoKeys` in `info`, `fileKeys` in an entry of `info.files`, and through
  integer subscripts.  `SameKnown a b` says that two metainfos answer all those lookups alike
  (whatever else they hold: other keys, at any position, with values of any type); the theorem
  `validate_sameKnown` says that `validate` cannot tell them apart.
-/
import Torf.Lemmas.ValidateBase
import Torf.Model.Codec
import Torf.Model.KeyVocabulary
namespace Torf.UnknownKeys
open Torf Torf.Export Torf.Validate

/-- the two dicts answer the lookup of every key in `K` and every integer subscript alike -/
def AgreeOn (K : List String) (a b : Items) : Prop :=
  (∀ k ∈ K, PyVal.lookupStr k a = PyVal.lookupStr k b) ∧ (∀ n, lookupNat n a = lookupNat n b)

/-- a key of the vocabulary `K`, or an integer subscript -/
def keyIn (K : List String) : Key → Prop
  | .s s => s ∈ K
  | .i _ => True

theorem AgreeOn.refl (K : List String) (a : Items) : AgreeOn K a a := ⟨fun _ _ => rfl, fun _ => rfl⟩

theorem AgreeOn.lookupKey {K : List String} {a b : Items} (h : AgreeOn K a b) {k : Key} (hk : keyIn K k) :
    lookupKey k a = lookupKey k b := by
  cases k with
  | s s => exact h.1 s hk
  | i n => exact h.2 n

theorem getItem_agree {K : List String} {a b : Items} (h : AgreeOn K a b) {k : Key} (hk : keyIn K k) :
    getItem (.dict a) k = getItem (.dict b) k := by
  simp only [Validate.getItem, h.lookupKey hk]

theorem getE_agree {K : List String} {a b : Items} (h : AgreeOn K a b) {k : Key} (hk : keyIn K k) :
    getE (.dict a) k = getE (.dict b) k := by
  simp only [getE, getItem_agree h hk]

theorem keyExists_agree {K : List String} {a b : Items} (h : AgreeOn K a b) {k : Key} (hk : keyIn K k) :
    keyExists k (.dict a) = keyExists k (.dict b) := by
  simp only [keyExists, h.lookupKey hk]

theorem assertFinal_agree {K : List String} {a b : Items} (h : AgreeOn K a b) {k : Key} (hk : keyIn K k)
    (r : Rule) : assertFinal (.dict a) k r = assertFinal (.dict b) k r := by
  simp only [assertFinal, keyExists_agree h hk, getItem_agree h hk]

/-- `assert_type` on a dict consults it through the first key of the chain and — when that key is
    missing — through the second one -/
theorem assertType_agree {K : List String} {a b : Items} (h : AgreeOn K a b) {k : Key} (hk : keyIn K k)
    (rest : List Key) (h2 : ∀ k' ∈ rest.head?, keyIn K k') (r : Rule) :
    assertType (.dict a) (k :: rest) r = assertType (.dict b) (k :: rest) r := by
  cases rest with
  | nil => simp only [assertType]; exact assertFinal_agree h hk r
  | cons k' rest' =>
    have hk' : keyIn K k' := h2 k' (by simp)
    simp only [assertType, getItem_agree h hk]
    cases getItem (.dict b) k with
    | val v => rfl
    | missing => exact assertFinal_agree h hk' r
    | typeError => rfl

/-- the first key is there: the walk goes on in its value -/
theorem assertType_down {a : Items} {s : String} {v : PyVal} (hv : PyVal.lookupStr s a = some v)
    (k' : Key) (rest : List Key) (r : Rule) :
    assertType (.dict a) (.s s :: k' :: rest) r = assertType v (k' :: rest) r :=
  assertType_step (getItem_dict_s_some hv)

/-! ### what may differ between two metainfos that `validate()` cannot tell apart -/

/-- entries of `info.files`: identical, or mappings that agree on `fileKeys` -/
def SameEntry (e e' : PyVal) : Prop :=
  e = e' ∨ ∃ x y, e = .dict x ∧ e' = .dict y ∧ AgreeOn fileKeys x y

/-- lists of the same length whose entries are pairwise `SameEntry` -/
inductive SameEntries : List PyVal → List PyVal → Prop where
  | nil : SameEntries [] []
  | cons {e e' : PyVal} {l l' : List PyVal} : SameEntry e e' → SameEntries l l' → SameEntries (e :: l) (e' :: l')

/-- `info.files`: identical, or lists of the same length whose entries are pairwise `SameEntry` -/
def SameFiles (f f' : Option PyVal) : Prop :=
  f = f' ∨ ∃ l l', f = some (.list l) ∧ f' = some (.list l') ∧ SameEntries l l'

/-- `info`: identical, or mappings that agree on `infoKeys` except `files`, which are `SameFiles` -/
def SameInfo (i i' : Option PyVal) : Prop :=
  i = i' ∨ ∃ x y, i = some (.dict x) ∧ i' = some (.dict y) ∧
    AgreeOn ["name", "piece length", "pieces", "private", "length", "md5sum"] x y ∧
    SameFiles (PyVal.lookupStr "files" x) (PyVal.lookupStr "files" y)

/-- the metainfos agree on `topKeys` except `info`, which are `SameInfo` -/
def SameKnown (a b : Items) : Prop :=
  AgreeOn ["creation date", "announce", "announce-list"] a b ∧
  SameInfo (PyVal.lookupStr "info" a) (PyVal.lookupStr "info" b)

theorem SameEntry.refl (e : PyVal) : SameEntry e e := Or.inl rfl

theorem SameFiles.isSome {f f' : Option PyVal} (h : SameFiles f f') : f.isSome = f'.isSome := by
  rcases h with rfl | ⟨l, l', rfl, rfl, _⟩ <;> rfl

theorem SameInfo.isNone {i i' : Option PyVal} (h : SameInfo i i') : i = none ↔ i' = none := by
  rcases h with rfl | ⟨x, y, rfl, rfl, _⟩ <;> simp

/-! ### lookups in `ensureInfo` -/

theorem lookupNat_append (n : Nat) (a b : Items) :
    lookupNat n (a ++ b) = (lookupNat n a).or (lookupNat n b) := by
  induction a with
  | nil => simp [lookupNat]
  | cons p t ih =>
    obtain ⟨k', v⟩ := p
    simp only [List.cons_append, lookupNat]
    split
    · simp
    · exact ih

theorem SameKnown.ensureInfo {a b : Items} (h : SameKnown a b) : SameKnown (ensureInfo a) (ensureInfo b) := by
  obtain ⟨hA, hI⟩ := h
  unfold Validate.ensureInfo
  cases ha : PyVal.lookupStr "info" a with
  | some v =>
    have hb : PyVal.lookupStr "info" b ≠ none := fun hb => by
      have := (hI.isNone).2 hb; rw [ha] at this; exact absurd this (by simp)
    cases hb' : PyVal.lookupStr "info" b with
    | none => exact absurd hb' hb
    | some w => simp only; exact ⟨hA, by rw [ha, hb']; rw [ha, hb'] at hI; exact hI⟩
  | none =>
    have hb : PyVal.lookupStr "info" b = none := (hI.isNone).1 ha
    simp only [hb]
    refine ⟨⟨fun k hk => ?_, fun n => ?_⟩, ?_⟩
    · rw [lookupStr_append, lookupStr_append, hA.1 k hk]
    · rw [lookupNat_append, lookupNat_append, hA.2 n]
    · rw [lookupStr_append, lookupStr_append, ha, hb]; exact Or.inl rfl

/-! ### walking into `info` and into the entries of `info.files` -/

/-- the vocabulary of `info` apart from `files` -/
def infoKeys' : List String := ["name", "piece length", "pieces", "private", "length", "md5sum"]

/-- the values of `info` in two metainfos that are `SameKnown` -/
def SameInfoVal (v v' : PyVal) : Prop :=
  v = v' ∨ ∃ x y, v = .dict x ∧ v' = .dict y ∧ AgreeOn infoKeys' x y ∧
    SameFiles (PyVal.lookupStr "files" x) (PyVal.lookupStr "files" y)

theorem SameEntries.refl : ∀ l : List PyVal, SameEntries l l
  | [] => .nil
  | e :: l => .cons (SameEntry.refl e) (SameEntries.refl l)

theorem SameEntries.length {l l' : List PyVal} (h : SameEntries l l') : l.length = l'.length := by
  induction h with
  | nil => rfl
  | cons _ _ ih => simp [ih]

theorem SameEntries.get {l l' : List PyVal} (h : SameEntries l l') : ∀ i : Nat,
    (l[i]? = none ∧ l'[i]? = none) ∨ ∃ e e', l[i]? = some e ∧ l'[i]? = some e' ∧ SameEntry e e' := by
  induction h with
  | nil => intro i; left; simp
  | cons he _ ih =>
    intro i
    cases i with
    | zero => right; exact ⟨_, _, by simp, by simp, he⟩
    | succ n => simpa using ih n

/-- a path into a file entry: a key of `fileKeys`, then integer subscripts only -/
theorem assertType_entry {e e' : PyVal} (h : SameEntry e e') {k : String} (hk : k ∈ fileKeys)
    (rest : List Key) (h2 : ∀ k' ∈ rest.head?, keyIn fileKeys k') (r : Rule) :
    assertType e (.s k :: rest) r = assertType e' (.s k :: rest) r := by
  rcases h with rfl | ⟨x, y, rfl, rfl, hxy⟩
  · rfl
  · exact assertType_agree hxy (k := .s k) hk rest h2 r

theorem getE_entry {e e' : PyVal} (h : SameEntry e e') {k : String} (hk : k ∈ fileKeys) :
    getE e (.s k) = getE e' (.s k) := by
  rcases h with rfl | ⟨x, y, rfl, rfl, hxy⟩
  · rfl
  · exact getE_agree hxy (k := .s k) hk

theorem SameEntry.isDict {e e' : PyVal} (h : SameEntry e e') : e.isDict = e'.isDict := by
  rcases h with rfl | ⟨x, y, rfl, rfl, _⟩ <;> rfl

/-- `assert_type(md, (…, 'files', i), (abc.Mapping,))` seen from the list -/
theorem assertType_index {l l' : List PyVal} (h : SameEntries l l') (i : Nat) :
    assertType (.list l) [.i i] { types := PyVal.isDict } =
      assertType (.list l') [.i i] { types := PyVal.isDict } := by
  simp only [assertType, assertFinal, keyExists, pyLen, Option.getD_some, h.length, Validate.getItem]
  rcases h.get i with ⟨h1, h2⟩ | ⟨e, e', h1, h2, he⟩
  · simp only [h1, h2]; rfl
  · simp only [h1, h2, checkVal, passes, he.isDict]; rfl

/-- `assert_type(md, (…, 'files', i, key, …))` seen from the list -/
theorem assertType_index_key {l l' : List PyVal} (h : SameEntries l l') (i : Nat) {k : String}
    (hk : k ∈ fileKeys) (rest : List Key) (h2 : ∀ k' ∈ rest.head?, keyIn fileKeys k') (r : Rule) :
    assertType (.list l) (.i i :: .s k :: rest) r = assertType (.list l') (.i i :: .s k :: rest) r := by
  rcases h.get i with ⟨h1, h2'⟩ | ⟨e, e', h1, h2', he⟩
  · simp only [assertType, Validate.getItem, h1, h2', assertFinal, keyExists]
  · have e1 : getItem (.list l) (.i i) = .val e := by simp only [Validate.getItem, h1]
    have e2 : getItem (.list l') (.i i) = .val e' := by simp only [Validate.getItem, h2']
    rw [assertType_step e1, assertType_step e2]
    exact assertType_entry he hk rest h2 r

theorem AgreeOn.cons {K : List String} {a b : Items} (h : AgreeOn K a b) {k : String}
    (hk : PyVal.lookupStr k a = PyVal.lookupStr k b) : AgreeOn (k :: K) a b :=
  ⟨fun k' hk' => by
      rcases List.mem_cons.1 hk' with rfl | h'
      · exact hk
      · exact h.1 k' h',
   h.2⟩

theorem AgreeOn.mono {K K' : List String} {a b : Items} (h : AgreeOn K a b) (hs : ∀ k ∈ K', k ∈ K) :
    AgreeOn K' a b := ⟨fun k hk => h.1 k (hs k hk), h.2⟩

theorem keyIn_mono {K K' : List String} (hs : ∀ k ∈ K', k ∈ K) {k : Key} (h : keyIn K' k) : keyIn K k := by
  cases k with
  | s s => exact hs s h
  | i n => trivial

/-- a path into `info`: a key of `infoKeys'`, then integer subscripts only -/
theorem assertType_info {v v' : PyVal} (h : SameInfoVal v v') {k : String} (hk : k ∈ infoKeys')
    (rest : List Key) (h2 : ∀ k' ∈ rest.head?, keyIn infoKeys' k') (r : Rule) :
    assertType v (.s k :: rest) r = assertType v' (.s k :: rest) r := by
  rcases h with rfl | ⟨x, y, rfl, rfl, hxy, _⟩
  · rfl
  · exact assertType_agree hxy (k := .s k) hk rest h2 r

theorem getE_info {v v' : PyVal} (h : SameInfoVal v v') {k : String} (hk : k ∈ infoKeys') :
    getE v (.s k) = getE v' (.s k) := by
  rcases h with rfl | ⟨x, y, rfl, rfl, hxy, _⟩
  · rfl
  · exact getE_agree hxy (k := .s k) hk

theorem inE_info {v v' : PyVal} (h : SameInfoVal v v') {k : String} (hk : k ∈ infoKeys') :
    inE (.s k) v = inE (.s k) v' := by
  rcases h with rfl | ⟨x, y, rfl, rfl, hxy, _⟩
  · rfl
  · simp only [inE, hxy.lookupKey (k := .s k) hk]

theorem inE_info_files {v v' : PyVal} (h : SameInfoVal v v') :
    inE (.s "files") v = inE (.s "files") v' := by
  rcases h with rfl | ⟨x, y, rfl, rfl, _, hf⟩
  · rfl
  · simp only [inE, lookupKey, hf.isSome]

theorem SameInfoVal.isDict {v v' : PyVal} (h : SameInfoVal v v') : v.isDict = v'.isDict := by
  rcases h with rfl | ⟨x, y, rfl, rfl, _⟩ <;> rfl

/-- `assert_type(md, ('info', 'files'), (utils.Iterable,))` seen from `info` -/
theorem assertType_files {v v' : PyVal} (h : SameInfoVal v v') :
    assertType v [.s "files"] { types := PyVal.isIterable } =
      assertType v' [.s "files"] { types := PyVal.isIterable } := by
  rcases h with rfl | ⟨x, y, rfl, rfl, hxy, hf⟩
  · rfl
  · rcases hf with hf | ⟨l, l', hl, hl', _⟩
    · exact assertType_agree (hxy.cons hf) (k := .s "files") (by simp [keyIn]) [] (by simp) _
    · simp only [assertType, assertFinal, keyExists, lookupKey, hl, hl', Validate.getItem, checkVal, passes,
        PyVal.isIterable, Option.isSome_some]
      rfl

/-- `assert_type(md, ('info', 'files', i), (abc.Mapping,))` seen from `info` -/
theorem assertType_files_index {v v' : PyVal} (h : SameInfoVal v v') (i : Nat) :
    assertType v [.s "files", .i i] { types := PyVal.isDict } =
      assertType v' [.s "files", .i i] { types := PyVal.isDict } := by
  rcases h with rfl | ⟨x, y, rfl, rfl, hxy, hf⟩
  · rfl
  · rcases hf with hf | ⟨l, l', hl, hl', hll⟩
    · exact assertType_agree (hxy.cons hf) (k := .s "files") (by simp [keyIn]) [.i i] (by simp [keyIn]) _
    · rw [assertType_down hl, assertType_down hl']
      exact assertType_index hll i

/-- `assert_type(md, ('info', 'files', i, key, …))` seen from `info` -/
theorem assertType_files_key {v v' : PyVal} (h : SameInfoVal v v') (i : Nat) {k : String}
    (hk : k ∈ fileKeys) (rest : List Key) (h2 : ∀ k' ∈ rest.head?, keyIn fileKeys k') (r : Rule) :
    assertType v (.s "files" :: .i i :: .s k :: rest) r =
      assertType v' (.s "files" :: .i i :: .s k :: rest) r := by
  rcases h with rfl | ⟨x, y, rfl, rfl, hxy, hf⟩
  · rfl
  · rcases hf with hf | ⟨l, l', hl, hl', hll⟩
    · exact assertType_agree (hxy.cons hf) (k := .s "files") (by simp [keyIn]) _ (by simp [keyIn]) _
    · rw [assertType_down hl, assertType_down hl']
      exact assertType_index_key hll i hk rest h2 r

/-! ### the parts of `validate()` -/

theorem forEnum_same {f g : Nat → PyVal → Except ErrKind Unit}
    (hfg : ∀ i e e', SameEntry e e' → f i e = g i e') {l l' : List PyVal} (h : SameEntries l l') :
    ∀ n, forEnum f n l = forEnum g n l' := by
  induction h with
  | nil => intro n; rfl
  | cons he _ ih => intro n; simp only [forEnum, hfg _ _ _ he, ih]

theorem sumLengths_same {l l' : List PyVal} (h : SameEntries l l') :
    ∀ acc, sumLengths l acc = sumLengths l' acc := by
  induction h with
  | nil => intro acc; rfl
  | cons he _ ih =>
    intro acc
    simp only [sumLengths, getE_entry he (k := "length") (by simp [fileKeys]), ih]

theorem checkFileOnDisk_same (fs : FsOracle) (i : Nat) {e e' : PyVal} (h : SameEntry e e') :
    checkFileOnDisk fs i e = checkFileOnDisk fs i e' := by
  simp only [checkFileOnDisk, getE_entry h (k := "path") (by simp [fileKeys]),
    getE_entry h (k := "length") (by simp [fileKeys])]

/-- what `iterE (← getE info "files")` gives in two `info`s that are `SameInfoVal` -/
theorem files_same {v v' : PyVal} (h : SameInfoVal v v') :
    (∃ e, getE v (.s "files") = .error e ∧ getE v' (.s "files") = .error e) ∨
    ∃ w w', getE v (.s "files") = .ok w ∧ getE v' (.s "files") = .ok w' ∧
      ((∃ e, iterE w = .error e ∧ iterE w' = .error e) ∨
       ∃ fl fl', iterE w = .ok fl ∧ iterE w' = .ok fl' ∧ SameEntries fl fl') := by
  have self : ∀ u : PyVal,
      (∃ e, getE u (.s "files") = .error e ∧ getE u (.s "files") = .error e) ∨
      ∃ w w', getE u (.s "files") = .ok w ∧ getE u (.s "files") = .ok w' ∧
        ((∃ e, iterE w = .error e ∧ iterE w' = .error e) ∨
         ∃ fl fl', iterE w = .ok fl ∧ iterE w' = .ok fl' ∧ SameEntries fl fl') := by
    intro u
    cases hg : getE u (.s "files") with
    | error e => exact Or.inl ⟨e, rfl, rfl⟩
    | ok w =>
      refine Or.inr ⟨w, w, rfl, rfl, ?_⟩
      cases hi : iterE w with
      | error e => exact Or.inl ⟨e, rfl, rfl⟩
      | ok fl => exact Or.inr ⟨fl, fl, rfl, rfl, SameEntries.refl fl⟩
  rcases h with rfl | ⟨x, y, rfl, rfl, hxy, hf⟩
  · exact self v
  · rcases hf with hf | ⟨l, l', hl, hl', hll⟩
    · have : getE (.dict x) (.s "files") = getE (.dict y) (.s "files") :=
        getE_agree (hxy.cons hf) (k := .s "files") (by simp [keyIn])
      rw [← this]; exact self _
    · refine Or.inr ⟨.list l, .list l', getE_ok (getItem_dict_s_some hl), getE_ok (getItem_dict_s_some hl'), ?_⟩
      exact Or.inr ⟨l, l', rfl, rfl, hll⟩

section
variable (urlOk : Bytes → Bool) (fs : FsOracle) {a b : Items} {v v' : PyVal}

theorem checkCommon_same (hA : AgreeOn ["creation date", "announce", "announce-list"] a b)
    (ha : PyVal.lookupStr "info" a = some v) (hb : PyVal.lookupStr "info" b = some v')
    (hv : SameInfoVal v v') : checkCommon urlOk (.dict a) = checkCommon urlOk (.dict b) := by
  have e0 : assertType (.dict a) [.s "info"] { types := PyVal.isDict } =
      assertType (.dict b) [.s "info"] { types := PyVal.isDict } := by
    simp only [assertType, assertFinal, keyExists, lookupKey, ha, hb, Validate.getItem, checkVal, passes,
      hv.isDict, Option.isSome_some]
    rfl
  have ei : ∀ (k : String) (r : Rule), k ∈ infoKeys' →
      assertType (.dict a) [.s "info", .s k] r = assertType (.dict b) [.s "info", .s k] r := by
    intro k r hk
    rw [assertType_down ha, assertType_down hb]
    exact assertType_info hv hk [] (by simp) r
  have et : ∀ (k : String) (r : Rule), k ∈ ["creation date", "announce", "announce-list"] →
      assertType (.dict a) [.s k] r = assertType (.dict b) [.s k] r :=
    fun k r hk => assertType_agree hA (k := .s k) hk [] (by simp) r
  unfold checkCommon
  rw [e0, ei "name" _ (by simp [infoKeys']), ei "piece length" _ (by simp [infoKeys']),
    ei "pieces" _ (by simp [infoKeys']), ei "private" _ (by simp [infoKeys']),
    et "creation date" _ (by simp), et "announce" _ (by simp), et "announce-list" _ (by simp)]

theorem checkTier_same (hA : AgreeOn ["creation date", "announce", "announce-list"] a b) (i : Nat) :
    checkTier urlOk (.dict a) i = checkTier urlOk (.dict b) i := by
  have h1 : ∀ r : Rule, assertType (.dict a) [.s "announce-list", .i i] r =
      assertType (.dict b) [.s "announce-list", .i i] r :=
    fun r => assertType_agree hA (k := .s "announce-list") (by simp [keyIn]) [.i i] (by simp [keyIn]) r
  have h2 : ∀ (j : Nat) (r : Rule), assertType (.dict a) [.s "announce-list", .i i, .i j] r =
      assertType (.dict b) [.s "announce-list", .i i, .i j] r :=
    fun j r => assertType_agree hA (k := .s "announce-list") (by simp [keyIn]) [.i i, .i j] (by simp [keyIn]) r
  have hg : getE (.dict a) (.s "announce-list") = getE (.dict b) (.s "announce-list") :=
    getE_agree hA (k := .s "announce-list") (by simp [keyIn])
  simp only [checkTier, h1, h2, hg]

theorem checkAnnounceList_same (hA : AgreeOn ["creation date", "announce", "announce-list"] a b) :
    checkAnnounceList urlOk (.dict a) a = checkAnnounceList urlOk (.dict b) b := by
  have hf : checkTier urlOk (.dict a) = checkTier urlOk (.dict b) := funext (checkTier_same urlOk hA)
  simp only [checkAnnounceList, hf, hA.1 "announce-list" (by simp)]

theorem checkFile_same (ha : PyVal.lookupStr "info" a = some v) (hb : PyVal.lookupStr "info" b = some v')
    (hv : SameInfoVal v v') (i : Nat) {e e' : PyVal} (he : SameEntry e e') :
    checkFile (.dict a) i e = checkFile (.dict b) i e' := by
  have f1 : assertType (.dict a) [.s "info", .s "files", .i i] { types := PyVal.isDict } =
      assertType (.dict b) [.s "info", .s "files", .i i] { types := PyVal.isDict } := by
    rw [assertType_down ha, assertType_down hb]; exact assertType_files_index hv i
  have f2 : ∀ (k : String) (r : Rule), k ∈ fileKeys →
      assertType (.dict a) [.s "info", .s "files", .i i, .s k] r =
        assertType (.dict b) [.s "info", .s "files", .i i, .s k] r := by
    intro k r hk
    rw [assertType_down ha, assertType_down hb]; exact assertType_files_key hv i hk [] (by simp) r
  have f3 : ∀ (j : Nat) (r : Rule),
      assertType (.dict a) [.s "info", .s "files", .i i, .s "path", .i j] r =
        assertType (.dict b) [.s "info", .s "files", .i i, .s "path", .i j] r := by
    intro j r
    rw [assertType_down ha, assertType_down hb]
    exact assertType_files_key hv i (k := "path") (by simp [fileKeys]) [.i j] (by simp [keyIn]) r
  simp only [checkFile, f1, f2 "length" _ (by simp [fileKeys]), f2 "path" _ (by simp [fileKeys]),
    f2 "md5sum" _ (by simp [fileKeys]), f3, getE_entry he (k := "path") (by simp [fileKeys])]

theorem checkSingle_same (ha : PyVal.lookupStr "info" a = some v) (hb : PyVal.lookupStr "info" b = some v')
    (hv : SameInfoVal v v') (plen : Nat) :
    checkSingle fs (.dict a) v plen = checkSingle fs (.dict b) v' plen := by
  have ei : ∀ (k : String) (r : Rule), k ∈ infoKeys' →
      assertType (.dict a) [.s "info", .s k] r = assertType (.dict b) [.s "info", .s k] r := by
    intro k r hk
    rw [assertType_down ha, assertType_down hb]
    exact assertType_info hv hk [] (by simp) r
  simp only [checkSingle, ei "length" _ (by simp [infoKeys']), ei "md5sum" _ (by simp [infoKeys']),
    getE_info hv (k := "piece length") (by simp [infoKeys']), getE_info hv (k := "length") (by simp [infoKeys'])]

theorem checkMulti_same (ha : PyVal.lookupStr "info" a = some v) (hb : PyVal.lookupStr "info" b = some v')
    (hv : SameInfoVal v v') (plen : Nat) :
    checkMulti fs (.dict a) v plen = checkMulti fs (.dict b) v' plen := by
  have e0 : assertType (.dict a) [.s "info", .s "files"] { types := PyVal.isIterable } =
      assertType (.dict b) [.s "info", .s "files"] { types := PyVal.isIterable } := by
    rw [assertType_down ha, assertType_down hb]; exact assertType_files hv
  have epl := getE_info hv (k := "piece length") (by simp [infoKeys'])
  unfold checkMulti
  rw [e0]
  rcases files_same hv with ⟨e, h1, h2⟩ | ⟨w, w', h1, h2, ⟨e, h3, h4⟩ | ⟨fl, fl', h3, h4, hfl⟩⟩
  · simp only [h1, h2, bind, Except.bind]
  · simp only [h1, h2, h3, h4, bind, Except.bind]
  · have c1 := forEnum_same (fun i e e' he => checkFile_same ha hb hv i he) hfl 0
    have c2 := forEnum_same (fun i e e' he => checkFileOnDisk_same fs i he) hfl 0
    have c3 := sumLengths_same hfl 0
    simp only [h1, h2, h3, h4, bind, Except.bind, c1, c2, c3, epl]

end

theorem SameInfo.val {v v' : PyVal} (h : SameInfo (some v) (some v')) : SameInfoVal v v' := by
  rcases h with h | ⟨x, y, hx, hy, hxy, hf⟩
  · exact Or.inl (Option.some.inj h)
  · exact Or.inr ⟨x, y, Option.some.inj hx, Option.some.inj hy, hxy, hf⟩

/-- **`validate()` cannot tell apart two metainfos that answer the lookups of its vocabulary alike** —
    whatever other keys they hold at the top level, in `info` and in the entries of `info.files`,
    wherever those keys sit and whatever is stored under them; every URL oracle, every file system -/
theorem validate_sameKnown (urlOk : Bytes → Bool) (fs : FsOracle) {a0 b0 : Items} (h : SameKnown a0 b0) :
    validate urlOk fs a0 = validate urlOk fs b0 := by
  obtain ⟨hA, hI⟩ := h.ensureInfo
  obtain ⟨v, ha⟩ := ensureInfo_lookup a0
  obtain ⟨v', hb⟩ := ensureInfo_lookup b0
  rw [ha, hb] at hI
  have hv := hI.val
  have ea : getE (.dict (ensureInfo a0)) (.s "info") = pure v := getE_ok (getItem_dict_s_some ha)
  have eb : getE (.dict (ensureInfo b0)) (.s "info") = pure v' := getE_ok (getItem_dict_s_some hb)
  have c1 := checkCommon_same urlOk hA ha hb hv
  have c2 := checkAnnounceList_same urlOk hA
  have c3 := getE_info hv (k := "pieces") (by simp [infoKeys'])
  have c4 := inE_info hv (k := "length") (by simp [infoKeys'])
  have c5 := inE_info_files hv
  have c6 := checkSingle_same fs ha hb hv
  have c7 := checkMulti_same fs ha hb hv
  simp only [validate, ea, eb, pure_bind, c1, c2, c3, c4, c5, c6, c7]

/-! ### one key set or removed (`d[k] = v`, `del d[k]`) -/

/-- the dict without its entries under the `str` key `k` -/
def without (k : String) (a : Items) : Items := a.filter fun kv => !Codec.isStrKey k kv.1

theorem lookupStr_setStr_ne {k k' : String} (hne : k' ≠ k) (v : PyVal) : ∀ a : Items,
    PyVal.lookupStr k' (Codec.setStr k v a) = PyVal.lookupStr k' a
  | [] => by simp [Codec.setStr, PyVal.lookupStr, hne]
  | (key, w) :: t => by
    cases key with
    | str s =>
      simp only [Codec.setStr, Codec.isStrKey]
      by_cases hs : (s == k) = true
      · have hs' : s = k := by simpa using hs
        subst hs'
        simp [PyVal.lookupStr, hne]
      · simp only [hs, Bool.false_eq_true, if_false, PyVal.lookupStr, lookupStr_setStr_ne hne v t]
    | _ => simp only [Codec.setStr, Codec.isStrKey, Bool.false_eq_true, if_false, PyVal.lookupStr,
             lookupStr_setStr_ne hne v t]

theorem lookupStr_setStr_self (k : String) (v : PyVal) : ∀ a : Items,
    PyVal.lookupStr k (Codec.setStr k v a) = some v
  | [] => by simp [Codec.setStr, PyVal.lookupStr]
  | (key, w) :: t => by
    cases key with
    | str s =>
      simp only [Codec.setStr, Codec.isStrKey]
      by_cases hs : (s == k) = true
      · have hs' : s = k := by simpa using hs
        subst hs'
        simp [PyVal.lookupStr]
      · have hne : ¬ k = s := fun h => hs (by simp [h])
        simp only [hs, Bool.false_eq_true, if_false, PyVal.lookupStr, hne, lookupStr_setStr_self k v t]
    | _ => simp only [Codec.setStr, Codec.isStrKey, Bool.false_eq_true, if_false, PyVal.lookupStr,
             lookupStr_setStr_self k v t]

theorem lookupNat_setStr (n : Nat) (k : String) (v : PyVal) : ∀ a : Items,
    lookupNat n (Codec.setStr k v a) = lookupNat n a
  | [] => by simp [Codec.setStr, lookupNat, keyEqNat]
  | (key, w) :: t => by
    cases key with
    | str s =>
      simp only [Codec.setStr, Codec.isStrKey]
      by_cases hs : (s == k) = true
      · simp [hs, lookupNat, keyEqNat]
      · simp only [hs, Bool.false_eq_true, if_false, lookupNat, lookupNat_setStr n k v t]
    | _ => simp only [Codec.setStr, Codec.isStrKey, Bool.false_eq_true, if_false, lookupNat,
             lookupNat_setStr n k v t]

theorem lookupStr_without_ne {k k' : String} (hne : k' ≠ k) : ∀ a : Items,
    PyVal.lookupStr k' (without k a) = PyVal.lookupStr k' a
  | [] => rfl
  | (key, w) :: t => by
    cases key with
    | str s =>
      by_cases hs : (s == k) = true
      · have hs' : s = k := by simpa using hs
        subst hs'
        simp [without, Codec.isStrKey, PyVal.lookupStr, hne, ← lookupStr_without_ne hne t]
      · simp [without, Codec.isStrKey, hs, PyVal.lookupStr, ← lookupStr_without_ne hne t]
    | _ => simp [without, Codec.isStrKey, PyVal.lookupStr, ← lookupStr_without_ne hne t]

theorem lookupNat_without (n : Nat) (k : String) : ∀ a : Items, lookupNat n (without k a) = lookupNat n a
  | [] => rfl
  | (key, w) :: t => by
    cases key with
    | str s =>
      by_cases hs : (s == k) = true
      · simp [without, Codec.isStrKey, hs, lookupNat, keyEqNat, ← lookupNat_without n k t]
      · simp [without, Codec.isStrKey, hs, lookupNat, ← lookupNat_without n k t]
    | _ => simp [without, Codec.isStrKey, lookupNat, ← lookupNat_without n k t]

/-- `d[k] = v` for a key outside `K` changes no lookup of `K` -/
theorem AgreeOn.setStr (K : List String) {k : String} (hk : k ∉ K) (v : PyVal) (a : Items) :
    AgreeOn K (Codec.setStr k v a) a :=
  ⟨fun k' hk' => lookupStr_setStr_ne (fun h : k' = k => hk (by rw [← h]; exact hk')) v a,
   fun n => lookupNat_setStr n k v a⟩

theorem AgreeOn.without (K : List String) {k : String} (hk : k ∉ K) (a : Items) :
    AgreeOn K (without k a) a :=
  ⟨fun k' hk' => lookupStr_without_ne (fun h : k' = k => hk (by rw [← h]; exact hk')) a,
   fun n => lookupNat_without n k a⟩

theorem AgreeOn.symm {K : List String} {a b : Items} (h : AgreeOn K a b) : AgreeOn K b a :=
  ⟨fun k hk => (h.1 k hk).symm, fun n => (h.2 n).symm⟩

theorem AgreeOn.trans {K : List String} {a b c : Items} (h : AgreeOn K a b) (h' : AgreeOn K b c) : AgreeOn K a c :=
  ⟨fun k hk => (h.1 k hk).trans (h'.1 k hk), fun n => (h.2 n).trans (h'.2 n)⟩

/-- a key outside `topKeys`, present with any value or absent -/
theorem sameKnown_top {k : String} (hk : k ∉ topKeys) (v : PyVal) (a : Items) :
    SameKnown (Codec.setStr k v a) (without k a) := by
  have h1 := AgreeOn.setStr topKeys hk v a
  have h2 := AgreeOn.without topKeys hk a
  have h := h1.trans h2.symm
  exact ⟨h.mono (by simp [topKeys]), Or.inl (h.1 "info" (by simp [topKeys]))⟩

/-- `info` with a key outside `infoKeys` present with any value, or absent -/
theorem sameKnown_info {k : String} (hk : k ∉ infoKeys) (v : PyVal) (a info : Items) :
    SameKnown (Codec.setStr "info" (.dict (Codec.setStr k v info)) a)
      (Codec.setStr "info" (.dict (without k info)) a) := by
  have h1 := AgreeOn.setStr infoKeys hk v info
  have h2 := AgreeOn.without infoKeys hk info
  have h := h1.trans h2.symm
  refine ⟨⟨fun k' hk' => ?_, fun n => ?_⟩, ?_⟩
  · have hne : k' ≠ "info" := by
      rcases List.mem_cons.1 hk' with rfl | hk'
      · decide
      rcases List.mem_cons.1 hk' with rfl | hk'
      · decide
      rcases List.mem_cons.1 hk' with rfl | hk'
      · decide
      · simp at hk'
    rw [lookupStr_setStr_ne hne, lookupStr_setStr_ne hne]
  · rw [lookupNat_setStr, lookupNat_setStr]
  · rw [lookupStr_setStr_self, lookupStr_setStr_self]
    exact Or.inr ⟨_, _, rfl, rfl, h.mono (by simp [infoKeys]), Or.inl (h.1 "files" (by simp [infoKeys]))⟩

theorem SameEntries.set {l : List PyVal} {e e' : PyVal} : ∀ {n : Nat}, l[n]? = some e → SameEntry e' e →
    SameEntries (l.set n e') l := by
  induction l with
  | nil => intro n h; simp at h
  | cons x t ih =>
    intro n h he
    cases n with
    | zero =>
      simp only [List.getElem?_cons_zero, Option.some.injEq] at h
      subst h
      exact .cons he (SameEntries.refl t)
    | succ m =>
      simp only [List.getElem?_cons_succ] at h
      exact .cons (SameEntry.refl x) (ih h he)

/-- the `n`-th entry of `info.files` with a key outside `fileKeys` present with any value -/
theorem sameKnown_file {k : String} (hk : k ∉ fileKeys) (v : PyVal) (a info e : Items) (l : List PyVal) (n : Nat)
    (hf : PyVal.lookupStr "files" info = some (.list l)) (he : l[n]? = some (.dict e)) :
    SameKnown
      (Codec.setStr "info" (.dict (Codec.setStr "files" (.list (l.set n (.dict (Codec.setStr k v e)))) info)) a)
      (Codec.setStr "info" (.dict info) a) := by
  refine ⟨⟨fun k' hk' => ?_, fun n => ?_⟩, ?_⟩
  · have hne : k' ≠ "info" := by
      rcases List.mem_cons.1 hk' with rfl | hk'
      · decide
      rcases List.mem_cons.1 hk' with rfl | hk'
      · decide
      rcases List.mem_cons.1 hk' with rfl | hk'
      · decide
      · simp at hk'
    rw [lookupStr_setStr_ne hne, lookupStr_setStr_ne hne]
  · rw [lookupNat_setStr, lookupNat_setStr]
  · rw [lookupStr_setStr_self, lookupStr_setStr_self]
    refine Or.inr ⟨_, _, rfl, rfl, AgreeOn.setStr infoKeys' (by simp [infoKeys']) _ info, ?_⟩
    rw [lookupStr_setStr_self, hf]
    refine Or.inr ⟨_, _, rfl, rfl, SameEntries.set he ?_⟩
    exact Or.inr ⟨_, _, rfl, rfl, AgreeOn.setStr fileKeys hk v e⟩

/-- agreement on all of `topKeys` (in particular an identical `info`) -/
theorem AgreeOn.sameKnown {a b : Items} (h : AgreeOn topKeys a b) : SameKnown a b :=
  ⟨h.mono (by simp [topKeys]), Or.inl (h.1 "info" (by simp [topKeys]))⟩

theorem lookup_info_ensureInfo {a b : Items} (h : PyVal.lookupStr "info" a = PyVal.lookupStr "info" b) :
    PyVal.lookupStr "info" (ensureInfo a) = PyVal.lookupStr "info" (ensureInfo b) := by
  unfold Validate.ensureInfo
  cases ha : PyVal.lookupStr "info" a with
  | some v => rw [ha] at h; simp only [← h, ha]
  | none =>
    rw [ha] at h; simp only [← h]
    rw [lookupStr_append, lookupStr_append, ha, ← h]

/-- the bytes `infohash` hashes do not depend on anything outside `topKeys` at the top level -/
theorem infoBytes_agree (urlOk : Bytes → Bool) (fs : FsOracle) {a b : Items} (h : AgreeOn topKeys a b) :
    infoBytes urlOk fs a = infoBytes urlOk fs b := by
  have hl := lookup_info_ensureInfo (h.1 "info" (by simp [topKeys]))
  have hg : getE (.dict (ensureInfo a)) (.s "info") = getE (.dict (ensureInfo b)) (.s "info") := by
    simp only [getE, Validate.getItem, lookupKey, hl]
  simp only [infoBytes, validate_sameKnown urlOk fs h.sameKnown, hg]

end Torf.UnknownKeys
