/-
  Helper lemmas for `C02_single_flip`: all files good, one byte of the stream changed.
-/
import Torf.Lemmas.VerifySingle
namespace Torf.Verify
open Torf Torf.Missing

variable {α δ : Type} [DecidableEq δ]

/-- on an undamaged disk every piece carries data: the chunks of the disk stream -/
theorem specData_good (L : Nat) (hL : 0 < L) (sizes : List Nat) (disk : List (Option (List α)))
    (hg : AllGood sizes disk = true) :
    specData L sizes disk = (chunks L (diskStream sizes disk)).map some := by
  have hall : ∀ k < sizes.length, fileError sizes disk k = none := by
    intro k hk
    have := List.all_eq_true.mp hg k (List.mem_range.mpr hk)
    simpa using this
  obtain ⟨items, hit, hdata, _, _⟩ :=
    iterItems_spec L hL sizes disk (noBadEmpty_of_good sizes disk hall)
  have := iterItems_all_good L hL sizes disk hg
  rw [hit] at this
  rw [← hdata, Option.some.inj this, List.map_map]
  rfl

/-- changing the byte at `p` leaves every chunk but number `p / L` alone -/
theorem chunks_set_ne (L : Nat) (hL : 0 < L) (xs : List α) (p : Nat) (b : α) (k : Nat)
    (hk : k ≠ p / L) : (chunks L (xs.set p b))[k]? = (chunks L xs)[k]? := by
  rw [getElem?_chunks L hL, getElem?_chunks L hL, List.length_set]
  split
  · congr 1
    apply List.ext_getElem?
    intro t
    rw [List.getElem?_take, List.getElem?_take]
    split
    · rename_i ht
      rw [List.getElem?_drop, List.getElem?_drop]
      apply List.getElem?_set_ne
      intro heq
      apply hk
      symm
      apply Nat.div_eq_of_lt_le
      · omega
      · rw [Nat.succ_mul]; omega
    · rfl
  · rfl

/-- the byte at `p` lies in chunk `p / L` -/
theorem chunk_exists (L : Nat) (hL : 0 < L) (xs : List α) (p : Nat) (hp : p < xs.length) :
    ∃ c, (chunks L xs)[p / L]? = some c := by
  rw [getElem?_chunks L hL]
  have := Nat.div_mul_le_self p L
  rw [if_pos (by omega)]
  exact ⟨_, rfl⟩

/-- **exactly one mismatch**: the piece that holds the changed byte -/
theorem mismatches_flip (H : List α → δ) (L : Nat) (hL : 0 < L) (orig : List (List α))
    (disk : List (Option (List α))) (hg : AllGood (orig.map List.length) disk = true)
    (p : Nat) (b : α) (hp : p < orig.flatten.length)
    (hflip : diskStream (orig.map List.length) disk = orig.flatten.set p b)
    (hsep : ((chunks L (diskStream (orig.map List.length) disk))[p / L]?).map H ≠
      ((chunks L orig.flatten)[p / L]?).map H) :
    mismatches H L (orig.map List.length) disk ((chunks L orig.flatten).map H) = [p / L] := by
  rw [mismatches_eq, specData_good L hL _ disk hg]
  obtain ⟨c, hc⟩ := chunk_exists L hL (diskStream (orig.map List.length) disk) p
    (by rw [hflip, List.length_set]; exact hp)
  apply filterMap_single _ _ (p / L) (some c, p / L) (p / L)
  · rw [List.getElem?_zipIdx, List.getElem?_map, hc]
    simp
  · unfold mmOf
    rw [hc] at hsep
    simp only [Option.map_some] at hsep
    show (if some (H c) = ((chunks L orig.flatten).map H)[p / L]? then none else some (p / L))
      = some (p / L)
    rw [List.getElem?_map, if_neg hsep]
  · intro k x' hk hx'
    rw [List.getElem?_zipIdx, List.getElem?_map] at hx'
    cases hck : (chunks L (diskStream (orig.map List.length) disk))[k]? with
    | none => rw [hck] at hx'; cases hx'
    | some ck =>
      rw [hck] at hx'
      simp only [Option.map_some, Nat.zero_add, Option.some.injEq] at hx'
      subst hx'
      unfold mmOf
      simp only
      rw [List.getElem?_map, ← chunks_set_ne L hL orig.flatten p b k hk, ← hflip, hck]
      simp

/-- the digests differ from the stored ones -/
theorem specOk_flip (H : List α → δ) (L : Nat) (orig : List (List α))
    (disk : List (Option (List α))) (p : Nat)
    (hsep : ((chunks L (diskStream (orig.map List.length) disk))[p / L]?).map H ≠
      ((chunks L orig.flatten)[p / L]?).map H) :
    SpecOk H L (orig.map List.length) disk ((chunks L orig.flatten).map H) = false := by
  unfold SpecOk
  rw [Bool.and_eq_false_iff]
  right
  rw [beq_eq_false_iff_ne]
  intro heq
  apply hsep
  rw [← List.getElem?_map, ← List.getElem?_map, heq]

/-! ### the file that owns a stream position -/

theorem owner_overlaps (L : Nat) (hL : 0 < L) (sizes : List Nat) (j p : Nat)
    (h1 : pos sizes j ≤ p) (h2 : p < pos sizes j + Missing.sizeOf sizes j) :
    overlaps L sizes j (p / L) = true := by
  unfold overlaps
  have hle := Nat.div_mul_le_self p L
  have hlt : p < (p / L + 1) * L := by
    have := Nat.lt_div_mul_add (a := p) hL
    rw [Nat.succ_mul]; omega
  simp only [Bool.and_eq_true, decide_eq_true_eq]
  exact ⟨⟨by omega, by omega⟩, by omega⟩

theorem exists_owner (sizes : List Nat) (p : Nat) (hp : p < sizes.sum) :
    ∃ j, j < sizes.length ∧ pos sizes j ≤ p ∧ p < pos sizes j + Missing.sizeOf sizes j := by
  have key : ∀ n, n ≤ sizes.length → p < pos sizes n →
      ∃ j, j < n ∧ pos sizes j ≤ p ∧ p < pos sizes j + Missing.sizeOf sizes j := by
    intro n
    induction n with
    | zero => intro _ h; rw [pos_zero] at h; omega
    | succ n ih =>
      intro hn h
      by_cases hlt : p < pos sizes n
      · obtain ⟨j, hj, h1, h2⟩ := ih (by omega) hlt
        exact ⟨j, by omega, h1, h2⟩
      · rw [pos_succ] at h
        exact ⟨n, by omega, by omega, h⟩
  obtain ⟨j, hj, h⟩ := key sizes.length (Nat.le_refl _) (by rw [pos_length]; exact hp)
  exact ⟨j, hj, h⟩

end Torf.Verify
