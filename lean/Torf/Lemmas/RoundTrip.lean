/-
  The `read_stream` pipeline after parsing (`decodeTop`, creation-date setter, private setter,
  `metainfo` property) keeps the decoded metainfo an entry-wise representation (`Rep`) of the
  parsed canonical document, under the round-trip hypotheses of C05.
-/
import Torf.Lemmas.EncDec
import Torf.Lemmas.Span
namespace Torf.ReadStream
open Torf Torf.Bencode Torf.Codec

/-- the body of `read` once flatbencode has returned the dict `enc` -/
def readDict (env : Env) (enc : List (Bytes × BVal)) (validate : Bool) :
    Except Err (List (PyVal × PyVal)) :=
  let md := decodeTop enc
  match assertInfo md validate with
  | .error e => .error e
  | .ok () =>
    let md1 : Except Err (List (PyVal × PyVal)) :=
      match lookup kCreationDate enc with
      | some cd => setCreationDate env cd md
      | none => .ok md
    match md1 with
    | .error e => .error e
    | .ok md1 =>
      let md2 := ensureInfo (setPrivate enc md1)
      if validate && !env.validate (.dict md2) then .error .metainfo else .ok md2

theorem read_eq (env : Env) (bs : Bytes) (validate : Bool) :
    read env bs validate =
      if bs.length > env.maxSize then .error .value else
      match parse env.lim bs with
      | none => .error .bdecode
      | some (.dict enc) => readDict env enc validate
      | some _ => .error .bdecode := by
  unfold read readDict
  rfl

theorem kInfo_eq : utf8Enc "info" = kInfo := by decide
theorem kPieces_eq : utf8Enc "pieces" = kPieces := by decide
theorem kPrivate_eq : utf8Enc "private" = kPrivate := by decide
theorem kCreationDate_eq : utf8Enc "creation date" = kCreationDate := by decide

theorem ensureInfo_of_lookup {md : List (PyVal × PyVal)} {m : PyVal}
    (h : PyVal.lookupStr "info" md = some m) : ensureInfo md = md := by
  simp [ensureInfo, h]

theorem lookupStr_ensureInfo (md : List (PyVal × PyVal)) :
    ∃ m, PyVal.lookupStr "info" (ensureInfo md) = some m := by
  unfold ensureInfo
  cases h : PyVal.lookupStr "info" md with
  | some m => exact ⟨m, h⟩
  | none =>
    refine ⟨.dict [], ?_⟩
    simp only
    induction md with
    | nil => simp [PyVal.lookupStr]
    | cons p t ih =>
      obtain ⟨k, v⟩ := p
      cases k <;> simp only [PyVal.lookupStr, List.cons_append] at h ⊢ <;> try exact ih h
      split at h
      · exact absurd h (by simp)
      · rename_i hk; simp only [hk, if_false]; exact ih h

theorem ensureInfo_idem (md : List (PyVal × PyVal)) : ensureInfo (ensureInfo md) = ensureInfo md := by
  obtain ⟨m, hm⟩ := lookupStr_ensureInfo md
  exact ensureInfo_of_lookup hm

/-- `metainfo['info'][k] = m` on a represented metainfo: the `info` entry's encoding becomes the
    key-sorted `ikvs` as soon as the updated inner entries are a rearrangement of `ikvs` -/
theorem rep_setInInfo {md : List (PyVal × PyVal)} {enc0 ikvs0 ikvs : List (Bytes × BVal)}
    (k : String) {m : PyVal} {w : BVal}
    (h : Rep md enc0) (hl : lookup kInfo enc0 = some (.dict ikvs0)) (hm : encodeValue m = .ok w)
    (ha : keysAsc (ikvs.map (·.1)) = true)
    (hperm : ∀ l : List (Bytes × BVal), l.Perm ikvs0 → (dictSet (utf8Enc k) w l).Perm ikvs) :
    Rep (setInInfo k m md) (dictSet kInfo (.dict ikvs) enc0) := by
  rw [← kInfo_eq] at hl ⊢
  obtain ⟨mi, hmi, hemi⟩ := h.lookup "info" hl
  obtain ⟨D, l, rfl, hD, hp⟩ := encodeValue_dict_inv hemi
  simp only [setInInfo, hmi]
  have henc := encodeValue_dict_of_rep (hD.setStr k hm) (hperm l hp) ha
  exact h.setStr "info" henc

theorem mem_dictSet {k : Bytes} {w : BVal} {p : Bytes × BVal} : ∀ {l : List (Bytes × BVal)},
    p ∈ dictSet k w l → p ∈ l ∨ p = (k, w)
  | [], h => by simp [dictSet] at h; exact Or.inr h
  | (k', v') :: t, h => by
    simp only [dictSet] at h
    by_cases hk : k' = k
    · subst hk
      simp only [beq_self_eq_true, if_true, List.mem_cons] at h
      rcases h with h | h
      · exact Or.inr h
      · exact Or.inl (List.mem_cons_of_mem _ h)
    · have : (k' == k) = false := by simp [hk]
      simp only [this, Bool.false_eq_true, if_false, List.mem_cons] at h
      rcases h with h | h
      · exact Or.inl (h ▸ List.mem_cons_self)
      · rcases mem_dictSet h with h | h
        · exact Or.inl (List.mem_cons_of_mem _ h)
        · exact Or.inr h

theorem canon_erase (k : Bytes) (ikvs : List (Bytes × BVal)) (h : canon (.dict ikvs) = true) :
    canon (.dict (erase k ikvs)) = true := by
  simp only [canon, Bool.and_eq_true] at h ⊢
  have hs := erase_sublist k ikvs
  refine ⟨pairwise_keysAsc _ ((keysAsc_pairwise _ h.1).sublist (hs.map _)), ?_⟩
  rw [canonKvs_iff] at h ⊢
  exact fun p hp => h.2 p (hs.subset hp)

theorem utf8Keys_erase (k : Bytes) (ikvs : List (Bytes × BVal)) (h : utf8KeysKvs ikvs = true) :
    utf8KeysKvs (erase k ikvs) = true := by
  rw [utf8KeysKvs_iff] at h ⊢
  exact fun p hp => h p ((erase_sublist k ikvs).subset hp)

/-- lines 1625-1634 (pop `pieces`, decode, restore it raw): still a representation of `enc` -/
theorem rep_decodeTop (enc : List (Bytes × BVal)) (hc : canon (.dict enc) = true)
    (hu : utf8KeysKvs enc = true) (hpieces : PiecesOk enc) : Rep (decodeTop enc) enc := by
  simp only [canon, Bool.and_eq_true] at hc
  have hplain := enc_decKvs enc hc.2 hu
  unfold decodeTop
  split
  · rename_i ikvs hl
    split
    · rename_i p hp
      obtain ⟨b, rfl⟩ := hpieces ikvs p hl hp
      have hmem := mem_of_lookup hl
      have hci : canon (.dict ikvs) = true := (canonKvs_iff enc).mp hc.2 _ hmem
      have hui := (utf8KeysKvs_iff enc).mp hu _ hmem
      have hci' := hci
      simp only [canon, Bool.and_eq_true] at hci'
      -- the document with `pieces` removed from `info`
      have hc' : canonKvs (dictSet kInfo (.dict (erase kPieces ikvs)) enc) = true := by
        rw [canonKvs_iff]
        intro q hq
        rcases mem_dictSet hq with hq | rfl
        · exact (canonKvs_iff enc).mp hc.2 q hq
        · exact canon_erase _ _ hci
      have hu' : utf8KeysKvs (dictSet kInfo (.dict (erase kPieces ikvs)) enc) = true := by
        rw [utf8KeysKvs_iff]
        intro q hq
        rcases mem_dictSet hq with hq | rfl
        · exact (utf8KeysKvs_iff enc).mp hu q hq
        · exact ⟨hui.1, by simpa [utf8Keys] using utf8Keys_erase kPieces ikvs (by simpa [utf8Keys] using hui.2)⟩
      have hrep := enc_decKvs _ hc' hu'
      have := rep_setInInfo (ikvs := ikvs) "pieces" (m := .bytes b) (w := .bytes b) hrep
        (lookup_dictSet enc) rfl hci'.1 (by
          intro l hpl
          rw [kPieces_eq]
          have hnot : kPieces ∉ l.map (·.1) := by
            intro hin
            exact not_mem_keys_erase ikvs (keysAsc_nodup _ hci'.1) ((hpl.map (·.1)).subset hin)
          rw [dictSet_fresh _ _ _ hnot]
          exact (List.perm_append_comm.trans (hpl.cons _)).trans (erase_perm hp))
      rw [dictSet_dictSet, dictSet_of_lookup hl] at this
      simpa [raw] using this
    · exact hplain
  · exact hplain

theorem encode_bool_truthy {pv : BVal} (h : pv = .int 0 ∨ pv = .int 1) :
    encodeValue (.bool (truthy pv)) = .ok pv := by
  rcases h with rfl | rfl <;> rfl

/-- the `private` setter keeps the representation when `private` is 0/1 -/
theorem rep_setPrivate {md : List (PyVal × PyVal)} {enc ikvs : List (Bytes × BVal)}
    (h : Rep md enc) (hl : lookup kInfo enc = some (.dict ikvs))
    (hci : canon (.dict ikvs) = true) (hpriv : PrivateOk enc) : Rep (setPrivate enc md) enc := by
  simp only [canon, Bool.and_eq_true] at hci
  simp only [setPrivate, hl]
  split
  · rename_i pv hpv
    obtain ⟨mi, hmi, _⟩ := h.lookup "info" (kInfo_eq ▸ hl)
    rw [ensureInfo_of_lookup hmi]
    have := rep_setInInfo (ikvs := ikvs) "private" h hl (encode_bool_truthy (hpriv ikvs pv hl hpv))
      hci.1 (by
        intro l hpl
        rw [kPrivate_eq]
        have hn : (l.map (·.1)).Nodup := (hpl.map (·.1)).nodup_iff.mpr (keysAsc_nodup _ hci.1)
        have hm : (kPrivate, pv) ∈ l := hpl.symm.subset (mem_of_lookup hpv)
        rw [dictSet_of_lookup (lookup_of_mem kPrivate pv l hn hm)]
        exact hpl)
    rwa [dictSet_of_lookup hl] at this
  · exact h

/-- the `creation_date` setter keeps the representation when the date is representable -/
theorem rep_setCreationDate {env : Env} {md md1 : List (PyVal × PyVal)} {enc : List (Bytes × BVal)}
    {cd mi : BVal}
    (h : Rep md enc) (hli : lookup kInfo enc = some mi) (hcd : lookup kCreationDate enc = some cd)
    (hdate : DateOk env enc) (hs : setCreationDate env cd md = .ok md1) : Rep md1 enc := by
  obtain ⟨i, rfl, hts⟩ := hdate cd hcd
  obtain ⟨m, hm, _⟩ := h.lookup "info" (kInfo_eq ▸ hli)
  simp only [setCreationDate, hts, Except.ok.injEq, ensureInfo_of_lookup hm] at hs
  subst hs
  have := h.setStr "creation date" (m := .datetime (some i)) (w := .int i) rfl
  rwa [kCreationDate_eq, dictSet_of_lookup hcd] at this

/-- **Core of C05**: whatever `read_stream` builds from a canonical document under the
    round-trip hypotheses is a representation of that document, so `encode_dict` of it gives the
    document back exactly. -/
theorem readDict_rep (env : Env) (enc : List (Bytes × BVal)) (validate : Bool)
    (t : List (PyVal × PyVal))
    (hc : canon (.dict enc) = true) (hu : utf8Keys (.dict enc) = true)
    (hpieces : PiecesOk enc) (hpriv : PrivateOk enc) (hdate : DateOk env enc)
    (hinfo : validate = true ∨ (lookup kInfo enc).isSome = true)
    (hr : readDict env enc validate = .ok t) :
    Rep t enc ∧ ensureInfo t = t ∧ (validate && !env.validate (.dict t)) = false := by
  have hu' : utf8KeysKvs enc = true := by simpa [utf8Keys] using hu
  have hrep := rep_decodeTop enc hc hu' hpieces
  have hc' := hc
  simp only [canon, Bool.and_eq_true] at hc'
  unfold readDict at hr
  simp only at hr
  split at hr
  · exact absurd hr (by simp)
  · rename_i hassert
    -- `info` is present and a dict
    have hinfo' : ∃ ikvs, lookup kInfo enc = some (.dict ikvs) := by
      unfold assertInfo at hassert
      split at hassert
      · rename_i hnone
        have hn := hrep.lookupStr_none "info" hnone
        rw [kInfo_eq] at hn
        rcases hinfo with hv | hs
        · simp [hv] at hassert
        · simp [hn] at hs
      · rename_i D hD
        obtain ⟨w, hw, hew⟩ := hrep.lookupStr "info" hD
        rw [kInfo_eq] at hw
        simp only [encodeValue] at hew
        split at hew
        · simp only [Except.ok.injEq] at hew; exact ⟨_, hew ▸ hw⟩
        · exact absurd hew (by simp)
      · exact absurd hassert (by simp)
    obtain ⟨ikvs, hl⟩ := hinfo'
    have hci : canon (.dict ikvs) = true := (canonKvs_iff enc).mp hc'.2 _ (mem_of_lookup hl)
    split at hr
    · exact absurd hr (by simp)
    · rename_i md1 hmd1
      have hrep1 : Rep md1 enc := by
        split at hmd1
        · rename_i cd hcd
          exact rep_setCreationDate hrep hl hcd hdate hmd1
        · simp only [Except.ok.injEq] at hmd1; exact hmd1 ▸ hrep
      have hrep2 := rep_setPrivate hrep1 hl hci hpriv
      obtain ⟨mi, hmi, _⟩ := hrep2.lookup "info" (kInfo_eq ▸ hl)
      rw [ensureInfo_of_lookup hmi] at hr
      split at hr
      · exact absurd hr (by simp)
      · rename_i hval
        simp only [Except.ok.injEq] at hr
        subst hr
        exact ⟨hrep2, ensureInfo_of_lookup hmi, by simpa using hval⟩

end Torf.ReadStream
