/-
  Torf.Lemmas.PipelineFair — termination under a fair scheduler: there is no infinite execution
  in which every thread that stays enabled is scheduled again and again (weak fairness, "justice").
  Proof: progress steps are bounded (PipelineMeasure), so an infinite execution has a suffix of
  idle steps with a constant core state; the only idle steps of main, reader and hashers leave
  the state unchanged; by deadlock freedom some thread has a progress step there; if it is not
  the janitor the step stays enabled (PipelineCore) and justice schedules it; if it is the
  janitor, justice lets it finish its bounded polling round, after which it takes its progress
  step — contradiction.
-/
import Torf.Lemmas.PipelineCore
import Torf.Lemmas.PipelineLive
namespace Torf.Pipeline

/-- an infinite execution: states and the labels between them -/
structure Exec (cfg : Cfg) where
  st : Nat → State
  lab : Nat → Label
  start : st 0 = init cfg
  next : ∀ n, step cfg (st n) (lab n) = some (st (n + 1))

/-- thread `t` can take a step in `s` -/
def enabled (cfg : Cfg) (s : State) (t : Tid) : Prop := ∃ b s', step cfg s ⟨t, b⟩ = some s'

/-- weak fairness: no thread stays enabled forever without being scheduled -/
def Exec.Fair {cfg : Cfg} (e : Exec cfg) : Prop :=
  ∀ (t : Tid) (n : Nat), ∃ m, n ≤ m ∧ ((e.lab m).tid = t ∨ ¬ enabled cfg (e.st m) t)

namespace Exec
variable {cfg : Cfg} (e : Exec cfg)

theorem reachable (n : Nat) : Reachable cfg (e.st n) := by
  induction n with
  | zero => rw [e.start]; exact Reachable.init cfg
  | succ n ih => exact ih.step (e.next n)

theorem mu_succ (hrf : cfg.refuse = []) (n : Nat) :
    mu cfg (e.st (n + 1)) + (if isProgress (e.st n) (e.st (n + 1)) then 1 else 0) ≤ mu cfg (e.st n) :=
  mu_progress hrf (Inv.of_reachable hrf (e.reachable n)) (e.next n)

theorem mu_le (hrf : cfg.refuse = []) (n d : Nat) : mu cfg (e.st (n + d)) ≤ mu cfg (e.st n) := by
  induction d with
  | zero => exact Nat.le_refl _
  | succ d ih =>
    have := e.mu_succ hrf (n + d)
    rw [← Nat.add_assoc]
    omega

/-- from some point on there are only idle steps -/
theorem eventually_idle (hrf : cfg.refuse = []) :
    ∃ n₀, ∀ n, n₀ ≤ n → isProgress (e.st n) (e.st (n + 1)) = false := by
  suffices ∀ k n, mu cfg (e.st n) ≤ k → ∃ n₀, ∀ m, n₀ ≤ m → isProgress (e.st m) (e.st (m + 1)) = false from
    this _ 0 (Nat.le_refl _)
  intro k
  induction k with
  | zero =>
    intro n hk
    refine ⟨n, fun m hm => ?_⟩
    obtain ⟨d, rfl⟩ := Nat.exists_eq_add_of_le hm
    have h1 := e.mu_le hrf n d
    have h2 := e.mu_succ hrf (n + d)
    cases hp : isProgress (e.st (n + d)) (e.st (n + d + 1)) with
    | false => rfl
    | true => rw [hp] at h2; simp at h2; omega
  | succ k ih =>
    intro n hk
    by_cases hex : ∃ m, n ≤ m ∧ isProgress (e.st m) (e.st (m + 1)) = true
    · obtain ⟨m, hm, hp⟩ := hex
      obtain ⟨d, rfl⟩ := Nat.exists_eq_add_of_le hm
      have h1 := e.mu_le hrf n d
      have h2 := e.mu_succ hrf (n + d)
      rw [hp] at h2
      simp only [↓reduceIte] at h2
      exact ih (n + d + 1) (by omega)
    · refine ⟨n, fun m hm => ?_⟩
      cases hp : isProgress (e.st m) (e.st (m + 1)) with
      | false => rfl
      | true => exact absurd ⟨m, hm, hp⟩ hex

end Exec

/-- a step of main, the reader or a hasher decreases the measure or changes nothing -/
theorem mu_nonjanitor {cfg : Cfg} {s s' : State} {l : Label} (hrf : cfg.refuse = []) (h : Inv cfg s)
    (hl : l.tid ≠ .janitor) (hs : step cfg s l = some s') : mu cfg s' < mu cfg s ∨ s' = s := by
  unfold step at hs
  split at hs
  · split at hs
    · simp at hs
    · exact Or.inl (mu_main h (.of_step hrf h.a hs))
  · split at hs
    · simp at hs
    · exact Or.inl (mu_reader h.a (.of_step hs))
  · exact mu_hasher (.of_step hs)
  · rename_i hj; exact absurd hj hl

/-- the janitor's timeout alternative is never a progress step -/
theorem janitor_timeout_idle {cfg : Cfg} {s s' : State} (hs : step cfg s ⟨.janitor, true⟩ = some s') :
    isProgress s s' = false := by
  have hc : core s' = core s := by
    cases hj : s.jan with
    | waiting =>
      simp only [step, stepJanitor, hj] at hs
      split at hs
      · simp at hs
      · simp only [↓reduceIte, Option.some.injEq] at hs
        subst hs
        rw [enterPrune_eq]
        rcases prunePc_cases s.tracked with ⟨_, h⟩ | ⟨_, h⟩ <;> simp [core, h, hj, coreJan]
    | prune l => cases l <;> simp [step, stepJanitor, hj] at hs
    | spin l => cases l <;> simp [step, stepJanitor, hj] at hs
    | _ => simp [step, stepJanitor, hj] at hs
  simp [isProgress, hc]

/-- when main has returned nothing is enabled any more -/
theorem no_step_of_terminal {cfg : Cfg} {s : State} (h : Inv cfg s) (ht : terminal s = true)
    (l : Label) : step cfg s l = none := by
  unfold terminal at ht
  split at ht
  · rename_i r hm
    have hj := h.b3.m5 r hm
    have hr := h.b1.rjoined (by simp [hm, postReaderJoin])
    have hh := h.b3.jc2 (Or.inr hj)
    unfold step
    split
    · split
      · rfl
      · simp [stepMain, hm]
    · split
      · rfl
      · simp [stepReader, hr]
    · rename_i i _
      unfold stepHasher
      cases hi : s.hs[i]? with
      | none => rfl
      | some p =>
        have := hh i p hi
        cases p <;> simp_all [HPc.running]
    · simp [stepJanitor, hj]
  · simp at ht

/-! ### the idle suffix -/

namespace Exec
variable {cfg : Cfg} (e : Exec cfg)

/-- in the idle suffix a step of main, the reader or a hasher changes nothing -/
theorem idle_noop (hrf : cfg.refuse = []) {n : Nat}
    (hidle : isProgress (e.st n) (e.st (n + 1)) = false) (hl : (e.lab n).tid ≠ .janitor) :
    e.st (n + 1) = e.st n := by
  have hi := Inv.of_reachable hrf (e.reachable n)
  have h1 := e.mu_succ hrf n
  have hc : core (e.st n) = core (e.st (n + 1)) := by simpa [isProgress] using hidle
  have hmu : mu cfg (e.st (n + 1)) = mu cfg (e.st n) := by
    rw [← mu_core cfg (e.st (n + 1)), ← hc, mu_core]
  rcases mu_nonjanitor hrf hi hl (e.next n) with h | h
  · omega
  · exact h

/-- the core state is constant in the idle suffix -/
theorem idle_core {n₀ : Nat} (hidle : ∀ n, n₀ ≤ n → isProgress (e.st n) (e.st (n + 1)) = false)
    (d : Nat) : core (e.st (n₀ + d)) = core (e.st n₀) := by
  induction d with
  | zero => rfl
  | succ d ih =>
    have := hidle (n₀ + d) (Nat.le_add_right _ _)
    simp only [isProgress, decide_eq_false_iff_not, Decidable.not_not] at this
    rw [← Nat.add_assoc, ← this, ih]

/-- the janitor, scheduled fairly in the idle suffix, would reach a progress step -/
theorem janitor_chain (hrf : cfg.refuse = []) (hfair : e.Fair) {n₀ : Nat}
    (hidle : ∀ n, n₀ ≤ n → isProgress (e.st n) (e.st (n + 1)) = false) :
    ∀ (f m : Nat), n₀ ≤ m → janitorReachesProgress cfg (e.st m) f = true → False := by
  intro f
  induction f with
  | zero => intro m _ h; simp [janitorReachesProgress] at h
  | succ f ihf =>
    -- the janitor is scheduled at `m`
    have sched : ∀ m, n₀ ≤ m → janitorReachesProgress cfg (e.st m) (f + 1) = true →
        (e.lab m).tid = .janitor → False := by
      intro m hm hj ht
      unfold janitorReachesProgress at hj
      split at hj
      · simp at hj
      · rename_i s₁ hs₁
        have hn := e.next m
        have hlab : e.lab m = ⟨.janitor, (e.lab m).timeout⟩ := by
          cases hl : e.lab m; simp_all
        rw [hlab] at hn
        have hb := label_unique hn hs₁
        rw [hb, hs₁] at hn
        simp only [Option.some.injEq] at hn
        subst hn
        have hid := hidle m hm
        rw [hid] at hj
        exact ihf (m + 1) (by omega) (by simpa using hj)
    -- wait for the next time the janitor is scheduled
    have wait : ∀ (d m : Nat), n₀ ≤ m → janitorReachesProgress cfg (e.st m) (f + 1) = true →
        ((e.lab (m + d)).tid = .janitor ∨ ¬ enabled cfg (e.st (m + d)) .janitor) → False := by
      intro d
      induction d with
      | zero =>
        intro m hm hj hs
        rcases hs with hs | hs
        · exact sched m hm hj hs
        · apply hs
          unfold janitorReachesProgress at hj
          split at hj
          · simp at hj
          · rename_i s₁ hs₁; exact ⟨false, s₁, hs₁⟩
      | succ d ihd =>
        intro m hm hj hs
        by_cases ht : (e.lab m).tid = .janitor
        · exact sched m hm hj ht
        · have hno := e.idle_noop hrf (hidle m hm) ht
          refine ihd (m + 1) (by omega) (by rw [hno]; exact hj) ?_
          rw [Nat.add_assoc, Nat.add_comm 1 d]; exact hs
    intro m hm hj
    obtain ⟨m', hm', hs⟩ := hfair .janitor m
    obtain ⟨d, rfl⟩ := Nat.exists_eq_add_of_le hm'
    exact wait d m hm hj hs

/-- Termination: no infinite execution is fair. -/
theorem not_fair (hwf : wf cfg = true) (hrf : cfg.refuse = []) (hfair : e.Fair) : False := by
  obtain ⟨n₀, hidle⟩ := e.eventually_idle hrf
  have hi := Inv.of_reachable hrf (e.reachable n₀)
  cases ht : terminal (e.st n₀) with
  | true =>
    have := e.next n₀
    rw [no_step_of_terminal hi ht] at this
    simp at this
  | false =>
    have hcp := hi.deadlock_free hwf hrf ht
    unfold canProgress at hcp
    simp only [Bool.or_eq_true, List.any_eq_true] at hcp
    rcases hcp with ⟨l, _, hl⟩ | hj
    · -- a label with a progress step
      cases hs : step cfg (e.st n₀) l with
      | none => simp [hs] at hl
      | some s' =>
        simp only [hs] at hl
        by_cases hjan : l.tid = .janitor
        · -- the janitor itself: covered by `janitor_chain` with one step
          have hlab : l = ⟨.janitor, l.timeout⟩ := by cases l; simp_all
          cases hb : l.timeout with
          | true =>
            rw [hlab, hb] at hs
            rw [janitor_timeout_idle hs] at hl
            simp at hl
          | false =>
            rw [hlab, hb] at hs
            refine e.janitor_chain hrf hfair hidle 1 n₀ (Nat.le_refl _) ?_
            simp [janitorReachesProgress, hs, hl]
        · -- another thread: its progress step stays enabled, justice schedules it
          have hstay : ∀ d, ∃ t', step cfg (e.st (n₀ + d)) l = some t' ∧ core t' = core s' := by
            intro d
            exact step_of_core_eq hjan (e.idle_core hidle d).symm hs
          obtain ⟨m, hm, hsch⟩ := hfair l.tid n₀
          obtain ⟨d, rfl⟩ := Nat.exists_eq_add_of_le hm
          obtain ⟨t', ht', hct'⟩ := hstay d
          rcases hsch with hsch | hsch
          · have hn := e.next (n₀ + d)
            have hlab : e.lab (n₀ + d) = ⟨l.tid, (e.lab (n₀ + d)).timeout⟩ := by
              cases hl' : e.lab (n₀ + d); simp_all
            have hl2 : l = ⟨l.tid, l.timeout⟩ := by cases l; rfl
            rw [hlab] at hn
            rw [hl2] at ht'
            have hb := label_unique hn ht'
            rw [hb, ht'] at hn
            simp only [Option.some.injEq] at hn
            have hid := hidle (n₀ + d) (Nat.le_add_right _ _)
            simp only [isProgress, decide_eq_false_iff_not, Decidable.not_not] at hid
            have hp : core (e.st n₀) ≠ core s' := by simpa [isProgress] using hl
            apply hp
            rw [← hct', hn, ← hid, e.idle_core hidle d]
          · apply hsch
            have hl2 : l = ⟨l.tid, l.timeout⟩ := by cases l; rfl
            rw [hl2] at ht'
            exact ⟨_, _, ht'⟩
    · exact e.janitor_chain hrf hfair hidle _ n₀ (Nat.le_refl _) hj

end Exec

end Torf.Pipeline
