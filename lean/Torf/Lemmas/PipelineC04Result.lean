/-
  Torf.Lemmas.PipelineC04Result — what a returned result can contain (C04, every configuration):
  the collector's list is the hashed part of `seen`, `seen` is a duplicate-free part of the pieces
  pushed; so a returned result is a duplicate-free list of hashable pieces, never longer than the
  list of all hashable pieces, and equal to it (after sorting) when it has that length.
-/
import Torf.Lemmas.PipelineC04Inv
namespace Torf.Pipeline

theorem length_le_of_nodup_subset : ∀ {l₁ l₂ : List Nat}, l₁.Nodup → (∀ x ∈ l₁, x ∈ l₂) →
    l₁.length ≤ l₂.length
  | [], _, _, _ => Nat.zero_le _
  | a :: t, l₂, hn, hs => by
    have ha : a ∈ l₂ := hs a (by simp)
    have hn' := List.nodup_cons.1 hn
    have ht : ∀ x ∈ t, x ∈ l₂.erase a := by
      intro x hx
      have hne : x ≠ a := fun h => hn'.1 (h ▸ hx)
      exact (List.mem_erase_of_ne hne).2 (hs x (List.mem_cons_of_mem _ hx))
    have ih := length_le_of_nodup_subset hn'.2 ht
    have hl := List.length_erase_of_mem ha
    have hpos := List.length_pos_of_mem ha
    simp only [List.length_cons]
    omega

theorem perm_of_nodup_subset_length : ∀ {l₁ l₂ : List Nat}, l₁.Nodup → (∀ x ∈ l₁, x ∈ l₂) →
    l₂.length ≤ l₁.length → l₁.Perm l₂
  | [], l₂, _, _, hl => by
    have : l₂ = [] := List.eq_nil_of_length_eq_zero (by simpa using hl)
    subst this; exact .nil
  | a :: t, l₂, hn, hs, hl => by
    have ha : a ∈ l₂ := hs a (by simp)
    have hn' := List.nodup_cons.1 hn
    have ht : ∀ x ∈ t, x ∈ l₂.erase a := by
      intro x hx
      have hne : x ≠ a := fun h => hn'.1 (h ▸ hx)
      exact (List.mem_erase_of_ne hne).2 (hs x (List.mem_cons_of_mem _ hx))
    have hle := List.length_erase_of_mem ha
    have hpos := List.length_pos_of_mem ha
    have ih := perm_of_nodup_subset_length hn'.2 ht (by simp only [List.length_cons] at hl; omega)
    exact (ih.cons a).trans (List.perm_cons_erase ha).symm

theorem pairwise_le_hashedItems (cfg : Cfg) : (hashedItems cfg).Pairwise (fun a b => a ≤ b) := by
  rw [hashedItems_eq]; exact (pairwise_le_range _).filter _

theorem mem_hashedItems {cfg : Cfg} {k : Nat} :
    k ∈ hashedItems cfg ↔ k < cfg.items.length ∧ isHashed cfg k = true := by
  rw [hashedItems_eq]; simp

theorem InvA.seen_nodup {cfg : Cfg} {s : State} (h : InvA cfg s) : s.seen.Nodup := by
  have := h.nodup
  rw [inFlight_def, List.append_assoc, List.append_assoc] at this
  exact (List.nodup_append.1 this).1

theorem InvA.seen_lt {cfg : Cfg} {s : State} (h : InvA cfg s) {k : Nat} (hk : k ∈ s.seen) :
    k < cfg.items.length :=
  h.lt (by rw [inFlight_def]; simp [hk])

/-- the collector's list: distinct hashable pieces; complete as soon as the count is right -/
theorem InvA.collected_sound {cfg : Cfg} {s : State} (h : InvA cfg s) :
    s.collected.Nodup ∧ (∀ k ∈ s.collected, k ∈ hashedItems cfg) ∧
    s.collected.length ≤ (hashedItems cfg).length ∧
    (s.collected.length = (hashedItems cfg).length →
      s.collected.mergeSort (fun a b => decide (a ≤ b)) = hashedItems cfg) := by
  have hnd : s.collected.Nodup := by rw [h.coll]; exact h.seen_nodup.filter _
  have hsub : ∀ k ∈ s.collected, k ∈ hashedItems cfg := by
    intro k hk
    rw [h.coll, List.mem_filter] at hk
    exact mem_hashedItems.2 ⟨h.seen_lt hk.1, hk.2⟩
  refine ⟨hnd, hsub, length_le_of_nodup_subset hnd hsub, ?_⟩
  intro hl
  exact mergeSort_eq_of_perm_sorted (perm_of_nodup_subset_length hnd hsub (by omega))
    (pairwise_le_hashedItems cfg)

end Torf.Pipeline
