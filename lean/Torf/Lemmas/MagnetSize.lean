/-
  Helper lemmas for the size clauses of C13: the number of `key=value` fields of a rendered link,
  a parser with a field limit, magnets with arbitrarily many trackers.
-/
import Torf.Lemmas.MagnetUri
namespace Torf.Magnet

theorem count_intercalate (sep : Char) (ps : List Str) (hne : ps ≠ [])
    (h : ∀ p ∈ ps, sep ∉ p) : (intercalateStr [sep] ps).count sep = ps.length - 1 := by
  induction ps with
  | nil => exact absurd rfl hne
  | cons p t ih =>
    have hp : p.count sep = 0 := List.count_eq_zero.mpr (h p (by simp))
    cases t with
    | nil => simp [intercalateStr, hp]
    | cons q t' =>
      have := ih (by simp) (fun x hx => h x (by simp [hx]))
      simp only [intercalateStr, List.count_append, hp, this, List.length_cons]
      simp; omega

theorem intercalate_pieces_ne_nil (ps : List Str) (hne : ps ≠ []) (h : ∀ p ∈ ps, p ≠ []) :
    intercalateStr ['&'] ps ≠ [] := intercalate_ne_nil _ ps h hne

theorem epsOf_length (m : MagnetObj) : (epsOf m).length = fieldCount m := by
  unfold epsOf fieldCount
  cases m.dn <;> cases m.xl <;> cases m.xs <;> by_cases hk : m.kt.isEmpty = true <;>
    simp [hk] <;> omega

/-- the rendered query of a well-formed magnet has exactly `fieldCount m` fields -/
theorem numFields_query (isUrl : Str → Bool) (m : MagnetObj) (h : WF isUrl m = true) :
    numFields (intercalateStr ['&'] (pieces m)) = fieldCount m := by
  have hwf := h
  simp only [WF, Bool.and_eq_true, Option.isNone_iff_eq_none, List.isEmpty_iff] at h
  have has : m.as_ = none := h.1.1.1.1.2
  have hx : m.x = [] := h.2
  have hg := epsOf_good isUrl m hwf
  rw [pieces_eq m has hx]
  have hnoamp : ∀ p ∈ (epsOf m).map (fun e => kv e.k e.enc), '&' ∉ p := by
    intro p hp
    obtain ⟨e, he, rfl⟩ := List.mem_map.mp hp
    obtain ⟨h1, _, h3, _⟩ := (hg e he).1
    unfold kv
    simp only [List.mem_append, List.mem_cons, not_or]
    exact ⟨h1, by decide, h3⟩
  have hne : (epsOf m).map (fun e => kv e.k e.enc) ≠ [] := by simpa using epsOf_ne_nil m
  have hq : intercalateStr ['&'] ((epsOf m).map (fun e => kv e.k e.enc)) ≠ [] := by
    apply intercalate_ne_nil _ _ _ hne
    intro p hp
    obtain ⟨e, _, rfl⟩ := List.mem_map.mp hp
    unfold kv; simp
  unfold numFields
  have hq' : (intercalateStr ['&'] ((epsOf m).map (fun e => kv e.k e.enc))).isEmpty = false := by
    cases hh : intercalateStr ['&'] ((epsOf m).map (fun e => kv e.k e.enc)) with
    | nil => exact absurd hh hq
    | cons _ _ => rfl
  rw [hq', count_intercalate '&' _ hne hnoamp, List.length_map, epsOf_length]
  have : 1 ≤ fieldCount m := by unfold fieldCount; omega
  simp only [Bool.false_eq_true, if_false]
  omega

theorem fromStringMax_none (isUrl : Str → Bool) (intO : Str → IntResult) (uri : Str) :
    fromStringMax none isUrl intO uri = fromString isUrl intO uri := by
  unfold fromStringMax fromString
  cases urlparseMagnet (pyStrip uri) with
  | none => rfl
  | some p => obtain ⟨scheme, query⟩ := p; simp

/-- a parser with a field limit on the link of a well-formed magnet: MagnetError exactly when the
    magnet has more fields than the limit -/
theorem fromStringMax_render (isUrl : Str → Bool) (intO : Str → IntResult) (m : MagnetObj)
    (h : WF isUrl m = true) (n : Nat) :
    fromStringMax (some n) isUrl intO (render m) =
      if n < fieldCount m then .err .magnet else .ok m := by
  obtain ⟨h1, h2⟩ := query_parse isUrl m h
  unfold fromStringMax
  rw [h1]
  simp only [ne_eq, not_true_eq_false, if_false, numFields_query isUrl m h]
  by_cases hn : n < fieldCount m
  · simp [hn]
  · simp [hn, h2, fromPairs_pairsOf isUrl intO m h]

/-! ### arbitrarily many trackers -/

theorem manyUrls_length (n : Nat) : (manyUrls n).length = n := by simp [manyUrls]

theorem manyUrls_nodup (n : Nat) : (manyUrls n).Nodup := by
  unfold manyUrls
  have hr : (List.range n).Nodup := List.nodup_range
  unfold List.Nodup at hr ⊢
  rw [List.pairwise_map]
  refine hr.imp ?_
  intro a b hab e
  have := congrArg List.length e
  simp at this
  exact hab this

theorem manyUrls_ok (n : Nat) : (manyUrls n).all (urlOk fun _ => true) = true := by
  rw [List.all_eq_true]
  intro u hu
  obtain ⟨i, _, rfl⟩ := List.mem_map.mp hu
  simp [urlOk, List.replicate_succ]

theorem bigMagnet_wf (n : Nat) : WF (fun _ => true) (bigMagnet n) = true := by
  have h1 := manyUrls_ok n
  have h2 := manyUrls_nodup n
  simp only [WF, bigMagnet, Bool.and_eq_true]
  refine ⟨⟨⟨⟨⟨⟨⟨⟨⟨⟨by decide, by simp⟩, by simp⟩, h1⟩, decide_eq_true h2⟩, by simp⟩, by simp⟩, by simp⟩, by simp⟩, by simp⟩, by simp⟩

theorem bigMagnet_fields (n : Nat) : fieldCount (bigMagnet n) = n + 1 := by
  simp [fieldCount, bigMagnet, manyUrls_length]; omega

end Torf.Magnet
