/-
  Helper lemmas for C02 (round 4): with `cap + 1` descriptors free the handle table never makes
  `open()` fail, so the call is the one of `verifyCall`.
-/
import Torf.Model.VerifyEnv
import Torf.Lemmas.Handles
import Torf.Lemmas.VerifyCall
namespace Torf.VerifyEnv
open Torf Torf.Missing Torf.Verify Torf.VerifyFs Torf.VerifyCall

variable {α δ : Type} [Inhabited α]

theorem verifyCall_eq_ofRun [DecidableEq δ] (H : List α → δ) (L : Nat) (sizes : List Nat)
    (fd : List (FState α)) (stored : List δ) (hasCb single pathIsDir : Bool)
    (tpath : Option String) (interval : Int) (clock : List Int) :
    verifyCall H L sizes fd stored hasCb single pathIsDir tpath interval clock =
      verifyOfRun H L sizes stored hasCb single pathIsDir interval clock
        (runOf ((List.range sizes.length).foldl (stepP single tpath L sizes fd) {})) := by
  unfold verifyCall verifyOfRun iterItemsP runOf
  rfl

theorem stepP_skip (single : Bool) (tpath : Option String) (L : Nat) (sizes : List Nat)
    (fd : List (FState α)) (s : StFs α) (j : Nat)
    (h : (s.fault.isSome || s.st.failed || s.st.bycatch.contains j) = true) :
    stepP single tpath L sizes fd s j = s := by
  unfold stepP
  by_cases h1 : s.fault.isSome = true
  · simp only [h1, if_true]
  · by_cases h2 : s.st.failed = true
    · simp only [h1, h2, Bool.false_eq_true, if_false, if_true]
    · have h3 : s.st.bycatch.contains j = true := by
        simp only [Bool.or_eq_true] at h
        rcases h with (h | h) | h
        · exact absurd h h1
        · exact absurd h h2
        · exact h
      simp only [h1, h2, h3, Bool.false_eq_true, if_false, if_true]

/-- the handle table never holds more than `cap + 1` entries (C19's bound, along this loop) -/
theorem stepR_tbl_le (single : Bool) (tpath : Option String) (cap free : Nat) (L : Nat)
    (sizes : List Nat) (s : StR α) (j : Nat) (h : s.tbl.length ≤ cap + 1) :
    (stepR single tpath cap free L sizes s j).tbl.length ≤ cap + 1 := by
  unfold stepR
  split
  · exact h
  · split
    · simp only
      have := Handles.length_evict_le cap s.tbl
      split
      · simp only [List.length_append, List.length_cons, List.length_nil]; omega
      · simp only; omega
    · simp only
      have := Handles.length_evict_le cap s.tbl
      split
      · simp only; omega
      · simp only; omega
    · exact h

/-- with `cap + 1` descriptors free no `open()` fails for lack of a descriptor -/
theorem stepR_headroom (single : Bool) (tpath : Option String) (cap free : Nat)
    (hfree : cap + 1 ≤ free) (L : Nat) (sizes : List Nat) (s : StR α) (j : Nat) :
    (stepR single tpath cap free L sizes s j).base = stepP single tpath L sizes s.eff s.base j ∧
    (stepR single tpath cap free L sizes s j).eff = s.eff := by
  unfold stepR
  by_cases hg : (s.base.fault.isSome || s.base.st.failed || s.base.st.bycatch.contains j) = true
  · simp only [hg, if_true]
    exact ⟨(stepP_skip single tpath L sizes s.eff s.base j hg).symm, trivial⟩
  · simp only [hg, Bool.false_eq_true, if_false]
    have hlt : (Handles.evict cap s.tbl).length < free := by
      have := Handles.length_evict_le cap s.tbl; omega
    split
    · simp only [hlt, if_true]
      exact ⟨trivial, trivial⟩
    · simp only [hlt, if_true]
      exact ⟨trivial, trivial⟩
    · exact ⟨rfl, rfl⟩

theorem foldR_headroom (single : Bool) (tpath : Option String) (cap free : Nat)
    (hfree : cap + 1 ≤ free) (L : Nat) (sizes : List Nat) (js : List Nat) (s : StR α) :
    (js.foldl (stepR single tpath cap free L sizes) s).base =
      js.foldl (stepP single tpath L sizes s.eff) s.base ∧
    (js.foldl (stepR single tpath cap free L sizes) s).eff = s.eff := by
  induction js generalizing s with
  | nil => exact ⟨rfl, rfl⟩
  | cons j js ih =>
    simp only [List.foldl_cons]
    obtain ⟨h1, h2⟩ := stepR_headroom single tpath cap free hfree L sizes s j
    obtain ⟨i1, i2⟩ := ih (stepR single tpath cap free L sizes s j)
    rw [i1, i2, h1, h2]
    exact ⟨rfl, rfl⟩

end Torf.VerifyEnv
