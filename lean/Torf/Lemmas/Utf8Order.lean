import Torf.Model.Codec

/-!
# UTF-8 encoding preserves order

Code-point (lexicographic on `Char`) order of `String`s coincides with the
lexicographic unsigned-byte order of their UTF-8 encodings.
-/

namespace Torf.Codec
open Torf Torf.Bencode

/-- `utf8Enc` is the concatenation of the per-character encodings. -/
theorem utf8Enc_eq_flatMap (s : String) :
    utf8Enc s = s.toList.flatMap String.utf8EncodeChar := by
  unfold utf8Enc
  rw [String.toUTF8_eq_toByteArray, ← String.utf8Encode_toList, List.utf8Encode,
    List.toList_data_toByteArray]

private theorem char_toNat_lt (c : Char) : c.val.toNat < 0x110000 := by
  have h := c.valid
  simp only [UInt32.isValidChar, Nat.isValidChar] at h
  omega

/-- Key per-character fact: for `c < d` the encoding of `c` followed by anything is below the
encoding of `d` followed by anything (common prefix, then a strictly smaller byte). -/
theorem utf8EncodeChar_append_lt {c d : Char} (h : c < d) (r₁ r₂ : List UInt8) :
    String.utf8EncodeChar c ++ r₁ < String.utf8EncodeChar d ++ r₂ := by
  have hc := char_toNat_lt c
  have hd := char_toNat_lt d
  have hlt : c.val.toNat < d.val.toNat := by
    have : c.val < d.val := h
    exact UInt32.lt_iff_toNat_lt.mp this
  simp only [String.utf8EncodeChar]
  generalize c.val.toNat = v at *
  generalize d.val.toNat = w at *
  repeat' split
  all_goals first
    | omega
    | (simp only [List.cons_append, List.nil_append, List.cons_lt_cons_iff,
        UInt8.lt_iff_toNat_lt, ← UInt8.toNat_inj, UInt8.toNat_ofNat']
       omega)
    | (simp only [List.cons_append, List.nil_append, List.cons_lt_cons_iff,
        UInt8.lt_iff_toNat_lt, ← UInt8.toNat_inj, UInt8.toNat_ofNat']
       have hv : v = (v / 262144 % 8) * 262144 + (v / 4096 % 64) * 4096 + (v / 64 % 64) * 64
           + v % 64 := by omega
       have hw : w = (w / 262144 % 8) * 262144 + (w / 4096 % 64) * 4096 + (w / 64 % 64) * 64
           + w % 64 := by omega
       have a3 : v / 262144 % 8 < 8 := by omega
       have a2 : v / 4096 % 64 < 64 := by omega
       have a1 : v / 64 % 64 < 64 := by omega
       have a0 : v % 64 < 64 := by omega
       have b3 : w / 262144 % 8 < 8 := by omega
       have b2 : w / 4096 % 64 < 64 := by omega
       have b1 : w / 64 % 64 < 64 := by omega
       have b0 : w % 64 < 64 := by omega
       generalize v / 262144 % 8 = x3 at *
       generalize v / 4096 % 64 = x2 at *
       generalize v / 64 % 64 = x1 at *
       generalize v % 64 = x0 at *
       generalize w / 262144 % 8 = y3 at *
       generalize w / 4096 % 64 = y2 at *
       generalize w / 64 % 64 = y1 at *
       generalize w % 64 = y0 at *
       omega)

private theorem flatMap_lt_of_lt {cs ds : List Char} (h : cs < ds) :
    cs.flatMap String.utf8EncodeChar < ds.flatMap String.utf8EncodeChar := by
  induction cs generalizing ds with
  | nil =>
    cases ds with
    | nil => exact absurd h (List.not_lt_nil _)
    | cons d ds =>
      rw [List.flatMap_cons, List.flatMap_nil]
      cases hd : String.utf8EncodeChar d with
      | nil => exact absurd hd String.utf8EncodeChar_ne_nil
      | cons b bs => exact List.nil_lt_cons _ _
  | cons c cs ih =>
    cases ds with
    | nil => exact absurd h (List.not_lt_nil _)
    | cons d ds =>
      rw [List.flatMap_cons, List.flatMap_cons]
      rcases List.cons_lt_cons_iff.mp h with hcd | ⟨rfl, hrest⟩
      · exact utf8EncodeChar_append_lt hcd _ _
      · exact List.append_left_lt (ih hrest)

private theorem flatMap_lt_iff (cs ds : List Char) :
    cs.flatMap String.utf8EncodeChar < ds.flatMap String.utf8EncodeChar ↔ cs < ds := by
  refine ⟨fun h => ?_, flatMap_lt_of_lt⟩
  apply Classical.byContradiction
  intro hn
  -- `¬ cs < ds` is `ds ≤ cs`
  have hle : ds ≤ cs := hn
  rcases List.le_iff_lt_or_eq.mp hle with hlt | heq
  · exact List.lt_asymm h (flatMap_lt_of_lt hlt)
  · subst heq
    exact List.lt_irrefl _ h

theorem utf8_lt (s t : String) : utf8Enc s < utf8Enc t ↔ s < t := by
  rw [utf8Enc_eq_flatMap, utf8Enc_eq_flatMap, flatMap_lt_iff]
  exact Iff.rfl

theorem utf8_order (s t : String) : utf8Enc s ≤ utf8Enc t ↔ s ≤ t := by
  have h := utf8_lt t s
  show ¬ utf8Enc t < utf8Enc s ↔ ¬ t < s
  rw [h]

end Torf.Codec
