/-
  Helper lemmas for the "one thing is wrong" theorems of C02: a torrent created from `orig`
  (`sizes = orig.map length`, `stored = digests of the chunks of orig.flatten`) verified against a
  disk that differs from `orig` in bad files only, or in one byte.
-/
import Torf.Lemmas.VerifyRun
namespace Torf.Verify
open Torf Torf.Missing

variable {α δ : Type} [DecidableEq δ]

/-! ### generic list facts -/

/-- a `filterMap` that hits at exactly one index -/
theorem filterMap_single {β γ : Type} (f : β → Option γ) (l : List β) (i : Nat) (x : β) (y : γ)
    (hi : l[i]? = some x) (hx : f x = some y)
    (hne : ∀ k x', k ≠ i → l[k]? = some x' → f x' = none) : l.filterMap f = [y] := by
  induction l generalizing i with
  | nil => simp at hi
  | cons a l ih =>
    cases i with
    | zero =>
      simp only [List.getElem?_cons_zero, Option.some.injEq] at hi
      subst hi
      rw [List.filterMap_cons_some hx]
      congr 1
      rw [List.filterMap_eq_nil_iff]
      intro x' hx'
      obtain ⟨k, hk⟩ := List.mem_iff_getElem?.mp hx'
      exact hne (k + 1) x' (by omega) (by simpa using hk)
    | succ i =>
      have ha : f a = none := hne 0 a (by omega) (by simp)
      rw [List.filterMap_cons_none ha]
      exact ih i (by simpa using hi) (fun k x' hk hx' => hne (k + 1) x' (by omega) (by simpa using hx'))

/-- if the filters for `p` and `q` are known and every element satisfies one of them -/
theorem eq_of_filters {β : Type} (l a : List β) (p q : β → Bool)
    (hp : l.filter p = a) (hq : l.filter q = [])
    (hpq : ∀ x ∈ l, p x = true ∨ q x = true) : l = a := by
  rw [← hp]
  symm
  rw [List.filter_eq_self]
  intro x hx
  rcases hpq x hx with h | h
  · exact h
  · rw [List.filter_eq_nil_iff] at hq
    exact absurd h (hq x hx)

/-! ### a stream with some bytes blanked -/

/-- `os` is the stream `ys` with some bytes unknown -/
def Agrees : List (Option α) → List α → Prop
  | [], [] => True
  | o :: os, a :: as => (o = none ∨ o = some a) ∧ Agrees os as
  | [], _ :: _ => False
  | _ :: _, [] => False

theorem agrees_length : ∀ (os : List (Option α)) (ys : List α), Agrees os ys → os.length = ys.length
  | [], [], _ => rfl
  | _ :: os, _ :: ys, h => by
    simp only [List.length_cons]; rw [agrees_length os ys h.2]
  | [], _ :: _, h => h.elim
  | _ :: _, [], h => h.elim

theorem agrees_map_some : ∀ (ys : List α), Agrees (ys.map some) ys
  | [] => trivial
  | _ :: ys => ⟨Or.inr rfl, agrees_map_some ys⟩

theorem agrees_replicate : ∀ (ys : List α), Agrees (List.replicate ys.length none) ys
  | [] => trivial
  | _ :: ys => ⟨Or.inl rfl, agrees_replicate ys⟩

theorem agrees_append : ∀ (a : List (Option α)) (b : List α) (c : List (Option α)) (d : List α),
    Agrees a b → Agrees c d → Agrees (a ++ c) (b ++ d)
  | [], [], _, _, _, h => h
  | _ :: a, _ :: b, c, d, h1, h2 => ⟨h1.1, agrees_append a b c d h1.2 h2⟩
  | [], _ :: _, _, _, h, _ => h.elim
  | _ :: _, [], _, _, h, _ => h.elim

theorem agrees_drop : ∀ (n : Nat) (a : List (Option α)) (b : List α),
    Agrees a b → Agrees (a.drop n) (b.drop n)
  | 0, _, _, h => h
  | _ + 1, [], [], _ => trivial
  | n + 1, _ :: a, _ :: b, h => agrees_drop n a b h.2
  | _ + 1, [], _ :: _, h => h.elim
  | _ + 1, _ :: _, [], h => h.elim

theorem agrees_take : ∀ (n : Nat) (a : List (Option α)) (b : List α),
    Agrees a b → Agrees (a.take n) (b.take n)
  | 0, _, _, _ => trivial
  | _ + 1, [], [], _ => trivial
  | n + 1, _ :: a, _ :: b, h => ⟨h.1, agrees_take n a b h.2⟩
  | _ + 1, [], _ :: _, h => h.elim
  | _ + 1, _ :: _, [], h => h.elim

/-- a chunk without unknown bytes carries exactly the bytes of the stream -/
theorem agrees_chunkData : ∀ (c : List (Option α)) (d bytes : List α),
    Agrees c d → chunkData c = some bytes → bytes = d
  | [], [], bytes, _, h => by simpa [chunkData] using h.symm
  | o :: c, a :: d, bytes, hag, h => by
    unfold chunkData at h
    split at h
    · rename_i hall
      simp only [List.all_cons, Bool.and_eq_true] at hall
      rcases hag.1 with ho | ho
      · rw [ho] at hall; exact absurd hall.1 (by simp)
      · have ih := agrees_chunkData c d (c.filterMap id) hag.2 (by unfold chunkData; simp [hall.2])
        simp only [Option.some.injEq] at h
        rw [← h, ho]
        simp [← ih]
    · cases h
  | [], _ :: _, _, h, _ => h.elim
  | _ :: _, [], _, h, _ => h.elim

/-! ### the torrent made from `orig` -/

theorem sum_map_length (orig : List (List α)) : (orig.map List.length).sum = orig.flatten.length := by
  rw [List.length_flatten]

theorem sizeOf_map_length (orig : List (List α)) (k : Nat) (hk : k < orig.length) :
    Missing.sizeOf (orig.map List.length) k = orig[k].length := by
  unfold Missing.sizeOf
  rw [List.getD_eq_getElem?_getD]
  simp [hk]

omit [DecidableEq δ] in
theorem length_stored (H : List α → δ) (L : Nat) (hL : 0 < L) (orig : List (List α)) :
    ((chunks L orig.flatten).map H).length = nPieces L (orig.map List.length).sum := by
  rw [List.length_map, length_chunks L hL, sum_map_length]

/-- every file that is good on disk has its original content ⇒ the expected stream is
    `orig.flatten` with the bytes of the bad files blanked -/
theorem agrees_expPre (orig : List (List α)) (disk : List (Option (List α)))
    (hsame : ∀ k (hk : k < orig.length), fileError (orig.map List.length) disk k = none →
      disk.getD k none = some orig[k])
    (k : Nat) (hk : k ≤ orig.length) :
    Agrees (expPre (orig.map List.length) disk k) (orig.take k).flatten := by
  induction k with
  | zero => simp [expPre, Agrees]
  | succ k ih =>
    have hk' : k < orig.length := by omega
    rw [expPre_succ, List.take_add_one, List.getElem?_eq_getElem hk']
    simp only [Option.toList_some, List.flatten_append, List.flatten_cons, List.flatten_nil,
      List.append_nil]
    apply agrees_append _ _ _ _ (ih (by omega))
    cases hf : fileError (orig.map List.length) disk k with
    | none =>
      rw [(expFile_good _ disk k hf).1, hsame k hk' hf]
      exact agrees_map_some _
    | some e =>
      rw [expFile_bad _ disk k (by rw [hf]; simp), sizeOf_map_length orig k hk']
      exact agrees_replicate _

theorem agrees_expStream (orig : List (List α)) (disk : List (Option (List α)))
    (hsame : ∀ k (hk : k < orig.length), fileError (orig.map List.length) disk k = none →
      disk.getD k none = some orig[k]) :
    Agrees (expStream (orig.map List.length) disk) orig.flatten := by
  have := agrees_expPre orig disk hsame orig.length (Nat.le_refl _)
  rw [List.take_length] at this
  rw [expStream_eq, List.length_map]
  exact this

/-- **no content error** if every good file has its original content -/
theorem mismatches_eq_nil (H : List α → δ) (L : Nat) (hL : 0 < L) (orig : List (List α))
    (disk : List (Option (List α)))
    (hsame : ∀ k (hk : k < orig.length), fileError (orig.map List.length) disk k = none →
      disk.getD k none = some orig[k]) :
    mismatches H L (orig.map List.length) disk ((chunks L orig.flatten).map H) = [] := by
  have hag := agrees_expStream orig disk hsame
  have hlen := agrees_length _ _ hag
  rw [mismatches_eq, List.filterMap_eq_nil_iff]
  rintro ⟨d, i⟩ hmem
  rw [List.mem_zipIdx_iff_getElem?] at hmem
  simp only at hmem
  unfold specData at hmem
  rw [List.getElem?_map, getElem?_chunks L hL] at hmem
  unfold mmOf
  simp only
  split
  · rfl
  · rename_i bytes
    split at hmem
    · rename_i hlt
      simp only [Option.map_some, Option.some.injEq] at hmem
      have hb := agrees_chunkData _ _ bytes
        (agrees_take L _ _ (agrees_drop (i * L) _ _ hag)) hmem
      have hlt' : i * L < orig.flatten.length := by omega
      rw [List.getElem?_map, getElem?_chunks L hL]
      simp only [hlt', if_true, hb, Option.map_some]
    · simp at hmem

/-! ### one bad file -/

theorem range_filterMap_single {γ : Type} (n j : Nat) (hj : j < n) (f : Nat → Option γ) (y : γ)
    (hfj : f j = some y) (hne : ∀ k < n, k ≠ j → f k = none) :
    (List.range n).filterMap f = [y] := by
  apply filterMap_single f (List.range n) j j y (by simp [hj]) hfj
  intro k x' hk hx'
  have hkn : k < n := by
    by_cases h : k < n
    · exact h
    · rw [List.getElem?_eq_none (by simp; omega)] at hx'; cases hx'
  rw [List.getElem?_range hkn] at hx'
  cases hx'
  exact hne k hkn hk

theorem fileError_of_orig (orig : List (List α)) (disk : List (Option (List α))) (k : Nat)
    (hk : k < orig.length) (h : disk[k]? = some (some orig[k])) :
    fileError (orig.map List.length) disk k = none ∧ disk.getD k none = some orig[k] := by
  have hg : disk.getD k none = some orig[k] := by
    rw [List.getD_eq_getElem?_getD, h]; rfl
  refine ⟨?_, hg⟩
  unfold fileError
  rw [hg]
  simp only [sizeOf_map_length orig k hk, if_true]

/-- all files but `j` are as in `orig`, file `j` (not a zero-length entry) is bad -/
theorem single_bad_setup (orig : List (List α)) (disk : List (Option (List α))) (j : Nat)
    (hj : j < orig.length) (hpos : 0 < orig[j].length) (e : ErrKind)
    (hrest : ∀ k (hk : k < orig.length), k ≠ j → disk[k]? = some (some orig[k]))
    (hbad : fileError (orig.map List.length) disk j = some e) :
    NoBadEmpty (orig.map List.length) disk = true ∧
    (∀ k (hk : k < orig.length), fileError (orig.map List.length) disk k = none →
      disk.getD k none = some orig[k]) ∧
    badFiles (orig.map List.length) disk = [(j, e)] := by
  refine ⟨?_, ?_, ?_⟩
  · unfold NoBadEmpty
    rw [List.all_eq_true]
    intro k hk
    rw [List.mem_range, List.length_map] at hk
    by_cases hkj : k = j
    · subst hkj
      rw [sizeOf_map_length orig k hk]
      have : orig[k].length ≠ 0 := by omega
      simp [this]
    · rw [(fileError_of_orig orig disk k hk (hrest k hk hkj)).1]
      rfl
  · intro k hk hf
    by_cases hkj : k = j
    · subst hkj; rw [hbad] at hf; cases hf
    · exact (fileError_of_orig orig disk k hk (hrest k hk hkj)).2
  · unfold badFiles
    rw [List.length_map]
    apply range_filterMap_single orig.length j hj _ (j, e) (by rw [hbad]; rfl)
    intro k hk hkj
    rw [(fileError_of_orig orig disk k hk (hrest k hk hkj)).1]
    rfl

end Torf.Verify
