/-
  Torf.Lemmas.Base32 — round-trip theorems for the executable base32 / base16 model
  (`Torf.Model.Base32`).
-/
import Torf.Model.Base32

namespace Torf.Base32

/-! ### digit level -/

theorem toNat_b32char (v : Nat) (h : v < 32) :
    (b32char v).toNat = if v < 26 then 65 + v else 24 + v := by
  unfold b32char
  split
  · rw [UInt8.toNat_ofNat']; omega
  · rw [UInt8.toNat_ofNat']; omega

theorem b32val_b32char (v : Nat) (h : v < 32) : b32val (b32char v) = some v := by
  unfold b32val
  rw [toNat_b32char v h]
  by_cases hv : v < 26
  · rw [if_pos hv, if_pos (by omega)]; congr 1; omega
  · rw [if_neg hv, if_neg (by omega), if_pos (by omega)]; congr 1; omega

theorem b32char_ne_pad (v : Nat) (h : v < 32) : b32char v ≠ 61 := by
  intro hc
  have := congrArg UInt8.toNat hc
  rw [toNat_b32char v h] at this
  have h61 : (61 : UInt8).toNat = 61 := rfl
  rw [h61] at this
  split at this <;> omega

theorem b32char_alpha (v : Nat) (h : v < 32) :
    (65 ≤ (b32char v).toNat ∧ (b32char v).toNat ≤ 90) ∨
      (50 ≤ (b32char v).toNat ∧ (b32char v).toNat ≤ 55) := by
  rw [toNat_b32char v h]
  split <;> omega

theorem quantum_lt (a b c d e : UInt8) : quantum a b c d e < 2^40 := by
  have ha := a.toNat_lt
  have hb := b.toNat_lt
  have hc := c.toNat_lt
  have hd := d.toNat_lt
  have he := e.toNat_lt
  unfold quantum
  omega

theorem decQuantum_encQuantum (n : Nat) (h : n < 2^40) :
    decQuantum (b32char (n / 34359738368 % 32)) (b32char (n / 1073741824 % 32))
      (b32char (n / 33554432 % 32)) (b32char (n / 1048576 % 32)) (b32char (n / 32768 % 32))
      (b32char (n / 1024 % 32)) (b32char (n / 32 % 32)) (b32char (n % 32)) = some n := by
  unfold decQuantum
  simp only [b32val_b32char _ (Nat.mod_lt _ (by decide : 0 < 32))]
  congr 1
  omega

/-- the same statement phrased through `encQuantum` -/
theorem decQuantum_encQuantum' (n : Nat) (h : n < 2^40) :
    (match encQuantum n with
      | [c0, c1, c2, c3, c4, c5, c6, c7] => decQuantum c0 c1 c2 c3 c4 c5 c6 c7
      | _ => none) = some n :=
  decQuantum_encQuantum n h

theorem bytesOfQuantum_quantum (a b c d e : UInt8) :
    bytesOfQuantum (quantum a b c d e) = [a, b, c, d, e] := by
  have ha := a.toNat_lt
  have hb := b.toNat_lt
  have hc := c.toNat_lt
  have hd := d.toNat_lt
  have he := e.toNat_lt
  unfold bytesOfQuantum quantum
  have h1 : ((((a.toNat * 256 + b.toNat) * 256 + c.toNat) * 256 + d.toNat) * 256 + e.toNat)
      / 4294967296 % 256 = a.toNat := by omega
  have h2 : ((((a.toNat * 256 + b.toNat) * 256 + c.toNat) * 256 + d.toNat) * 256 + e.toNat)
      / 16777216 % 256 = b.toNat := by omega
  have h3 : ((((a.toNat * 256 + b.toNat) * 256 + c.toNat) * 256 + d.toNat) * 256 + e.toNat)
      / 65536 % 256 = c.toNat := by omega
  have h4 : ((((a.toNat * 256 + b.toNat) * 256 + c.toNat) * 256 + d.toNat) * 256 + e.toNat)
      / 256 % 256 = d.toNat := by omega
  have h5 : ((((a.toNat * 256 + b.toNat) * 256 + c.toNat) * 256 + d.toNat) * 256 + e.toNat)
      % 256 = e.toNat := by omega
  rw [h1, h2, h3, h4, h5]
  simp only [UInt8.ofNat_toNat]

/-! ### one quantum of `b32decode` -/

theorem unpad_of_ne {c : UInt8} (h : c ≠ 61) : unpad c = c := by
  unfold unpad; rw [if_neg h]

theorem unpad_pad : unpad 61 = 65 := rfl

theorem b32decode_eight (c0 c1 c2 c3 c4 c5 c6 c7 : UInt8) (p k n : Nat)
    (hp : (List.takeWhile (fun x => decide (x = 61)) [c7, c6, c5, c4, c3, c2, c1, c0]).length = p)
    (hany : ((List.take (8 - p) [c0, c1, c2, c3, c4, c5, c6, c7]).any
      fun x => decide (x = 61)) = false)
    (hk : tailBytes p = some k)
    (hd : decQuantum (unpad c0) (unpad c1) (unpad c2) (unpad c3) (unpad c4) (unpad c5)
      (unpad c6) (unpad c7) = some n) :
    b32decode [c0, c1, c2, c3, c4, c5, c6, c7] = some ((bytesOfQuantum n).take k) := by
  rw [b32decode.eq_2]
  have hr : [c0, c1, c2, c3, c4, c5, c6, c7].reverse = [c7, c6, c5, c4, c3, c2, c1, c0] := rfl
  rw [hr, hp, hany, hk, hd]
  rfl

theorem b32decode_pad0 (c0 c1 c2 c3 c4 c5 c6 c7 : UInt8) (n : Nat)
    (h0 : c0 ≠ 61) (h1 : c1 ≠ 61) (h2 : c2 ≠ 61) (h3 : c3 ≠ 61) (h4 : c4 ≠ 61) (h5 : c5 ≠ 61)
    (h6 : c6 ≠ 61) (h7 : c7 ≠ 61)
    (hd : decQuantum c0 c1 c2 c3 c4 c5 c6 c7 = some n) :
    b32decode [c0, c1, c2, c3, c4, c5, c6, c7] = some (bytesOfQuantum n) := by
  have := b32decode_eight c0 c1 c2 c3 c4 c5 c6 c7 0 5 n
    (by simp [List.takeWhile, h7])
    (by simp [h0, h1, h2, h3, h4, h5, h6, h7])
    rfl
    (by rw [unpad_of_ne h0, unpad_of_ne h1, unpad_of_ne h2, unpad_of_ne h3, unpad_of_ne h4,
          unpad_of_ne h5, unpad_of_ne h6, unpad_of_ne h7]; exact hd)
  rw [this]
  rfl

theorem b32decode_pad1 (c0 c1 c2 c3 c4 c5 c6 : UInt8) (n : Nat)
    (h0 : c0 ≠ 61) (h1 : c1 ≠ 61) (h2 : c2 ≠ 61) (h3 : c3 ≠ 61) (h4 : c4 ≠ 61) (h5 : c5 ≠ 61)
    (h6 : c6 ≠ 61)
    (hd : decQuantum c0 c1 c2 c3 c4 c5 c6 65 = some n) :
    b32decode [c0, c1, c2, c3, c4, c5, c6, 61] = some ((bytesOfQuantum n).take 4) :=
  b32decode_eight c0 c1 c2 c3 c4 c5 c6 61 1 4 n
    (by simp [List.takeWhile, h6])
    (by simp [h0, h1, h2, h3, h4, h5, h6])
    rfl
    (by rw [unpad_of_ne h0, unpad_of_ne h1, unpad_of_ne h2, unpad_of_ne h3, unpad_of_ne h4,
          unpad_of_ne h5, unpad_of_ne h6, unpad_pad]; exact hd)

theorem b32decode_pad3 (c0 c1 c2 c3 c4 : UInt8) (n : Nat)
    (h0 : c0 ≠ 61) (h1 : c1 ≠ 61) (h2 : c2 ≠ 61) (h3 : c3 ≠ 61) (h4 : c4 ≠ 61)
    (hd : decQuantum c0 c1 c2 c3 c4 65 65 65 = some n) :
    b32decode [c0, c1, c2, c3, c4, 61, 61, 61] = some ((bytesOfQuantum n).take 3) :=
  b32decode_eight c0 c1 c2 c3 c4 61 61 61 3 3 n
    (by simp [List.takeWhile, h4])
    (by simp [h0, h1, h2, h3, h4])
    rfl
    (by rw [unpad_of_ne h0, unpad_of_ne h1, unpad_of_ne h2, unpad_of_ne h3, unpad_of_ne h4,
          unpad_pad]; exact hd)

theorem b32decode_pad4 (c0 c1 c2 c3 : UInt8) (n : Nat)
    (h0 : c0 ≠ 61) (h1 : c1 ≠ 61) (h2 : c2 ≠ 61) (h3 : c3 ≠ 61)
    (hd : decQuantum c0 c1 c2 c3 65 65 65 65 = some n) :
    b32decode [c0, c1, c2, c3, 61, 61, 61, 61] = some ((bytesOfQuantum n).take 2) :=
  b32decode_eight c0 c1 c2 c3 61 61 61 61 4 2 n
    (by simp [List.takeWhile, h3])
    (by simp [h0, h1, h2, h3])
    rfl
    (by rw [unpad_of_ne h0, unpad_of_ne h1, unpad_of_ne h2, unpad_of_ne h3, unpad_pad]
        exact hd)

theorem b32decode_pad6 (c0 c1 : UInt8) (n : Nat)
    (h0 : c0 ≠ 61) (h1 : c1 ≠ 61)
    (hd : decQuantum c0 c1 65 65 65 65 65 65 = some n) :
    b32decode [c0, c1, 61, 61, 61, 61, 61, 61] = some ((bytesOfQuantum n).take 1) :=
  b32decode_eight c0 c1 61 61 61 61 61 61 6 1 n
    (by simp [List.takeWhile, h1])
    (by simp [h0, h1])
    rfl
    (by rw [unpad_of_ne h0, unpad_of_ne h1, unpad_pad]; exact hd)

theorem b32decode_encQuantum (n : Nat) (h : n < 2^40) :
    b32decode (encQuantum n) = some (bytesOfQuantum n) := by
  have h32 : ∀ m : Nat, m % 32 < 32 := fun m => Nat.mod_lt _ (by decide)
  exact b32decode_pad0 _ _ _ _ _ _ _ _ n
    (b32char_ne_pad _ (h32 _)) (b32char_ne_pad _ (h32 _)) (b32char_ne_pad _ (h32 _))
    (b32char_ne_pad _ (h32 _)) (b32char_ne_pad _ (h32 _)) (b32char_ne_pad _ (h32 _))
    (b32char_ne_pad _ (h32 _)) (b32char_ne_pad _ (h32 _))
    (decQuantum_encQuantum n h)

/-! ### `b32encode` -/

theorem b32encode_ne_nil (d : Bytes) (h : d ≠ []) : b32encode d ≠ [] := by
  fun_cases b32encode d
  · rw [encQuantum]; simp
  · rw [encQuantum]; simp [pad]
  · rw [encQuantum]; simp [pad]
  · rw [encQuantum]; simp [pad]
  · rw [encQuantum]; simp [pad]
  · exact absurd rfl h

theorem b32decode_quantum_append (a b c d e : UInt8) (s r : Bytes) (hs : s ≠ [])
    (hr : b32decode s = some r) :
    b32decode (encQuantum (quantum a b c d e) ++ s) = some (a :: b :: c :: d :: e :: r) := by
  have hq := quantum_lt a b c d e
  have hd := decQuantum_encQuantum _ hq
  rw [encQuantum]
  simp only [List.cons_append, List.nil_append]
  rw [b32decode.eq_3 _ _ _ _ _ _ _ _ s (fun h => hs h), hd, hr]
  simp only [bytesOfQuantum_quantum]
  rfl

theorem b32decode_quantum_nil (a b c d e : UInt8) :
    b32decode (encQuantum (quantum a b c d e)) = some [a, b, c, d, e] := by
  rw [b32decode_encQuantum _ (quantum_lt a b c d e), bytesOfQuantum_quantum]

/-! ### the four padded tails -/

theorem b32char_zero : b32char 0 = 65 := rfl

theorem toNat_zero_u8 : (0 : UInt8).toNat = 0 := rfl

theorem b32decode_b32encode_tail4 (a b c d : UInt8) :
    b32decode (b32encode [a, b, c, d]) = some [a, b, c, d] := by
  have hne : ∀ m : Nat, b32char (m % 32) ≠ 61 :=
    fun m => b32char_ne_pad _ (Nat.mod_lt _ (by decide))
  have hq := quantum_lt a b c d 0
  have hd := decQuantum_encQuantum _ hq
  have ha := a.toNat_lt
  have hb := b.toNat_lt
  have hc := c.toNat_lt
  have hd' := d.toNat_lt
  have z7 : quantum a b c d 0 % 32 = 0 := by
    unfold quantum; rw [toNat_zero_u8]; omega
  rw [z7, b32char_zero] at hd
  show b32decode [_, _, _, _, _, _, _, 61] = _
  rw [b32decode_pad1 _ _ _ _ _ _ _ _ (hne _) (hne _) (hne _) (hne _) (hne _) (hne _) (hne _) hd,
      bytesOfQuantum_quantum]
  rfl

theorem b32decode_b32encode_tail3 (a b c : UInt8) :
    b32decode (b32encode [a, b, c]) = some [a, b, c] := by
  have hne : ∀ m : Nat, b32char (m % 32) ≠ 61 :=
    fun m => b32char_ne_pad _ (Nat.mod_lt _ (by decide))
  have hq := quantum_lt a b c 0 0
  have hd := decQuantum_encQuantum _ hq
  have ha := a.toNat_lt
  have hb := b.toNat_lt
  have hc := c.toNat_lt
  have z5 : quantum a b c 0 0 / 1024 % 32 = 0 := by
    unfold quantum; rw [toNat_zero_u8]; omega
  have z6 : quantum a b c 0 0 / 32 % 32 = 0 := by
    unfold quantum; rw [toNat_zero_u8]; omega
  have z7 : quantum a b c 0 0 % 32 = 0 := by
    unfold quantum; rw [toNat_zero_u8]; omega
  rw [z5, z6, z7, b32char_zero] at hd
  show b32decode [_, _, _, _, _, 61, 61, 61] = _
  rw [b32decode_pad3 _ _ _ _ _ _ (hne _) (hne _) (hne _) (hne _) (hne _) hd, bytesOfQuantum_quantum]
  rfl

theorem b32decode_b32encode_tail2 (a b : UInt8) :
    b32decode (b32encode [a, b]) = some [a, b] := by
  have hne : ∀ m : Nat, b32char (m % 32) ≠ 61 :=
    fun m => b32char_ne_pad _ (Nat.mod_lt _ (by decide))
  have hq := quantum_lt a b 0 0 0
  have hd := decQuantum_encQuantum _ hq
  have ha := a.toNat_lt
  have hb := b.toNat_lt
  have z4 : quantum a b 0 0 0 / 32768 % 32 = 0 := by
    unfold quantum; rw [toNat_zero_u8]; omega
  have z5 : quantum a b 0 0 0 / 1024 % 32 = 0 := by
    unfold quantum; rw [toNat_zero_u8]; omega
  have z6 : quantum a b 0 0 0 / 32 % 32 = 0 := by
    unfold quantum; rw [toNat_zero_u8]; omega
  have z7 : quantum a b 0 0 0 % 32 = 0 := by
    unfold quantum; rw [toNat_zero_u8]; omega
  rw [z4, z5, z6, z7, b32char_zero] at hd
  show b32decode [_, _, _, _, 61, 61, 61, 61] = _
  rw [b32decode_pad4 _ _ _ _ _ (hne _) (hne _) (hne _) (hne _) hd, bytesOfQuantum_quantum]
  rfl

theorem b32decode_b32encode_tail1 (a : UInt8) :
    b32decode (b32encode [a]) = some [a] := by
  have hne : ∀ m : Nat, b32char (m % 32) ≠ 61 :=
    fun m => b32char_ne_pad _ (Nat.mod_lt _ (by decide))
  have hq := quantum_lt a 0 0 0 0
  have hd := decQuantum_encQuantum _ hq
  have ha := a.toNat_lt
  have z2 : quantum a 0 0 0 0 / 33554432 % 32 = 0 := by
    unfold quantum; rw [toNat_zero_u8]; omega
  have z3 : quantum a 0 0 0 0 / 1048576 % 32 = 0 := by
    unfold quantum; rw [toNat_zero_u8]; omega
  have z4 : quantum a 0 0 0 0 / 32768 % 32 = 0 := by
    unfold quantum; rw [toNat_zero_u8]; omega
  have z5 : quantum a 0 0 0 0 / 1024 % 32 = 0 := by
    unfold quantum; rw [toNat_zero_u8]; omega
  have z6 : quantum a 0 0 0 0 / 32 % 32 = 0 := by
    unfold quantum; rw [toNat_zero_u8]; omega
  have z7 : quantum a 0 0 0 0 % 32 = 0 := by
    unfold quantum; rw [toNat_zero_u8]; omega
  rw [z2, z3, z4, z5, z6, z7, b32char_zero] at hd
  show b32decode [_, _, 61, 61, 61, 61, 61, 61] = _
  rw [b32decode_pad6 _ _ _ (hne _) (hne _) hd, bytesOfQuantum_quantum]
  rfl

/-! ### main results: base32 -/

theorem b32decode_b32encode (d : Bytes) : b32decode (b32encode d) = some d := by
  induction d using b32encode.induct with
  | case1 a b c d e t ih =>
    rw [b32encode.eq_1]
    by_cases ht : t = []
    · subst ht
      rw [b32encode.eq_6, List.append_nil]
      exact b32decode_quantum_nil a b c d e
    · exact b32decode_quantum_append a b c d e _ t (b32encode_ne_nil t ht) ih
  | case2 a b c d => exact b32decode_b32encode_tail4 a b c d
  | case3 a b c => exact b32decode_b32encode_tail3 a b c
  | case4 a b => exact b32decode_b32encode_tail2 a b
  | case5 a => exact b32decode_b32encode_tail1 a
  | case6 => rfl

theorem b32decode_b32encode_of_dvd (d : Bytes) (_h : d.length % 5 = 0) :
    b32decode (b32encode d) = some d :=
  b32decode_b32encode d

theorem encQuantum_length (n : Nat) : (encQuantum n).length = 8 := rfl

theorem b32encode_length_of_dvd (d : Bytes) (h : d.length % 5 = 0) :
    (b32encode d).length = d.length / 5 * 8 := by
  induction d using b32encode.induct with
  | case1 a b c d e t ih =>
    simp only [List.length_cons] at h
    rw [b32encode.eq_1, List.length_append, encQuantum_length, ih (by omega)]
    simp only [List.length_cons]
    omega
  | case2 a b c d => simp at h
  | case3 a b c => simp at h
  | case4 a b => simp at h
  | case5 a => simp at h
  | case6 => rfl

theorem encQuantum_all_alpha (n : Nat) :
    ∀ c ∈ encQuantum n, (65 ≤ c.toNat ∧ c.toNat ≤ 90) ∨ (50 ≤ c.toNat ∧ c.toNat ≤ 55) := by
  have h32 : ∀ m : Nat, m % 32 < 32 := fun m => Nat.mod_lt _ (by decide)
  intro c hc
  unfold encQuantum at hc
  simp only [List.mem_cons, List.not_mem_nil, or_false] at hc
  rcases hc with rfl | rfl | rfl | rfl | rfl | rfl | rfl | rfl <;> exact b32char_alpha _ (h32 _)

theorem b32encode_all_alpha_of_dvd (d : Bytes) (h : d.length % 5 = 0) :
    ∀ c ∈ b32encode d, (65 ≤ c.toNat ∧ c.toNat ≤ 90) ∨ (50 ≤ c.toNat ∧ c.toNat ≤ 55) := by
  induction d using b32encode.induct with
  | case1 a b c d e t ih =>
    simp only [List.length_cons] at h
    intro x hx
    rw [b32encode.eq_1, List.mem_append] at hx
    rcases hx with hx | hx
    · exact encQuantum_all_alpha _ x hx
    · exact ih (by omega) x hx
  | case2 a b c d => simp at h
  | case3 a b c => simp at h
  | case4 a b => simp at h
  | case5 a => simp at h
  | case6 => intro x hx; rw [b32encode.eq_6] at hx; cases hx

/-! ### base16 -/

theorem toNat_hexDigitLower (v : Nat) (h : v < 16) :
    (hexDigitLower v).toNat = if v < 10 then 48 + v else 87 + v := by
  unfold hexDigitLower
  split
  · rw [UInt8.toNat_ofNat']; omega
  · rw [UInt8.toNat_ofNat']; omega

theorem hexDigitLower_hex (v : Nat) (h : v < 16) :
    (48 ≤ (hexDigitLower v).toNat ∧ (hexDigitLower v).toNat ≤ 57) ∨
      (97 ≤ (hexDigitLower v).toNat ∧ (hexDigitLower v).toNat ≤ 102) := by
  rw [toNat_hexDigitLower v h]
  split <;> omega

theorem hexValLower_hexDigitLower (v : Nat) (h : v < 16) :
    hexValLower (hexDigitLower v) = some v := by
  unfold hexValLower
  rw [toNat_hexDigitLower v h]
  by_cases hv : v < 10
  · rw [if_pos hv, if_pos (by omega)]; congr 1; omega
  · rw [if_neg hv, if_neg (by omega), if_pos (by omega)]; congr 1; omega

/-- `str.upper()` on one ASCII character -/
def upperChar (c : UInt8) : UInt8 :=
  if 97 ≤ c.toNat ∧ c.toNat ≤ 122 then UInt8.ofNat (c.toNat - 32) else c

theorem upper_cons (c : UInt8) (t : Bytes) : upper (c :: t) = upperChar c :: upper t := rfl

theorem toNat_upperChar_hexDigitLower (v : Nat) (h : v < 16) :
    (upperChar (hexDigitLower v)).toNat = if v < 10 then 48 + v else 55 + v := by
  unfold upperChar
  rw [toNat_hexDigitLower v h]
  by_cases hv : v < 10
  · rw [if_pos hv, if_pos hv, if_neg (by omega), toNat_hexDigitLower v h, if_pos hv]
  · rw [if_neg hv, if_neg hv, if_pos (by omega), UInt8.toNat_ofNat']; omega

theorem hexValUpper_upperChar_hexDigitLower (v : Nat) (h : v < 16) :
    hexValUpper (upperChar (hexDigitLower v)) = some v := by
  unfold hexValUpper
  rw [toNat_upperChar_hexDigitLower v h]
  by_cases hv : v < 10
  · rw [if_pos hv, if_pos (by omega)]; congr 1; omega
  · rw [if_neg hv, if_neg (by omega), if_pos (by omega)]; congr 1; omega

theorem hexLower_cons (b : UInt8) (t : Bytes) :
    hexLower (b :: t) =
      hexDigitLower (b.toNat / 16) :: hexDigitLower (b.toNat % 16) :: hexLower t := rfl

theorem byte_div_lt (b : UInt8) : b.toNat / 16 < 16 := by
  have := b.toNat_lt; omega

theorem byte_mod_lt (b : UInt8) : b.toNat % 16 < 16 := Nat.mod_lt _ (by decide)

theorem ofNat_div_mod (b : UInt8) : UInt8.ofNat (b.toNat / 16 * 16 + b.toNat % 16) = b := by
  have h : b.toNat / 16 * 16 + b.toNat % 16 = b.toNat := by omega
  rw [h, UInt8.ofNat_toNat]

theorem hexLower_length (d : Bytes) : (hexLower d).length = 2 * d.length := by
  induction d with
  | nil => rfl
  | cons b t ih =>
    rw [hexLower_cons]
    simp only [List.length_cons, ih]
    omega

theorem b16decode_upper_hexLower (d : Bytes) : b16decode (upper (hexLower d)) = some d := by
  induction d with
  | nil => rfl
  | cons b t ih =>
    rw [hexLower_cons, upper_cons, upper_cons, b16decode.eq_3,
      hexValUpper_upperChar_hexDigitLower _ (byte_div_lt b),
      hexValUpper_upperChar_hexDigitLower _ (byte_mod_lt b), ih]
    simp only [ofNat_div_mod]

theorem unhexLower_hexLower (d : Bytes) : unhexLower (hexLower d) = some d := by
  induction d with
  | nil => rfl
  | cons b t ih =>
    rw [hexLower_cons, unhexLower.eq_3,
      hexValLower_hexDigitLower _ (byte_div_lt b),
      hexValLower_hexDigitLower _ (byte_mod_lt b), ih]
    simp only [ofNat_div_mod]

theorem hexLower_all_hex (d : Bytes) :
    ∀ c ∈ hexLower d, (48 ≤ c.toNat ∧ c.toNat ≤ 57) ∨ (97 ≤ c.toNat ∧ c.toNat ≤ 102) := by
  induction d with
  | nil => intro c hc; cases hc
  | cons b t ih =>
    intro c hc
    rw [hexLower_cons] at hc
    simp only [List.mem_cons] at hc
    rcases hc with rfl | rfl | hc
    · exact hexDigitLower_hex _ (byte_div_lt b)
    · exact hexDigitLower_hex _ (byte_mod_lt b)
    · exact ih c hc

end Torf.Base32
