/-
  `validate`, first half: the rules shared by single- and multi-file torrents and the
  announce-list loops.  For every stage two lemmas: `_err` (nothing but MetainfoError can be
  raised) and `_ok` (what a successful run establishes).
-/
import Torf.Lemmas.ValidateBase
namespace Torf.Validate
open Torf Torf.Export

theorem keyFits_i (obj : PyVal) (n : Nat) : keyFits obj (.i n) = true := by cases obj <;> rfl
theorem keyFits_dict (kvs : Items) (k : Key) : keyFits (.dict kvs) k = true := by cases k <;> rfl

theorem forM_err {α : Type} {l : List α} {f : α → Except ErrKind Unit} {e : ErrKind}
    (h : l.forM f = .error e) : ∃ a ∈ l, f a = .error e := by
  induction l with
  | nil => exact absurd h (by simp [List.forM, pure, Except.pure])
  | cons a t ih =>
    replace h : (f a >>= fun _ => t.forM f) = .error e := h
    rcases bind_err h with h1 | ⟨_, _, h2⟩
    · exact ⟨a, by simp, h1⟩
    · obtain ⟨b, hb, hf⟩ := ih h2; exact ⟨b, by simp [hb], hf⟩

theorem forM_ok {α : Type} {l : List α} {f : α → Except ErrKind Unit}
    (h : l.forM f = .ok ()) : ∀ a ∈ l, f a = .ok () := by
  induction l with
  | nil => simp
  | cons a t ih =>
    replace h : (f a >>= fun _ => t.forM f) = .ok () := h
    obtain ⟨_, h1, h2⟩ := bind_ok h
    intro b hb
    rcases List.mem_cons.mp hb with hb | hb
    · subst hb; exact h1
    · exact ih h2 b hb

theorem assertFinal_dict_ok {kvs : Items} {s : String} {r : Rule}
    (h : assertFinal (.dict kvs) (.s s) r = .ok ()) :
    (∀ v, PyVal.lookupStr s kvs = some v → passes r v = true) ∧
    (r.mustExist = true → ∃ v, PyVal.lookupStr s kvs = some v ∧ passes r v = true) := by
  obtain ⟨h1, h2⟩ := assertFinal_ok h
  refine ⟨fun v hv => h1 v (getItem_dict_s_some hv), fun hm => ?_⟩
  obtain ⟨v, hv⟩ := h2 hm
  exact ⟨v, getItem_dict_s_val hv, h1 v hv⟩

theorem assertFinal_dict_err {kvs : Items} {k : Key} {r : Rule} {e : ErrKind}
    (h : assertFinal (.dict kvs) k r = .error e) : e = .metainfo :=
  assertFinal_err (keyFits_dict kvs k) h

theorem assertFinal_i_err {obj : PyVal} {n : Nat} {r : Rule} {e : ErrKind}
    (h : assertFinal obj (.i n) r = .error e) : e = .metainfo :=
  assertFinal_err (keyFits_i obj n) h

theorem assertType_info {items info : Items}
    (hinfo : PyVal.lookupStr "info" items = some (.dict info)) (x : String) (r : Rule) :
    assertType (.dict items) [.s "info", .s x] r = assertFinal (.dict info) (.s x) r := by
  rw [assertType_step (getItem_dict_s_some hinfo), assertType_single]

theorem isDict_iff {v : PyVal} : v.isDict = true ↔ ∃ kvs, v = .dict kvs := by
  cases v <;> simp [PyVal.isDict]

theorem isBytes_iff {v : PyVal} : v.isBytes = true ↔ ∃ b, v = .bytes b := by
  cases v <;> simp [PyVal.isBytes]

theorem isStr_iff {v : PyVal} : v.isStr = true ↔ ∃ s, v = .str s := by
  cases v <;> simp [PyVal.isStr]

/-! ### the shared rules -/

/-- what `checkCommon` establishes -/
structure CommonFacts (urlOk : Bytes → Bool) (items info : Items) : Prop where
  hinfo : PyVal.lookupStr "info" items = some (.dict info)
  name : ∃ v, PyVal.lookupStr "name" info = some v ∧ isStrOrBytes v = true
  pieceLength : ∃ v, PyVal.lookupStr "piece length" info = some v ∧ v.isInt = true ∧
    isDivisibleBy16KiB v = true
  pieces : ∃ b, PyVal.lookupStr "pieces" info = some (.bytes b)
  announce : ∀ v, PyVal.lookupStr "announce" items = some v → v.isStr = true ∧ isUrl urlOk v = true
  announceList : ∀ v, PyVal.lookupStr "announce-list" items = some v → v.isIterable = true

variable (urlOk : Bytes → Bool)

theorem checkCommon_ok {items : Items} (h : checkCommon urlOk (.dict items) = .ok ()) :
    ∃ info, CommonFacts urlOk items info := by
  unfold checkCommon at h
  obtain ⟨_, h1, h⟩ := bind_ok h
  rw [assertType_single] at h1
  obtain ⟨iv, hiv, hp⟩ := (assertFinal_dict_ok h1).2 rfl
  obtain ⟨info, rfl⟩ := isDict_iff.mp (by simpa [passes] using hp)
  obtain ⟨_, h2, h⟩ := bind_ok h
  obtain ⟨_, h3, h⟩ := bind_ok h
  obtain ⟨_, h4, h⟩ := bind_ok h
  obtain ⟨_, _, h⟩ := bind_ok h
  obtain ⟨_, _, h⟩ := bind_ok h
  obtain ⟨_, h7, h8⟩ := bind_ok h
  rw [assertType_info hiv] at h2 h3 h4
  rw [assertType_single] at h7 h8
  obtain ⟨nv, hnv, hnp⟩ := (assertFinal_dict_ok h2).2 rfl
  obtain ⟨pv, hpv, hpp⟩ := (assertFinal_dict_ok h3).2 rfl
  obtain ⟨bv, hbv, hbp⟩ := (assertFinal_dict_ok h4).2 rfl
  obtain ⟨b, rfl⟩ := isBytes_iff.mp (by simpa [passes] using hbp)
  simp only [passes, Bool.and_eq_true] at hpp
  refine ⟨info, ⟨hiv, ⟨nv, hnv, by simpa [passes] using hnp⟩, ⟨pv, hpv, hpp.1, hpp.2⟩, ⟨b, hbv⟩,
    fun v hv => ?_, fun v hv => ?_⟩⟩
  · have := (assertFinal_dict_ok h7).1 v hv
    simpa [passes] using this
  · have := (assertFinal_dict_ok h8).1 v hv
    simpa [passes] using this

theorem checkCommon_err {items : Items} {e : ErrKind}
    (h : checkCommon urlOk (.dict items) = .error e) : e = .metainfo := by
  unfold checkCommon at h
  rcases bind_err h with h1 | ⟨_, h1, h⟩
  · rw [assertType_single] at h1; exact assertFinal_dict_err h1
  rw [assertType_single] at h1
  obtain ⟨iv, hiv, hp⟩ := (assertFinal_dict_ok h1).2 rfl
  obtain ⟨info, rfl⟩ := isDict_iff.mp (by simpa [passes] using hp)
  rcases bind_err h with h1 | ⟨_, _, h⟩
  · rw [assertType_info hiv] at h1; exact assertFinal_dict_err h1
  rcases bind_err h with h1 | ⟨_, _, h⟩
  · rw [assertType_info hiv] at h1; exact assertFinal_dict_err h1
  rcases bind_err h with h1 | ⟨_, _, h⟩
  · rw [assertType_info hiv] at h1; exact assertFinal_dict_err h1
  rcases bind_err h with h1 | ⟨_, _, h⟩
  · rw [assertType_info hiv] at h1; exact assertFinal_dict_err h1
  rcases bind_err h with h1 | ⟨_, _, h⟩
  · rw [assertType_single] at h1; exact assertFinal_dict_err h1
  rcases bind_err h with h1 | ⟨_, _, h⟩
  · rw [assertType_single] at h1; exact assertFinal_dict_err h1
  rw [assertType_single] at h; exact assertFinal_dict_err h

/-! ### the announce-list loops -/

theorem iterE_of_isIterable {v : PyVal} (h : v.isIterable = true) :
    ∃ xs, pyIter v = some xs ∧ iterE v = .ok xs := by
  cases v <;> simp [PyVal.isIterable] at h <;> simp [pyIter, iterE, pure, Except.pure]

/-- what `checkTier … i` establishes about tier `i` of `al = md['announce-list']` -/
def TierFacts (al : PyVal) (i : Nat) : Prop :=
  ∃ tier xs, getItem al (.i i) = .val tier ∧ tier.isIterable = true ∧ pyIter tier = some xs ∧
    ∀ j, j < xs.length → ∃ v, getItem tier (.i j) = .val v ∧ v.isStr = true ∧ isUrl urlOk v = true

theorem checkTier_cases {items : Items} {al : PyVal} {i : Nat}
    (hal : PyVal.lookupStr "announce-list" items = some al) (r : Except ErrKind Unit)
    (h : checkTier urlOk (.dict items) i = r) :
    (r = .ok () → TierFacts urlOk al i) ∧
    (∀ e, r = .error e → e = .metainfo) := by
  have hg := getItem_dict_s_some hal
  subst h
  unfold checkTier
  rw [assertType_step hg, assertType_single]
  cases h1 : assertFinal al (.i i) { types := PyVal.isIterable } with
  | error e1 =>
    refine ⟨fun h => absurd h (by simp [bind, Except.bind]), fun e h => ?_⟩
    simp only [bind, Except.bind, Except.error.injEq] at h
    subst h
    exact assertFinal_i_err h1
  | ok u =>
    obtain ⟨tier, htier⟩ := (assertFinal_ok h1).2 rfl
    have hit : tier.isIterable = true := by
      simpa [passes] using (assertFinal_ok h1).1 tier htier
    obtain ⟨xs, hxs, hie⟩ := iterE_of_isIterable hit
    simp only [bind, Except.bind, getE_ok hg, getE_ok htier, hie]
    constructor
    · intro h
      refine ⟨tier, xs, htier, hit, hxs, fun j hj => ?_⟩
      have := forM_ok h j (List.mem_range.mpr hj)
      rw [assertType_step hg, assertType_step htier, assertType_single] at this
      obtain ⟨v, hv⟩ := (assertFinal_ok this).2 rfl
      have hp := (assertFinal_ok this).1 v hv
      simp only [passes, Bool.and_eq_true] at hp
      exact ⟨v, hv, hp.1, hp.2⟩
    · intro e h
      obtain ⟨j, _, hj⟩ := forM_err h
      rw [assertType_step hg, assertType_step htier, assertType_single] at hj
      exact assertFinal_i_err hj

/-- what `checkAnnounceList` establishes -/
def AnnounceFacts (items : Items) : Prop :=
  ∀ al, PyVal.lookupStr "announce-list" items = some al →
    ∃ xs, pyIter al = some xs ∧ ∀ i, i < xs.length → TierFacts urlOk al i

theorem checkAnnounceList_ok {items : Items}
    (hal : ∀ v, PyVal.lookupStr "announce-list" items = some v → v.isIterable = true)
    (h : checkAnnounceList urlOk (.dict items) items = .ok ()) : AnnounceFacts urlOk items := by
  intro al hl
  unfold checkAnnounceList at h
  rw [hl] at h
  obtain ⟨xs, hxs, hie⟩ := iterE_of_isIterable (hal al hl)
  simp only [hie, bind, Except.bind] at h
  refine ⟨xs, hxs, fun i hi => ?_⟩
  exact (checkTier_cases urlOk hl _ rfl).1 (forM_ok h i (List.mem_range.mpr hi))

theorem checkAnnounceList_err {items : Items} {e : ErrKind}
    (hal : ∀ v, PyVal.lookupStr "announce-list" items = some v → v.isIterable = true)
    (h : checkAnnounceList urlOk (.dict items) items = .error e) : e = .metainfo := by
  unfold checkAnnounceList at h
  split at h
  · exact absurd h (by simp [pure, Except.pure])
  · rename_i al hl
    obtain ⟨xs, hxs, hie⟩ := iterE_of_isIterable (hal al hl)
    simp only [hie, bind, Except.bind] at h
    obtain ⟨i, _, hi⟩ := forM_err h
    exact (checkTier_cases urlOk hl _ hi).2 e rfl

end Torf.Validate
