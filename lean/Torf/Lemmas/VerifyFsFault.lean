/-
  Helper lemmas for C02 over the full alphabet of path states (part 5): a failing `read` only
  cuts the run short — the items yielded before the ReadError are a prefix of the items of the
  run in which the byte is readable.
-/
import Torf.Lemmas.VerifyFsCb
import Torf.Lemmas.Stream
namespace Torf.VerifyFs
open Torf Torf.Missing Torf.Verify

variable {α δ : Type} [Inhabited α] [DecidableEq δ]

omit [Inhabited α] in
/-- the full pieces made of a prefix of what a file delivers are a prefix of the full pieces -/
theorem consume_take_prefix (L : Nat) (hL : 0 < L) (tr c : List α) (m : Nat) :
    (Stream.consume L [] (Stream.iterFromHandle L tr (c.take m))).2 <+:
      (Stream.consume L [] (Stream.iterFromHandle L tr c)).2 := by
  rw [Stream.iterFromHandle_eq_chunks L hL, Stream.iterFromHandle_eq_chunks L hL,
    Stream.consume_chunks L hL, Stream.consume_chunks L hL]
  simp only [List.nil_append]
  have hx : tr ++ c.take m = (tr ++ c).take (tr.length + m) := by
    rw [List.take_append]
    have e1 : tr.take (tr.length + m) = tr := List.take_of_length_le (by omega)
    have e2 : tr.length + m - tr.length = m := by omega
    rw [e1, e2]
  have hle : (tr ++ c.take m).length ≤ (tr ++ c).length := by
    simp only [List.length_append, List.length_take]; omega
  have hle2 : (tr ++ c.take m).length ≤ tr.length + m := by
    simp only [List.length_append, List.length_take]; omega
  have hq : (tr ++ c.take m).length / L * L ≤ (tr ++ c.take m).length := Nat.div_mul_le_self _ _
  have h1 : ∀ n, n ≤ tr.length + m → (tr ++ c.take m).take n = (tr ++ c).take n := by
    intro n hn
    rw [hx, List.take_take]
    congr 1
    omega
  rw [h1 _ (by omega), ← chunks_take L hL, ← chunks_take L hL]
  have hdiv : (tr ++ c.take m).length / L ≤ (tr ++ c).length / L := Nat.div_le_div_right hle
  have : (chunks L (tr ++ c)).take ((tr ++ c.take m).length / L) =
      ((chunks L (tr ++ c)).take ((tr ++ c).length / L)).take ((tr ++ c.take m).length / L) := by
    rw [List.take_take]; congr 1; omega
  rw [this]
  exact List.take_prefix _ _

omit [Inhabited α] in
theorem step2_out_prefix (L : Nat) (sizes : List Nat) (dM dB : List (Option (List α)))
    (st : St α) (j : Nat) : ∃ ext, (step2 L sizes dM dB st j).out = st.out ++ ext := by
  unfold step2
  split
  · exact ⟨[], by simp⟩
  · split
    · exact ⟨[], by simp⟩
    · split
      · exact ⟨_, rfl⟩
      · split
        · exact ⟨[], by simp⟩
        · exact ⟨_, rfl⟩

omit [Inhabited α] in
theorem fold_step2_out_prefix (L : Nat) (sizes : List Nat) (dM dB : List (Option (List α)))
    (js : List Nat) (st : St α) :
    st.out <+: (js.foldl (step2 L sizes dM dB) st).out := by
  induction js generalizing st with
  | nil => exact List.prefix_refl _
  | cons j js ih =>
    obtain ⟨e1, h1⟩ := step2_out_prefix L sizes dM dB st j
    rw [List.foldl_cons]
    exact List.IsPrefix.trans ⟨e1, h1.symm⟩ (ih _)

/-- the iteration in which the `read` fails: what the extended loop and the loop with a readable
    byte append -/
theorem stepFs_fire_prefix (L : Nat) (hL : 0 < L) (sizes : List Nat) (fd : List (FState α))
    (s : StFs α) (j : Nat) (r e : Nat) (hf : s.fault = none)
    (h : fires sizes fd s.st j = some (r, e)) :
    (stepFs L sizes fd s j).st.out <+:
      (step2 L sizes (mainDisk sizes fd) (statDisk fd) s.st j).out := by
  obtain ⟨st, fault⟩ := s
  simp only at hf h
  subst hf
  unfold fires at h
  by_cases h1 : st.failed = true
  · simp only [h1, Bool.true_or, if_true] at h; cases h
  · by_cases h2 : st.bycatch.contains j = true
    · simp only [h2, Bool.or_true, if_true] at h; cases h
    · simp only [h1, h2, Bool.false_eq_true, if_false, Bool.or_self] at h
      split at h
      · rename_i hp
        have hfe : fileError sizes (mainDisk sizes fd) j = none := by
          rcases mainProbe_of_fileError sizes fd j with ⟨hfe, _⟩ | ⟨kind, e', _, hp'⟩
          · exact hfe
          · rw [hp] at hp'; cases hp'
        unfold stepFs step2
        simp only [Option.isSome_none, h1, h2, hp, h, hfe, readCaught, Bool.false_eq_true,
          if_false, if_true]
        rw [contentOf_of_handle sizes fd j hfe]
        apply (List.prefix_append_right_inj _).mpr
        exact List.IsPrefix.map _ (consume_take_prefix L hL _ _ _)
      · cases h

/-- a failing `read` cuts the run short and changes nothing else -/
theorem fold_fs_prefix (L : Nat) (hL : 0 < L) (sizes : List Nat) (fd : List (FState α))
    (js : List Nat) (s : StFs α) (hf : s.fault = none) :
    (js.foldl (stepFs L sizes fd) s).st.out <+:
      (js.foldl (step2 L sizes (mainDisk sizes fd) (statDisk fd)) s.st).out := by
  induction js generalizing s with
  | nil => exact List.prefix_refl _
  | cons j js ih =>
    rw [List.foldl_cons, List.foldl_cons]
    cases hfire : fires sizes fd s.st j with
    | none =>
      have hstep := stepFs_nofire L sizes fd s j hf hfire
      rw [hstep]
      exact ih _ rfl
    | some re =>
      obtain ⟨r, e⟩ := re
      obtain ⟨h1, _, _⟩ := stepFs_fire L sizes fd s j r e hf hfire
      rw [fold_fs_fault L sizes fd js _ (by rw [h1]; rfl)]
      exact List.IsPrefix.trans (stepFs_fire_prefix L hL sizes fd s j r e hf hfire)
        (fold_step2_out_prefix L sizes _ _ js _)

/-- MAIN: the items of a run that ends with a ReadError are a prefix of the items of the run on
    the same description in which the `read`s succeed (`NoBadEmpty`: that run has no internal
    error) -/
theorem iterItemsFs_fault_prefix (L : Nat) (hL : 0 < L) (sizes : List Nat)
    (fd : List (FState α)) (hyp : NoBadEmpty sizes (mainDisk sizes fd) = true)
    (j e : Nat) (h : readFault L sizes fd = some (j, e)) :
    ∃ items full, iterItemsFs L sizes fd = some ⟨items, some (j, e)⟩ ∧
      iterItems L sizes (mainDisk sizes fd) = some full ∧
      items <+: full.map (dropSilent sizes (statDisk fd)) := by
  obtain ⟨_, _, items, hit⟩ := iterItemsFs_fault L sizes fd j e h
  obtain ⟨full, hfull, _⟩ := iterItems_spec L hL sizes (mainDisk sizes fd) hyp
  refine ⟨items, full, hit, hfull, ?_⟩
  have hpre := fold_fs_prefix L hL sizes fd (List.range sizes.length) {} rfl
  obtain ⟨_, _, _, _, h5, h6⟩ := fold_step2_sim L sizes (mainDisk sizes fd) (statDisk fd)
    (weaker_disks sizes fd) (List.range sizes.length) {} {} ⟨rfl, rfl, rfl, rfl, rfl, rfl⟩
  -- read `items` and `full` off the two folds
  unfold readFault at h
  unfold iterItemsFs at hit
  unfold iterItems at hfull
  simp only [h, Option.isSome_some, if_true] at hit
  dsimp only at hfull
  split at hit
  · cases hit
  · simp only [Option.some.injEq, FsRun.mk.injEq, and_true] at hit
    rw [← hit]
    split at hfull
    · cases hfull
    · rw [h6] at hpre
      split at hfull
      · simp only [Option.some.injEq] at hfull
        rw [← hfull]
        exact hpre
      · simp only [Option.some.injEq] at hfull
        rw [← hfull, List.map_append]
        exact List.IsPrefix.trans hpre (List.prefix_append _ _)

/-! ### the same description with every byte readable -/

/-- every unreadable byte made readable -/
def heal (fd : List (FState α)) : List (FState α) :=
  fd.map fun s => match s with
    | .readErr c _ _ => .file c
    | s => s

theorem mainDisk_heal (sizes : List Nat) (fd : List (FState α)) :
    mainDisk sizes (heal fd) = mainDisk sizes fd := by
  apply List.ext_getElem?
  intro k
  unfold mainDisk heal
  simp only [List.getElem?_map, List.getElem?_zipIdx]
  cases fd[k]? with
  | none => rfl
  | some s => cases s <;> rfl

theorem statDisk_heal (fd : List (FState α)) : statDisk (heal fd) = statDisk fd := by
  unfold statDisk heal
  rw [List.map_map]
  apply List.map_congr_left
  intro s _
  cases s <;> rfl

omit [Inhabited α] in
theorem noReadErr_heal (fd : List (FState α)) : NoReadErr (heal fd) = true := by
  unfold NoReadErr heal
  rw [List.all_eq_true]
  intro s hs
  obtain ⟨s0, _, rfl⟩ := List.mem_map.mp hs
  cases s0 <;> rfl

theorem readFault_none_of_noReadErr (L : Nat) (sizes : List Nat) (fd : List (FState α))
    (h : NoReadErr fd = true) : readFault L sizes fd = none := by
  unfold readFault
  rcases fold_fs L sizes fd (List.range sizes.length) {} rfl with ⟨hn, _⟩ | ⟨j, e, _, _, hrf, _⟩
  · exact hn
  · exfalso
    obtain ⟨c, off, hs, _, _⟩ := hrf
    rcases stateAt_mem fd j with hg | hm
    · rw [hg] at hs; cases hs
    · have hmem : stateAt fd j ∈ fd :=
        List.mem_of_getElem? (by simpa using (List.mem_zipIdx_iff_getElem?.mp hm))
      unfold NoReadErr at h
      have := List.all_eq_true.mp h _ hmem
      rw [hs] at this
      cases this

omit [Inhabited α] in
theorem calls_prefix (H : List α → δ) (L : Nat) (sizes : List Nat) (stored : List δ)
    (items full : List (Item α)) (h : items <+: full) :
    items.zipIdx.flatMap (itemCalls H L sizes stored) <+:
      full.zipIdx.flatMap (itemCalls H L sizes stored) := by
  obtain ⟨t, rfl⟩ := h
  rw [List.zipIdx_append, List.flatMap_append]
  exact List.prefix_append _ _

/-- `verify` when a `read` fails, in closed form: the ReadError is raised with or without a
    callback; the callback has been given a prefix of what it is given when the byte is readable;
    without a callback an exception of that prefix comes first -/
theorem verifyFs_fault (H : List α → δ) (L : Nat) (hL : 0 < L) (sizes : List Nat)
    (fd : List (FState α)) (stored : List δ)
    (hyp : NoBadEmpty sizes (mainDisk sizes fd) = true)
    (hlen : stored.length = nPieces L sizes.sum) (single pathIsDir : Bool)
    (hp : single = !pathIsDir) (j e : Nat) (h : readFault L sizes fd = some (j, e)) :
    ∃ items calls,
      iterItemsFs L sizes fd = some ⟨items, some (j, e)⟩ ∧
      calls = items.zipIdx.flatMap (itemCalls H L sizes stored) ∧
      verifyFs H L sizes fd stored true single pathIsDir = (.error (.read j), calls) ∧
      calls <+: (verifyFs H L sizes (heal fd) stored true single pathIsDir).2 ∧
      (verifyFs H L sizes fd stored false single pathIsDir).1 =
        (match (excsOf calls).head? with
          | some x => .error x
          | none => .error (.read j)) := by
  have hp1 : (single && pathIsDir) = false := by subst hp; cases pathIsDir <;> rfl
  have hp2 : (!single && !pathIsDir) = false := by subst hp; cases pathIsDir <;> rfl
  obtain ⟨items, full, hit, hfull, hpre⟩ := iterItemsFs_fault_prefix L hL sizes fd hyp j e h
  -- the run with readable bytes
  have hyp' : NoBadEmpty sizes (mainDisk sizes (heal fd)) = true := by rw [mainDisk_heal]; exact hyp
  have hnf' := readFault_none_of_noReadErr L sizes (heal fd) (noReadErr_heal fd)
  obtain ⟨items', run'⟩ := runFs_exists H L hL sizes (heal fd) stored hyp' hlen hnf'
  have hitems' : items' = full.map (dropSilent sizes (statDisk fd)) := by
    have := run'.hit
    rw [iterItemsFs_nofault L sizes (heal fd) hnf', mainDisk_heal, statDisk_heal, hfull] at this
    simp only [Option.map_some, Option.some.injEq, FsRun.mk.injEq, and_true] at this
    exact this.symm
  have hle : items.length ≤ stored.length := by
    have := List.IsPrefix.length_le hpre
    rw [← hitems', run'.len] at this
    omega
  refine ⟨items, items.zipIdx.flatMap (itemCalls H L sizes stored), hit, rfl, ?_, ?_, ?_⟩
  · unfold verifyFs
    simp only [hp1, hp2, Bool.false_eq_true, if_false, hit]
    rw [fold_cb H L sizes stored items 0 {} rfl (by omega)]
    simp only [List.nil_append]
  · rw [verifyFs_cb H L sizes (heal fd) stored items' hlen run' single pathIsDir hp, hitems']
    exact calls_prefix H L sizes stored _ _ hpre
  · unfold verifyFs
    simp only [hp1, hp2, Bool.false_eq_true, if_false, hit]
    obtain ⟨h1, _, _⟩ := fold_nocb H L sizes stored items 0 {} rfl (by omega)
    rw [h1]
    cases (excsOf (items.zipIdx.flatMap (itemCalls H L sizes stored))).head? <;> rfl

end Torf.VerifyFs
